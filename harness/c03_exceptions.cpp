// C03 -- a task's exception surfaces exactly once at the wait, after the group stopped.  DESIGN.md s.6 C03.
//
// program text:
//   cfg par=<1..4> ext=<1..2> arena=<mc>:<res> warm=<k>      (warm: work per index of a fault-free warm-up loop that wakes the workers first)
//   call <id> th=<t> par=<parent call|-1> at=<element of the parent that makes this call> alg=<a> n=<n> g=<grain|ntok> p=<partitioner>
//        cx=<0 implicit|1 explicit bound|2 explicit isolated context> f=<form> x=<extra> w=<work> c=<parent body catches 0|1> r=<reuse round 0|1> F=<faults|->
// alg  for red dred each inv scan sort pipe tg arena fg      (what "n", "f", "x" mean per algorithm: see run_alg)
// F    comma list <kind><index>:  b body element (sort: k-th comparison; pipe: stage*n+item), j k-th join / reverse_join / reduction functor call,
//      s k-th Range splitting constructor, c k-th Range copy constructor, S k-th Body splitting constructor, B k-th Body copy constructor,
//      i k-th Item copy constructor (parallel_for_each).  The invocation throws E{call*10000 + kind*1000 + index}.  Faults apply to round 0 only.
// A call is one use of a waiting API.  Top-level calls (par=-1) of a thread run in id order on external thread th; a nested call runs inside
// element `at` of its parent's round 0.  With r=1 the same context / task_group / graph / filter chain / affinity_partitioner is used for a
// second, fault-free round.
#include "oneapi/tbb/task_group.h"
#include "oneapi/tbb/task_arena.h"
#include "oneapi/tbb/parallel_for.h"
#include "oneapi/tbb/parallel_reduce.h"
#include "oneapi/tbb/parallel_for_each.h"
#include "oneapi/tbb/parallel_invoke.h"
#include "oneapi/tbb/parallel_scan.h"
#include "oneapi/tbb/parallel_sort.h"
#include "oneapi/tbb/parallel_pipeline.h"
#include "oneapi/tbb/flow_graph.h"
#include "oneapi/tbb/global_control.h"
#include "../engine/drv/drv.h"

const char* H_PROP = "C03";
bool H_TSO = true;

enum { A_FOR, A_RED, A_DRED, A_EACH, A_INV, A_SCAN, A_SORT, A_PIPE, A_TG, A_ARENA, A_FG, A_COUNT };
static const char* AN[] = { "for", "red", "dred", "each", "inv", "scan", "sort", "pipe", "tg", "arena", "fg" };
static const char KINDS[] = "bjscSBi";
static int kidx(char k) { const char* p = strchr(KINDS, k); return p ? (int)(p - KINDS) : 0; }

// ------------------------------------------------------------------ generator
struct GenSt { Src& s; int next_id = 0; int budget = 0; std::vector<std::string> lines; };
static void gen_call(GenSt& g, int th, int parent, int at, int depth, int force_alg = -1) {
    Src& s = g.s; int id = g.next_id++; g.budget--;
    bool top = depth == 0;
    uint32_t a = s.weighted({ 6, 4, 2, 3, 3, top ? 1u : 0u, top ? 1u : 0u, 3, 4, (g.budget > 0 && depth < 2) ? 2u : 0u, 2 });
    if (force_alg >= 0) { a = (uint32_t)force_alg; if (g.budget <= 0) g.budget = 1; }
    int n = 1, grain = 1, part = 0, cx = 0, x = 0; std::string form = "0";
    static const int ns[] = { 1, 2, 3, 5, 8, 13, 20 };
    std::string kinds = "b";        // fault kinds this algorithm offers
    switch (a) {
    case A_FOR: n = ns[s.choose(7)]; grain = s.range(1, 3); part = (int)s.choose(4); cx = (int)s.choose(3); kinds = "bbbbscB"; break;
    case A_RED: n = ns[s.choose(7)]; grain = s.range(1, 3); part = (int)s.choose(4); cx = (int)s.choose(3); form = std::to_string(s.choose(2)); if (form == "1" && part >= 2) part -= 2; kinds = form == "0" ? "bbbjjscS" : "bbbjjsc"; break;
    case A_DRED: n = ns[s.choose(7)]; grain = s.range(1, 3); part = s.flip() ? 2 : 0; cx = (int)s.choose(3); form = std::to_string(s.choose(2)); if (form == "1") part = 0; kinds = form == "0" ? "bbbjjscS" : "bbbjjsc"; break;
    case A_EACH: { int f = (int)s.choose(4); form = std::to_string(f); n = s.range(1, 12); x = (f == 1 || f == 2) ? s.range(0, std::min(3, n)) : 0; n += x; cx = (int)s.choose(3); kinds = f >= 2 ? "bbbi" : "b"; break; }
    case A_INV: { static const int ar[] = { 2, 3, 4, 5, 7 }; n = ar[s.choose(5)]; cx = (int)s.choose(3); break; }
    case A_SCAN: n = ns[s.choose(7)]; grain = s.range(1, 3); form = std::to_string(s.choose(4)); kinds = form == "2" ? "bbbj" : "bbbjS"; break;
    case A_SORT: { static const int sz[] = { 600, 900, 1300 }; n = sz[s.choose(3)]; break; }
    case A_PIPE: { int nf = s.range(2, 3); form = ""; for (int i = 0; i < nf; i++) form += "pio"[s.choose(3)]; n = s.range(0, 10); grain = s.range(1, 4); cx = (int)s.choose(3); break; }
    case A_TG: n = s.range(1, 8); form = std::to_string(s.choose(4)); x = s.range(0, std::min(3, n)); n += x; cx = (int)s.weighted({ 2, 1, 1 }); break;     // cx: task_group over a user context; form 3: run_and_wait(task_handle)
    case A_ARENA: n = 1; form = std::to_string(s.choose(2)); break;
    case A_FG: n = s.range(1, 8); form = std::to_string(s.choose(3)); cx = (int)s.choose(3); x = (int)s.choose(2); break;    // cx: graph over a user context; x=1: no graph::reset() before the graph is destroyed
    }
    int nelem = a == A_PIPE ? n * (int)form.size() : (a == A_FG && form == "2") ? 2 * n : n;
    static const int ws[] = { 0, 1, 2, 4, 8, 16, 30 }; int work = ws[s.weighted({ 1, 2, 2, 3, 3, 2, 1 })];     // long bodies: a throw then finds other bodies of the group inside
    int nfl = (int)s.weighted({ 2, 6, 3, 1 }); if (a == A_SCAN) nfl = 0;     // known finding: parallel_scan is not exception safe at all (see apply_exclusions)
    std::string F;
    for (int k = 0; k < nfl; k++) {
        char kd = kinds[s.choose((uint32_t)kinds.size())]; int ix;
        // kinds that fall into a known-finding shape (the child drops and counts them, see apply_exclusions) are generated only rarely
        bool known = (a == A_RED || a == A_DRED) && kd == 'j';
        if (known && !s.coin(8)) kd = 'b';
        if (kd == 'b') { if (a == A_SORT) { static const int cs[] = { 0, 1, 7, 40, 300, 1200, 4000, 9000 }; ix = cs[s.choose(8)]; } else if (nelem == 0) continue; else ix = (int)s.choose((uint32_t)nelem); }
        else ix = (int)s.choose(4);
        F += (F.empty() ? "" : ",") + std::string(1, kd) + std::to_string(ix);
    }
    if (F.empty()) F = "-";
    int ctch = (parent >= 0 && s.coin(3)) ? 1 : 0, reuse = s.coin(3) ? 1 : 0;
    g.lines.push_back("call " + std::to_string(id) + " th=" + std::to_string(th) + " par=" + std::to_string(parent) + " at=" + std::to_string(at) + " alg=" + AN[a] + " n=" + std::to_string(n) +
                      " g=" + std::to_string(grain) + " p=" + std::to_string(part) + " cx=" + std::to_string(cx) + " f=" + form + " x=" + std::to_string(x) + " w=" + std::to_string(work) +
                      " c=" + std::to_string(ctch) + " r=" + std::to_string(reuse) + " F=" + F);
    // nested calls inside elements of this call
    if (depth < 2 && a != A_SORT && a != A_SCAN && nelem > 0) {
        int nn = a == A_ARENA ? (g.budget > 0 ? 1 : 0) : (g.budget > 0 ? (int)s.weighted({ 5, 3, 1 }) : 0);
        std::set<int> used;
        for (int k = 0; k < nn && g.budget > 0; k++) { int e = (int)s.choose((uint32_t)nelem); if (!used.insert(e).second) continue; gen_call(g, th, id, e, depth + 1); }
    }
}
// --witness<k>: fixed shapes of the defects this check found (cfg witness=1 switches the exclusions off); sizes and schedules still vary.
// Still open (known findings, excluded from the default domain): 0/1 throwing join, 5 scan hang, 6 scan leak.  Repaired in the repository and
// therefore part of the default domain again (these shapes must be quiet): 2, 3, 4, 7, 8, 9.
static std::string gen_witness(Src& s) {
    static const char* W[] = {
        "alg=red n=8 g=1 p=0 cx=0 f=%d x=0 w=%d c=0 r=0 F=j0",          // throwing join: task finalized twice
        "alg=dred n=8 g=1 p=0 cx=0 f=%d x=0 w=%d c=0 r=0 F=j0",
        "alg=dred n=4 g=1 p=0 cx=0 f=0 x=0 w=%2$d c=0 r=0 F=s0",       // tree node with the split Body leaks
        "alg=for n=20 g=1 p=3 cx=0 f=0 x=0 w=%2$d c=0 r=0 F=c2",        // range_vector::split_to_fill
        "alg=scan n=8 g=1 p=0 cx=0 f=3 x=0 w=%2$d c=0 r=0 F=-",         // ~final_sum destroys a Range that was never constructed (no exception involved)
        "alg=scan n=8 g=1 p=0 cx=0 f=3 x=0 w=%2$d c=0 r=0 F=s0",        // parallel_scan never returns
        "alg=scan n=8 g=1 p=0 cx=0 f=0 x=0 w=%2$d c=0 r=0 F=b9",        // scan Body leaks
        "alg=each n=8 g=1 p=0 cx=0 f=3 x=0 w=%2$d c=0 r=0 F=i1",        // parallel_for_each never returns
        "alg=pipe n=10 g=4 p=0 cx=0 f=pi x=0 w=%2$d c=0 r=0 F=b13",     // parked items are not finalized
        "alg=red n=1 g=1 p=0 cx=0 f=0 x=0 w=%2$d c=0 r=0 F=c0",         // ~wait_context assertion (debug flavour only)
    };
    int k = (int)s.choose(10); for (int i = 0; i < 11; i++) if (drv_flag(("--witness" + std::to_string(i)).c_str())) k = i;      // --witness<i> picks one shape
    if (k == 10)     // not an exception defect: debug assertion in market::update_allotment (cs-dbg only), see h_run
        return "cfg par=1 ext=2 arena=1:0 warm=0 witness=1\ncall 0 th=0 par=-1 at=0 alg=arena n=1 g=1 p=0 cx=0 f=0 x=0 w=" + std::to_string(s.range(0, 4)) + " c=0 r=0 F=-\ncall 1 th=0 par=0 at=0 alg=for n=5 g=1 p=0 cx=0 f=0 x=0 w=0 c=0 r=1 F=-\n"
               "call 2 th=0 par=-1 at=0 alg=tg n=1 g=1 p=0 cx=0 f=0 x=0 w=0 c=0 r=0 F=-\ncall 3 th=1 par=-1 at=0 alg=arena n=1 g=1 p=0 cx=0 f=0 x=0 w=0 c=0 r=0 F=-\ncall 4 th=1 par=3 at=0 alg=for n=1 g=1 p=0 cx=0 f=0 x=0 w=0 c=0 r=0 F=-\n";
    // threads per shape: 1 where the defect is deterministic on one thread (keeps the other findings out of the way), else 2-4 / 3-4
    static const int PLO[] = { 2, 1, 1, 3, 2, 1, 1, 1, 3, 1 }, PHI[] = { 4, 1, 1, 4, 4, 1, 1, 1, 4, 1 };
    int par = s.range(PLO[k], PHI[k]), f = (int)s.choose(2), w = s.range(0, 4); char b[300];
    snprintf(b, sizeof b, W[k], f, w);
    return "cfg par=" + std::to_string(par) + " ext=1 arena=1:1 witness=1\ncall 0 th=0 par=-1 at=0 " + b + "\n";
}
std::string h_gen(Src& s) {
    for (auto& a : g_drv_args) if (a.rfind("--witness", 0) == 0) return gen_witness(s);
    int par = 1 + (int)s.weighted({ 1, 4, 3, 3 });
    int ext = 1 + (int)s.weighted({ 4, 1 });
    int mc = s.range(1, 3), res = s.choose(3) == 2 ? 0 : 1;
    // arena duel: two external threads execute() into a one-slot arena at the same time, so that one of the functors is delegated to the other thread
    bool duel = ext == 2 && s.coin(3); if (duel) { mc = 1; res = 0; if (par < 2) par = 2; }      // (with a reserved slot an arena always has >= 2 slots; par=1: see h_run)
    GenSt g{ s }; g.budget = s.range(1, 5);
    for (int t = 0; t < ext; t++) { int ntop = 1 + (int)s.weighted({ 3, 1 }); for (int k = 0; k < ntop; k++) { if (g.budget <= 0) g.budget = 1; gen_call(g, t, -1, 0, 0, (duel && k == 0) ? A_ARENA : -1); } }
    static const int wm[] = { 0, 30, 100 }; int warm = wm[s.weighted({ 3, 2, 1 })];
    std::string o = "cfg par=" + std::to_string(par) + " ext=" + std::to_string(ext) + " arena=" + std::to_string(mc) + ":" + std::to_string(res) + " warm=" + std::to_string(warm) + "\n";
    for (auto& l : g.lines) o += l + "\n";
    return o;
}

// ------------------------------------------------------------------ oracle state (plain memory: only the baton holder runs)
static long g_e_live = 0, g_e_made = 0;
struct E {      // the exception object: counted, the copy a context captures must be released again
    int id;
    explicit E(int i) : id(i) { g_e_live++; g_e_made++; }
    E(const E& o) : id(o.id) { g_e_live++; g_e_made++; }
    ~E() { g_e_live--; }
};
struct Round {
    bool entered = false, exited = false, threw = false; int caught = -1; uint64_t t_enter = 0, t_exit = 0;
    std::vector<int> started, finished; int live = 0; std::vector<int> thrown; long inv[8] = { 0, 0, 0, 0, 0, 0, 0, 0 }; int next = 0; long nstarted = 0;
};
struct Call {
    int id = 0, th = 0, parent = -1, at = 0, alg = 0, n = 1, g = 1, p = 0, cx = 0, x = 0, w = 0, ctch = 0, reuse = 0; std::string form = "0";
    std::set<std::pair<char, int>> faults; std::map<int, int> nest; int nelem = 0, nreq_lo = 0; Round r[2];
    bool fault(char k, int ix) const { return faults.count({ k, ix }) != 0; }
    int fi() const { return atoi(form.c_str()); }
};
static std::vector<Call> C; static tbb::task_arena* g_arena = nullptr;
static long n_throws = 0, n_exc_exits = 0, n_extra_throws = 0, n_nt_running = 0, n_nt_pending = 0, n_nested_throw = 0, n_propagated = 0, n_caught_in_body = 0, n_anc_tolerated = 0,
            n_reuse_after_throw = 0, n_cancelled_elems = 0, n_throw_kind[8] = { 0, 0, 0, 0, 0, 0, 0, 0 }, n_calls = 0, n_body_other_thread = 0;
static bool g_alg_seen[A_COUNT]; static int g_thr_sched[4] = { 0, 0, 0, 0 };

enum { T_RANGE, T_FORBODY, T_REDBODY, T_SCANBODY, T_FUNCTOR, T_TOKEN, T_ITEM, T_COUNT };
static const char* TN[] = { "Range", "parallel_for Body", "reduce Body", "scan Body", "functor", "pipeline item", "for_each item" };
static const char* TK[] = { "RANGE", "FORBODY", "REDBODY", "SCANBODY", "FUNCTOR", "PIPEITEM", "EACHITEM" };
static std::string kind_of(const char* k, int t) { return std::string(k) + "-" + TK[t]; }
static std::unordered_set<const void*> g_alive[T_COUNT]; static long g_made[T_COUNT];
static bool g_witness = false; static long n_excluded = 0; static bool g_leak_excluded[T_COUNT];
static void born(int t, const void* p) { if (!g_alive[t].insert(p).second) vs_violation("OBJECT-OVERLAP", "a %s was constructed at %p over a live object of the same type", TN[t], p); g_made[t]++; }
static void dead(int t, const void* p) { if (!g_alive[t].erase(p)) vs_violation(kind_of("BAD-DESTROY", t).c_str(), "destructor of a %s ran at %p where no such object is alive (destroyed twice, or never constructed)", TN[t], p); }

static bool ancestor_thrown(const Call& c) {
    for (int p = c.parent; p >= 0; p = C[p].parent) for (int rd = 0; rd < 2; rd++) if (C[p].r[rd].entered && !C[p].r[rd].exited && !C[p].r[rd].thrown.empty()) return true;
    return false;
}
static void user_code(Call& c, Round& r, const char* what) {
    if (r.exited) vs_violation("RUNS-AFTER-EXIT", "%s of call %d (%s) was invoked after the waiting call had %s", what, c.id, AN[c.alg], r.threw ? "thrown" : "returned");
    if (!r.entered) vs_violation("RUNS-AFTER-EXIT", "%s of call %d (%s) was invoked outside the call", what, c.id, AN[c.alg]);
}
static void note_throw(Call& c, Round& r, int id, char kind, bool in_scope) {
    int others = r.live - (in_scope ? 1 : 0); long pending = 0; for (size_t i = 0; i < r.started.size(); i++) if (!r.started[i]) pending++;
    if (others > 0) n_nt_running++; if (pending > 0) n_nt_pending++;
    if (!r.thrown.empty()) n_extra_throws++;
    if (c.parent >= 0) n_nested_throw++;
    r.thrown.push_back(id); n_throws++; n_throw_kind[kidx(kind)]++;
}
[[noreturn]] static void do_throw(Call& c, Round& r, char kind, int ix, bool in_scope) { int id = c.id * 10000 + kidx(kind) * 1000 + ix; note_throw(c, r, id, kind, in_scope); throw E(id); }
// k-th invocation of a non-element callback (join, constructors)
static void hook(Call& c, int rd, char kind, bool in_scope = false) {
    Round& r = c.r[rd]; user_code(c, r, kind == 'j' ? "a join" : kind == 's' ? "a Range splitting constructor" : kind == 'c' ? "a Range copy constructor" : kind == 'S' ? "a Body splitting constructor" : "a copy constructor");
    int k = (int)r.inv[kidx(kind)]++;
    if (rd == 0 && c.fault(kind, k)) do_throw(c, r, kind, k, in_scope);
}
struct LiveScope { Round& r; explicit LiveScope(Round& rr) : r(rr) { r.live++; } ~LiveScope() { r.live--; } };
static void run_call(Call& c);
// one element of work of call c (a loop index, a task, an item in a stage ...)
static void run_elem(Call& c, int rd, int i) {
    Round& r = c.r[rd]; user_code(c, r, "a body");
    if (i < 0 || i >= c.nelem) vs_violation("INVENTED-WORK", "call %d (%s) body got element %d outside [0,%d)", c.id, AN[c.alg], i, c.nelem);
    if (++r.started[i] > 1) vs_violation("RAN-TWICE", "call %d (%s) element %d started twice", c.id, AN[c.alg], i);
    r.nstarted++; if (vs_self() != g_thr_sched[c.th]) n_body_other_thread++;
    LiveScope ls(r);
    vs_work(c.w);
    if (rd == 0) { auto it = c.nest.find(i); if (it != c.nest.end()) {
        Call& ch = C[it->second];
        try { run_call(ch); }
        catch (E& e) { if (ch.ctch) n_caught_in_body++; else { n_propagated++; note_throw(c, r, e.id, 'b', true); throw; } }
    } }
    if (rd == 0 && c.fault('b', i)) do_throw(c, r, 'b', i, true);
    vs_work(c.w / 2);
    r.finished[i]++;
}

// ------------------------------------------------------------------ instrumented user types
struct RangeT {
    Call* c; int rd, b, e, g;
    RangeT(Call& cc, int r, int bb, int ee, int gg) : c(&cc), rd(r), b(bb), e(ee), g(gg) { born(T_RANGE, this); }
    RangeT(const RangeT& o) : c(o.c), rd(o.rd), b(o.b), e(o.e), g(o.g) { hook(*c, rd, 'c'); born(T_RANGE, this); }
    RangeT(RangeT& o, tbb::split) : c(o.c), rd(o.rd), g(o.g) { hook(*c, rd, 's'); int m = o.b + (o.e - o.b) / 2; b = m; e = o.e; o.e = m; born(T_RANGE, this); }
    ~RangeT() { dead(T_RANGE, this); }
    bool empty() const { return b >= e; }
    bool is_divisible() const { return e - b > g; }
};
struct ForBody {
    Call* c; int rd;
    ForBody(Call& cc, int r) : c(&cc), rd(r) { born(T_FORBODY, this); }
    ForBody(const ForBody& o) : c(o.c), rd(o.rd) { hook(*c, rd, 'B'); born(T_FORBODY, this); }
    ~ForBody() { dead(T_FORBODY, this); }
    void operator()(const RangeT& r) const { for (int i = r.b; i < r.e; i++) run_elem(*c, rd, i); }
};
static long join_cb(Call& c, int rd, long a, long b) { Round& r = c.r[rd]; LiveScope ls(r); hook(c, rd, 'j', true); vs_work(c.w / 2); return a + b; }
struct RedBody {
    Call* c; int rd; long sum = 0;
    RedBody(Call& cc, int r) : c(&cc), rd(r) { born(T_REDBODY, this); }
    RedBody(RedBody& o, tbb::split) : c(o.c), rd(o.rd) { hook(*c, rd, 'S'); born(T_REDBODY, this); }
    ~RedBody() { dead(T_REDBODY, this); }
    void operator()(const RangeT& r) { for (int i = r.b; i < r.e; i++) { run_elem(*c, rd, i); sum += i + 1; } }
    void join(RedBody& o) { sum = join_cb(*c, rd, sum, o.sum); }
};
struct ScanBody {
    Call* c; int rd; long sum = 0;
    ScanBody(Call& cc, int r) : c(&cc), rd(r) { born(T_SCANBODY, this); }
    ScanBody(ScanBody& o, tbb::split) : c(o.c), rd(o.rd) { hook(*c, rd, 'S'); born(T_SCANBODY, this); }
    ~ScanBody() { dead(T_SCANBODY, this); }
    template <class Tag> void operator()(const tbb::blocked_range<int>& r, Tag) { for (int i = r.begin(); i < r.end(); i++) { run_elem(*c, rd, Tag::is_final_scan() ? c->n + i : i); sum += i + 1; } }
    template <class Tag> void operator()(const RangeT& r, Tag) { for (int i = r.b; i < r.e; i++) { run_elem(*c, rd, Tag::is_final_scan() ? c->n + i : i); sum += i + 1; } }
    void reverse_join(ScanBody& a) { sum = join_cb(*c, rd, a.sum, sum); }
    void assign(ScanBody& b) { sum = b.sum; }
};
struct Item {
    Call* c; int rd, v;
    Item(Call& cc, int r, int vv) : c(&cc), rd(r), v(vv) { born(T_ITEM, this); }
    Item(const Item& o) : c(o.c), rd(o.rd), v(o.v) { hook(*c, rd, 'i'); born(T_ITEM, this); }
    Item(Item&& o) : c(o.c), rd(o.rd), v(o.v) { born(T_ITEM, this); }
    ~Item() { dead(T_ITEM, this); }
};
template <class Tag> struct ItemIt {
    using iterator_category = Tag; using value_type = Item; using difference_type = std::ptrdiff_t; using pointer = const Item*; using reference = const Item&;
    const Item* p = nullptr;
    reference operator*() const { return *p; } pointer operator->() const { return p; }
    ItemIt& operator++() { ++p; return *this; } ItemIt operator++(int) { ItemIt t = *this; ++p; return t; }
    bool operator==(const ItemIt& o) const { return p == o.p; } bool operator!=(const ItemIt& o) const { return p != o.p; }
};
struct EachBody { Call* c; int rd; void operator()(const Item& it) const { run_elem(*c, rd, it.v); } };
struct EachFeedBody {
    Call* c; int rd;
    void operator()(const Item& it, tbb::feeder<Item>& f) const { int base = c->n - c->x; if (it.v < c->x) f.add(Item(*c, rd, base + it.v)); run_elem(*c, rd, it.v); }
};
struct Fn {        // counted functor: task_group tasks, parallel_invoke functors, flow-graph bodies, filter bodies
    Call* c; const int* prd; int i; tbb::task_group* tg;
    Fn(Call& cc, const int* pr, int ii, tbb::task_group* t = nullptr) : c(&cc), prd(pr), i(ii), tg(t) { born(T_FUNCTOR, this); }
    Fn(const Fn& o) : c(o.c), prd(o.prd), i(o.i), tg(o.tg) { born(T_FUNCTOR, this); }
    ~Fn() { dead(T_FUNCTOR, this); }
    void operator()() const {                                   // task_group task / parallel_invoke functor
        if (tg && i < c->x) tg->run(Fn(*c, prd, c->n - c->x + i, tg));
        run_elem(*c, *prd, i);
    }
    int operator()(int m) const { run_elem(*c, *prd, i * c->n + m); return m; }      // function_node body, i = stage
};
struct Tok {
    int v;
    explicit Tok(int vv) : v(vv) { born(T_TOKEN, this); }
    Tok(const Tok& o) : v(o.v) { born(T_TOKEN, this); }
    Tok(Tok&& o) : v(o.v) { born(T_TOKEN, this); }
    ~Tok() { dead(T_TOKEN, this); }
};
struct PipeSrc { Fn f; Tok operator()(tbb::flow_control& fc) const { Call& c = *f.c; Round& r = c.r[*f.prd]; user_code(c, r, "the input filter"); if (r.next >= c.n) { fc.stop(); return Tok(-1); } int it = r.next++; run_elem(c, *f.prd, it); return Tok(it); } };
struct PipeMid { Fn f; Tok operator()(Tok t) const { run_elem(*f.c, *f.prd, f.i * f.c->n + t.v); return Tok(t.v); } };
struct PipeSink { Fn f; void operator()(Tok t) const { run_elem(*f.c, *f.prd, f.i * f.c->n + t.v); } };
struct Cmp {
    Call* c; int rd;
    bool operator()(int a, int b) const {
        Round& r = c->r[rd]; user_code(*c, r, "the comparator"); LiveScope ls(r);
        int k = (int)r.inv[0]++; r.nstarted++; if ((k & 31) == 0) vs_work(1);
        if (rd == 0 && c->fault('b', k)) do_throw(*c, r, 'b', k, true);
        return a < b;
    }
};

// ------------------------------------------------------------------ judging one waiting call
static void judge_exit(Call& c, int rd, bool threw, int id) {
    Round& r = c.r[rd]; r.exited = true; r.threw = threw; r.caught = id; r.t_exit = vs_now(); n_calls++;
    if (r.live != 0) vs_violation("BODY-RUNNING-AT-EXIT", "call %d (%s) %s while %d of its bodies are still running", c.id, AN[c.alg], threw ? "threw" : "returned", r.live);
    bool anc = ancestor_thrown(c);
    if (threw) {
        n_exc_exits++;
        if (std::find(r.thrown.begin(), r.thrown.end(), id) == r.thrown.end())
            vs_violation("WRONG-EXCEPTION", "call %d (%s) round %d exited with E%d, which none of its invocations threw (%zu thrown here, first E%d)", c.id, AN[c.alg], rd, id, r.thrown.size(), r.thrown.empty() ? -1 : r.thrown[0]);
        for (size_t i = 0; i < r.started.size(); i++) if (!r.started[i]) n_cancelled_elems++;
    } else if (!r.thrown.empty()) {
        if (!anc) vs_violation("EXCEPTION-SWALLOWED", "call %d (%s) round %d returned normally although %zu of its invocations threw (first E%d) and no enclosing group was cancelled", c.id, AN[c.alg], rd, r.thrown.size(), r.thrown[0]);
        n_anc_tolerated++;
    } else if (!anc) {
        for (int i = c.nreq_lo; i < c.nelem; i++) if (r.started[i] != 1 || r.finished[i] != 1)
            vs_violation("LOST-WORK", "call %d (%s) round %d returned normally, nothing threw and no enclosing group was cancelled, but element %d started %d / finished %d times", c.id, AN[c.alg], rd, i, r.started[i], r.finished[i]);
    }
    if (rd == 1 && c.r[0].threw) n_reuse_after_throw++;
}
template <class Fnc> static void attempt(Call& c, int rd, Fnc&& fn) {
    Round& r = c.r[rd]; r.entered = true; r.t_enter = vs_now(); r.started.assign(c.nelem, 0); r.finished.assign(c.nelem, 0);
    bool threw = false; int id = -1;
    try { fn(); }
    catch (E& e) { threw = true; id = e.id; }
    catch (std::exception& e) { vs_violation("FOREIGN-EXCEPTION", "call %d (%s) exited with a std::exception the program never threw: %s", c.id, AN[c.alg], e.what()); }
    catch (...) { vs_violation("FOREIGN-EXCEPTION", "call %d (%s) exited with an exception the program never threw", c.id, AN[c.alg]); }
    judge_exit(c, rd, threw, id);
}
static bool clean(Call& c, int rd) { return !c.r[rd].threw && c.r[rd].thrown.empty() && !ancestor_thrown(c); }     // nothing could have cancelled this round
static void expect_sum(Call& c, int rd, long got, const char* what) {
    long want = (long)c.n * (c.n + 1) / 2;
    if (clean(c, rd) && got != want) vs_violation("RESULT", "call %d (%s) round %d: %s is %ld, expected %ld", c.id, AN[c.alg], rd, what, got, want);
}

template <class F> static void with_part(int p, tbb::affinity_partitioner& ap, F&& f) {
    switch (p) { case 0: f(tbb::simple_partitioner()); break; case 1: f(tbb::auto_partitioner()); break; case 2: f(tbb::static_partitioner()); break; default: f(ap); }
}
static void run_alg(Call& c) {
    int rounds = c.reuse ? 2 : 1; int fi = c.fi();
    tbb::task_group_context ctx(c.cx == 2 ? tbb::task_group_context::isolated : tbb::task_group_context::bound);
    auto between = [&] { if (c.cx && ctx.is_group_execution_cancelled()) ctx.reset(); };
    tbb::affinity_partitioner ap;
    switch (c.alg) {
    case A_FOR:
        for (int rd = 0; rd < rounds; rd++) { attempt(c, rd, [&] { RangeT rg(c, rd, 0, c.n, c.g); ForBody b(c, rd);
            with_part(c.p, ap, [&](auto&& pt) { if (c.cx) tbb::parallel_for(rg, b, pt, ctx); else tbb::parallel_for(rg, b, pt); }); }); between(); }
        break;
    case A_RED:
        for (int rd = 0; rd < rounds; rd++) { attempt(c, rd, [&] { RangeT rg(c, rd, 0, c.n, c.g);
            if (fi == 0) { RedBody b(c, rd); with_part(c.p, ap, [&](auto&& pt) { if (c.cx) tbb::parallel_reduce(rg, b, pt, ctx); else tbb::parallel_reduce(rg, b, pt); }); expect_sum(c, rd, b.sum, "the reduction"); }
            else { auto body = [&c, rd](const RangeT& r, long v) { for (int i = r.b; i < r.e; i++) { run_elem(c, rd, i); v += i + 1; } return v; }; auto red = [&c, rd](long a, long b) { return join_cb(c, rd, a, b); };
                long res = c.p == 0 ? (c.cx ? tbb::parallel_reduce(rg, 0L, body, red, tbb::simple_partitioner(), ctx) : tbb::parallel_reduce(rg, 0L, body, red, tbb::simple_partitioner()))
                                    : (c.cx ? tbb::parallel_reduce(rg, 0L, body, red, tbb::auto_partitioner(), ctx) : tbb::parallel_reduce(rg, 0L, body, red, tbb::auto_partitioner()));
                expect_sum(c, rd, res, "the reduction"); } }); between(); }
        break;
    case A_DRED:
        for (int rd = 0; rd < rounds; rd++) { attempt(c, rd, [&] { RangeT rg(c, rd, 0, c.n, c.g);
            if (fi == 0) { RedBody b(c, rd);
                if (c.p == 2) { if (c.cx) tbb::parallel_deterministic_reduce(rg, b, tbb::static_partitioner(), ctx); else tbb::parallel_deterministic_reduce(rg, b, tbb::static_partitioner()); }
                else { if (c.cx) tbb::parallel_deterministic_reduce(rg, b, tbb::simple_partitioner(), ctx); else tbb::parallel_deterministic_reduce(rg, b, tbb::simple_partitioner()); }
                expect_sum(c, rd, b.sum, "the deterministic reduction"); }
            else { auto body = [&c, rd](const RangeT& r, long v) { for (int i = r.b; i < r.e; i++) { run_elem(c, rd, i); v += i + 1; } return v; }; auto red = [&c, rd](long a, long b) { return join_cb(c, rd, a, b); };
                long res = c.cx ? tbb::parallel_deterministic_reduce(rg, 0L, body, red, tbb::simple_partitioner(), ctx) : tbb::parallel_deterministic_reduce(rg, 0L, body, red, tbb::simple_partitioner());
                expect_sum(c, rd, res, "the deterministic reduction"); } }); between(); }
        break;
    case A_EACH:
        for (int rd = 0; rd < rounds; rd++) { attempt(c, rd, [&] {
            int base = c.n - c.x; std::vector<Item> v; v.reserve(base); for (int i = 0; i < base; i++) v.emplace_back(c, rd, i);
            const Item* b = v.data(); const Item* e = v.data() + base;
            if (fi == 0) { EachBody bd{ &c, rd }; if (c.cx) tbb::parallel_for_each(v.begin(), v.end(), bd, ctx); else tbb::parallel_for_each(v.begin(), v.end(), bd); }
            else if (fi == 1) { EachFeedBody bd{ &c, rd }; ItemIt<std::forward_iterator_tag> f{ b }, l{ e }; if (c.cx) tbb::parallel_for_each(f, l, bd, ctx); else tbb::parallel_for_each(f, l, bd); }
            else if (fi == 2) { EachFeedBody bd{ &c, rd }; ItemIt<std::input_iterator_tag> f{ b }, l{ e }; if (c.cx) tbb::parallel_for_each(f, l, bd, ctx); else tbb::parallel_for_each(f, l, bd); }
            else { EachBody bd{ &c, rd }; ItemIt<std::input_iterator_tag> f{ b }, l{ e }; if (c.cx) tbb::parallel_for_each(f, l, bd, ctx); else tbb::parallel_for_each(f, l, bd); } }); between(); }
        break;
    case A_INV:
        for (int rd = 0; rd < rounds; rd++) { attempt(c, rd, [&] {
            Fn f0(c, &rd, 0), f1(c, &rd, 1), f2(c, &rd, 2), f3(c, &rd, 3), f4(c, &rd, 4), f5(c, &rd, 5), f6(c, &rd, 6);
            switch (c.n) {
            case 2: if (c.cx) tbb::parallel_invoke(f0, f1, ctx); else tbb::parallel_invoke(f0, f1); break;
            case 3: if (c.cx) tbb::parallel_invoke(f0, f1, f2, ctx); else tbb::parallel_invoke(f0, f1, f2); break;
            case 4: if (c.cx) tbb::parallel_invoke(f0, f1, f2, f3, ctx); else tbb::parallel_invoke(f0, f1, f2, f3); break;
            case 5: if (c.cx) tbb::parallel_invoke(f0, f1, f2, f3, f4, ctx); else tbb::parallel_invoke(f0, f1, f2, f3, f4); break;
            default: if (c.cx) tbb::parallel_invoke(f0, f1, f2, f3, f4, f5, f6, ctx); else tbb::parallel_invoke(f0, f1, f2, f3, f4, f5, f6); break;
            } }); between(); }
        break;
    case A_SCAN:
        for (int rd = 0; rd < rounds; rd++) attempt(c, rd, [&] { tbb::blocked_range<int> rg(0, c.n, (size_t)c.g);
            if (fi == 3) { RangeT rt(c, rd, 0, c.n, c.g); ScanBody b(c, rd); tbb::parallel_scan(rt, b, tbb::auto_partitioner()); expect_sum(c, rd, b.sum, "the scan total"); }      // Range with a non-trivial destructor
            else if (fi == 0) { ScanBody b(c, rd); tbb::parallel_scan(rg, b, tbb::auto_partitioner()); expect_sum(c, rd, b.sum, "the scan total"); }
            else if (fi == 1) { ScanBody b(c, rd); tbb::parallel_scan(rg, b, tbb::simple_partitioner()); expect_sum(c, rd, b.sum, "the scan total"); }
            else { long res = tbb::parallel_scan(rg, 0L, [&c, rd](const tbb::blocked_range<int>& r, long s, bool fin) { for (int i = r.begin(); i < r.end(); i++) { run_elem(c, rd, fin ? c.n + i : i); s += i + 1; } return s; },
                                                 [&c, rd](long a, long b) { return join_cb(c, rd, a, b); });
                   expect_sum(c, rd, res, "the scan total"); } });
        break;
    case A_SORT:
        for (int rd = 0; rd < rounds; rd++) attempt(c, rd, [&] {
            std::vector<int> v(c.n); uint32_t x = 12345u + (uint32_t)c.id * 77u + (uint32_t)rd; for (auto& e : v) { x = x * 1664525u + 1013904223u; e = (int)(x >> 8) % 100000; }
            tbb::parallel_sort(v.begin(), v.end(), Cmp{ &c, rd });
            for (size_t i = 1; i < v.size(); i++) if (v[i - 1] > v[i]) vs_violation("RESULT", "call %d: parallel_sort returned normally but position %zu is out of order", c.id, i); });
        break;
    case A_PIPE: {
        int rd = 0; int nf = (int)c.form.size();
        auto fm = [&](int s) { return c.form[s] == 'p' ? tbb::filter_mode::parallel : c.form[s] == 'i' ? tbb::filter_mode::serial_in_order : tbb::filter_mode::serial_out_of_order; };
        tbb::filter<void, void> chain = nf == 2 ? tbb::make_filter<void, Tok>(fm(0), PipeSrc{ Fn(c, &rd, 0) }) & tbb::make_filter<Tok, void>(fm(1), PipeSink{ Fn(c, &rd, 1) })
                                                : tbb::make_filter<void, Tok>(fm(0), PipeSrc{ Fn(c, &rd, 0) }) & tbb::make_filter<Tok, Tok>(fm(1), PipeMid{ Fn(c, &rd, 1) }) & tbb::make_filter<Tok, void>(fm(2), PipeSink{ Fn(c, &rd, 2) });
        for (rd = 0; rd < rounds; rd++) { attempt(c, rd, [&] { if (c.cx) tbb::parallel_pipeline((size_t)c.g, chain, ctx); else tbb::parallel_pipeline((size_t)c.g, chain); }); between(); }
        break; }
    case A_TG: {
        tbb::task_group tg_own, tg_user(ctx); tbb::task_group& tg = c.cx ? tg_user : tg_own; int rd = 0;
        for (rd = 0; rd < rounds; rd++) attempt(c, rd, [&] {
            int base = c.n - c.x; bool waited = false; tbb::task_group_status st = tbb::not_complete;
            for (int i = 0; i < base; i++) {
                if (fi == 2 && i == base - 1) { st = tg.run_and_wait(Fn(c, &rd, i, &tg)); waited = true; }
                else if (fi == 3 && i == base - 1) { st = tg.run_and_wait(tg.defer(Fn(c, &rd, i, &tg))); waited = true; }
                else if (fi == 1 || (fi >= 2 && (i & 1))) tg.run(tg.defer(Fn(c, &rd, i, &tg)));
                else tg.run(Fn(c, &rd, i, &tg));
            }
            if (!waited) st = tg.wait();
            if (st == tbb::not_complete) vs_violation("TG-STATUS", "call %d: task_group wait returned not_complete", c.id);
            if (st == tbb::canceled && c.r[rd].thrown.empty() && !ancestor_thrown(c)) vs_violation("TG-STATUS", "call %d round %d: task_group wait returned canceled although nothing threw and nothing was cancelled", c.id, rd); });
        break; }
    case A_ARENA:
        for (int rd = 0; rd < rounds; rd++) attempt(c, rd, [&] {
            if (fi == 0) g_arena->execute([&c, rd] { run_elem(c, rd, 0); });
            else { int v = g_arena->execute([&c, rd]() -> int { run_elem(c, rd, 0); return 41 + c.id; }); if (v != 41 + c.id) vs_violation("RESULT", "call %d: task_arena::execute returned %d, expected %d", c.id, v, 41 + c.id); } });
        break;
    case A_FG: {
        int rd = 0; tbb::flow::graph g_own; tbb::flow::graph g_user(ctx); tbb::flow::graph& g = c.cx ? g_user : g_own;
        tbb::flow::function_node<int, int> n1(g, fi == 1 ? tbb::flow::serial : tbb::flow::unlimited, Fn(c, &rd, 0));
        tbb::flow::function_node<int, int> n2(g, tbb::flow::serial, Fn(c, &rd, 1));
        if (fi == 2) tbb::flow::make_edge(n1, n2);
        for (rd = 0; rd < rounds; rd++) { attempt(c, rd, [&] { for (int m = 0; m < c.n; m++) n1.try_put(m); g.wait_for_all(); });
            // after an exception the graph must be reset() before it is used again; it may be destroyed without (x=1): ~graph waits once more and must not find the old exception
            if (c.r[rd].threw && !(c.x == 1 && rd == rounds - 1)) g.reset(); }
        break; }
    }
}
// runs all rounds of a call; a nested call hands the exception of its round 0 to the enclosing body
static void run_call(Call& c) {
    g_alg_seen[c.alg] = true;
    run_alg(c);
    if (c.parent >= 0 && c.r[0].threw) throw E(c.r[0].caught);
}
// Known findings (reported, see the plan): shapes in which the library itself is not exception safe are kept out of the generated domain.
// The faults are dropped from the case (counted as n_excluded); cfg witness=1 keeps them.
static void drop_faults(Call& k, const char* kinds, const char* cls) {
    bool any = false;
    for (auto it = k.faults.begin(); it != k.faults.end();) { if (strchr(kinds, it->first)) { it = k.faults.erase(it); n_excluded++; any = true; } else ++it; }
    if (any) vs_stat_flag(cls);
}
static void apply_exclusions() {
    for (auto& k : C) {
        // parallel_reduce / parallel_deterministic_reduce: an exception leaving join() (or the reduction functor) escapes from fold_tree inside
        // start_reduce::finalize after the task object was destroyed; the dispatcher then calls cancel() on it and it is finalized a second time
        if (k.alg == A_RED || k.alg == A_DRED) drop_faults(k, "j", "excluded_throwing_join");
        // parallel_scan has no clean-up for a cancelled scan: any exception (or a cancellation from an enclosing group) leaks final_sum / sum_node
        // objects with the Bodies in them, and a throwing Range splitting constructor makes it wait for ever
        if (k.alg == A_SCAN) { drop_faults(k, KINDS, "excluded_scan_fault"); if (k.parent >= 0 || !k.nest.empty()) { vs_stat_add("n_excluded", 1); vs_stat_flag("excluded_nested_scan"); vs_stat_add("nt", 0); vs_ok(); } }
    }
}
static void ext_thread(void* p) {
    int t = (int)(intptr_t)p; g_thr_sched[t] = vs_self();
    for (auto& c : C) if (c.parent < 0 && c.th == t) run_call(c);
}
static void on_terminate() {
    int id = -1; const char* what = "no active exception";
    try { auto ep = std::current_exception(); if (ep) { what = "an exception"; std::rethrow_exception(ep); } } catch (E& e) { id = e.id; } catch (...) { id = -2; }
    vs_violation("TERMINATE", "std::terminate was called on scheduler thread %d with %s (E%d): an exception escaped where nothing can catch it", vs_self(), what, id);
}

void h_run(Case& c) {
    int par = 2, ext = 1, mc = 2, res = 1, warm = 0;
    for (auto& l : c.lines) {
        auto w = split_ws(l);
        if (w[0] == "cfg") { par = (int)kvl(l, "par", 2); ext = (int)kvl(l, "ext", 1); warm = (int)kvl(l, "warm", 0); sscanf(kvs(l, "arena", "2:1").c_str(), "%d:%d", &mc, &res); }
        else if (w[0] == "call") {
            Call k; k.id = atoi(w[1].c_str()); k.th = (int)kvl(l, "th", 0); k.parent = (int)kvl(l, "par", -1); k.at = (int)kvl(l, "at", 0);
            std::string a = kvs(l, "alg", "for"); k.alg = 0; for (int i = 0; i < A_COUNT; i++) if (a == AN[i]) k.alg = i;
            k.n = (int)kvl(l, "n", 1); k.g = (int)kvl(l, "g", 1); k.p = (int)kvl(l, "p", 0); k.cx = (int)kvl(l, "cx", 0); k.form = kvs(l, "f", "0"); k.x = (int)kvl(l, "x", 0); k.w = (int)kvl(l, "w", 0);
            k.ctch = (int)kvl(l, "c", 0); k.reuse = (int)kvl(l, "r", 0);
            std::string F = kvs(l, "F", "-");
            for (size_t p = 0; F != "-" && p < F.size();) { size_t e = F.find(',', p); std::string it = F.substr(p, e == std::string::npos ? std::string::npos : e - p); if (it.size() >= 2) k.faults.insert({ it[0], atoi(it.c_str() + 1) }); if (e == std::string::npos) break; p = e + 1; }
            k.nelem = k.alg == A_PIPE ? k.n * (int)k.form.size() : (k.alg == A_FG && k.form == "2") ? 2 * k.n : k.alg == A_SCAN ? 2 * k.n : k.alg == A_SORT ? 0 : k.n;
            k.nreq_lo = k.alg == A_SCAN ? k.n : 0;        // pre-scan passes are optional
            if (k.g < 1) k.g = 1; if (k.x > k.n) k.x = k.n;
            if ((int)C.size() != k.id) vs_inconclusive("BAD-CASE", "call ids must be 0,1,2,... in order");
            C.push_back(k);
        }
    }
    for (auto& k : C) if (k.parent >= 0) { if (k.parent >= k.id) vs_inconclusive("BAD-CASE", "parent after child"); C[k.parent].nest[k.at] = k.id; }
    g_witness = kvl(c.lines[0], "witness", 0) != 0;
    // Observed with assertions on (no exception involved, outside this property): max_allowed_parallelism=1 + an arena without reserved slot + two external
    // threads, one inside the arena on the non-reserved slot (worker request -1), the other delegating its functor by enqueue (mandatory +1):
    // market::update_allotment asserts assigned == max_workers.  Kept out of the domain by giving the arena a reserved slot.
    if (!g_witness && par == 1 && ext > 1 && res == 0) { res = 1; n_excluded++; vs_stat_flag("excluded_workerless_arena_allotment_assert"); }
    if (!g_witness) apply_exclusions();
    std::set_terminate(on_terminate);
    vs_begin(c.sched.c_str());
    {
        tbb::global_control gc(tbb::global_control::max_allowed_parallelism, (size_t)par);
        if (res > mc) res = mc;
        g_arena = new tbb::task_arena(mc, (unsigned)res);
        // two external threads: finish the library's one-time initialisation first (it sits behind a __cxa_guard of libstdc++, whose real
        // futex wait the scheduler cannot model: a second thread arriving there would block while holding the baton)
        if (ext > 1) { (void)tbb::this_task_arena::max_concurrency(); g_arena->execute([] {}); }
        // warm-up: a fault-free loop that draws the workers into the arena, so that the calls under test start with thieves already looking for work
        if (warm > 0 && par > 1) tbb::parallel_for(0, 2 * par, [warm](int) { vs_work(warm); }, tbb::simple_partitioner());
        std::vector<int> tids;
        for (int t = 1; t < ext; t++) tids.push_back(vs_thread_start(ext_thread, (void*)(intptr_t)t));
        ext_thread((void*)(intptr_t)0);
        for (int t : tids) vs_thread_join(t);
        // nothing of any group may start once its waiting call has exited (checked at every invocation), and every object the library made is gone
        vs_wait_quiescent();
        for (int t = 0; t < T_COUNT; t++) if (!g_alive[t].empty() && !g_leak_excluded[t])
            vs_violation(kind_of("OBJECT-LEAK", t).c_str(), "%zu %s object(s) constructed for the calls were never destroyed (%ld made)", g_alive[t].size(), TN[t], g_made[t]);
        if (g_e_live != 0) vs_violation("EXCEPTION-OBJECT", "%ld exception object(s) still alive after every context, task_group and graph was destroyed (%ld made): a captured exception was not released", g_e_live, g_e_made);
    }
    vs_end();
    for (auto& k : C) for (int rd = 0; rd < 2; rd++) if (k.r[rd].entered && !k.r[rd].exited) vs_violation("NEVER-EXITED", "call %d round %d never exited", k.id, rd);
    vs_stat_add("n_excluded", n_excluded); vs_stat_add("n_calls", n_calls); vs_stat_add("n_throws", n_throws); vs_stat_add("n_exits_by_exception", n_exc_exits); vs_stat_add("n_extra_throws_ignored", n_extra_throws);
    vs_stat_add("n_throw_while_other_running", n_nt_running); vs_stat_add("n_throw_with_pending", n_nt_pending); vs_stat_add("n_nested_throw", n_nested_throw);
    vs_stat_add("n_propagated_up", n_propagated); vs_stat_add("n_caught_in_body", n_caught_in_body); vs_stat_add("n_ancestor_cancel_tolerated", n_anc_tolerated);
    vs_stat_add("n_reuse_after_throw", n_reuse_after_throw); vs_stat_add("n_cancelled_elements", n_cancelled_elems); vs_stat_add("n_body_other_thread", n_body_other_thread);
    for (int a = 0; a < A_COUNT; a++) if (g_alg_seen[a]) vs_stat_flag((std::string("alg_") + AN[a]).c_str());
    if (n_extra_throws) vs_stat_flag("several_throwers"); if (n_nt_running) vs_stat_flag("throw_while_other_body_running"); if (n_nt_pending) vs_stat_flag("throw_with_work_pending");
    if (n_nested_throw) vs_stat_flag("throw_in_nested_group"); if (n_propagated) vs_stat_flag("propagated_to_outer_group"); if (n_caught_in_body) vs_stat_flag("caught_inside_body");
    if (n_throw_kind[1]) vs_stat_flag("throw_in_join"); if (n_throw_kind[2] + n_throw_kind[3]) vs_stat_flag("throw_in_range_ctor"); if (n_throw_kind[4] + n_throw_kind[5]) vs_stat_flag("throw_in_body_ctor");
    if (n_anc_tolerated) vs_stat_flag("inner_exception_lost_to_outer_cancel"); if (n_reuse_after_throw) vs_stat_flag("reused_after_throw"); if (!n_throws) vs_stat_flag("no_throw");
    vs_stat_add("nt", (n_nt_running + n_nt_pending) > 0 ? 1 : 0);
    vs_ok();
}

int main(int argc, char** argv) { return drv_main(argc, argv); }
