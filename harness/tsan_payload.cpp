// tsan_payload.cpp -- freerun leg (ThreadSanitizer flavour, no controlled scheduler): the *visibility* clauses of the
// properties ("the waiter sees all their writes", "visible to the next holder", the popped item, the published element...).
// Real threads on real cores run generated scenarios; every access to user-visible payload goes through the two
// noinline functions vp_payload_write / vp_payload_read.  A ThreadSanitizer data-race report whose two accesses are
// both inside these functions means the library did not establish happens-before between the two sides: violation.
// Reports inside the library are ignored (cmake/suppressions/tsan.suppressions + the leg runner's filter).
// x86 hardware hides most release/acquire weakenings, TSan's happens-before analysis does not.
//
// usage: tsan_payload --prop CNN --seed S --iters N      (one JSON summary line on stdout, TSan reports on stderr)
#include "oneapi/tbb.h"
#include "oneapi/tbb/collaborative_call_once.h"
#include <thread>
#include <vector>
#include <string>
#include <cstdio>
#include <cstring>
#include <chrono>
#include <set>

struct Payload { long v[4]; };
extern "C" __attribute__((noinline)) void vp_payload_write(Payload* p, long x) { p->v[0] = x; p->v[1] = x * 3; p->v[3] = ~x; }
extern "C" __attribute__((noinline)) long vp_payload_read(const Payload* p) { return p->v[0] + p->v[1] + p->v[3]; }
static long expect(long x) { return x + x * 3 + ~x; }

static unsigned long long g_rng = 1;
static unsigned rnd(unsigned n) { g_rng ^= g_rng << 13; g_rng ^= g_rng >> 7; g_rng ^= g_rng << 17; return n ? (unsigned)((g_rng >> 20) % n) : 0; }
static long g_bad = 0; static std::string g_bad_detail;
static void bad(const char* what, long got, long want) { g_bad++; if (g_bad_detail.empty()) { char b[200]; snprintf(b, sizeof b, "%s: read %ld expected %ld", what, got, want); g_bad_detail = b; } }
static void spin(unsigned n) { for (volatile unsigned i = 0; i < n; i = i + 1) {} }
template <class F> static void run_threads(int n, F f) { std::vector<std::thread> t; for (int i = 0; i < n; i++) t.emplace_back([=] { f(i); }); for (auto& x : t) x.join(); }

// ---- C01 / C05: waits cover the work, the waiter sees the writes
static std::string sc_c01() {
    int n = 1 + (int)rnd(40), mode = (int)rnd(5); std::vector<Payload> p((size_t)n + 1), in((size_t)n + 1);
    // the task also READS what its submitter wrote before the submission (spawn / enqueue publishes the task and its inputs)
    auto chk = [&in](int i) { long r = vp_payload_read(&in[(size_t)i]); if (r != expect(i + 100)) bad("C01 task did not see its submitter's writes", r, expect(i + 100)); };
    for (int i = 0; i < n; i++) vp_payload_write(&in[(size_t)i], i + 100 - (mode == 0 || mode == 4 ? 1 : 0));
    if (mode == 0) { tbb::task_group g; for (int i = 0; i < n; i++) { unsigned d = rnd(200); vp_payload_write(&in[(size_t)i], i + 100); g.run([&p, &chk, i, d] { chk(i); spin(d); vp_payload_write(&p[(size_t)i], i + 1); }); } g.wait(); }
    else if (mode == 4) { tbb::task_arena a(1 + (int)rnd(3)); std::atomic<int> done{ 0 }; for (int i = 0; i < n; i++) { vp_payload_write(&in[(size_t)i], i + 100); a.enqueue([&p, &chk, &done, i] { chk(i); vp_payload_write(&p[(size_t)i], i + 1); done.fetch_add(1, std::memory_order_release); }); } while (done.load(std::memory_order_acquire) < n) std::this_thread::yield(); }
    else if (mode == 1) { tbb::parallel_for(0, n, [&p](int i) { vp_payload_write(&p[(size_t)i], i + 1); }); }
    else if (mode == 2) { tbb::task_arena a(1 + (int)rnd(4)); a.execute([&] { tbb::parallel_for(tbb::blocked_range<int>(0, n, 1 + rnd(4)), [&p](const tbb::blocked_range<int>& r) { for (int i = r.begin(); i < r.end(); i++) vp_payload_write(&p[(size_t)i], i + 1); }, tbb::simple_partitioner()); }); }
    else { tbb::task_group g; g.run_and_wait([&] { tbb::task_group h; for (int i = 0; i < n; i++) h.run([&p, i] { vp_payload_write(&p[(size_t)i], i + 1); }); h.wait(); }); }
    for (int i = 0; i < n; i++) { long r = vp_payload_read(&p[(size_t)i]); if (r != expect(i + 1)) bad("C01 waiter did not see a task's write", r, expect(i + 1)); }
    return "c01 mode=" + std::to_string(mode) + " n=" + std::to_string(n);
}
// ---- C08: everything written inside a critical section is visible to the next holder
template <class M> static void lock_rounds(int nt, int rounds, bool rw) {
    M m; Payload p; vp_payload_write(&p, 0); long counter = 0;
    std::vector<std::vector<unsigned>> dice((size_t)nt); for (auto& d : dice) for (int r = 0; r < rounds; r++) { d.push_back(rnd(3)); d.push_back(rnd(100)); }   // all randomness drawn on the main thread
    run_threads(nt, [&](int t) {
        for (int r = 0; r < rounds; r++) {
            bool write = !rw || dice[(size_t)t][(size_t)r * 2] == 0 || t == 0;
            typename M::scoped_lock l;
            if constexpr (M::is_rw_mutex) l.acquire(m, write); else l.acquire(m);
            long got = vp_payload_read(&p);
            if (write) { long c = counter; if (got != expect(c)) bad("C08 holder saw a stale critical-section write", got, expect(c)); counter = c + 1; vp_payload_write(&p, c + 1); }
            // a writer may step down to a reader: what it wrote must be visible to the readers that come in while it still holds the lock as a reader
            if constexpr (M::is_rw_mutex) { if (write && (dice[(size_t)t][(size_t)r * 2 + 1] & 1)) { l.downgrade_to_reader(); spin(30000 + 100 * dice[(size_t)t][(size_t)r * 2 + 1]); (void)vp_payload_read(&p); } }
            l.release(); spin(dice[(size_t)t][(size_t)r * 2 + 1]);
        }
    });
}
static std::string sc_c08() {
    int ty = (int)rnd(6), nt = 2 + (int)rnd(3), rounds = 5 + (int)rnd(30);   // speculative (RTM) mutexes are left out: a hardware transaction is invisible to TSan
    switch (ty) {
    case 0: lock_rounds<tbb::spin_mutex>(nt, rounds, false); break; case 1: lock_rounds<tbb::spin_rw_mutex>(nt, rounds, true); break;
    case 2: lock_rounds<tbb::queuing_mutex>(nt, rounds, false); break; case 3: lock_rounds<tbb::queuing_rw_mutex>(nt, rounds, true); break;
    case 4: lock_rounds<tbb::mutex>(nt, rounds, false); break; case 5: lock_rounds<tbb::rw_mutex>(nt, rounds, true); break;
    case 6: lock_rounds<tbb::speculative_spin_mutex>(nt, rounds, false); break; default: lock_rounds<tbb::speculative_spin_rw_mutex>(nt, rounds, true); break;
    }
    return "c08 type=" + std::to_string(ty) + " threads=" + std::to_string(nt) + " rounds=" + std::to_string(rounds);
}
// ---- C09 / C13 / C02: an item handed over by a queue carries its contents
static std::string sc_c09() {
    int kind = (int)rnd(3), np = 1 + (int)rnd(2), nc = 1 + (int)rnd(2), per = 5 + (int)rnd(40); int total = np * per;
    std::vector<Payload> pool((size_t)total);
    tbb::concurrent_queue<int> uq; tbb::concurrent_bounded_queue<int> bq; bq.set_capacity(1 + (int)rnd(3)); tbb::concurrent_priority_queue<int> pq;
    std::atomic<int> taken{ 0 };
    run_threads(np + nc, [&](int t) {
        if (t < np) for (int k = 0; k < per; k++) { int id = t * per + k; vp_payload_write(&pool[(size_t)id], id + 7); if (kind == 0) uq.push(id); else if (kind == 1) bq.push(id); else pq.push(id); }
        else for (;;) {
            int id = -1; bool ok = kind == 0 ? uq.try_pop(id) : kind == 1 ? bq.try_pop(id) : pq.try_pop(id);
            if (ok) { long r = vp_payload_read(&pool[(size_t)id]); if (r != expect(id + 7)) bad("C09 popped item without its contents", r, expect(id + 7)); taken++; }
            else if (taken.load() >= total) break; else std::this_thread::yield();
        }
    });
    return "c09 kind=" + std::to_string(kind) + " producers=" + std::to_string(np) + " consumers=" + std::to_string(nc) + " per=" + std::to_string(per);
}
// ---- C10 / C12: an element published by insert is visible to whoever finds it; accessor = reader/writer lock
static std::string sc_c10() {
    int kind = (int)rnd(3), nt = 2 + (int)rnd(3), keys = 2 + (int)rnd(20); std::vector<Payload> pool((size_t)keys);
    tbb::concurrent_hash_map<int, Payload*> hm; tbb::concurrent_unordered_map<int, Payload*> um; tbb::concurrent_map<int, Payload*> om;
    run_threads(nt, [&](int t) {
        for (int k = 0; k < keys; k++) {
            int key = (k * 7 + t) % keys;
            if (key % nt == t) { vp_payload_write(&pool[(size_t)key], key + 1); if (kind == 0) hm.insert({ key, &pool[(size_t)key] }); else if (kind == 1) um.insert({ key, &pool[(size_t)key] }); else om.insert({ key, &pool[(size_t)key] }); }
            else {
                Payload* p = nullptr;
                if (kind == 0) { tbb::concurrent_hash_map<int, Payload*>::const_accessor a; if (hm.find(a, key)) p = a->second; }
                else if (kind == 1) { auto it = um.find(key); if (it != um.end()) p = it->second; } else { auto it = om.find(key); if (it != om.end()) p = it->second; }
                if (p) { long r = vp_payload_read(p); if (r != expect(key + 1)) bad("C10/C12 found element without its contents", r, expect(key + 1)); }
            }
        }
    });
    return "c10 kind=" + std::to_string(kind) + " threads=" + std::to_string(nt) + " keys=" + std::to_string(keys);
}
// ---- C06 / C07: partial results and pipeline items cross threads
static std::string sc_c06() {
    int n = 10 + (int)rnd(2000), mode = (int)rnd(2);
    if (mode == 0) {
        struct Body { Payload acc; long sum; Body() : sum(0) { vp_payload_write(&acc, 0); } Body(Body&, tbb::split) : sum(0) { vp_payload_write(&acc, 0); }
            void operator()(const tbb::blocked_range<int>& r) { for (int i = r.begin(); i < r.end(); i++) sum += i; vp_payload_write(&acc, sum); }
            void join(Body& rhs) { long rr = vp_payload_read(&rhs.acc); if (rr != expect(rhs.sum)) bad("C06 joined body without its contents", rr, expect(rhs.sum)); sum += rhs.sum; vp_payload_write(&acc, sum); } } b;
        tbb::parallel_reduce(tbb::blocked_range<int>(0, n, 1 + rnd(16)), b);
        long want = (long)n * (n - 1) / 2; if (b.sum != want) bad("C06 reduce result", b.sum, want);
    } else {
        int items = 1 + (int)rnd(30); std::vector<Payload> pool((size_t)items); int next = 0; long seen = 0;
        tbb::parallel_pipeline(1 + rnd(6),
            tbb::make_filter<void, int>(tbb::filter_mode::serial_in_order, [&](tbb::flow_control& fc) -> int { if (next >= items) { fc.stop(); return -1; } vp_payload_write(&pool[(size_t)next], next + 3); return next++; }) &
            tbb::make_filter<int, int>(tbb::filter_mode::parallel, [&](int i) { long r = vp_payload_read(&pool[(size_t)i]); if (r != expect(i + 3)) bad("C07 item without its contents at stage 2", r, expect(i + 3)); vp_payload_write(&pool[(size_t)i], i + 4); return i; }) &
            tbb::make_filter<int, void>(tbb::filter_mode::serial_out_of_order, [&](int i) { long r = vp_payload_read(&pool[(size_t)i]); if (r != expect(i + 4)) bad("C07 item without its contents at stage 3", r, expect(i + 4)); seen++; }));
        if (seen != items) bad("C07 items through the last filter", seen, items);
    }
    return "c06 mode=" + std::to_string(mode) + " n=" + std::to_string(n);
}
// ---- C14: messages through a flow graph; wait_for_all makes the bodies' writes visible
static std::string sc_c14() {
    using namespace tbb::flow; int n = 1 + (int)rnd(30); std::vector<Payload> in((size_t)n), out((size_t)n);
    graph g; queue_node<int> q(g);
    function_node<int, int> f(g, rnd(2) ? unlimited : serial, [&](int i) { long r = vp_payload_read(&in[(size_t)i]); if (r != expect(i + 11)) bad("C14 body got a message without its contents", r, expect(i + 11)); vp_payload_write(&out[(size_t)i], i + 12); return i; });
    function_node<int, int> s(g, serial, [&](int i) { long r = vp_payload_read(&out[(size_t)i]); if (r != expect(i + 12)) bad("C14 successor saw stale payload", r, expect(i + 12)); vp_payload_write(&out[(size_t)i], i + 13); return i; });
    make_edge(q, f); make_edge(f, s);
    run_threads(2, [&](int t) { for (int i = t; i < n; i += 2) { vp_payload_write(&in[(size_t)i], i + 11); q.try_put(i); } });
    g.wait_for_all();
    for (int i = 0; i < n; i++) { long r = vp_payload_read(&out[(size_t)i]); if (r != expect(i + 13)) bad("C14 wait_for_all returned without the bodies' writes", r, expect(i + 13)); }
    return "c14 n=" + std::to_string(n);
}
// ---- C19: every caller of collaborative_call_once sees the effects; C20: resume publishes to the continuation
static std::string sc_c19() {
    int nt = 2 + (int)rnd(5); tbb::collaborative_once_flag flag; Payload p; vp_payload_write(&p, 0);
    std::vector<unsigned> d19; for (int i = 0; i < nt; i++) d19.push_back(rnd(300));
    run_threads(nt, [&](int t) { spin(d19[(size_t)t]); tbb::collaborative_call_once(flag, [&] { vp_payload_write(&p, 41); tbb::parallel_for(0, 8, [](int) {}); vp_payload_write(&p, 42); }); long r = vp_payload_read(&p); if (r != expect(42)) bad("C19 caller returned without the effects of the call", r, expect(42)); });
    return "c19 threads=" + std::to_string(nt);
}
static std::string sc_c20() {
    int n = 1 + (int)rnd(6); std::vector<Payload> pool((size_t)n); tbb::concurrent_queue<std::pair<tbb::task::suspend_point, int>> pend; std::atomic<int> resumed{ 0 };
    std::thread helper([&] { while (resumed.load() < n) { std::pair<tbb::task::suspend_point, int> sp; if (pend.try_pop(sp)) { vp_payload_write(&pool[(size_t)sp.second], sp.second + 21); tbb::task::resume(sp.first); resumed++; } else std::this_thread::yield(); } });
    tbb::task_group g;
    for (int i = 0; i < n; i++) g.run([&, i] { tbb::task::suspend([&, i](tbb::task::suspend_point sp) { pend.push({ sp, i }); }); long r = vp_payload_read(&pool[(size_t)i]); if (r != expect(i + 21)) bad("C20 continuation without the resumer's writes", r, expect(i + 21)); });
    g.wait(); helper.join();
    return "c20 n=" + std::to_string(n);
}

int main(int argc, char** argv) {
    std::string prop = "C01"; unsigned long long seed = 1; long iters = 100;
    for (int i = 1; i + 1 < argc; i++) { if (!strcmp(argv[i], "--prop")) prop = argv[i + 1]; if (!strcmp(argv[i], "--seed")) seed = strtoull(argv[i + 1], nullptr, 10); if (!strcmp(argv[i], "--iters")) iters = atol(argv[i + 1]); }
    g_rng = seed * 0x9E3779B97F4A7C15ull + 77; if (!g_rng) g_rng = 1;
    auto t0 = std::chrono::steady_clock::now(); std::set<std::string> distinct; std::vector<std::string> samples;
    tbb::global_control gc(tbb::global_control::max_allowed_parallelism, 2 + rnd(6));
    for (long it = 0; it < iters; it++) {
        std::string d;
        if (prop == "C01" || prop == "C05") d = sc_c01(); else if (prop == "C08") d = sc_c08(); else if (prop == "C09" || prop == "C13" || prop == "C02") d = sc_c09();
        else if (prop == "C10" || prop == "C12") d = sc_c10(); else if (prop == "C06" || prop == "C07") d = sc_c06(); else if (prop == "C14" || prop == "C15") d = sc_c14();
        else if (prop == "C19") d = sc_c19(); else if (prop == "C20") d = sc_c20(); else { fprintf(stderr, "no scenario for %s\n", prop.c_str()); return 2; }
        distinct.insert(d); if (samples.size() < 3) samples.push_back(d);
    }
    double wall = std::chrono::duration<double>(std::chrono::steady_clock::now() - t0).count();
    std::string j = "{\"evaluations\":" + std::to_string(iters) + ",\"nontrivial_hashes\":["; bool f = true; int k = 0;
    for (auto& d : distinct) { if (k++ >= 3000) break; unsigned long long h = 1469598103934665603ull; for (unsigned char c : d) { h ^= c; h *= 1099511628211ull; } char b[32]; snprintf(b, sizeof b, "%s\"t%016llx\"", f ? "" : ",", h); j += b; f = false; }
    j += "],\"classes\":{\"tsan_freerun\":" + std::to_string(iters) + "},\"samples\":["; f = true; for (auto& s : samples) { j += (f ? "\"" : ",\"") + s + "\""; f = false; }
    j += "],\"inconclusive\":0,\"wall_s\":" + std::to_string(wall) + ",\"value_mismatches\":" + std::to_string(g_bad) + ",\"mismatch_detail\":\"" + g_bad_detail + "\",\"violations\":[]}";
    puts(j.c_str());
    return 0;
}
