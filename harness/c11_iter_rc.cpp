// C11 (sequential part 2) -- iterators and references of concurrent_vector stay valid and exact: rapidcheck, model = the index.
// A vector is built by a generated mix of push_back / grow_by / grow_to_at_least / resize / reserve (values = their index), iterators are
// taken from begin()+k, from the return value of push_back (which caches the element's address) and of grow_by, and then moved by a generated
// walk of ++ -- += -= it++ it-- across the segment boundaries (2, 4, 8, 16, ...).  After every step: *it == index, &*it == &v[index],
// it - begin() == index, and the ordering operators agree with the indices.  Addresses sampled before a growth are compared after it.
// usage: c11_iter_rc        (env RC_PARAMS, VERIF_REPLAY_DIR)   |   c11_iter_rc replay <file>
// case (one line):  iter build=<p3,g5,t20,r40,s7,...> from=<b:K|p|g:K> walk=<+,-,a5,s3,i,d,...>
#include <rapidcheck.h>
#include "oneapi/tbb/concurrent_vector.h"
#include <cstdio>
#include <set>
#include <string>
#include <vector>
#include <chrono>
#include <fstream>
typedef tbb::concurrent_vector<long> V;
static std::string g_err;
static bool fail(const std::string& s) { g_err = s; return false; }
static std::string num(long v) { return std::to_string(v); }

static std::vector<std::string> split(const std::string& s, char c) { std::vector<std::string> r; size_t p = 0; while (p <= s.size()) { size_t e = s.find(c, p); if (e == std::string::npos) e = s.size(); if (e > p) r.push_back(s.substr(p, e - p)); p = e + 1; } return r; }
static std::string kv(const std::string& l, const char* k) { std::string key = std::string(" ") + k + "=", s = " " + l; size_t p = s.find(key); if (p == std::string::npos) return ""; size_t e = s.find(' ', p + 1); return s.substr(p + key.size(), e == std::string::npos ? std::string::npos : e - p - key.size()); }

static bool g_nontrivial = false;
static bool run_case(const std::string& line) {
    g_err.clear(); g_nontrivial = false;
    V v; std::vector<const long*> addr;          // address of element i when it was first seen
    V::iterator from_push, from_grow; long push_idx = -1, grow_idx = -1;
    auto note = [&]() -> bool {
        for (size_t i = addr.size(); i < v.size(); i++) addr.push_back(&v[i]);
        for (size_t i = 0; i < v.size(); i++) { if (&v[i] != addr[i]) return fail("element " + num((long)i) + " moved: address changed after a growth"); if (v[i] != (long)i) return fail("element " + num((long)i) + " holds " + num(v[i])); }
        return true; };
    for (auto& b : split(kv(line, "build"), ',')) {
        long k = atol(b.c_str() + 1); size_t n = v.size();
        switch (b[0]) {
        case 'p': for (long i = 0; i < k; i++) { from_push = v.push_back((long)v.size()); push_idx = (long)v.size() - 1; } break;
        case 'g': if (k > 0) { from_grow = v.grow_by((size_t)k); grow_idx = (long)n; for (size_t i = n; i < v.size(); i++) v[i] = (long)i; } break;
        case 't': if ((size_t)k > n) { v.grow_to_at_least((size_t)k); for (size_t i = n; i < v.size(); i++) v[i] = (long)i; } break;
        case 'r': v.reserve((size_t)k); break;
        case 's': if ((size_t)k >= n) { v.resize((size_t)k); for (size_t i = n; i < v.size(); i++) v[i] = (long)i; } break;      // growing resize only: shrinking ends the address-stability window
        }
        if (!note()) return false;
    }
    long n = (long)v.size(); if (n == 0) return true;
    std::string from = kv(line, "from"); V::iterator it; long idx;
    if (from[0] == 'p' && push_idx >= 0) { it = from_push; idx = push_idx; }
    else if (from[0] == 'g' && grow_idx >= 0) { long off = atol(from.c_str() + 2); it = from_grow; idx = grow_idx; if (grow_idx + off < n) { it += off; idx += off; } }
    else { long k2 = from.size() > 2 ? atol(from.c_str() + 2) : 0; if (k2 > n) k2 = n; it = v.begin() + k2; idx = k2; }
    V::const_iterator cit = it;
    auto check = [&](const char* after) -> bool {
        if (it - v.begin() != idx) return fail(std::string("after ") + after + ": it - begin() is " + num(it - v.begin()) + ", expected " + num(idx));
        if (cit - v.cbegin() != idx) return fail(std::string("after ") + after + ": const_iterator - cbegin() is " + num(cit - v.cbegin()) + ", expected " + num(idx));
        if (idx < n) {
            if (&*it != &v[(size_t)idx]) return fail(std::string("after ") + after + ": &*it differs from &v[" + num(idx) + "]");
            if (*it != idx) return fail(std::string("after ") + after + ": *it is " + num(*it) + " at index " + num(idx));
            if (&*cit != &v[(size_t)idx]) return fail(std::string("after ") + after + ": &*const_iterator differs from &v[" + num(idx) + "]");
        }
        if ((it == v.end()) != (idx == n) || (it < v.end()) != (idx < n)) return fail(std::string("after ") + after + ": comparison with end() wrong at index " + num(idx));
        return true; };
    if (!check("start")) return false;
    int crossings = 0;
    for (auto& w : split(kv(line, "walk"), ',')) {
        long d = w.size() > 1 ? atol(w.c_str() + 1) : 1; long old = idx;
        switch (w[0]) {
        case '+': if (idx < n) { ++it; ++cit; idx++; } break;
        case '-': if (idx > 0) { --it; --cit; idx--; } break;
        case 'i': if (idx < n) { it++; cit++; idx++; } break;
        case 'd': if (idx > 0) { it--; cit--; idx--; } break;
        case 'a': if (idx + d <= n) { it += d; cit += d; idx += d; } break;
        case 's': if (idx - d >= 0) { it -= d; cit -= d; idx -= d; } break;
        }
        // a power of two >= 2 between the two positions = a segment boundary was crossed (first segment holds indices 0 and 1)
        for (long b = 2; b <= n; b *= 2) if ((old < b) != (idx < b)) crossings++;
        if (!check(w.c_str())) return false;
    }
    if (crossings > 0) g_nontrivial = true;
    return true;
}

static std::string gen_case() {
    using namespace rc;
    auto pick = [](int lo, int hi) { return *gen::resize(100, gen::inRange(lo, hi + 1)); };
    std::string build; int nb = pick(1, 5);
    for (int i = 0; i < nb; i++) { static const char K[] = { 'p', 'p', 'g', 't', 'r', 's' }; char k = K[pick(0, 5)]; int a = k == 'p' ? pick(1, 9) : k == 'g' ? pick(1, 20) : pick(0, 70); build += (i ? "," : "") + std::string(1, k) + std::to_string(a); }
    static const char* FR[] = { "b", "p", "g" }; std::string from = FR[pick(0, 2)]; from += ":" + std::to_string(pick(0, 40));
    std::string walk; int nw = pick(1, 25);
    for (int i = 0; i < nw; i++) { static const char W[] = { '+', '-', '-', 'i', 'd', 'a', 's' }; char k = W[pick(0, 6)]; walk += (i ? "," : "") + std::string(1, k); if (k == 'a' || k == 's') walk += std::to_string(pick(1, 9)); }
    return "iter build=" + build + " from=" + from + " walk=" + walk;
}
static unsigned long long fnv(const std::string& s) { unsigned long long h = 1469598103934665603ull; for (unsigned char c : s) { h ^= c; h *= 1099511628211ull; } return h; }

int main(int argc, char** argv) {
    if (argc >= 3 && std::string(argv[1]) == "replay") { std::ifstream f(argv[2]); std::string l; while (std::getline(f, l)) { if (l.empty() || l[0] == '#') continue; bool ok = run_case(l); printf("%s %s\n", ok ? "OK" : "VIOLATION ITERATOR", g_err.c_str()); return ok ? 0 : 1; } return 2; }
    auto t0 = std::chrono::steady_clock::now();
    unsigned long long evals = 0; std::set<unsigned long long> nt; std::string sample, failing;
    bool ok = rc::check("concurrent_vector iterators follow the index model", [&] {
        std::string c = gen_case(); evals++;
        bool good = run_case(c);
        if (good && g_nontrivial) { nt.insert(fnv(c)); if (sample.empty()) sample = c; }
        if (!good) failing = c;
        RC_ASSERT(good);
    });
    std::string viol;
    if (!ok && !failing.empty() && !run_case(failing)) {
        std::string path = std::string(getenv("VERIF_REPLAY_DIR") ? getenv("VERIF_REPLAY_DIR") : ".") + "/C11-iter-" + std::to_string(fnv(failing) % 100000000ull) + ".case";
        FILE* fp = fopen(path.c_str(), "w"); if (fp) { fprintf(fp, "%s\n# verdict: VIOLATION ITERATOR %s\n", failing.c_str(), g_err.c_str()); fclose(fp); }
        viol = "{\"kind\":\"ITERATOR\",\"detail\":\"" + g_err + "\",\"replay\":\"" + path + "\",\"case\":\"" + failing + "\"}";
    }
    double wall = std::chrono::duration<double>(std::chrono::steady_clock::now() - t0).count();
    std::string j = "{\"evaluations\":" + std::to_string(evals) + ",\"nontrivial_hashes\":[";
    bool f = true; int n = 0; for (auto h : nt) { if (n++ >= 4000) break; char b[40]; snprintf(b, sizeof b, "%s\"i%llx\"", f ? "" : ",", h); j += b; f = false; }
    j += "],\"classes\":{\"iterator_walk_crossed_segment_boundary\":" + std::to_string(nt.size()) + "},\"sums\":{},\"samples\":[\"" + sample + "\"],\"inconclusive\":0,\"wall_s\":" + std::to_string(wall) + ",\"violations\":[" + viol + "]}";
    fflush(stderr); puts(j.c_str());
    return viol.empty() ? 0 : 1;
}
