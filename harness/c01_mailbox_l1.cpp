// C01 (whitebox L1) -- mail_outbox / task_proxy: every mailed proxy is received exactly once and a proxy's task is claimed by
// exactly one of its two locations (mailbox, task pool).  Optional leg: includes the internal header src/tbb/mailbox.h.
//
// program:  mbox pushers=<n> claimers=<0|1>
//           p <i> <k> W<w> ...      pusher i mails k proxies, w work between them
//           r W<w> ...              receiver: pops until it has seen every proxy (work w between pops)
// The receiver claims the task of a popped proxy with extract_task<mailbox_bit>; if claimers=1 a second thread plays the
// sender's task pool and claims each proxy with extract_task<pool_bit> (affinity: mailed AND kept in the pool).
#include "scheduler_common.h"
#include "mailbox.h"
#include "../engine/drv/drv.h"

const char* H_PROP = "C01";
bool H_TSO = true;
using namespace tbb::detail;

std::string h_gen(Src& s) {
    int np = s.range(1, 3); int cl = (int)s.choose(2);
    std::string o = "mbox pushers=" + std::to_string(np) + " claimers=" + std::to_string(cl) + "\n";
    for (int i = 0; i < np; i++) { o += "p " + std::to_string(i) + " " + std::to_string(s.range(1, 4)); int n = s.range(0, 3); for (int k = 0; k < n; k++) o += " W" + std::to_string(s.range(0, 5)); o += "\n"; }
    o += "r"; int n = s.range(0, 4); for (int k = 0; k < n; k++) o += " W" + std::to_string(s.range(0, 6)); o += "\n";
    return o;
}

struct FakeTask : d1::task { d1::task* execute(d1::execution_data&) override { return nullptr; } d1::task* cancel(d1::execution_data&) override { return nullptr; } };
static r1::mail_outbox* box; static std::vector<r1::task_proxy*> proxies; static std::vector<FakeTask*> tasks; static std::vector<int> popped, claimed_mail, claimed_pool;
static std::vector<int> p_count; static std::vector<std::vector<int>> p_work; static std::vector<int> r_work; static int g_total = 0, g_claimers = 0;
static std::vector<char> pushed_flag; static long n_pop_null = 0, n_overlap = 0; static int n_pushing = 0, n_popping = 0, n_push_started = 0;
static int idx_of(r1::task_proxy* p) { for (size_t i = 0; i < proxies.size(); i++) if (proxies[i] == p) return (int)i; return -1; }

static void pusher(void* a) {
    int i = (int)(intptr_t)a; int base = 0; for (int k = 0; k < i; k++) base += p_count[k];
    for (int k = 0; k < p_count[i]; k++) {
        if (k < (int)p_work[i].size()) vs_work(p_work[i][k]);
        n_pushing++; n_push_started++; if (n_popping) n_overlap++;
        box->push(proxies[(size_t)(base + k)]);
        n_pushing--; pushed_flag[(size_t)(base + k)] = 1;
    }
}
static void claimer(void*) {   // plays the sender's task pool: claims every proxy once it has been mailed
    for (int i = 0; i < g_total; i++) {
        vs_block_until([i] { return pushed_flag[(size_t)i] != 0; });
        d1::task* t = proxies[(size_t)i]->extract_task<r1::task_proxy::pool_bit>();
        if (t) { if (t != tasks[(size_t)i]) vs_violation("WRONG-TASK", "pool side extracted a foreign task from proxy %d", i); claimed_pool[(size_t)i]++; }
    }
}
static void receiver(void*) {
    r1::mail_inbox inbox; inbox.attach(*box); int got = 0; size_t wi = 0;
    while (got < g_total) {
        if (wi < r_work.size()) vs_work(r_work[wi++]);
        int started_before = n_push_started;
        n_popping++; if (n_pushing) n_overlap++;
        r1::task_proxy* p = inbox.pop(r1::no_isolation);
        n_popping--;
        if (!p) {
            n_pop_null++;
            bool all_pushed = true; for (char f : pushed_flag) if (!f) all_pushed = false;
            if (all_pushed && n_pushing == 0) {     // every push has returned: an empty answer now means an item was dropped
                r1::task_proxy* q = inbox.pop(r1::no_isolation);
                if (!q) vs_violation("MAIL-LOST", "mailbox reports empty after all %d pushes returned, only %d proxies received", g_total, got);
                p = q;
            } else { if (n_pushing == 0) vs_block_until([started_before] { return n_push_started > started_before; }); else vs_work(1); continue; }
        }
        int i = idx_of(p); if (i < 0) vs_violation("MAIL-INVENTED", "popped an unknown proxy");
        if (++popped[(size_t)i] > 1) vs_violation("MAIL-TWICE", "proxy %d received twice", i);
        got++;
        d1::task* t = p->extract_task<r1::task_proxy::mailbox_bit>();
        if (t) { if (t != tasks[(size_t)i]) vs_violation("WRONG-TASK", "mailbox side extracted a foreign task from proxy %d", i); claimed_mail[(size_t)i]++; }
    }
}

void h_run(Case& c) {
    for (auto& l : c.lines) {
        auto w = split_ws(l);
        if (w[0] == "mbox") { g_claimers = (int)kvl(l, "claimers", 0); }
        else if (w[0] == "p") { p_count.push_back(atoi(w[2].c_str())); std::vector<int> ws; for (size_t i = 3; i < w.size(); i++) ws.push_back(atoi(w[i].c_str() + 1)); p_work.push_back(ws); }
        else if (w[0] == "r") { for (size_t i = 1; i < w.size(); i++) r_work.push_back(atoi(w[i].c_str() + 1)); }
    }
    for (int k : p_count) g_total += k;
    vs_begin(c.sched.c_str());
    vs_on_deadlock([](const char* d) { vs_violation("MAIL-LOST", "receiver or claimer waits for ever: %s", d); });
    vs_on_fixpoint([](const char* d) { vs_violation("MAIL-SPIN", "%s", d); });
    void* mem = std::calloc(1, sizeof(r1::mail_outbox) + 128); box = new ((void*)(((uintptr_t)mem + 127) & ~(uintptr_t)127)) r1::mail_outbox; box->construct();
    popped.assign((size_t)g_total, 0); claimed_mail.assign((size_t)g_total, 0); claimed_pool.assign((size_t)g_total, 0); pushed_flag.assign((size_t)g_total, 0);
    for (int i = 0; i < g_total; i++) {
        FakeTask* t = new FakeTask; tasks.push_back(t);
        r1::task_proxy* p = new r1::task_proxy; p->outbox = box; p->slot = 1;
        p->task_and_tag.store((intptr_t)t | (g_claimers ? r1::task_proxy::location_mask : r1::task_proxy::mailbox_bit), std::memory_order_relaxed);
        p->next_in_mailbox.store(nullptr, std::memory_order_relaxed); proxies.push_back(p);
    }
    std::vector<int> ids; for (size_t i = 0; i < p_count.size(); i++) ids.push_back(vs_thread_start(pusher, (void*)(intptr_t)i));
    if (g_claimers) ids.push_back(vs_thread_start(claimer, nullptr));
    receiver(nullptr);
    for (int id : ids) vs_thread_join(id);
    vs_end();
    for (int i = 0; i < g_total; i++) {
        if (popped[(size_t)i] != 1) vs_violation("MAIL-LOST", "proxy %d received %d times", i, popped[(size_t)i]);
        int cl = claimed_mail[(size_t)i] + claimed_pool[(size_t)i];
        if (cl != 1) vs_violation(cl ? "TASK-CLAIMED-TWICE" : "TASK-UNCLAIMED", "task of proxy %d claimed %d times (mailbox %d, pool %d)", i, cl, claimed_mail[(size_t)i], claimed_pool[(size_t)i]);
    }
    vs_stat_add("n_proxies", g_total); vs_stat_add("n_overlap", n_overlap); vs_stat_add("n_pop_null", n_pop_null); vs_stat_flag("mailbox_l1");
    vs_stat_add("nt", n_overlap > 0 ? 1 : 0);
    vs_ok();
}
int main(int argc, char** argv) { return drv_main(argc, argv); }
