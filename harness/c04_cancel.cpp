// C04 -- cancellation reaches every descendant context and nothing else; exactly one winner.   DESIGN.md s.6 C04.
//
// The context forest is built BY RUNNING CODE: a unit running under context P creates a heap context C and uses it for an
// inner parallel_for over its sub-units -- that binds C to P (task_dispatcher::execute_and_wait -> bind_to, also when P
// is already cancelled; only the loop body is skipped then) and leaves C registered in the binding thread's list.
//
// program text:
//   cfg par=<2..4> ext=<0..2> top=<1..3> again=<0|w>     again: after the judged first round the outer context is reset() and the outer task_group is used a
//                                                       second time; a task of it cancels context 0 after w points: every context still bound beneath it must get cancelled
//   b <unit> <op> ...      builder unit; units 0..top-1 are the tasks of the outer task_group (context 0, a root)
//      W<k>                     k decision points of work
//      N<c>:<kind>:<del>:<u>[,<u>...]   create context c (kind 1 bound / 0 isolated), parallel_for(simple, grain 1) over the sub-units
//                               under it; del 1: the builder deletes c after the loop, del 2: an x thread deletes it, 0: kept
//      K<up>                    cancel_group_execution() on the up-th enclosing context of the running unit (0 = own)
//      Z<c>:<kind>:<del>:<u>..  like N, but c is cancelled by its creator before its first use (must stay cancelled, loop body must not run)
//   x <e> <op> ...         extra external thread:  W<k> | K<c> cancel context c once it is bound | k<c> cancel c as soon as the object exists (races with its
//                          own first use) | D<c> delete c once its loop returned
// Oracle (after the outer wait returned, all x threads returned, quiescence): see judge().
#include "oneapi/tbb/task_group.h"
#include "oneapi/tbb/parallel_for.h"
#include "oneapi/tbb/global_control.h"
#include "oneapi/tbb/partitioner.h"
#include "../engine/drv/drv.h"

const char* H_PROP = "C04";
bool H_TSO = true;

static const int MAXC = 12;

// ------------------------------------------------------------------ generator
struct GCtx { int id, depth; bool leaf = true; int del = 0; bool xtarget = false; };
struct GenSt { Src& s; int next_unit, next_ctx, max_ctx; std::vector<std::pair<int, std::string>> lines; std::vector<GCtx> ctxs; bool any_cancel = false; };
// the text of a unit is assembled with placeholders "@<c>@" for the del field of context c (decided after the x scripts)
static void gen_unit(GenSt& g, int uid, int depth /* number of generated contexts enclosing this unit */, int encl /* enclosing generated ctx or 0 */) {
    std::string o;
    int nops = g.s.range(1, 3);
    for (int k = 0; k < nops; k++) {
        bool can_new = depth < 4 && g.next_ctx <= g.max_ctx;
        uint32_t c = g.s.weighted({ can_new ? 6u : 0u, 3, 1 });
        if (!can_new && c == 0) c = 1;
        if (c == 0) {
            int id = g.next_ctx++; int kind = g.s.coin(6) ? 0 : 1; int nsub = 1 + (int)g.s.weighted({ 4, 3, 1 });
            bool pre = g.s.coin(10);      // cancelled by its creator before the first use: must stay cancelled, its loop must not run
            GCtx gc; gc.id = id; gc.depth = depth + 1; gc.xtarget = pre; g.ctxs.push_back(gc); if (pre) { nsub = 1; g.any_cancel = true; }
            if (encl > 0) for (auto& x : g.ctxs) if (x.id == encl) x.leaf = false;
            o += std::string(pre ? " Z" : " N") + std::to_string(id) + ":" + std::to_string(kind) + ":@" + std::to_string(id) + "@:";
            std::vector<int> subs;
            for (int i = 0; i < nsub; i++) { int u = g.next_unit++; subs.push_back(u); o += (i ? "," : "") + std::to_string(u); }
            for (int u : subs) { if (pre) g.lines.push_back({ u, " W1" }); else gen_unit(g, u, depth + 1, id); }
        } else if (c == 1) o += " W" + std::to_string(g.s.range(1, 6));
        else { o += " K" + std::to_string(g.s.range(0, std::min(depth, 3))); g.any_cancel = true; }
    }
    g.lines.push_back({ uid, o });
}
std::string h_gen(Src& s) {
    if (drv_flag("--witness2")) {     // known finding: a cancel issued on a context before its first use is overwritten when the context binds below a parent that has a parent
        return "cfg par=2 ext=1 top=1 witness=2\nb 0 N1:1:0:1\nb 1 W" + std::to_string(s.range(1, 3)) + " N2:1:0:2\nb 2 Z3:1:0:3\nb 3 W1\nx 0 W1\n";
    }
    int par = 2 + (int)s.weighted({ 2, 3, 2 });
    int top = 1 + (int)s.weighted({ 3, 4, 2 });
    int ext = 1 + (int)s.weighted({ 5, 3 });   // at least one x thread: cancels concurrent with binds
    static const int budgets[] = { 4, 3, 6, 8, 11 };
    GenSt g{ s, top, 1, budgets[s.choose(5)], {}, {} };
    for (int u = 0; u < top; u++) gen_unit(g, u, 0, 0);
    if (g.ctxs.empty()) { g.lines.clear(); g.next_unit = top; g.next_ctx = 1; GCtx gc; gc.id = 1; gc.depth = 1; g.ctxs.push_back(gc); g.next_ctx = 2; g.lines.push_back({ 0, " N1:1:@1@:" + std::to_string(top) }); g.lines.push_back({ top, " W1" }); for (int u = 1; u < top; u++) g.lines.push_back({ u, " W1" }); }
    // x scripts: cancels of generated targets (duplicates wanted), waits
    std::vector<std::string> xs((size_t)ext);
    int last_t = -1;
    for (int e = 0; e < ext; e++) {
        int nops = s.range(1, 3); bool has_k = false;
        for (int k = 0; k < nops; k++) {
            uint32_t c = s.weighted({ 5, 2 });
            if (k == nops - 1 && !has_k) c = 0;
            if (c == 0) {
                int t; if (last_t >= 0 && s.coin(3)) t = last_t; else t = g.ctxs[s.choose((uint32_t)g.ctxs.size())].id;
                // prefer targets that have something below them
                if (g.ctxs[(size_t)t - 1].leaf && s.flip()) t = g.ctxs[s.choose((uint32_t)g.ctxs.size())].id;
                last_t = t; g.ctxs[(size_t)t - 1].xtarget = true; xs[(size_t)e] += (s.coin(3) ? " k" : " K") + std::to_string(t); has_k = true;
            } else xs[(size_t)e] += " W" + std::to_string(s.range(1, 12));
        }
    }
    // destruction of leaf contexts nobody else may touch
    for (auto& c : g.ctxs) if (c.leaf && !c.xtarget) { c.del = (int)s.weighted({ 4, 1, 2 }); if (c.del == 2) xs[s.choose((uint32_t)ext)] += " D" + std::to_string(c.id); }
    std::string o = "cfg par=" + std::to_string(par) + " ext=" + std::to_string(ext) + " top=" + std::to_string(top) + " again=" + std::to_string(s.coin(3) ? s.range(1, 6) : 0) + "\n";
    std::sort(g.lines.begin(), g.lines.end());
    for (auto& l : g.lines) {
        std::string t = l.second;
        for (auto& c : g.ctxs) { std::string ph = "@" + std::to_string(c.id) + "@"; size_t p = t.find(ph); if (p != std::string::npos) t.replace(p, ph.size(), std::to_string(c.del)); }
        o += "b " + std::to_string(l.first) + t + "\n";
    }
    for (int e = 0; e < ext; e++) o += "x " + std::to_string(e) + xs[(size_t)e] + "\n";
    return o;
}

// ------------------------------------------------------------------ interpreter
struct Op { char c; int a = 0, kind = 1, del = 0; std::vector<int> subs; };
struct Ctx {
    tbb::task_group_context* p = nullptr; bool created = false, deleted = false, ready = false, done = false; int kind = 1;
    int bparent = -1 /* expected parent along the bound chain */, eparent = -1 /* context of the creating unit */, bind_thread = -1;
    uint64_t t0 = 0, t1 = 0;    // the bind happened inside [t0,t1]
    bool body_ran = false, precancel = false;
};
struct CancelRec { int target; uint64_t inv, ret; bool res; int thread; };
static std::vector<std::vector<Op>> B; static std::vector<std::vector<Op>> X;
static Ctx C[MAXC + 1]; static std::vector<CancelRec> K; static bool builders_done = false, g_witness = false;
static thread_local int cur_ctx = -1;
static long n_skipped_units = 0, n_units_run = 0, n_early_cancel = 0;

static void do_cancel(int t) {
    CancelRec r; r.target = t; r.thread = vs_self(); r.inv = vs_now();
    r.res = C[t].p->cancel_group_execution();
    r.ret = vs_now(); K.push_back(r);
}
static void run_unit(int u, int ctx);
// The harness publishes "c is bound" through plain memory, which the TSO sub-model does not buffer, while the binder's relaxed
// store of the inherited flag is buffered: a real x86 drains FIFO, so publish only after a fence (drains the simulated buffer).
static void mark_ready(int c) { if (!C[c].ready) { if (vs_tso_on) std::atomic_thread_fence(std::memory_order_seq_cst); C[c].ready = true; C[c].t1 = vs_now(); } }
static void run_ops(int u) {
    for (auto& op : B[(size_t)u]) {
        switch (op.c) {
        case 'W': vs_work(op.a); break;
        case 'K': { int t = cur_ctx; for (int i = 0; i < op.a && C[t].eparent >= 0; i++) t = C[t].eparent; do_cancel(t); break; }
        case 'N': case 'Z': {
            int c = op.a; Ctx& x = C[c];
            if (x.created) vs_inconclusive("BAD-CASE", "context %d created twice", c);
            x.kind = op.kind; x.eparent = cur_ctx; x.bparent = op.kind ? cur_ctx : -1; x.bind_thread = vs_self();
            x.p = new tbb::task_group_context(op.kind ? tbb::task_group_context::bound : tbb::task_group_context::isolated);
            if (vs_tso_on) std::atomic_thread_fence(std::memory_order_seq_cst);      // the constructor's stores are visible before the harness publishes the object
            x.created = true;
            if (op.c == 'Z') { x.precancel = true; do_cancel(c); if (!x.p->is_group_execution_cancelled()) vs_violation("CANCEL-NO-EFFECT", "context %d not cancelled right after cancel_group_execution", c); }
            x.t0 = vs_now();
            const std::vector<int>* subs = &op.subs;
            tbb::parallel_for(tbb::blocked_range<int>(0, (int)subs->size(), 1), [c, subs](const tbb::blocked_range<int>& r) {
                mark_ready(c); C[c].body_ran = true;
                for (int i = r.begin(); i < r.end(); i++) run_unit((*subs)[(size_t)i], c);
            }, tbb::simple_partitioner(), *x.p);
            mark_ready(c); x.done = true;
            if (x.precancel && x.body_ran) vs_violation("CANCEL-BEFORE-BIND-LOST", "context %d was cancelled (cancel_group_execution returned %s) before its first use, yet the loop run under it executed its body", c, "true/false");
            if (op.del == 1) { delete x.p; x.deleted = true; }
            break; }
        }
    }
}
static void run_unit(int u, int ctx) { int saved = cur_ctx; cur_ctx = ctx; n_units_run++; run_ops(u); cur_ctx = saved; }
static void x_thread(void* p) {
    int e = (int)(intptr_t)p;
    for (auto& op : X[(size_t)e]) {
        if (op.c == 'W') vs_work(op.a);
        else if (op.c == 'K') { int t = op.a; vs_block_until([t] { return C[t].ready || builders_done; }); if (C[t].ready && !C[t].deleted) do_cancel(t); }
        else if (op.c == 'k') { int t = op.a; vs_block_until([t] { return C[t].created || builders_done; }); if (C[t].created && !C[t].deleted) { if (!C[t].ready) n_early_cancel++; do_cancel(t); } }
        else if (op.c == 'D') { int t = op.a; vs_block_until([t] { return C[t].done || builders_done; }); if (C[t].done && !C[t].deleted) { delete C[t].p; C[t].deleted = true; } }
    }
}
static bool targeted(int c) { for (auto& k : K) if (k.target == c) return true; return false; }

static std::string dump() {
    std::string o = "cancels:"; char b[128];
    for (auto& k : K) { snprintf(b, sizeof b, " ctx%d@[%lu,%lu]=%d(t%d)", k.target, (unsigned long)k.inv, (unsigned long)k.ret, (int)k.res, k.thread); o += b; }
    o += " binds:";
    for (int c = 1; c <= MAXC; c++) if (C[c].created) { snprintf(b, sizeof b, " %d->%d@[%lu,%lu](t%d)%s", c, C[c].bparent, (unsigned long)C[c].t0, (unsigned long)C[c].t1, C[c].bind_thread, C[c].deleted ? "del" : ""); o += b; }
    return o;
}
static void judge(bool r0_reset_expected) {
    long n_live = 0, n_cancelled = 0, n_inherit = 0, n_overlap = 0, n_overlap_deep = 0, n_cross = 0, n_excluded = 0, n_dup_race = 0, n_destroyed = 0;
    bool tainted[MAXC + 1] = {};      // ids are handed out parent-first, so a parent is judged before its children
    for (int c = 0; c <= MAXC; c++) {
        Ctx& x = C[c]; if (!x.created) continue;
        if (x.deleted) { n_destroyed++; continue; }
        n_live++;
        int src = -1; for (int a = c; a >= 0; a = C[a].bparent) if (targeted(a)) { src = a; break; }
        bool expect = src >= 0, actual = x.p->is_group_execution_cancelled();
        if (c == 0 && r0_reset_expected) {
            if (actual) vs_violation("RESET-MISSING", "the outer task_group was cancelled and waited for, but its context still reports cancellation after wait()");
            continue;
        }
        if (actual) n_cancelled++;
        // non-triviality: the bind of c overlapped (in logical time) a winning cancel call on a strict bound ancestor
        bool ov = false, ov_deep = false;
        for (auto& k : K) if (k.res && k.target != c && k.inv <= x.t1 && x.t0 <= k.ret) {
            int lv = 0; for (int a = C[c].bparent; a >= 0; a = C[a].bparent) { lv++; if (a == k.target) { ov = true; if (lv >= 2) ov_deep = true; break; } }
        }
        if (ov) n_overlap++; if (ov_deep) n_overlap_deep++;
        bool cross = x.bparent >= 0 && C[x.bparent].bind_thread != x.bind_thread; if (cross) n_cross++;
        if (expect && src != c && !x.body_ran) n_inherit++;
        if (expect && !actual) {
            // Diagnosis only (these four shapes were genuine defects of bind_to_impl/propagate, fixed in /repo by "fix: a task_group_context bound during
            // a concurrent cancellation could miss it"; they are part of the default domain and every miss is a violation).  The kind names the window:
            //  DEEP      winning cancel of a grand-ancestor overlaps the bind (binder's fall-back re-copy must be serialized with the propagation);
            //  ROOT      parent without a parent: the copy after registration must not overwrite the propagator's painting;
            //  FALLBACK  same lost update in the fall-back re-copy when a second propagation forced the fall-back;
            //  HINT      (TSO) may_have_children store still buffered when the parent's flag is read speculatively;
            //  INHERITED the parent is itself such a miss.   Anything else: MISSED-DESCENDANT.
            const char* why = nullptr; int P = x.bparent;
            if (P >= 0 && tainted[P]) why = "BIND-RACE-INHERITED";
            else if (P >= 0) {
                bool ok = true, any = false;
                for (auto& k : K) if (k.res) {
                    int lv = 0, a = c; for (; a >= 0 && a != k.target; a = C[a].bparent) lv++;
                    if (a < 0) continue;
                    any = true;
                    if (lv == 0 || !(k.inv <= x.t1 && x.t0 <= k.ret)) { ok = false; break; }
                    if (lv >= 2) why = "BIND-RACE-DEEP";
                    else if (C[P].bparent < 0) why = "BIND-RACE-ROOT";
                    else {
                        bool other = false, first = true;
                        for (auto& k2 : K) if (&k2 != &k && k2.res && k2.inv <= x.t1 && x.t0 <= k2.ret) other = true;
                        for (int sb = 1; sb <= MAXC; sb++) if (sb != c && C[sb].created && C[sb].bparent == P && C[sb].t1 < k.inv) first = false;
                        if (other) why = "BIND-RACE-FALLBACK"; else if (vs_tso_on && first) why = "BIND-RACE-HINT";
                    }
                }
                if (!ok || !any) why = nullptr;
            }
            if (src == c) for (auto& k : K) if (k.target == c && k.res && k.inv <= x.t1) why = "CANCEL-BEFORE-BIND-LOST";     // cancelled before / while it was bound
            if (why) tainted[c] = true;
            vs_violation(why ? why : "MISSED-DESCENDANT", "context %d (bound parent %d, bound by thread %d, parent bound by thread %d) is not cancelled although its ancestor %d was the target of cancel_group_execution (bind in [%lu,%lu]); %s",
                         c, x.bparent, x.bind_thread, x.bparent >= 0 ? C[x.bparent].bind_thread : -1, src, (unsigned long)x.t0, (unsigned long)x.t1, dump().c_str());
        }
        if (!expect && actual)
            vs_violation("SPURIOUS-CANCEL", "context %d (kind %s, bound parent %d) is cancelled but neither it nor any ancestor along the bound chain was a cancel target", c, x.kind ? "bound" : "isolated", x.bparent);
    }
    // winners
    for (int c = 0; c <= MAXC; c++) {
        int calls = 0, wins = 0; for (auto& k : K) if (k.target == c) { calls++; wins += k.res ? 1 : 0; }
        if (!calls) continue;
        if (wins > 1) vs_violation("TWO-WINNERS", "%d of %d cancel_group_execution calls on context %d returned true", wins, calls, c);
        bool anc_target = false; for (int a = C[c].bparent; a >= 0; a = C[a].bparent) if (targeted(a)) anc_target = true;
        if (wins == 0 && !anc_target) vs_violation("NO-WINNER", "none of the %d cancel_group_execution calls on context %d returned true and no ancestor was cancelled", calls, c);
        for (size_t i = 0; i < K.size(); i++) for (size_t j = i + 1; j < K.size(); j++) if (K[i].target == c && K[j].target == c && K[i].inv <= K[j].ret && K[j].inv <= K[i].ret) n_dup_race++;
    }
    vs_stat_add("n_ctx", n_live + n_destroyed); vs_stat_add("n_cancel_calls", (long)K.size()); vs_stat_add("n_cancelled", n_cancelled); vs_stat_add("n_bind_overlap", n_overlap);
    vs_stat_add("n_bind_overlap_deep", n_overlap_deep); vs_stat_add("n_cross_thread_bind", n_cross); vs_stat_add("n_inherit_at_bind", n_inherit); vs_stat_add("n_destroyed", n_destroyed);
    vs_stat_add("n_excluded", n_excluded); vs_stat_add("n_units", n_units_run);
    if (n_overlap) vs_stat_flag("bind_overlaps_propagation"); if (n_overlap_deep) vs_stat_flag("bind_overlaps_grandancestor_propagation"); if (n_cross) vs_stat_flag("cross_thread_bind");
    if (n_inherit) vs_stat_flag("inherited_at_bind"); if (n_dup_race) vs_stat_flag("concurrent_cancels_one_target"); if (n_destroyed) vs_stat_flag("leaf_destroyed");
    if (n_cross && n_overlap) vs_stat_flag("cross_thread_bind_overlap");
    { long npre = 0; for (int c = 1; c <= MAXC; c++) if (C[c].precancel) npre++; if (npre) vs_stat_flag("cancelled_before_first_use"); if (n_early_cancel) vs_stat_flag("cancel_races_own_bind"); vs_stat_add("n_early_cancel", n_early_cancel + npre); }
    vs_stat_add("nt", n_overlap > 0 ? 1 : 0);
}

void h_run(Case& c) {
    int par = 2, ext = 1, top = 1, again = 0;
    for (auto& l : c.lines) {
        auto w = split_ws(l);
        if (w[0] == "cfg") { par = (int)kvl(l, "par", 2); ext = (int)kvl(l, "ext", 1); top = (int)kvl(l, "top", 1); again = (int)kvl(l, "again", 0); g_witness = kvl(l, "witness", 0) != 0; }
        else if (w[0] == "b" || w[0] == "x") {
            size_t id = (size_t)atoi(w[1].c_str()); auto& V = w[0] == "b" ? B : X; if (V.size() <= id) V.resize(id + 1);
            for (size_t i = 2; i < w.size(); i++) {
                Op op; op.c = w[i][0]; const char* s = w[i].c_str() + 1;
                if (op.c == 'N' || op.c == 'Z') {
                    int a = 0, k = 1, d = 0, n = 0; if (sscanf(s, "%d:%d:%d:%n", &a, &k, &d, &n) < 3) vs_inconclusive("BAD-CASE", "bad op %s", w[i].c_str());
                    op.a = a; op.kind = k; op.del = d; if (a < 1 || a > MAXC) vs_inconclusive("BAD-CASE", "bad context id %d", a);
                    for (const char* q = s + n; *q;) { op.subs.push_back(atoi(q)); while (*q && *q != ',') q++; if (*q == ',') q++; }
                    if (op.subs.empty()) vs_inconclusive("BAD-CASE", "N without sub-units");
                } else { op.a = atoi(s); if ((op.c == 'K' || op.c == 'k' || op.c == 'D') && w[0] == "x" && (op.a < 1 || op.a > MAXC)) vs_inconclusive("BAD-CASE", "bad target"); }
                V[id].push_back(op);
            }
        }
    }
    for (auto& b : B) for (auto& op : b) if (op.c == 'N' || op.c == 'Z') for (int u : op.subs) if (u < 0 || (size_t)u >= B.size()) vs_inconclusive("BAD-CASE", "unit %d missing", u);
    if ((int)B.size() < top) B.resize((size_t)top);
    X.resize((size_t)ext); K.reserve(64);
    vs_begin(c.sched.c_str());
    bool r0_targeted;
    {
        tbb::global_control gc(tbb::global_control::max_allowed_parallelism, (size_t)par);
        // context 0: the outer group's context; first used at the outermost level of an external thread => a root
        C[0].p = new tbb::task_group_context(tbb::task_group_context::bound); C[0].created = true; C[0].ready = true; C[0].bind_thread = vs_self();
        tbb::task_group* tg = new tbb::task_group(*C[0].p);
        std::vector<int> tids;
        for (int e = 0; e < ext; e++) tids.push_back(vs_thread_start(x_thread, (void*)(intptr_t)e));
        for (int u = 0; u < top; u++) tg->run([u] { run_unit(u, 0); });
        tg->wait();
        builders_done = true;
        for (int t : tids) vs_thread_join(t);
        vs_wait_quiescent();
        r0_targeted = targeted(0);
        judge(r0_targeted);
        if (again > 0) {
            // second use of the same group and context: reset() (no task of the group is running), then a task cancels the group's context.
            // Every context that is still alive and bound beneath context 0 through bound links only must be cancelled afterwards.
            C[0].p->reset();
            if (C[0].p->is_group_execution_cancelled()) vs_violation("RESET-MISSING", "task_group_context::reset() left the context cancelled");
            int w = again; bool res = false;
            tg->run([w, &res] { vs_work(w); res = C[0].p->cancel_group_execution(); });
            tg->run([w] { vs_work(w / 2); });
            tbb::task_group_status st = tg->wait();
            if (!res) vs_violation("CANCEL-NO-EFFECT", "second round: cancel_group_execution on the reset context returned false");
            if (st != tbb::canceled) vs_violation("CANCEL-NO-EFFECT", "second round: the outer task_group was cancelled but wait() returned %d", (int)st);
            vs_wait_quiescent();
            long n2 = 0;
            for (int c = 1; c <= MAXC; c++) {
                Ctx& x = C[c]; if (!x.created || x.deleted) continue;
                bool under0 = false; for (int a = c; a >= 0; a = C[a].bparent) if (a == 0) { under0 = true; break; }
                if (!under0) continue;
                n2++;
                if (!x.p->is_group_execution_cancelled()) vs_violation("MISSED-DESCENDANT", "second round: context 0 was reset and cancelled again, context %d is still bound beneath it (depth %d) and was not cancelled", c, [&] { int d = 0; for (int a = c; a > 0; a = C[a].bparent) d++; return d; }());
            }
            if (n2) vs_stat_flag("second_round_cancel_reaches_kept_contexts");
        }
        delete tg;
    }
    vs_ok();
}

int main(int argc, char** argv) { return drv_main(argc, argv); }
