// C05 -- parallel loops: the body is applied exactly once to every element and to nothing else, in
// legal chunks (non-empty, pairwise disjoint, covering; a non-divisible range is never split;
// simple_partitioner chunk-size bounds).   DESIGN.md s.6 C05.
//
// program text (one cfg line, then 1-2 loop lines, executed one after the other by the main thread
// inside an explicit task_arena(mc); workers = par-1):
//   cfg par=<1..4> mc=<1..4>
//   for rt=<br|2d|3d|nd> vt=<i32|i64|u64|u8|ptr> part=<simple|auto|static|affinity> dims=<begin>:<size>:<grain>[,...] work=<k>
//         parallel_for over blocked_range<vt> / blocked_range2d / blocked_range3d / blocked_nd_range<vt,#dims>,
//         dimension d = [begin, begin+size) with grainsize grain; the Range is wrapped so that every split is seen
//   step vt=<i32|i64|u64|u8> part=<simple|auto|static|affinity|default> first=<f> last=<l> step=<s> work=<k> ctx=<0|1>
//         parallel_for(first, last, step, f [, partitioner] [, task_group_context])
//   each it=<in|fw|ra> n=<n> kids=<c0,c1,...|-> add=<copy|move> work=<k>
//         parallel_for_each over n items (ids 0..n-1) through an input / forward / random-access iterator; item i
//         feeds kids[i] new items (ids allocated in id order after the initial ones)
//   invoke n=<2..10> work=<k>
//         parallel_invoke with n functors
// work = decision points of "work" inside every body call (lets other threads be scheduled in).
#include "oneapi/tbb/parallel_for.h"
#include "oneapi/tbb/parallel_for_each.h"
#include "oneapi/tbb/parallel_invoke.h"
#include "oneapi/tbb/blocked_range.h"
#include "oneapi/tbb/blocked_range2d.h"
#include "oneapi/tbb/blocked_range3d.h"
#include "oneapi/tbb/blocked_nd_range.h"
#include "oneapi/tbb/partitioner.h"
#include "oneapi/tbb/task_arena.h"
#include "oneapi/tbb/task_group.h"
#include "oneapi/tbb/global_control.h"
#include "../engine/drv/drv.h"

const char* H_PROP = "C05";
bool H_TSO = true;

typedef unsigned __int128 u128;
static const char* PARTS[] = { "simple", "auto", "static", "affinity", "default" };
static std::string u64s(uint64_t v) { return std::to_string((unsigned long long)v); }

// ------------------------------------------------------------------ generator
static const int PRIMES[] = { 2, 3, 5, 7, 11, 13, 17, 31, 37, 61, 97, 127, 131, 199, 251 };
static const int POW2PM[] = { 1, 2, 3, 4, 5, 7, 8, 9, 15, 16, 17, 31, 32, 33, 63, 64, 65, 127, 128, 129, 255, 256, 257 };
static uint64_t gen_small_size(Src& s, uint64_t g, uint64_t cap) {
    uint64_t n;
    switch (s.weighted({ 4, 4, 2, 2, 1 })) {
    case 0: n = (uint64_t)s.range(0, 40); if (n == 0) n = 4; else if (n == 4) n = 0; break;     // all-zero tape -> 4
    case 1: { static const int m[] = { 1, 2, 4, 3, 8 }; uint64_t k = (uint64_t)m[s.choose(5)]; int d = s.range(0, 2) - 1; n = k * g + (uint64_t)d; if (k * g == 0 && d < 0) n = 0; break; }
    case 2: n = (uint64_t)PRIMES[s.choose(15)]; break;
    case 3: n = (uint64_t)POW2PM[s.choose(23)]; break;
    default: n = (uint64_t)s.range(0, 2); break;
    }
    if ((int64_t)n < 0) n = 0;
    return std::min(n, cap);
}
static uint64_t gen_grain(Src& s) {
    switch (s.weighted({ 5, 3, 1 })) {
    case 0: return (uint64_t)s.range(1, 8);
    case 1: { static const int g[] = { 16, 10, 13, 32, 64, 100 }; return (uint64_t)g[s.choose(6)]; }
    default: return (uint64_t)s.range(1, 300);
    }
}
static const uint64_t HUGE32[] = { (1ull << 24) + 1, (1ull << 24) + 3, (1ull << 25) - 1, (1ull << 30) + 1, (1ull << 31) - 1 };
static const uint64_t HUGE64[] = { (1ull << 32) + 1, (1ull << 24) + 1, (1ull << 33) - 1, (1ull << 40) + 7, (1ull << 53) + 1, (1ull << 62) - 1, (1ull << 63) - 1, ~0ull };
static std::string gen_begin(Src& s, const std::string& vt, uint64_t n) {
    uint32_t c = s.choose(4);
    if (vt == "i32") { long long b = c == 0 ? 0 : c == 1 ? -(long long)s.range(1, 60) : c == 2 ? (long long)INT_MAX - (long long)n : (long long)INT_MIN; return std::to_string(b); }
    if (vt == "i64") { if (c == 2) return std::to_string((long long)(LLONG_MAX - (long long)n)); if (c == 3) return std::to_string(LLONG_MIN); return std::to_string(c == 0 ? 0ll : -(long long)s.range(1, 60)); }
    if (vt == "u64") { if (c == 2) return u64s(~0ull - n); return u64s(c == 0 ? 0 : std::min<uint64_t>((uint64_t)s.range(1, 60), ~0ull - n)); }
    if (vt == "u8") { return u64s(c == 0 ? 0 : c == 2 ? 255 - n : (uint64_t)s.range(0, (int)(255 - n))); }
    return u64s(c == 0 ? 0 : (uint64_t)s.range(0, 100));    // ptr: element offset into a static array
}
static std::string gen_for(Src& s) {
    static const char* RT[] = { "br", "2d", "nd", "3d" };
    int rt = (int)s.weighted({ 6, 2, 2, 1 });
    int part = (int)s.choose(4);
    std::string vt = "i32"; int nd = 1;
    if (rt == 0) { static const char* V[] = { "i32", "u64", "i64", "u8", "ptr" }; vt = V[s.weighted({ 4, 2, 2, 1, 1 })]; }
    else if (rt == 1) { nd = 2; vt = s.coin(4) ? "u64" : "i32"; }
    else if (rt == 2) { static const int N[] = { 2, 3, 1, 4 }; nd = N[s.weighted({ 3, 2, 1, 1 })]; }
    else nd = 3;
    bool huge = (rt == 0 && vt != "u8" && vt != "ptr" && s.coin(5)) || (rt == 1 && vt == "u64" && s.coin(3));
    std::string dims;
    if (huge) {
        // chunk algebra only.  simple_partitioner: grain = ceil(size/q) keeps the number of chunks <= 2q
        for (int d = 0; d < nd; d++) {
            uint64_t n, g;
            if (d == 0) {
                n = vt == "i32" ? HUGE32[s.choose(5)] : HUGE64[s.choose(vt == "i64" ? 7 : 8)];
                if (rt == 1) n = std::min<uint64_t>(n, (1ull << 40) + 7);
                uint64_t q = (uint64_t)s.range(1, part == 0 ? (rt == 1 ? 12 : 40) : 4000); g = n / q + (n % q ? 1 : 0);
                if (part != 0 && s.coin(3)) g = (uint64_t)s.range(1, 3);
            } else { g = (uint64_t)s.range(1, 3); n = gen_small_size(s, g, 9); if (n == 0) n = 1; }
            dims += (d ? "," : "") + gen_begin(s, vt, n) + ":" + u64s(n) + ":" + u64s(g);
        }
    } else {
        uint64_t cells = 1;
        for (int d = 0; d < nd; d++) {
            uint64_t g = nd == 1 ? gen_grain(s) : (uint64_t)s.range(1, 5);
            uint64_t cap = nd == 1 ? std::min<uint64_t>(part == 0 ? 64 * g : 300, 4096) : (nd == 2 ? 24 : nd == 3 ? 9 : 5);
            if (vt == "u8") cap = std::min<uint64_t>(cap, 255);
            uint64_t n = gen_small_size(s, g, cap);
            if (nd > 1 && part == 0 && n > 8 * g) n = 8 * g;
            cells *= n;
            dims += (d ? "," : "") + gen_begin(s, vt, n) + ":" + u64s(n) + ":" + u64s(g);
        }
        (void)cells;
    }
    return std::string("for rt=") + RT[rt] + " vt=" + vt + " part=" + PARTS[part] + " dims=" + dims + " work=" + std::to_string(s.range(0, 6)) + " ov=" + std::to_string(part == 1 ? (int)s.weighted({ 4, 1, 2, 1 }) : (int)s.weighted({ 4, 1 }));
}
static std::string gen_step(Src& s) {
    static const char* V[] = { "i32", "u64", "u8", "i64" };
    std::string vt = V[s.weighted({ 4, 2, 1, 2 })]; int part = (int)s.choose(5);
    // count <= 200 iterations; extremes: last at the type's maximum with a step that keeps last+step representable for signed types
    uint64_t count = gen_small_size(s, (uint64_t)s.range(1, 4), part == 0 ? 64 : 200);
    std::string f, l, st;
    uint32_t mode = s.weighted({ 5, 2, 2, 2 });
    if (vt == "u8") { uint64_t step = (uint64_t)s.range(1, 5); count = std::min<uint64_t>(count, 250 / step); uint64_t first = (uint64_t)s.range(0, (int)(255 - count * step)); uint64_t last = count ? first + (count - 1) * step + 1 + (uint64_t)s.range(0, (int)std::min<uint64_t>(step - 1, 255 - (first + (count - 1) * step + 1))) : first; f = u64s(first); l = u64s(last); st = u64s(step); }
    else if (mode == 0 || count == 0) {
        long long step = s.range(1, 7); long long first = vt == "u64" ? s.range(0, 50) : s.range(-50, 50); if (first == -50) first = 0;
        long long last = count ? first + (long long)(count - 1) * step + 1 + s.range(0, (int)step - 1) : (s.flip() ? first : first - (vt == "u64" ? std::min<long long>(first, 3) : 3));
        f = std::to_string(first); l = std::to_string(last); st = std::to_string(step);
    } else if (mode == 1) {   // large step
        uint64_t mx = vt == "i32" ? (uint64_t)INT_MAX : vt == "i64" ? (uint64_t)LLONG_MAX : ~0ull;
        count = std::max<uint64_t>(1, std::min<uint64_t>(count, 40));
        uint64_t step = mx / (count + 2); if (step == 0) step = 1; step -= (uint64_t)s.range(0, 3); if ((int64_t)step <= 0 && vt != "u64") step = 1;
        uint64_t first = (uint64_t)s.range(0, 9); uint64_t last = first + (count - 1) * step + 1 + (uint64_t)s.range(0, 2);
        f = u64s(first); l = u64s(last); st = u64s(step);
    } else if (mode == 3) {   // span and step both close to the type's maximum: (last - first) + step exceeds it, few iterations
        uint64_t mx = vt == "i32" ? (uint64_t)INT_MAX : vt == "i64" ? (uint64_t)LLONG_MAX : ~0ull;
        uint64_t first = (uint64_t)s.range(0, 9), last = mx - (uint64_t)s.range(0, 3);
        uint64_t step = s.flip() ? mx / (uint64_t)s.range(1, 40) - (uint64_t)s.range(0, 3) : (mx >> 1) + 1 + (uint64_t)s.range(0, 3);
        if (step == 0 || step > mx) step = mx;
        f = u64s(first); l = u64s(last); st = u64s(step);
    } else {                  // first near the minimum / last at the maximum, small count
        count = std::max<uint64_t>(1, std::min<uint64_t>(count, 60)); uint64_t step = (uint64_t)s.range(1, 9);
        if (vt == "u64") { uint64_t last = ~0ull - (uint64_t)s.range(0, 3); uint64_t first = last - ((count - 1) * step + 1 + (uint64_t)s.range(0, (int)step - 1)); f = u64s(first); l = u64s(last); }
        else { long long mn = vt == "i32" ? (long long)INT_MIN : LLONG_MIN; long long first = mn + s.range(0, 3); long long last = first + (long long)((count - 1) * step) + 1 + s.range(0, (int)step - 1); f = std::to_string(first); l = std::to_string(last); }
        st = u64s(step);
    }
    return "step vt=" + vt + " part=" + PARTS[part] + " first=" + f + " last=" + l + " step=" + st + " work=" + std::to_string(s.range(0, 4)) + " ctx=" + std::to_string((int)s.choose(2));
}
static std::string gen_each(Src& s) {
    static const char* IT[] = { "ra", "fw", "in" };
    int it = (int)s.choose(3);
    int n = (int)gen_small_size(s, 4, 48);     // 4 = block size of the input/forward paths
    std::string kids; int total = n, budget = 24;
    if (n > 0 && s.weighted({ 1, 2 })) {
        for (int i = 0; i < total && budget > 0; i++) {
            int c = (int)s.weighted({ 6, 3, 1, 1 }); if (c > budget) c = budget;
            budget -= c; total += c; kids += (i ? "," : "") + std::to_string(c);
        }
    }
    if (kids.empty()) kids = "-";
    return std::string("each it=") + IT[it] + " n=" + std::to_string(n) + " kids=" + kids + " add=" + (s.flip() ? "move" : "copy") + " work=" + std::to_string(s.range(0, 6)) + " ov=" + std::to_string(it == 2 ? 0 : (int)s.weighted({ 3, 2, 1, 1 }));
}
std::string h_gen(Src& s) {
    int par = 2 + (int)s.weighted({ 4, 4, 3, 1 }); if (par == 5) par = 1;
    int mc = 2 + (int)s.weighted({ 4, 3, 3, 1 }); if (mc == 5) mc = 1;
    static const int NEST[] = { 0, 2, 3, 5 };
    std::string o = "cfg par=" + std::to_string(par) + " mc=" + std::to_string(mc) + " nest=" + std::to_string(NEST[s.weighted({ 6, 1, 1, 2 })]) + "\n";
    int nops = 1 + (int)s.weighted({ 3, 1 });
    for (int k = 0; k < nops; k++) {
        switch (s.weighted({ 10, 3, 4, 2 })) {
        case 0: o += gen_for(s); break;
        case 1: o += gen_step(s); break;
        case 2: o += gen_each(s); break;
        default: o += "invoke n=" + std::to_string(s.range(2, 10)) + " work=" + std::to_string(s.range(0, 6)) + " ov=" + std::to_string((int)s.coin(3)); break;
        }
        o += "\n";
    }
    return o;
}

// ------------------------------------------------------------------ oracle state
struct Chunk { uint64_t lo[4], hi[4]; int th; };
struct Space {
    int D = 0; uint64_t size[4] = { 1, 1, 1, 1 }, grain[4] = { 1, 1, 1, 1 }; u128 cells = 0; bool counted = false;
    std::vector<unsigned char> cnt; std::vector<Chunk> chunks; int part = 0; bool is_br = false; int caller = 0;
};
static Space SP;
static int g_work = 0;
// cfg nest=<k>: every k-th body / functor invocation runs and waits for a tiny nested task_group while it is inside the body, so the thread may execute
// a sibling subtask of the same loop meanwhile.  On the calling thread the nested task is enqueued into a helper arena (the wait cannot be satisfied from
// the local pool); worker threads use a local task (workers waiting for another arena could use up the workers that arena needs).
static int g_nest = 0; static long g_body_ctr = 0, n_nested = 0, n_remote_sub = 0, n_remote_done = 0, n_local_sub = 0, n_local_done = 0; static tbb::task_arena* g_helper = nullptr; static int g_nest_caller = -1;
// The remote form is used for parallel_for only: parallel_for_each block tasks (and parallel_invoke) wait for their own children inside a task, so a worker
// can sit in such a wait for an item the caller has stolen and is blocked in -- with the caller waiting for the helper arena that only this worker could
// serve, that is a deadlock of the program, not of the library.
static bool g_remote_ok = false;
static void body_work() {
    vs_work(g_work);
    if (!g_nest || (++g_body_ctr % g_nest) != 0) return;
    n_nested++; tbb::task_group tg;
    if (g_helper && g_remote_ok && vs_self() == g_nest_caller) { n_remote_sub++; g_helper->enqueue(tg.defer([] { vs_work(2); n_remote_done++; })); } else { n_local_sub++; tg.run([] { vs_work(1); n_local_done++; }); }
    tg.wait();
}
static long n_chunks = 0, n_chunks_other = 0, n_splits = 0, n_psplits = 0, n_loops = 0, n_items = 0, n_items_other = 0, n_fed = 0, n_nt_loops = 0;
static std::set<std::string> g_flags;
static int ARR[1 << 13];

static std::string boxs(const Chunk& c, int D) { std::string s; for (int d = 0; d < D; d++) s += (d ? "x[" : "[") + u64s(c.lo[d]) + "," + u64s(c.hi[d]) + ")"; return s; }

template <class V> struct Base { static V b[4]; };
template <class V> V Base<V>::b[4];
template <class V> static uint64_t off(V v, V base) { if constexpr (std::is_pointer<V>::value) return (uint64_t)(v - base); else return (uint64_t)v - (uint64_t)base; }
template <class V> static void setd(Chunk& c, int d, const tbb::blocked_range<V>& r) { c.lo[d] = off(r.begin(), Base<V>::b[d]); c.hi[d] = off(r.end(), Base<V>::b[d]); }
template <class V> static int box_of(const tbb::blocked_range<V>& r, Chunk& c) { setd(c, 0, r); return 1; }
template <class V> static int box_of(const tbb::blocked_range2d<V, V>& r, Chunk& c) { setd(c, 0, r.rows()); setd(c, 1, r.cols()); return 2; }
template <class V> static int box_of(const tbb::blocked_range3d<V, V, V>& r, Chunk& c) { setd(c, 0, r.pages()); setd(c, 1, r.rows()); setd(c, 2, r.cols()); return 3; }
template <class V, unsigned N, class S> static int box_of(const tbb::detail::d1::blocked_nd_range_impl<V, N, S>& r, Chunk& c) { for (unsigned d = 0; d < N; d++) setd(c, (int)d, r.dim(d)); return (int)N; }

// Range wrapper: forwards everything to the real range type, sees every split.
template <class R> struct WR {
    R r;
    explicit WR(const R& x) : r(x) {}
    WR(const WR&) = default;
    bool empty() const { return r.empty(); }
    bool is_divisible() const { return r.is_divisible(); }
    static R& pre(WR& o, bool prop) {
        if (!o.r.is_divisible()) { Chunk c{}; int D = box_of(o.r, c); vs_violation("SPLIT-NOT-DIVISIBLE", "range %s (grain %lu..) was split (%s) although is_divisible() is false", boxs(c, D).c_str(), (unsigned long)SP.grain[0], prop ? "proportional" : "even"); }
        if (o.r.empty()) vs_violation("SPLIT-NOT-DIVISIBLE", "an empty range was split");
        if (prop) n_psplits++; else n_splits++;
        return o.r;
    }
    WR(WR& o, tbb::split s) : r(pre(o, false), s) {}
    WR(WR& o, tbb::proportional_split& p) : r(pre(o, true), p) {}
};

static void record_chunk(Chunk& c, bool empty) {
    int D = SP.D; n_chunks++; if (c.th != SP.caller) n_chunks_other++;
    if (empty) vs_violation("EMPTY-CHUNK", "body got a range with empty()==true: %s", boxs(c, D).c_str());
    for (int d = 0; d < D; d++) {
        if (c.lo[d] >= c.hi[d]) vs_violation("EMPTY-CHUNK", "body got an empty/inverted subrange %s (offsets from begin)", boxs(c, D).c_str());
        if (c.hi[d] > SP.size[d]) vs_violation("OUT-OF-RANGE", "body got subrange %s outside the iteration space (size %s in dim %d)", boxs(c, D).c_str(), u64s(SP.size[d]).c_str(), d);
    }
    if (SP.counted) {
        uint64_t i[4] = { c.lo[0], D > 1 ? c.lo[1] : 0, D > 2 ? c.lo[2] : 0, D > 3 ? c.lo[3] : 0 };
        for (;;) {
            uint64_t idx = 0; for (int d = 0; d < D; d++) idx = idx * SP.size[d] + i[d];
            if (++SP.cnt[idx] > 1) vs_violation("RAN-TWICE", "element at offsets (%lu,%lu,%lu,%lu) visited twice; second chunk %s", (unsigned long)i[0], (unsigned long)i[1], (unsigned long)i[2], (unsigned long)i[3], boxs(c, D).c_str());
            int d = D - 1; for (; d >= 0; d--) { if (++i[d] < c.hi[d]) break; i[d] = c.lo[d]; }
            if (d < 0) break;
        }
    }
    SP.chunks.push_back(c);
}
static void judge_loop(const char* what) {
    int D = SP.D; n_loops++;
    if (SP.counted) {
        for (size_t k = 0; k < SP.cnt.size(); k++) if (SP.cnt[k] != 1) vs_violation("MISSED-ELEMENT", "%s returned but element with linear index %zu was visited %d times (%zu chunks)", what, k, (int)SP.cnt[k], SP.chunks.size());
    } else {
        u128 vol = 0;
        for (auto& c : SP.chunks) { u128 v = 1; for (int d = 0; d < D; d++) v *= (c.hi[d] - c.lo[d]); vol += v; }
        for (size_t a = 0; a < SP.chunks.size(); a++) for (size_t b = a + 1; b < SP.chunks.size(); b++) {
            bool ov = true; for (int d = 0; d < D; d++) if (SP.chunks[a].hi[d] <= SP.chunks[b].lo[d] || SP.chunks[b].hi[d] <= SP.chunks[a].lo[d]) ov = false;
            if (ov) vs_violation("RAN-TWICE", "chunks %s and %s overlap", boxs(SP.chunks[a], D).c_str(), boxs(SP.chunks[b], D).c_str());
        }
        if (vol != SP.cells) vs_violation("MISSED-ELEMENT", "%s returned but the chunks cover %s of %s cells (%zu chunks)", what, u64s((uint64_t)vol).c_str(), u64s((uint64_t)SP.cells).c_str(), SP.chunks.size());
    }
    if (SP.cells == 0 && !SP.chunks.empty()) vs_violation("EMPTY-CHUNK", "body called for an empty range");
    if (SP.part == 0) {      // simple_partitioner: divides until not divisible
        for (auto& c : SP.chunks) {
            for (int d = 0; d < D; d++) if (c.hi[d] - c.lo[d] > SP.grain[d]) vs_violation("CHUNK-BOUND", "simple_partitioner handed a divisible chunk %s to the body (grain %s in dim %d)", boxs(c, D).c_str(), u64s(SP.grain[d]).c_str(), d);
            if (SP.is_br) {
                uint64_t n = SP.size[0], g = SP.grain[0], sz = c.hi[0] - c.lo[0];
                if (n <= g) { if (SP.chunks.size() != 1 || sz != n) vs_violation("CHUNK-BOUND", "simple_partitioner, n=%s <= grain=%s: expected one chunk of size n, got %zu chunks (one of size %s)", u64s(n).c_str(), u64s(g).c_str(), SP.chunks.size(), u64s(sz).c_str()); }
                else if (sz < g - g / 2 || sz > g) vs_violation("CHUNK-BOUND", "simple_partitioner, n=%s grain=%s: chunk %s has size %s outside [%s,%s]", u64s(n).c_str(), u64s(g).c_str(), boxs(c, D).c_str(), u64s(sz).c_str(), u64s(g - g / 2).c_str(), u64s(g).c_str());
            }
        }
    }
    bool other = false; for (auto& c : SP.chunks) if (c.th != SP.caller) other = true;
    if (SP.chunks.size() >= 2 && other) { n_nt_loops++; g_flags.insert("stolen_chunk"); }
    if (SP.chunks.size() >= 2) g_flags.insert("multi_chunk");
}

template <class R> struct LoopBody {
    void operator()(const WR<R>& w) const {
        Chunk c{}; c.th = vs_self();
        body_work();
        box_of(w.r, c);
        record_chunk(c, w.empty());
    }
};
static int g_ov = 0;
static void space_reset() { SP.cnt.assign(SP.counted ? (size_t)SP.cells : 0, 0); SP.chunks.clear(); SP.caller = vs_self(); }
template <class R> static void run_for(const R& range, int part) {
    WR<R> w(range); LoopBody<R> body;
    space_reset();
    tbb::task_group_context ctx(tbb::task_group_context::isolated);
    // ov: 0 (range, body, partitioner)   1 (range, body, partitioner, context)   2 (range, body) = default partitioner (only generated with part=auto)   3 (range, body, context)
    if (g_ov == 2) tbb::parallel_for(w, body);
    else if (g_ov == 3) tbb::parallel_for(w, body, ctx);
    else if (part == 0) { if (g_ov == 1) tbb::parallel_for(w, body, tbb::simple_partitioner(), ctx); else tbb::parallel_for(w, body, tbb::simple_partitioner()); }
    else if (part == 1) { if (g_ov == 1) tbb::parallel_for(w, body, tbb::auto_partitioner(), ctx); else tbb::parallel_for(w, body, tbb::auto_partitioner()); }
    else if (part == 2) { if (g_ov == 1) tbb::parallel_for(w, body, tbb::static_partitioner(), ctx); else tbb::parallel_for(w, body, tbb::static_partitioner()); }
    else {
        tbb::affinity_partitioner ap;       // second round replays the recorded affinities
        if (g_ov == 1) tbb::parallel_for(w, body, ap, ctx); else tbb::parallel_for(w, body, ap); judge_loop("parallel_for(affinity, round 1)");
        space_reset(); if (g_ov == 1) tbb::parallel_for(w, body, ap, ctx); else tbb::parallel_for(w, body, ap); g_flags.insert("affinity_replay");
    }
    if (g_ov) g_flags.insert("for_overload_" + std::to_string(g_ov));
    judge_loop("parallel_for");
}
struct Dim { std::string b; uint64_t n, g; };
template <class V> static V mkv(const std::string& s) {
    if constexpr (std::is_pointer<V>::value) return ARR + strtoull(s.c_str(), nullptr, 10);
    else if constexpr (std::is_signed<V>::value) return (V)strtoll(s.c_str(), nullptr, 10);
    else return (V)strtoull(s.c_str(), nullptr, 10);
}
template <class V> static tbb::blocked_range<V> mkbr(const std::vector<Dim>& d, int k) { V b = mkv<V>(d[k].b); Base<V>::b[k] = b; return tbb::blocked_range<V>(b, (V)(b + d[k].n), (size_t)d[k].g); }
template <class V> static void run_br(const std::vector<Dim>& d, int part) { run_for(mkbr<V>(d, 0), part); }
template <class V> static void run_2d(const std::vector<Dim>& d, int part) {
    auto r = mkbr<V>(d, 0), c = mkbr<V>(d, 1);
    run_for(tbb::blocked_range2d<V, V>(r.begin(), r.end(), r.grainsize(), c.begin(), c.end(), c.grainsize()), part);
}
template <class V> static void run_3d(const std::vector<Dim>& d, int part) {
    auto p = mkbr<V>(d, 0), r = mkbr<V>(d, 1), c = mkbr<V>(d, 2);
    run_for(tbb::blocked_range3d<V, V, V>(p.begin(), p.end(), p.grainsize(), r.begin(), r.end(), r.grainsize(), c.begin(), c.end(), c.grainsize()), part);
}
static void run_nd(const std::vector<Dim>& d, int part) {
    typedef tbb::blocked_range<int> B;
    switch (d.size()) {
    case 1: run_for(tbb::blocked_nd_range<int, 1>(mkbr<int>(d, 0)), part); break;
    case 2: run_for(tbb::blocked_nd_range<int, 2>(mkbr<int>(d, 0), mkbr<int>(d, 1)), part); break;
    case 3: run_for(tbb::blocked_nd_range<int, 3>(mkbr<int>(d, 0), mkbr<int>(d, 1), mkbr<int>(d, 2)), part); break;
    default: { B a = mkbr<int>(d, 0), b = mkbr<int>(d, 1), c = mkbr<int>(d, 2), e = mkbr<int>(d, 3); run_for(tbb::blocked_nd_range<int, 4>(a, b, c, e), part); break; }
    }
}
static int part_of(const std::string& l) { std::string p = kvs(l, "part", "auto"); for (int i = 0; i < 5; i++) if (p == PARTS[i]) return i; vs_inconclusive("BAD-CASE", "unknown partitioner"); }

static void op_for(const std::string& l) {
    std::string rt = kvs(l, "rt", "br"), vt = kvs(l, "vt", "i32"), ds = kvs(l, "dims", "0:4:1"); int part = part_of(l); g_work = (int)kvl(l, "work", 0); g_ov = (int)kvl(l, "ov", 0); if ((g_ov == 2 || g_ov == 3) && part != 1) g_ov = 0;
    std::vector<Dim> d;
    for (size_t p = 0; p < ds.size();) { size_t e = ds.find(',', p); std::string it = ds.substr(p, e == std::string::npos ? std::string::npos : e - p); size_t c1 = it.find(':'), c2 = it.find(':', c1 + 1); if (c1 == std::string::npos || c2 == std::string::npos) vs_inconclusive("BAD-CASE", "dims"); d.push_back({ it.substr(0, c1), strtoull(it.c_str() + c1 + 1, nullptr, 10), strtoull(it.c_str() + c2 + 1, nullptr, 10) }); if (e == std::string::npos) break; p = e + 1; }
    if (d.empty() || d.size() > 4) vs_inconclusive("BAD-CASE", "dims");
    SP = Space(); SP.D = (int)d.size(); SP.part = part; SP.is_br = rt == "br"; SP.cells = 1;
    for (int k = 0; k < SP.D; k++) { if (d[k].g == 0) vs_inconclusive("BAD-CASE", "grain 0"); SP.size[k] = d[k].n; SP.grain[k] = d[k].g; SP.cells *= d[k].n; }
    SP.counted = SP.cells <= (1u << 16);
    if (!SP.counted) g_flags.insert("huge_range");
    if (SP.D == 1 && (d[0].n <= 2 || d[0].n + 1 == d[0].g || d[0].n == d[0].g || d[0].n == d[0].g + 1)) g_flags.insert("boundary_size");
    g_flags.insert("part_" + std::string(PARTS[part])); g_flags.insert("range_" + rt + (rt == "nd" ? std::to_string(d.size()) : rt == "br" || rt == "2d" ? "_" + vt : ""));
    if (rt == "br") { if (vt == "i32") run_br<int>(d, part); else if (vt == "i64") run_br<long>(d, part); else if (vt == "u64") run_br<size_t>(d, part); else if (vt == "u8") run_br<unsigned char>(d, part); else if (vt == "ptr") run_br<const int*>(d, part); else vs_inconclusive("BAD-CASE", "vt"); }
    else if (rt == "2d" && d.size() == 2) { if (vt == "u64") run_2d<size_t>(d, part); else run_2d<int>(d, part); }
    else if (rt == "3d" && d.size() == 3) run_3d<int>(d, part);
    else if (rt == "nd") run_nd(d, part);
    else vs_inconclusive("BAD-CASE", "rt/dims mismatch");
}

// ---- parallel_for(first, last, step, f)
static bool g_step_other = false;
template <class I> struct StepFn {
    I first, step; uint64_t count;
    void operator()(I k) const {
        int th = vs_self(); body_work();
        uint64_t dlt = (uint64_t)k - (uint64_t)first, st = (uint64_t)step;
        if (sizeof(I) < 8) { dlt = (uint64_t)((long long)k - (long long)first); }
        if (dlt % st != 0 || dlt / st >= count) vs_violation("OUT-OF-RANGE", "parallel_for(first,last,step) called f(%lld), not first+j*step with 0<=j<%lu", (long long)k, (unsigned long)count);
        uint64_t j = dlt / st; n_chunks++; if (th != SP.caller) { n_chunks_other++; g_step_other = true; }
        if (++SP.cnt[j] > 1) vs_violation("RAN-TWICE", "parallel_for(first,last,step): index j=%lu (value %lld) visited twice", (unsigned long)j, (long long)k);
    }
};
template <class I> static void run_step(const std::string& l, int part) {
    I first = mkv<I>(kvs(l, "first", "0")), last = mkv<I>(kvs(l, "last", "0")), step = mkv<I>(kvs(l, "step", "1"));
    if (!(step > 0)) vs_inconclusive("BAD-CASE", "step must be positive");
    uint64_t count = 0;
    if (first < last) { u128 span = (u128)((uint64_t)last - (uint64_t)first); if (sizeof(I) < 8) span = (u128)((long long)last - (long long)first); count = (uint64_t)((span + (uint64_t)step - 1) / (uint64_t)step); }
    if (count > 100000) vs_inconclusive("BAD-CASE", "too many iterations");
    SP = Space(); SP.caller = vs_self(); SP.cnt.assign((size_t)count, 0); SP.part = -1; g_step_other = false;
    StepFn<I> fn{ first, step, count };
    if (kvl(l, "ctx", 0)) {     // the overloads taking a user-supplied task_group_context (separate index arithmetic in parallel_for.h)
        tbb::task_group_context ctx; g_flags.insert("strided_with_context");
        if (part == 0) tbb::parallel_for(first, last, step, fn, tbb::simple_partitioner(), ctx);
        else if (part == 1) tbb::parallel_for(first, last, step, fn, tbb::auto_partitioner(), ctx);
        else if (part == 2) tbb::parallel_for(first, last, step, fn, tbb::static_partitioner(), ctx);
        else if (part == 3) { tbb::affinity_partitioner ap; tbb::parallel_for(first, last, step, fn, ap, ctx); }
        else tbb::parallel_for(first, last, step, fn, ctx);
    }
    else if (part == 0) tbb::parallel_for(first, last, step, fn, tbb::simple_partitioner());
    else if (part == 1) tbb::parallel_for(first, last, step, fn, tbb::auto_partitioner());
    else if (part == 2) tbb::parallel_for(first, last, step, fn, tbb::static_partitioner());
    else if (part == 3) { tbb::affinity_partitioner ap; tbb::parallel_for(first, last, step, fn, ap); }
    else tbb::parallel_for(first, last, step, fn);
    n_loops++;
    for (uint64_t j = 0; j < count; j++) if (SP.cnt[j] != 1) vs_violation("MISSED-ELEMENT", "parallel_for(first,last,step) returned but index j=%lu of %lu was visited %d times", (unsigned long)j, (unsigned long)count, (int)SP.cnt[j]);
    if (count >= 2 && g_step_other) { n_nt_loops++; g_flags.insert("stolen_chunk"); }
    g_flags.insert("strided"); g_flags.insert("part_" + std::string(PARTS[part]));
    if (count <= 2) g_flags.insert("boundary_size");
}
static void op_step(const std::string& l) {
    std::string vt = kvs(l, "vt", "i32"); int part = part_of(l); g_work = (int)kvl(l, "work", 0);
    if (vt == "i32") run_step<int>(l, part); else if (vt == "i64") run_step<long>(l, part); else if (vt == "u64") run_step<size_t>(l, part); else if (vt == "u8") run_step<unsigned char>(l, part); else vs_inconclusive("BAD-CASE", "vt");
}

// ---- parallel_for_each
struct Item { int id; };
static std::vector<int> g_kids, g_first_kid, g_visit; static bool g_move = false; static int g_caller = 0; static bool g_other = false;
static void visit_item(int id, tbb::feeder<Item>* f) {
    int th = vs_self(); body_work();
    if (id < 0 || id >= (int)g_visit.size()) vs_violation("OUT-OF-RANGE", "parallel_for_each body got item id %d, not in [0,%zu)", id, g_visit.size());
    if (++g_visit[id] > 1) vs_violation("RAN-TWICE", "parallel_for_each: item %d processed twice", id);
    n_items++; if (th != g_caller) { n_items_other++; g_other = true; }
    if (f) for (int c = 0; c < g_kids[id]; c++) { Item k{ g_first_kid[id] + c }; n_fed++; if (g_move) f->add(std::move(k)); else f->add(k); }
}
struct EachFeed { void operator()(Item it, tbb::feeder<Item>& f) const { visit_item(it.id, &f); } };
struct EachPlain { void operator()(const Item& it) const { visit_item(it.id, nullptr); } };
struct InIt {
    typedef std::input_iterator_tag iterator_category; typedef Item value_type; typedef std::ptrdiff_t difference_type; typedef const Item* pointer; typedef const Item& reference;
    const Item* p;
    reference operator*() const { return *p; } pointer operator->() const { return p; }
    InIt& operator++() { ++p; return *this; } InIt operator++(int) { InIt t = *this; ++p; return t; }
    bool operator==(const InIt& o) const { return p == o.p; } bool operator!=(const InIt& o) const { return p != o.p; }
};
static void op_each(const std::string& l) {
    std::string it = kvs(l, "it", "ra"), ks = kvs(l, "kids", "-"); int n = (int)kvl(l, "n", 0); g_work = (int)kvl(l, "work", 0); g_move = kvs(l, "add", "copy") == "move";
    g_kids.clear();
    if (ks != "-") for (size_t p = 0; p < ks.size();) { size_t e = ks.find(',', p); g_kids.push_back(atoi(ks.c_str() + p)); if (e == std::string::npos) break; p = e + 1; }
    bool feed = !g_kids.empty();
    // ids: 0..n-1 initial; children allocated in id order
    int total = n; g_first_kid.clear();
    for (int i = 0; i < total; i++) { if ((int)g_kids.size() <= i) g_kids.push_back(0); g_first_kid.push_back(total); total += g_kids[i]; if (total > 4096) vs_inconclusive("BAD-CASE", "too many items"); }
    g_visit.assign((size_t)total, 0); g_caller = vs_self(); g_other = false;
    std::vector<Item> v; for (int i = 0; i < n; i++) v.push_back(Item{ i });
    int ov = (int)kvl(l, "ov", 0); tbb::task_group_context ectx(tbb::task_group_context::isolated);       // ov: 0 iterators  1 container  2 iterators + context  3 container + context
    auto each = [&](auto& cont) {
        if (ov == 1) { if (feed) tbb::parallel_for_each(cont, EachFeed()); else tbb::parallel_for_each(cont, EachPlain()); }
        else if (ov == 3) { if (feed) tbb::parallel_for_each(cont, EachFeed(), ectx); else tbb::parallel_for_each(cont, EachPlain(), ectx); }
        else if (ov == 2) { if (feed) tbb::parallel_for_each(cont.begin(), cont.end(), EachFeed(), ectx); else tbb::parallel_for_each(cont.begin(), cont.end(), EachPlain(), ectx); }
        else { if (feed) tbb::parallel_for_each(cont.begin(), cont.end(), EachFeed()); else tbb::parallel_for_each(cont.begin(), cont.end(), EachPlain()); } };
    if (ov) g_flags.insert("for_each_overload_" + std::to_string(ov));
    if (it == "ra") each(v);
    else if (it == "fw") { std::forward_list<Item> fl(v.begin(), v.end()); each(fl); }
    else if (it == "in") { InIt b{ v.data() }, e{ v.data() + v.size() }; if (feed) tbb::parallel_for_each(b, e, EachFeed()); else tbb::parallel_for_each(b, e, EachPlain()); }
    else vs_inconclusive("BAD-CASE", "iterator kind");
    n_loops++;
    for (int i = 0; i < total; i++) if (g_visit[i] != 1) vs_violation("MISSED-ELEMENT", "parallel_for_each returned but item %d (%s) was processed %d times (n=%d total=%d)", i, i < n ? "initial" : "fed", g_visit[i], n, total);
    if (total >= 2 && g_other) { n_nt_loops++; g_flags.insert("stolen_chunk"); }
    g_flags.insert("for_each_" + it); if (total > n) g_flags.insert("feeder"); if (n <= 2) g_flags.insert("boundary_size");
}

// ---- parallel_invoke
struct InvFn { int id; void operator()() const { int th = vs_self(); body_work(); if (++g_visit[id] > 1) vs_violation("RAN-TWICE", "parallel_invoke: functor %d invoked twice", id); n_items++; if (th != g_caller) { n_items_other++; g_other = true; } } };
static bool g_inv_ctx = false;
template <size_t... I> static void inv(std::index_sequence<I...>) { if (g_inv_ctx) { tbb::task_group_context c(tbb::task_group_context::isolated); tbb::parallel_invoke(InvFn{ (int)I }..., c); } else tbb::parallel_invoke(InvFn{ (int)I }...); }
static void op_invoke(const std::string& l) {
    int n = (int)kvl(l, "n", 2); g_work = (int)kvl(l, "work", 0); g_inv_ctx = kvl(l, "ov", 0) != 0; if (g_inv_ctx) g_flags.insert("invoke_with_context");
    g_visit.assign((size_t)n, 0); g_caller = vs_self(); g_other = false;
    switch (n) {
    case 2: inv(std::make_index_sequence<2>()); break; case 3: inv(std::make_index_sequence<3>()); break; case 4: inv(std::make_index_sequence<4>()); break;
    case 5: inv(std::make_index_sequence<5>()); break; case 6: inv(std::make_index_sequence<6>()); break; case 7: inv(std::make_index_sequence<7>()); break;
    case 8: inv(std::make_index_sequence<8>()); break; case 9: inv(std::make_index_sequence<9>()); break; case 10: inv(std::make_index_sequence<10>()); break;
    default: vs_inconclusive("BAD-CASE", "invoke n");
    }
    n_loops++;
    for (int i = 0; i < n; i++) if (g_visit[i] != 1) vs_violation("MISSED-ELEMENT", "parallel_invoke returned but functor %d of %d was invoked %d times", i, n, g_visit[i]);
    if (g_other) { n_nt_loops++; g_flags.insert("stolen_chunk"); }
    g_flags.insert("invoke");
}

void h_run(Case& c) {
    int par = 2, mc = 2; std::vector<std::string> ops;
    for (auto& l : c.lines) { auto w = split_ws(l); if (w.empty()) continue; if (w[0] == "cfg") { par = (int)kvl(l, "par", 2); mc = (int)kvl(l, "mc", 2); g_nest = (int)kvl(l, "nest", 0); } else ops.push_back(l); }
    if (par < 1 || par > 8 || mc < 1 || mc > 8) vs_inconclusive("BAD-CASE", "cfg");
    vs_begin(c.sched.c_str());
    vs_on_deadlock([](const char* d) { vs_violation("DEADLOCK", "%s; nested waits: remote submitted %ld done %ld, local submitted %ld done %ld", d, n_remote_sub, n_remote_done, n_local_sub, n_local_done); });
    {
        tbb::global_control gc(tbb::global_control::max_allowed_parallelism, (size_t)par);
        tbb::task_arena arena(mc); tbb::task_arena helper(1, 0); g_helper = &helper; g_nest_caller = vs_self();
#if TBB_USE_ASSERT
        // known finding C16 (market::update_allotment asserts `assigned == max_workers` with max_allowed_parallelism 1, an arena whose slot is held by the
        // external thread and a mandatory request elsewhere): the assertion-enabled leg does not enqueue into the helper arena under a limit of 1 (counted)
        if (par == 1) { g_helper = nullptr; if (g_nest) vs_stat_add("n_excluded", 1); }
#endif
        arena.execute([&] {
            for (auto& l : ops) {
                std::string k = split_ws(l)[0];
                g_remote_ok = (k == "for" || k == "step");
                if (k == "for") op_for(l); else if (k == "step") op_step(l); else if (k == "each") op_each(l); else if (k == "invoke") op_invoke(l);
                else vs_inconclusive("BAD-CASE", "unknown op");
            }
        });
    }
    g_helper = nullptr;
    vs_end();
    if (n_nested) g_flags.insert("nested_wait_in_body"); vs_stat_add("n_nested_waits", n_nested);
    vs_stat_add("n_loops", n_loops); vs_stat_add("n_chunks", n_chunks); vs_stat_add("n_chunks_other", n_chunks_other); vs_stat_add("n_splits", n_splits); vs_stat_add("n_propsplits", n_psplits);
    vs_stat_add("n_items", n_items); vs_stat_add("n_items_other", n_items_other); vs_stat_add("n_fed", n_fed);
    if (n_psplits) g_flags.insert("proportional_split");
    for (auto& f : g_flags) vs_stat_flag(f.c_str());
    vs_stat_add("nt", n_nt_loops > 0 ? 1 : 0);
    vs_ok();
}

int main(int argc, char** argv) { return drv_main(argc, argv); }
