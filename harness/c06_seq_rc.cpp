// C06, sequential leg (rapidcheck, header-only, no scheduler): the quicksort range split of parallel_sort alone, on
// sizes far beyond what the scheduler-controlled harness affords.
//   The recursion of parallel_sort is replayed sequentially: quick_sort_range is split while is_divisible(), leaves are
//   std::sort-ed (exactly what quick_sort_body does).  Checked after every split: sizes add up with the pivot excluded
//   from both halves, the halves are adjacent around the pivot, nothing left of the pivot comes after it under the
//   comparator and nothing right of it before it; at the end: is_sorted under the comparator and the multiset of
//   (key,id) equals the input's.
// usage:  c06_seq_rc <max_success>        (env VERIF_LEG_SEED, VERIF_REPLAY_DIR)   |   c06_seq_rc replay <file>
// a case is one text line:  n=<n> kind=<rand|sorted|reverse|inv|few|pipe|saw> p=<pos> ranks=<R> cmp=<lt|gt|mod> mod=<m> seed=<s>
#include <rapidcheck.h>
#include <bits/stdc++.h>
#include "oneapi/tbb/parallel_sort.h"

struct Elem { long key; int id; };
struct Cmp { int kind; long m; bool operator()(const Elem& a, const Elem& b) const { return kind == 0 ? a.key < b.key : kind == 1 ? a.key > b.key : a.key % m < b.key % m; } };
struct SCase { long n = 0, p = 0, R = 1, m = 1, seed = 1; std::string kind = "rand", cmp = "lt"; };
static std::string text(const SCase& c) { return "n=" + std::to_string(c.n) + " kind=" + c.kind + " p=" + std::to_string(c.p) + " ranks=" + std::to_string(c.R) + " cmp=" + c.cmp + " mod=" + std::to_string(c.m) + " seed=" + std::to_string(c.seed); }
static std::string kv(const std::string& l, const char* k) { std::string key = std::string(" ") + k + "=", s = " " + l; size_t p = s.find(key); if (p == std::string::npos) return ""; size_t e = s.find(' ', p + 1); return s.substr(p + key.size(), e == std::string::npos ? std::string::npos : e - p - key.size()); }
static bool parse(const std::string& l, SCase& c) { if (kv(l, "n").empty()) return false; c.n = atol(kv(l, "n").c_str()); c.p = atol(kv(l, "p").c_str()); c.R = atol(kv(l, "ranks").c_str()); c.m = atol(kv(l, "mod").c_str()); c.seed = atol(kv(l, "seed").c_str()); c.kind = kv(l, "kind"); c.cmp = kv(l, "cmp"); return true; }
static std::string fmt(const char* f, ...) { char b[600]; va_list ap; va_start(ap, f); vsnprintf(b, sizeof b, f, ap); va_end(ap); return b; }
static long g_splits = 0;

static std::string judge(const SCase& c) {
    g_splits = 0;
    long n = c.n, R = c.R, m = c.m; if (n < 0 || n > 2000000 || R < 1 || m < 1 || (c.cmp == "mod" && R > m)) return "";
    uint64_t rng = (uint64_t)c.seed * 0x9E3779B97F4A7C15ull + 12345; auto rnd = [&]() { rng ^= rng << 13; rng ^= rng >> 7; rng ^= rng << 17; return rng >> 11; };
    std::vector<long> rank((size_t)n);
    for (long i = 0; i < n; i++) {
        if (c.kind == "rand" || c.kind == "few") rank[i] = (long)(rnd() % (uint64_t)R);
        else if (c.kind == "pipe") rank[i] = (std::min(i, n - 1 - i) * R) / std::max(1L, n);          // organ pipe
        else if (c.kind == "saw") rank[i] = (i % std::max(1L, c.p + 2)) % R;                            // saw tooth of period p+2
        else rank[i] = (i * R) / n;
    }
    if (c.kind == "reverse") std::reverse(rank.begin(), rank.end());
    if (c.kind == "inv" && c.p >= 0 && c.p + 1 < n) std::swap(rank[c.p], rank[c.p + 1]);
    Cmp cmp{ c.cmp == "lt" ? 0 : c.cmp == "gt" ? 1 : 2, m };
    std::vector<Elem> a((size_t)n);
    for (long i = 0; i < n; i++) { long k = rank[i]; if (cmp.kind == 1) k = -k; else if (cmp.kind == 2) k = k + m * (long)(rnd() % 5); a[i] = Elem{ k, (int)i }; }
    for (long i = n - 1; i > 0; i--) { long j = (long)(rnd() % (uint64_t)(i + 1)); std::swap(a[i].id, a[j].id); }
    std::vector<Elem> orig((size_t)n); for (auto& e : a) orig[e.id] = e;
    typedef tbb::detail::d1::quick_sort_range<Elem*, Cmp> QR;
    if (n > 0) {
        std::vector<QR> st; st.push_back(QR(a.data(), (size_t)n, cmp));
        while (!st.empty()) {
            QR x = st.back(); st.pop_back();
            if (x.is_divisible()) {
                size_t before = x.size; Elem* b0 = x.begin; g_splits++;
                QR y(x, tbb::split());
                if (x.begin != b0) return "left half moved";
                if (x.size + y.size + 1 != before) return fmt("sizes do not add up: %zu -> %zu + pivot + %zu", before, x.size, y.size);
                if (y.begin != x.begin + x.size + 1) return fmt("right half does not start right after the pivot (left size %zu, right offset %td)", x.size, y.begin - x.begin);
                const Elem& piv = x.begin[x.size];
                for (size_t i = 0; i < x.size; i++) if (cmp(piv, x.begin[i])) return fmt("element %zu of the left half (key %ld) must come after the pivot (key %ld); range of %zu at offset %td", i, x.begin[i].key, piv.key, before, b0 - a.data());
                for (size_t i = 0; i < y.size; i++) if (cmp(y.begin[i], piv)) return fmt("element %zu of the right half (key %ld) must come before the pivot (key %ld); range of %zu at offset %td", i, y.begin[i].key, piv.key, before, b0 - a.data());
                st.push_back(y); st.push_back(x);
            } else std::sort(x.begin, x.begin + x.size, x.comp);
        }
    }
    std::vector<char> seen((size_t)n, 0);
    for (long i = 0; i < n; i++) { int id = a[i].id; if (id < 0 || id >= n || seen[id]++) return fmt("record id %d duplicated / foreign at position %ld", id, i); if (a[i].key != orig[id].key) return fmt("record id %d changed its key", id); }
    for (long i = 0; i + 1 < n; i++) if (cmp(a[i + 1], a[i])) return fmt("not sorted at position %ld (keys %ld, %ld)", i, a[i].key, a[i + 1].key);
    return "";
}

static long pick(long lo, long hi) { if (hi <= lo) return lo; return *rc::gen::resize(100, rc::gen::inRange<long>(lo, hi)); }   // [lo,hi)
static SCase gen_case() {
    SCase c; static const char* KIND[] = { "rand", "sorted", "reverse", "inv", "few", "pipe", "saw" }; static const char* CMP[] = { "lt", "gt", "mod" };
    switch (pick(0, 5)) { case 0: c.n = 498 + pick(0, 8); break; case 1: c.n = pick(500, 4000); break; case 2: c.n = (1L << pick(9, 15)) + pick(0, 3) - 1; break; case 3: c.n = pick(0, 520); break; default: c.n = pick(500, 40000); break; }
    c.kind = KIND[pick(0, 7)]; c.cmp = CMP[pick(0, 3)]; c.seed = pick(1, 100000);
    if (c.cmp == "mod") { static const long M[] = { 1, 2, 3, 7, 1000 }; c.m = M[pick(0, 5)]; }
    if (c.kind == "inv") { c.R = std::max(c.n, 1L); if (c.cmp == "mod") c.m = c.n + 3; c.p = pick(0, 3) ? pick(0, std::max(1L, c.n - 1)) : pick(0, 16); }
    else if (c.kind == "few") c.R = pick(1, 5);
    else if (c.kind == "saw") { c.p = pick(0, 40); c.R = pick(1, 50); }
    else { long d = pick(0, 4); c.R = d == 0 ? std::max(c.n, 1L) : d == 1 ? 2 * c.n + 1 : d == 2 ? 5 : 1; }
    if (c.cmp == "mod" && c.R > c.m) c.R = c.m;
    return c;
}
static uint64_t fnv(const std::string& s) { uint64_t h = 1469598103934665603ull; for (unsigned char ch : s) { h ^= ch; h *= 1099511628211ull; } return h; }
static std::string jesc(const std::string& s) { std::string o = "\""; for (unsigned char ch : s) { if (ch == '"' || ch == '\\') { o += '\\'; o += (char)ch; } else if (ch < 0x20) o += ' '; else o += (char)ch; } return o + "\""; }

int main(int argc, char** argv) {
    if (argc >= 3 && !strcmp(argv[1], "replay")) {
        std::ifstream f(argv[2]); std::string l; while (std::getline(f, l)) { if (l.empty() || l[0] == '#') continue; SCase c; if (!parse(l, c)) { printf("BAD-CASE\n"); return 2; } std::string e = judge(c); printf("%s %s\n", e.empty() ? "OK" : "VIOLATION SORT-SPLIT", e.c_str()); return e.empty() ? 0 : 1; }
        return 2;
    }
    long max_success = argc > 1 ? atol(argv[1]) : 200; const char* sd = getenv("VERIF_LEG_SEED"); const char* rd = getenv("VERIF_REPLAY_DIR");
    std::string params = "seed=" + std::string(sd ? sd : "1") + " max_success=" + std::to_string(max_success) + " max_size=100";
    setenv("RC_PARAMS", params.c_str(), 1);
    struct timespec t0; clock_gettime(CLOCK_MONOTONIC, &t0);
    std::string last_case, last_detail, viol; long evals = 0, splits = 0; std::set<uint64_t> nt; std::vector<std::string> samples;
    bool ok = rc::check("C06 parallel_sort range split, replayed sequentially", [&] {
        SCase c = gen_case(); std::string t = text(c); evals++;
        std::string e = judge(c); splits += g_splits;
        if (e.empty() && g_splits > 0) { nt.insert(fnv(t)); if (samples.size() < 3 && nt.size() % 53 == 1) samples.push_back(t); }
        if (!e.empty()) { last_case = t; last_detail = e; }
        RC_ASSERT(e.empty());
    });
    if (!ok && !last_case.empty()) {
        SCase c; std::string e; if (parse(last_case, c)) e = judge(c);
        if (!e.empty()) {
            char name[512]; snprintf(name, sizeof name, "%s/C06-seq-%016llx.case", rd ? rd : ".", (unsigned long long)fnv(last_case));
            FILE* f = fopen(name, "w"); if (f) { fprintf(f, "%s\n# verdict: VIOLATION SORT-SPLIT %s\n# replay: c06_seq_rc replay <this file>\n", last_case.c_str(), e.c_str()); fclose(f); }
            viol = "{\"kind\":\"SORT-SPLIT\",\"detail\":" + jesc(e) + ",\"replay\":" + jesc(name) + ",\"case\":" + jesc(last_case) + "}";
        }
    }
    struct timespec t1; clock_gettime(CLOCK_MONOTONIC, &t1);
    std::string j = "{\"property\":\"C06\",\"evaluations\":" + std::to_string(evals) + ",\"nontrivial_hashes\":[";
    { bool first = true; char b[32]; for (auto h : nt) { snprintf(b, sizeof b, "%s\"s%015llx\"", first ? "" : ",", (unsigned long long)(h >> 4)); j += b; first = false; } }
    j += "],\"classes\":{\"seq_sort_split\":" + std::to_string(nt.size()) + "},\"sums\":{\"n_seq_splits\":" + std::to_string(splits) + "},\"samples\":[";
    for (size_t i = 0; i < samples.size(); i++) j += (i ? "," : "") + jesc(samples[i]);
    char w[64]; snprintf(w, sizeof w, "%.2f", (double)(t1.tv_sec - t0.tv_sec) + (t1.tv_nsec - t0.tv_nsec) * 1e-9);
    j += "],\"inconclusive\":0,\"wall_s\":" + std::string(w) + ",\"violations\":[" + viol + "]}";
    fflush(stderr); puts(j.c_str());
    return viol.empty() ? 0 : 1;
}
