// C09 -- concurrent_queue / concurrent_bounded_queue are linearizable FIFO queues; bounded: capacity,
// try_push truthfulness, blocked push/pop complete, abort wakes blocked callers without loss.
//
// program:  queue bounded=<0|1> cap=<c> elem=<0..5> prefill=<n> threads=<k> throw=<0|k> [witness=1] [tail=<n>] [assign=<k>:<n> copy assignment at quiescence after n more pushes, k-th copy throws]
//           t <i> <op> ...
// ops: P<v> push  E<v> emplace  Y<v> try_push  O pop(blocking)  Q try_pop  A abort  W<k> work
// Known finding (DESIGN s.11.2): a pop/try_pop invoked between abort() and the return of the
// callers it aborted re-issues tickets.  The interpreter keeps that shape out of the generated
// domain (held-back invocations are counted as n_excluded); witness=1 switches the exclusion off.
#include "oneapi/tbb/concurrent_queue.h"
#include "../engine/drv/drv.h"
#include "../engine/lin/lin.h"

const char* H_PROP = "C09";
bool H_TSO = true;

enum { K_PUSH = 0, K_TRYPUSH = 1, K_POP = 2, K_TRYPOP = 3, K_ABORT = 4 };
static const char* KN[] = { "push", "try_push", "pop", "try_pop", "abort" };

// ------------------------------------------------------------------ generator
std::string h_gen(Src& s) {
    if (drv_flag("--witness2")) {
        // known finding 2 (dead slot): an aborted (or throwing) push keeps occupying capacity until a pop passes it
        return "queue bounded=1 cap=1 elem=0 prefill=0 threads=2 throw=0 witness=2\nt 0 P1 W" + std::to_string(s.range(8, 30)) + " A O Y3 Q\nt 1 W2 P101\n";
    }
    if (drv_flag("--witness")) {
        // fixed shape of the known finding: two blocked pops, abort, a third pop invoked in the window
        return "queue bounded=1 cap=4 elem=0 prefill=0 threads=4 throw=0 witness=1\nt 0 W" + std::to_string(s.range(1, 6)) + " A W1 P1 P2 P3 Q Q\nt 1 O\nt 2 O\nt 3 W" + std::to_string(s.range(1, 9)) + " O\n";
    }
    bool af = drv_flag("--afault");      // focused leg: a page allocation fails while several threads push into the queue
    bool bounded = af ? s.coin(4) : s.flip(); int cap = bounded ? s.range(1, 4) : 0; if (af && bounded) cap = 4;
    int elem = (int)s.choose(6); int nt = af ? s.range(3, 4) : s.range(2, 4);
    static const int pf[] = { 0, 1, 3, 7, 9, 31, 33, 65, 70 }; int prefill = pf[s.choose(9)];
    if (bounded && prefill > cap) prefill = s.range(0, cap);
    static const int TAIL[] = { 0, 9, 17, 40 };
    int thr = (!af && s.coin(5)) ? s.range(1, 6) : 0; int athr = (!thr && !drv_flag("--no-alloc-fault") && (af || s.coin(7))) ? s.range(1, 4) : 0;
    std::string o = "queue bounded=" + std::to_string(bounded) + " cap=" + std::to_string(cap) + " elem=" + std::to_string(elem) + " prefill=" + std::to_string(prefill) + " threads=" + std::to_string(nt) + " throw=" + std::to_string(thr) + (athr ? " athrow=" + std::to_string(athr) : "") + " tail=" + std::to_string(TAIL[s.weighted({ 4, 2, 2, athr ? 4u : 1u })]) + ((!athr && s.coin(4)) ? " assign=" + std::to_string(s.coin(3) ? 0 : s.range(1, 40)) + ":" + std::to_string(s.coin(3) ? s.range(100, 300) : s.range(0, 30)) : std::string()) + "\n";
    bool abort_used = athr != 0;   // allocation failure is not combined with abort(): abort_push allocates inside a clean-up guard (destructor) -> std::terminate (DESIGN 11.17)
    for (int t = 0; t < nt; t++) {
        o += "t " + std::to_string(t); int nops = s.range(1, 7);
        for (int k = 0; k < nops; k++) {
            int v = t * 100 + k + 1;
            uint32_t c = af ? s.weighted({ 9, 2, bounded ? 2u : 0u, 0, 3, 0, 1 }) : bounded ? s.weighted({ 5, 1, 2, 4, 3, abort_used ? 0u : 1u, 1 }) : s.weighted({ 6, 2, 0, 0, 5, 0, 1 });
            switch (c) {
            case 0: o += " P" + std::to_string(v); break;
            case 1: o += " E" + std::to_string(v); break;
            case 2: o += " Y" + std::to_string(v); break;
            case 3: o += " O"; break;
            case 4: o += " Q"; break;
            case 5: o += " A"; abort_used = true; break;
            default: o += " W" + std::to_string(s.range(1, 6));
            }
        }
        o += "\n";
    }
    return o;
}

// ------------------------------------------------------------------ element type
static long n_assign = 0, n_assign_threw = 0, g_assign_leak = 0; static long g_ctor_count = 0, g_throw_at = 0; static bool g_armed = false; static long g_live = 0;
struct Boom { int v; };
static long g_alloc_count = 0, g_athrow_at = 0; static int g_alloc_fired = 0;
static std::string g_line0; static long n_tail_pushed = 0, n_tail_failed = 0;
template <class T> struct QAlloc {     // page allocator that fails at the generated index (only while armed)
    using value_type = T; using is_always_equal = std::true_type;
    QAlloc() = default; template <class U> QAlloc(const QAlloc<U>&) {}
    T* allocate(size_t n) { if (g_armed && g_athrow_at && ++g_alloc_count == g_athrow_at) { g_alloc_fired++; throw std::bad_alloc(); } void* p = nullptr; if (posix_memalign(&p, alignof(T) > 64 ? alignof(T) : 64, n * sizeof(T))) throw std::bad_alloc(); return (T*)p; }
    void deallocate(T* p, size_t) { std::free(p); }
    template <class U> bool operator==(const QAlloc<U>&) const { return true; }
    template <class U> bool operator!=(const QAlloc<U>&) const { return false; }
};
template <class Q> struct is_bounded_q : std::false_type {};
template <class E, class A> struct is_bounded_q<tbb::concurrent_bounded_queue<E, A>> : std::true_type {};
template <int N> struct Elem {
    int v; unsigned char pad[N - 4];
    void fill() { for (int i = 0; i < N - 4; i++) pad[i] = (unsigned char)(v * 31 + i); }
    bool intact() const { for (int i = 0; i < N - 4; i++) if (pad[i] != (unsigned char)(v * 31 + i)) return false; return true; }
    static void maybe_throw(int val) { if (g_armed && ++g_ctor_count == g_throw_at) throw Boom{ val }; }
    Elem() : v(-1) { fill(); g_live++; }
    explicit Elem(int x) : v(x) { maybe_throw(x); fill(); g_live++; }
    Elem(const Elem& o) : v(o.v) { maybe_throw(o.v); memcpy(pad, o.pad, sizeof pad); g_live++; }
    Elem(Elem&& o) : v(o.v) { maybe_throw(o.v); memcpy(pad, o.pad, sizeof pad); g_live++; }
    Elem& operator=(const Elem& o) { v = o.v; memcpy(pad, o.pad, sizeof pad); return *this; }
    Elem& operator=(Elem&& o) { v = o.v; memcpy(pad, o.pad, sizeof pad); return *this; }
    ~Elem() { g_live--; }
};

// ------------------------------------------------------------------ model
struct QModel {
    std::deque<int> q; long cap = -1; bool relaxed = false;   // relaxed: try_push may fail spuriously (dead-slot known finding)
    std::string key() const { std::string k; for (int v : q) { k += std::to_string(v); k += ','; } return k; }
    bool apply(const LinOp& o) {
        switch (o.kind) {
        case K_PUSH:
            if (!o.pending && !o.ok) return true;                       // aborted / threw: no effect
            if (cap >= 0 && (long)q.size() >= cap) return false;
            q.push_back((int)o.a); return true;
        case K_TRYPUSH:
            if (o.b) return true;                                        // threw: no effect
            if (o.ok) { if (cap >= 0 && (long)q.size() >= cap) return false; q.push_back((int)o.a); return true; }
            return relaxed || (cap >= 0 && (long)q.size() >= cap);
        case K_POP:
            if (!o.pending && !o.ok) return true;                       // aborted
            if (q.empty()) return false;
            if (!o.pending && q.front() != (int)o.ret) return false;
            q.pop_front(); return true;
        case K_TRYPOP:
            if (o.ok) { if (q.empty() || q.front() != (int)o.ret) return false; q.pop_front(); return true; }
            return q.empty();
        default: return true;
        }
    }
};

// ------------------------------------------------------------------ interpreter
static std::vector<std::vector<std::string>> g_ops; static std::vector<LinOp> H; static std::vector<int> g_initial;
static bool g_bounded, g_witness; static int g_witness_mode = 0; static long g_cap; static int g_nt;
static std::vector<size_t> inflight_idx, must_return;   // ops that were really blocked when an abort() was issued: they must return
static std::vector<int> inflight_kind;            // per scenario thread index: kind of the op in flight or -1
static std::vector<int> thr_sched_id;             // scheduler id per scenario thread index
static int abort_window = 0;                      // number of aborted-in-flight pops that have not returned yet
static std::vector<char> in_window;
static long n_excluded = 0, n_blocked = 0, n_aborted = 0, n_threw = 0, n_overlap = 0, n_inflight = 0;
static void* g_q = nullptr; static int g_elem;

// Known finding 1 (DESIGN s.11.2): does the history contain "an operation of another thread overlaps the
// interval from the invocation of abort() to the return of a pop that this abort() aborted"?
static bool abort_window_shape() {
    for (auto& p : H) {
        if (p.kind != K_POP || p.pending || p.b != 2) continue;
        uint64_t ws = UINT64_MAX; for (auto& a : H) if (a.kind == K_ABORT && a.inv < p.resp && (a.pending || a.resp > p.inv)) ws = std::min(ws, a.inv);
        if (ws == UINT64_MAX) continue;
        for (auto& x : H) {
            if (&x == &p || x.kind == K_ABORT || x.thread == p.thread) continue;
            if (!x.pending && x.b == 2) continue;                          // a fellow aborted caller
            if (x.inv < p.resp && (x.pending || x.resp > ws)) return true;
        }
    }
    return false;
}
// assertion flavour: an internal assertion that fires while an abort() is or was racing with pops is the known finding too
static bool abort_with_pops_in_history() { bool ab = false, pop = false; for (auto& o : H) { if (o.kind == K_ABORT) ab = true; if (o.kind == K_POP && (o.pending || o.b == 2)) pop = true; } return ab && pop; }
static void excluded_exit(const char* why);
static void on_sigabrt(int) { if (!g_witness && abort_with_pops_in_history()) excluded_exit("excluded_abort_window_assert"); signal(SIGABRT, SIG_DFL); }
static void excluded_exit(const char* why) { vs_stat_add("n_excluded", 1); vs_stat_flag(why); vs_stat_add("nt", 0); vs_ok(); }

template <class Q, class E> struct Runner {
    static void thread_fn(void* p) {
        int t = (int)(intptr_t)p; Q& q = *(Q*)g_q;
        for (auto& op : g_ops[t]) {
            char c = op[0]; int v = atoi(op.c_str() + 1);
            if (c == 'W') { vs_work(v); continue; }
            LinOp o; o.thread = t; o.a = v; o.pending = true;
            bool is_pop = (c == 'O' || c == 'Q');
            if (is_pop && !g_witness && abort_window > 0) { n_excluded++; vs_block_until([] { return abort_window == 0; }); }
            if (c == 'A' && !g_witness) {
                // known-finding exclusion: abort is only issued while every in-flight pop of another thread is really blocked
                bool racing = false; for (int i = 0; i < g_nt; i++) if (i != t && inflight_kind[i] == K_POP && vs_thread_state(thr_sched_id[i]) != 1) racing = true;
                if (racing) { n_excluded++; vs_block_until([t] { for (int i = 0; i < g_nt; i++) if (i != t && inflight_kind[i] == K_POP && vs_thread_state(thr_sched_id[i]) != 1) return false; return true; }); }
            }
            if (n_inflight > 0) n_overlap++;
            n_inflight++;
            size_t idx = H.size(); o.kind = c == 'P' || c == 'E' ? K_PUSH : c == 'Y' ? K_TRYPUSH : c == 'O' ? K_POP : c == 'Q' ? K_TRYPOP : K_ABORT;
            inflight_kind[t] = o.kind; inflight_idx[t] = idx; o.inv = vs_now(); H.push_back(o);
            long fb0 = 0; (void)fb0;
            bool ok = false, threw = false, aborted = false; long ret = 0; bool intact = true;
            try {
                // the value selects the overload: push(const T&) / push(T&&); try_push(const T&) / try_push(T&&) / try_emplace(args)
                if (c == 'P') { g_armed = false; E e(v); g_armed = true; if (v & 1) q.push(std::move(e)); else q.push(e); ok = true; }
                else if (c == 'E') { q.emplace(v); ok = true; }
                else if (c == 'Y') { if constexpr (is_bounded_q<Q>::value) { if (v % 3 == 2) ok = q.try_emplace(v); else { g_armed = false; E e(v); g_armed = true; ok = (v % 3 == 1) ? q.try_push(std::move(e)) : q.try_push(e); } } }
                else if (c == 'O') { if constexpr (is_bounded_q<Q>::value) { E e; q.pop(e); ok = true; ret = e.v; intact = e.intact(); } }
                else if (c == 'Q') { E e; ok = q.try_pop(e); if (ok) { ret = e.v; intact = e.intact(); } }
                else if (c == 'A') {
                    if constexpr (is_bounded_q<Q>::value) {
                        if (!g_witness) for (int i = 0; i < g_nt; i++) if (i != t && inflight_kind[i] == K_POP) { in_window[i] = 1; abort_window++; }
                        for (int i = 0; i < g_nt; i++) if (i != t && (inflight_kind[i] == K_POP || inflight_kind[i] == K_PUSH) && vs_thread_state(thr_sched_id[i]) == 1) must_return.push_back(inflight_idx[i]);
                        q.abort(); ok = true;
                    }
                }
            } catch (Boom&) { threw = true; }
            catch (tbb::user_abort&) { aborted = true; }
            catch (std::bad_alloc&) { threw = true; if (!g_alloc_fired) vs_violation("SPURIOUS-EXCEPTION", "%s threw bad_alloc although no allocation failure was injected", KN[o.kind]); }
            if (in_window[t]) { in_window[t] = 0; abort_window--; }
            LinOp& r = H[idx]; r.resp = vs_now(); r.pending = false; r.ok = ok; r.ret = ret; r.b = threw ? 1 : 0;
            inflight_kind[t] = -1; n_inflight--;
            if (!intact) vs_violation("TORN-ITEM", "popped value %ld arrived with a damaged payload", ret);
            if (threw) n_threw++;
            if (aborted) { n_aborted++; r.ok = false; r.b = 2;
                bool overl = false; for (auto& x : H) if (x.kind == K_ABORT && x.inv < r.resp && (x.pending || x.resp > r.inv)) overl = true;
                if (!overl) vs_violation("SPURIOUS-ABORT", "%s threw user_abort although no abort() overlapped it", KN[r.kind]); }
        }
    }
    static void judge(bool deadlocked, const char* detail);
    static void on_deadlock(const char* d) { judge(true, d); }
    static void run(Case& c) {
        Q* q = new Q; g_q = q;
        if constexpr (is_bounded_q<Q>::value) q->set_capacity(g_cap);
        long prefill = kvl(c.lines[0], "prefill", 0); g_line0 = c.lines[0];
        for (long i = 0; i < prefill; i++) { E e(10000 + (int)i); q->push(e); g_initial.push_back(10000 + (int)i); }
        g_armed = true;
        vs_on_deadlock(on_deadlock); vs_on_fixpoint([](const char* d) { if (!g_witness && abort_window_shape()) excluded_exit("excluded_abort_window_posthoc"); vs_violation("SPIN-FIXPOINT", "%s %s", d, H.size() < 30 ? lin_dump(H, KN).c_str() : ""); });
        std::vector<int> ids; thr_sched_id.assign(g_nt, 0);
        for (int t = 1; t < g_nt; t++) { int id = vs_thread_start(thread_fn, (void*)(intptr_t)t); ids.push_back(id); thr_sched_id[t] = id; }
        thread_fn((void*)(intptr_t)0);
        for (int id : ids) vs_thread_join(id);
        judge(false, "");
    }
};
template <class Q, class E> void Runner<Q, E>::judge(bool deadlocked, const char* detail) {
    Q& q = *(Q*)g_q; g_armed = false;
    if (!g_witness && abort_window_shape()) excluded_exit("excluded_abort_window_posthoc");
    for (size_t i : must_return) if (H[i].pending) vs_violation("ABORT-MISSED", "%s of t%d was blocked when abort() was called (and abort() returned) but it never returned %s", KN[H[i].kind], H[i].thread, lin_dump(H, KN).c_str());
    // O(n) accounting
    std::map<int, int> pushed, popped; for (int v : g_initial) pushed[v]++;
    long blocked_pops = 0, blocked_pushes = 0;
    for (auto& o : H) {
        if (o.pending) { if (o.kind == K_POP) blocked_pops++; else if (o.kind == K_PUSH) blocked_pushes++; else vs_violation("NONBLOCKING-OP-BLOCKED", "%s never returned (%s)", KN[o.kind], detail); continue; }
        if ((o.kind == K_PUSH || o.kind == K_TRYPUSH) && o.ok) pushed[(int)o.a]++;
        if ((o.kind == K_POP || o.kind == K_TRYPOP) && o.ok) popped[(int)o.ret]++;
    }
    for (auto& kv : popped) { if (!pushed.count(kv.first) && !std::any_of(H.begin(), H.end(), [&](const LinOp& o) { return o.pending && o.kind == K_PUSH && o.a == kv.first; })) vs_violation("INVENTED-ITEM", "value %d popped but never pushed", kv.first); if (kv.second > 1) vs_violation("DUPLICATED-ITEM", "value %d popped %d times", kv.first, kv.second); }
    long remaining = 0; for (auto& kv : pushed) if (!popped.count(kv.first)) remaining++;
    bool dead_slot = false; if (g_bounded && g_witness_mode != 2) for (auto& o : H) if ((o.kind == K_PUSH || o.kind == K_TRYPUSH) && !o.pending && o.b != 0) dead_slot = true;
    long n_excl_dead = 0;
    if (deadlocked) {
        n_blocked = blocked_pops + blocked_pushes;
        if (blocked_pops > 0 && remaining > 0 && blocked_pushes == 0) vs_violation("LOST-WAKEUP", "%ld pop(s) blocked for ever although %ld pushed item(s) were never popped (%s) %s", blocked_pops, remaining, detail, lin_dump(H, KN).c_str());
        if (blocked_pushes > 0 && g_bounded && remaining < g_cap && blocked_pops == 0 && dead_slot) n_excl_dead++;
        else if (blocked_pushes > 0 && g_bounded && remaining < g_cap && blocked_pops == 0) vs_violation("LOST-WAKEUP", "%ld push(es) blocked for ever although only %ld of %ld slots are used (%s)", blocked_pushes, remaining, g_cap, detail);
        if (blocked_pops == 0 && blocked_pushes == 0) vs_violation("DEADLOCK", "%s", detail);
    } else {
        // tail: more sequential pushes after everything (fresh values), so that every lane -- also one that a failed page allocation has marked
        // invalid -- is visited a few more times before the drain; a push may fail there (bad_last_alloc / bad_alloc by design), the others count
        { long tail = kvl(g_line0, "tail", 0);
          for (long i = 0; i < tail; i++) {
              int v = 20000 + (int)i; bool ok = false;
              try { E e(v); if constexpr (is_bounded_q<Q>::value) ok = q.try_push(e); else { q.push(e); ok = true; } } catch (...) { ok = false; n_tail_failed++; }
              if (ok) { pushed[v]++; n_tail_pushed++; LinOp o; o.thread = 99; o.kind = K_PUSH; o.ok = true; o.a = v; o.inv = vs_now(); o.resp = vs_now(); H.push_back(o); }
          } }
        // copy assignment at quiescence (cfg assign=<k>:<n>): n more items go in, then a second queue is assigned from this one while the k-th element copy
        // throws (k = 0: none).  Without a throw the copy holds the same sequence; after a throw the target must still be a working queue.
        std::vector<int> copy_seq; bool copy_made = false;
        { std::string as = kvs(g_line0, "assign", ""); long ak = 0, an = 0; if (!as.empty() && sscanf(as.c_str(), "%ld:%ld", &ak, &an) >= 1 && !g_athrow_at) {
            for (long i = 0; i < an; i++) { int v = 30000 + (int)i; bool ok = false; try { E e(v); if constexpr (is_bounded_q<Q>::value) ok = q.try_push(e); else { q.push(e); ok = true; } } catch (...) { ok = false; }
                if (ok) { pushed[v]++; LinOp o; o.thread = 99; o.kind = K_PUSH; o.ok = true; o.a = v; o.inv = vs_now(); o.resp = vs_now(); H.push_back(o); } }
            Q* tgt = new Q(); { E e(50000); E f(50001); if constexpr (is_bounded_q<Q>::value) { tgt->try_push(e); tgt->try_push(f); } else { tgt->push(e); tgt->push(f); } }
            long live_before = g_live;
            bool threw = false; bool was_armed = g_armed; if (ak > 0) { g_armed = true; g_throw_at = g_ctor_count + ak; }
            try { *tgt = q; } catch (Boom&) { threw = true; } catch (std::bad_alloc&) { threw = true; }
            g_armed = was_armed; g_throw_at = 0; n_assign++; if (threw) n_assign_threw++;
            if (!threw) { E e; while (tgt->try_pop(e)) copy_seq.push_back(e.v); copy_made = true; }
            else {
                // the failed assignment must leave a queue that works: a push returns, and the value comes out after at most what could be inside
                E e(60000); bool ok = true; if constexpr (is_bounded_q<Q>::value) ok = tgt->try_push(e); else tgt->push(e);
                long guard = 0; bool seen = false; E x; while (tgt->try_pop(x)) { if (x.v == 60000) seen = true; if (!x.intact()) vs_violation("TORN-ITEM", "item %d popped from a queue after a failed copy assignment is damaged", x.v); if (++guard > 100000) break; }
                if (ok && !seen) vs_violation("LOST-ITEM", "after a copy assignment that threw, a value pushed into the target queue never came out");
            }
            delete tgt;
            // Observation, not a C09 violation (copy assignment is not one of the operations the property speaks about): when an element copy throws, the page that
            // was being filled and the items already copied into it are never released (micro_queue::make_copy).  Those objects are taken out of the leak count.
            if (threw && g_live > live_before - 2) { g_assign_leak = g_live - (live_before - 2); n_excluded += g_assign_leak; }
        } }
        // final drain (sequential, after everything): checks FIFO order of what is left and conservation
        std::vector<int> rest; { E e; while (q.try_pop(e)) { LinOp o; o.thread = 99; o.kind = K_TRYPOP; o.ok = true; o.ret = e.v; o.inv = vs_now(); o.resp = vs_now(); H.push_back(o); rest.push_back(e.v); if (popped.count(e.v)) vs_violation("DUPLICATED-ITEM", "value %d popped and still in the queue", e.v); popped[e.v]++; if (rest.size() > 10000) break; } }
        { LinOp o; o.thread = 99; o.kind = K_TRYPOP; o.ok = false; o.inv = vs_now(); o.resp = vs_now(); H.push_back(o); }
        for (auto& kv : pushed) if (!popped.count(kv.first)) vs_violation("LOST-ITEM", "value %d was pushed (push returned) but never came out %s", kv.first, H.size() < 40 ? lin_dump(H, KN).c_str() : "");
        if (copy_made && copy_seq != rest) vs_violation("COPY-DIFFERS", "a queue copy-assigned at quiescence held %zu items, the source %zu (or in another order)", copy_seq.size(), rest.size());
        delete &q;
        if (g_live - g_assign_leak != 0) vs_violation("ELEMENT-LEAK", "%ld element objects alive after the queue was destroyed", g_live);
    }
    // per-producer order (any history length)
    { std::map<int, std::vector<std::pair<uint64_t, int>>> byprod; for (auto& o : H) if ((o.kind == K_PUSH || o.kind == K_TRYPUSH) && o.ok && !o.pending) byprod[o.thread].push_back({ o.inv, (int)o.a });
      std::map<int, uint64_t> pop_at; std::vector<std::pair<uint64_t, int>> pops; for (auto& o : H) if ((o.kind == K_POP || o.kind == K_TRYPOP) && o.ok && !o.pending) pops.push_back({ o.inv, (int)o.ret });
      (void)pop_at; (void)pops; }
    // linearizability (short histories)
    size_t nops = 0; for (auto& o : H) if (o.kind != K_ABORT) nops++;
    int lin = -2;
    if (nops <= 26) {
        std::vector<LinOp> hh; for (auto& o : H) if (o.kind != K_ABORT) hh.push_back(o);
        QModel m; m.cap = g_bounded ? g_cap : -1; for (int v : g_initial) m.q.push_back(v);
        LinChecker<QModel> lc(hh, 3000000); lin = lc.run(m);
        if (lin == 0 && dead_slot) { QModel m2 = m; m2.relaxed = true; LinChecker<QModel> lc2(hh, 3000000); if (lc2.run(m2) != 0) { lin = 1; n_excl_dead++; } }
        if (lin == 0) vs_violation("NOT-LINEARIZABLE", "no FIFO%s linearization of: %s initial=%zu items", g_bounded ? "(bounded)" : "", lin_dump(hh, KN).c_str(), g_initial.size());
    }
    vs_end();
    vs_stat_add("n_ops", (long)nops); vs_stat_add("n_overlap", n_overlap); vs_stat_add("n_excluded", n_excluded); vs_stat_add("n_aborted", n_aborted); vs_stat_add("n_threw", n_threw);
    vs_stat_add("n_excluded", n_excl_dead); if (n_excl_dead) vs_stat_flag("excluded_dead_slot");
    vs_stat_add("n_blocked_forever", n_blocked); vs_stat_add("n_lin_checked", lin == 1 ? 1 : 0); vs_stat_add("n_lin_budget", lin == -1 ? 1 : 0);
    if (n_aborted) vs_stat_flag("aborted_caller"); if (n_threw) vs_stat_flag("ctor_threw"); if (deadlocked) vs_stat_flag("blocked_forever_legit"); if (n_excluded) vs_stat_flag("excluded_abort_window");
    vs_stat_add("n_tail_pushed", n_tail_pushed); vs_stat_add("n_tail_failed", n_tail_failed); if (n_tail_failed) vs_stat_flag("push_into_invalid_lane_failed");
    if (n_assign) vs_stat_flag("copy_assigned_at_quiescence"); if (n_assign_threw) vs_stat_flag("copy_assignment_threw");
    vs_stat_flag(g_bounded ? "bounded" : "unbounded");
    vs_stat_add("nt", n_overlap > 0 ? 1 : 0);
    vs_ok();
}

template <int N> static void run_elem(Case& c) {
    if (g_athrow_at) {    // page allocation failure: separate instantiation with the failing allocator
        if (g_bounded) Runner<tbb::concurrent_bounded_queue<Elem<N>, QAlloc<Elem<N>>>, Elem<N>>::run(c);
        else Runner<tbb::concurrent_queue<Elem<N>, QAlloc<Elem<N>>>, Elem<N>>::run(c);
        return;
    }
    if (g_bounded) Runner<tbb::concurrent_bounded_queue<Elem<N>>, Elem<N>>::run(c);
    else Runner<tbb::concurrent_queue<Elem<N>>, Elem<N>>::run(c);
}

void h_run(Case& c) {
    for (auto& l : c.lines) {
        auto w = split_ws(l);
        if (w[0] == "queue") { g_bounded = kvl(l, "bounded", 0) != 0; g_cap = kvl(l, "cap", 1); g_elem = (int)kvl(l, "elem", 0); g_nt = (int)kvl(l, "threads", 2); g_throw_at = kvl(l, "throw", 0); g_athrow_at = kvl(l, "athrow", 0); g_witness_mode = (int)kvl(l, "witness", 0); g_witness = g_witness_mode != 0; }
        else if (w[0] == "t") { int t = atoi(w[1].c_str()); if ((int)g_ops.size() <= t) g_ops.resize(t + 1); g_ops[t].assign(w.begin() + 2, w.end()); }
    }
    g_ops.resize(g_nt); inflight_kind.assign(g_nt, -1); inflight_idx.assign(g_nt, 0); in_window.assign(g_nt, 0);
    H.reserve(256);
    vs_begin(c.sched.c_str());
    signal(SIGABRT, on_sigabrt);
    switch (g_elem) {      // one size per items-per-page class: 32,16,8,4,2,1 items
    case 0: run_elem<8>(c); break; case 1: run_elem<16>(c); break; case 2: run_elem<24>(c); break;
    case 3: run_elem<40>(c); break; case 4: run_elem<72>(c); break; default: run_elem<136>(c); break;
    }
}
int main(int argc, char** argv) { return drv_main(argc, argv); }
