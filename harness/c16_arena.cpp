// C16 -- arenas bound concurrency, give unique slots, isolate work, respect the worker budget.   DESIGN.md s.6 C16.
//
// program text:
//   cfg par=<L0 1..4> ext=<1..3> rounds=<1..2> arenas=<mc>:<res>:<pri>,...      pri 0 normal 1 high 2 low   [allot=<L>] [witness=1]
//   g <round> <op> ...        global_control ops done by thread 0 at the quiescent start of the round:  +<id>:<L> create, -<id> destroy
//   t <round> <thread> <op> ..  top-level script of an external thread:  W<k> | X<a>:<u> | E<a>:<u> | +<id>:<L> | -<id>
//   u <id> <op> ...           unit (runs inside an arena):
//        W<k>                 work
//        X<a>:<u>             task_arena a .execute(unit u)        (the current arena, or one with a larger index: no wait cycles)
//        E<a>:<u>             task_arena a .enqueue(unit u)
//        I<u>                 this_task_arena::isolate(unit u)
//        H<k>                 this_task_arena::isolate( task_group with a deferred task_handle, wait ): the handle is dropped k points later by a helper thread, which ends the wait
//        P<n>:<k>:<part>      parallel_for over n one-index bodies of k work (part 0 simple, 1 auto, 2 static = mailed)
//        G<u>,<u>..           task_group: run the units, wait (nested wait)
//        K<n>:<u>             (leg --crit) flow graph with a prioritised function_node (critical tasks): try_put n messages under the current isolation scope,
//                             then this_task_arena::isolate(unit u), then graph::wait_for_all: the pending critical tasks belong to the outer scope
// Every X/E/G unit and every P index is a *body*; oracle in body_enter().  Rounds are separated by quiescent points (every other
// thread blocked, workers asleep) where the observer balance is checked and the global_control set changes.
#include "oneapi/tbb/task_group.h"
#include "oneapi/tbb/task_arena.h"
#include "oneapi/tbb/parallel_for.h"
#include "oneapi/tbb/global_control.h"
#include "oneapi/tbb/partitioner.h"
#include "oneapi/tbb/task_scheduler_observer.h"
#include "oneapi/tbb/flow_graph.h"
#include "../engine/drv/drv.h"

const char* H_PROP = "C16";
bool H_TSO = true;

// ------------------------------------------------------------------ generator
struct ACfg { int mc, res, pri; };
struct GenSt { Src& s; std::vector<ACfg> ar; int next_unit = 0, budget = 14; std::vector<std::pair<int, std::string>> ulines; };
static bool can_enqueue(const ACfg& a) { return !(a.res >= 2 && a.res == a.mc); }     // mc==res>=2: no slot a worker could ever take
static int gen_unit(GenSt& g, int arena, int depth);
static std::string gen_sub(GenSt& g, int arena, int depth) { return std::to_string(gen_unit(g, arena, depth)); }
static int gen_unit(GenSt& g, int arena, int depth) {
    int id = g.next_unit++; g.budget--;
    std::string o; int nops = g.s.range(1, 3), na = (int)g.ar.size();
    for (int k = 0; k < nops; k++) {
        bool sub = depth < 3 && g.budget > 0;
        bool noenq = drv_flag("--noenq");      // focused leg: limit 1, nothing is ever enqueued, no arena can be full -> no worker may ever run a body
        uint32_t c = g.s.weighted({ 3, 3, sub ? 2u : 0u, sub ? (noenq ? 4u : 2u) : 0u, sub ? 2u : 0u, (sub && !noenq) ? 1u : 0u });
        if (c == 0 && g.s.coin(noenq ? 3 : 8)) o += " H" + std::to_string(g.s.range(2, 30));      // an isolated wait that another thread ends later: tasks of other scopes stay in the waiter's pool meanwhile
        else if (c == 0) o += " W" + std::to_string(g.s.range(1, 6));
        else if (c == 1) { static const int ns[] = { 2, 3, 5, 8 }; o += " P" + std::to_string(ns[g.s.choose(4)]) + ":" + std::to_string(g.s.range(1, 4)) + ":" + std::to_string((int)g.s.weighted({ 4, 1, 2 })); }
        else if (c == 2) { int n = 1 + (int)g.s.weighted({ 2, 3, 1 }); o += " G"; for (int i = 0; i < n && (i == 0 || g.budget > 0); i++) o += (i ? "," : "") + gen_sub(g, arena, depth + 1); }
        else if (c == 3 && drv_flag("--crit") && g.s.coin(2)) o += " K" + std::to_string(g.s.range(1, 3)) + ":" + gen_sub(g, arena, depth + 1);   // only this leg draws the extra coin: the other legs' cases stay as they were
        else if (c == 3) o += " I" + gen_sub(g, arena, depth + 1);
        else if (c == 4) { int a = (arena + 1 >= na || g.s.coin(3)) ? arena : arena + 1 + (int)g.s.choose((uint32_t)(na - arena - 1));     // the own arena: execute() runs the functor in place, and the isolation of the caller must be back afterwards
            o += " X" + std::to_string(a) + ":" + gen_sub(g, a, depth + 1); }
        else {
            int a = (int)g.s.choose((uint32_t)na), tries = 0; while (!can_enqueue(g.ar[(size_t)a]) && tries++ < na) a = (a + 1) % na;
            if (can_enqueue(g.ar[(size_t)a])) o += " E" + std::to_string(a) + ":" + gen_sub(g, a, depth + 1); else o += " W1";
        }
    }
    g.ulines.push_back({ id, o });
    return id;
}
// --no-soft0 (used by the assertion-enabled leg): max_allowed_parallelism 1 is drawn as 2 and counted (cfg clamped=<n> -> n_excluded).  With a
// soft limit of 0 the unchanged library trips its own assertion `assigned == max_workers` in market::update_allotment (known finding, --witness2).
static int g_clamped = 0;
static int draw_L(Src& s) { int v = s.range(1, 4); if (v == 1 && drv_flag("--no-soft0")) { v = 2; g_clamped++; } return v; }
std::string h_gen(Src& s) {
    GenSt g{ s }; g_clamped = 0;
    if (drv_flag("--witness2")) {      // soft limit 0, a one-slot arena whose slot is held by an external thread gets a delegated execute (mandatory request, demand 0)
        int w = s.range(1, 4);
        return "cfg par=1 ext=3 rounds=1 arenas=1:0:0,1:0:0\nt 0 0 X1:0\nt 0 1 X0:1\nt 0 2 X0:2\nu 0 P3:" + std::to_string(w) + ":0\nu 1 W" + std::to_string(s.range(1, 4)) + "\nu 2 W1\n";
    }
    if (drv_flag("--witness3")) {      // directed (was a defect, repaired): a worker blocked in execute() (no free slot) must be woken when the occupying workers leave on recall
        std::string w1 = std::to_string(s.range(1, 3)), w2 = std::to_string(s.range(1, 3));
        return "cfg par=4 ext=1 rounds=1 arenas=2:1:0,2:0:0 witness=3\ng 0 +1:4\nt 0 0 X0:0 +2:2 E0:3\nu 0 I1 P2:1:0\nu 1 W" + w1 + " W1 X1:2\nu 2 P2:" + w2 + ":0 W1 W1\nu 3 X1:4\nu 4 W1\n";
    }
    if (drv_flag("--witness")) {       // known finding: a one-thread arena with a reserved slot admits a second external thread into the extra (mandatory worker) slot
        int ext = 2 + (int)s.choose(2); std::string o = "cfg par=" + std::to_string(s.range(1, 3)) + " ext=" + std::to_string(ext) + " rounds=1 arenas=1:1:" + std::to_string(s.choose(3)) + " witness=1\n";
        for (int t = 0; t < ext; t++) o += "t 0 " + std::to_string(t) + " W" + std::to_string(s.range(1, 4)) + " X0:" + std::to_string(t) + "\n";
        for (int t = 0; t < ext; t++) o += "u " + std::to_string(t) + " W" + std::to_string(s.range(1, 6)) + "\n";
        return o;
    }
    bool noenq = drv_flag("--noenq");
    int par = draw_L(s); if (par == 1 && s.flip()) par = 3;
    int ext = 1 + (int)s.weighted({ 3, 5, 2 });
    if (noenq) { par = 1; ext = 2 + (int)s.choose(2); }
    int na = 1 + (int)s.weighted({ 4, 3, 1 });
    int rounds = 1 + (int)s.weighted({ 3, 2 });
    std::string cfg = "cfg par=" + std::to_string(par) + " ext=" + std::to_string(ext) + " rounds=" + std::to_string(rounds) + " arenas=";
    for (int i = 0; i < na; i++) {
        ACfg a; a.mc = 1 + (int)s.weighted({ 2, 4, 2, 2 }); a.res = (int)s.weighted({ 3, 4, 1 }); if (noenq && a.mc < ext) a.mc = ext; if (a.res > a.mc) a.res = a.mc; a.pri = (int)s.weighted({ 4, 1, 1 });
        g.ar.push_back(a); cfg += (i ? "," : "") + std::to_string(a.mc) + ":" + std::to_string(a.res) + ":" + std::to_string(a.pri);
    }
    bool allot = s.coin(4);
    if (allot) cfg += " allot=" + std::to_string(draw_L(s));
    std::string o = cfg + "@CL@\n"; std::vector<std::string> tl;
    std::vector<int> alive; int next_gc = 1;
    for (int r = 0; r < rounds; r++) {
        std::string gl; int ng = (int)s.weighted({ 3, 3, 1 }); if (r == 0 && ng > 1) ng = 1;
        for (int i = 0; i < ng; i++) {
            if (!alive.empty() && s.flip()) { size_t k = s.choose((uint32_t)alive.size()); gl += " -" + std::to_string(alive[k]); alive.erase(alive.begin() + (long)k); }
            else { gl += " +" + std::to_string(next_gc) + ":" + std::to_string(draw_L(s)); alive.push_back(next_gc++); }
        }
        if (!gl.empty()) o += "g " + std::to_string(r) + gl + "\n";
        for (int t = 0; t < ext; t++) {
            std::string l; int nops = s.range(1, 3); std::vector<int> mine;
            for (int k = 0; k < nops; k++) {
                uint32_t c = s.weighted({ 7, (g.budget > 0 && !noenq) ? 2u : 0u, 2, 1 });
                if (g.budget <= 0 && c == 0) c = 2;
                if (c == 0) { int a = (int)s.choose((uint32_t)na); l += " X" + std::to_string(a) + ":" + gen_sub(g, a, 1); }
                else if (c == 1) { int a = (int)s.choose((uint32_t)na), tries = 0; while (!can_enqueue(g.ar[(size_t)a]) && tries++ < na) a = (a + 1) % na; if (can_enqueue(g.ar[(size_t)a])) l += " E" + std::to_string(a) + ":" + gen_sub(g, a, 1); else l += " W1"; }
                else if (c == 2) l += " W" + std::to_string(s.range(1, 8));
                else if (!mine.empty() && s.flip()) { l += " -" + std::to_string(mine.back()); mine.pop_back(); }
                else { l += " +" + std::to_string(next_gc) + ":" + std::to_string(draw_L(s)); mine.push_back(next_gc++); }
            }
            for (int id : mine) alive.push_back(id);     // left alive: may be destroyed at a later quiescent point (or at the end)
            tl.push_back("t " + std::to_string(r) + " " + std::to_string(t) + l);
        }
    }
    for (auto& l : tl) o += l + "\n";
    std::sort(g.ulines.begin(), g.ulines.end());
    for (auto& l : g.ulines) o += "u " + std::to_string(l.first) + l.second + "\n";
    { size_t p = o.find("@CL@"); o.replace(p, 4, g_clamped ? " clamped=" + std::to_string(g_clamped) : ""); }
    return o;
}

// ------------------------------------------------------------------ interpreter
struct Op { char c; int a = 0, b = 0, d = 0; std::vector<int> us; };
struct Unit { std::vector<Op> ops; int arena = -1; long tag = 0; int sub_thread = -1; bool submitted = false; int started = 0, finished = 0; };
struct Inflight { int thread, idx, depth; bool worker /* role in this arena */, wthread /* created by the library */; };
struct Obs;
struct Arena { int mc, res, pri; tbb::task_arena* ta = nullptr; Obs* obs = nullptr; std::vector<Inflight> in; std::map<int, int> obs_cnt, obs_idx; std::map<int, int> slot_last; long entries = 0, exits = 0; int max_in = 0; bool enq_seen = false; /* enqueue, or an execute whose functor was delegated, into this arena since the last quiescent point */ int x_pending = 0; /* execute() calls into this arena whose functor has not started */ };
static std::vector<Arena> AR; static std::vector<Unit> U;
static std::map<int, tbb::global_control*> GC; static std::map<int, int> GCV; static int L0 = 2;
static int g_ext = 1; static int win_max = 1; static bool enq_seen = false, g_witness = false; static int x_pending = 0; static long n_x_inplace_certain = 0, n_x_wrongly_certain = 0;   // execute() calls whose functor has not started: may be delegated = enqueued
static long next_tag = 1;
struct TState { int arena = -1; std::vector<long> tags; std::vector<int> xarenas; /* arenas this thread is inside through its own execute() calls */ };
static thread_local TState ts;
static long n_bodies = 0, n_worker_bodies = 0, n_delegated = 0, n_extra_worker = 0, n_iso_wait_exec = 0, n_mid_limit = 0, n_slot_reuse = 0, n_nested_arena = 0, n_budget_tight = 0, n_excluded = 0, n_ext_nonreserved = 0;
static int max_workers_seen = 0; static long n_crit_bodies = 0;

static int cur_L() { int l = L0; for (auto& kv : GCV) l = std::min(l, kv.second); return l; }
static int nslots(const Arena& a) { return a.res == 0 ? a.mc : std::max(2, a.mc); }

struct Obs : tbb::task_scheduler_observer {
    int ai;
    Obs(tbb::task_arena& a, int i) : tbb::task_scheduler_observer(a), ai(i) {}
    void on_scheduler_entry(bool is_worker) override {
        int me = vs_self(); AR[(size_t)ai].obs_cnt[me]++; AR[(size_t)ai].entries++;
        // between its entry and its exit notification a thread owns its slot: nobody else may be notified of an entry with the same index meanwhile
        int idx = tbb::this_task_arena::current_thread_index();
        for (auto& kv : AR[(size_t)ai].obs_idx) if (kv.first != me && kv.second == idx && AR[(size_t)ai].obs_cnt[kv.first] > 0)
            vs_violation("SLOT-SHARED", "arena %d: thread %d got on_scheduler_entry with current_thread_index()=%d while thread %d, which entered with the same index, has not had its on_scheduler_exit yet", ai, me, idx, kv.first);
        if (AR[(size_t)ai].obs_cnt[me] == 1) AR[(size_t)ai].obs_idx[me] = idx;
        if (is_worker && vs_is_scenario_thread(me)) vs_violation("OBSERVER-WORKER-FLAG", "on_scheduler_entry(is_worker=true) on external thread %d in arena %d", me, ai);
    }
    void on_scheduler_exit(bool) override {
        int me = vs_self(); int& c = AR[(size_t)ai].obs_cnt[me]; AR[(size_t)ai].exits++;
        if (c <= 0) vs_violation("OBSERVER-UNBALANCED", "on_scheduler_exit on thread %d in arena %d without a matching on_scheduler_entry", me, ai);
        c--; if (c == 0) AR[(size_t)ai].obs_idx.erase(me);
    }
};

static int workers_in_bodies(int extra_thread) {
    std::set<int> w; for (auto& a : AR) for (auto& f : a.in) if (f.wthread) w.insert(f.thread);
    if (extra_thread >= 0) w.insert(extra_thread);
    return (int)w.size();
}
struct BodyScope { int arena, saved_arena; bool pushed = false; };
static BodyScope body_enter(int ai, long tag, bool same_thread_inline) {
    Arena& a = AR[(size_t)ai]; int me = vs_self(); bool wthread = !vs_is_scenario_thread(me);
    // task_arena::execute treats every caller as an external thread (arena.cpp, nested_arena_context): a worker thread that entered this
    // arena through its own execute() call may sit in a reserved slot; it is a worker here only if it joined through the market
    bool worker = wthread && std::find(ts.xarenas.begin(), ts.xarenas.end(), ai) == ts.xarenas.end();
    int idx = tbb::this_task_arena::current_thread_index();
    n_bodies++; if (wthread) n_worker_bodies++;
    // isolation: a thread whose innermost frame carries a tag (it waits inside an isolate region, or inside a body spawned from one) may only start bodies of that tag
    if (!same_thread_inline && !ts.tags.empty() && ts.tags.back() != 0) {
        if (ts.tags.back() != tag) vs_violation("ISOLATION", "thread %d waiting in isolation scope %ld started a body of scope %ld (arena %d)", me, ts.tags.back(), tag, ai);
        n_iso_wait_exec++;
    }
    // slot index range
    if (idx < 0 || idx >= nslots(a)) vs_violation("SLOT-RANGE", "current_thread_index()=%d in arena %d with %d slots (max_concurrency %d, reserved %d)", idx, ai, nslots(a), a.mc, a.res);
    if (idx >= a.mc) {
        // only the documented extra worker of a one-thread arena may sit above max_concurrency
        if (!worker) {
            if (!g_witness) { n_excluded++; }
            else vs_violation("ARENA-OVERSUBSCRIBED", "external thread %d executes in arena %d (max_concurrency %d, reserved %d) with current_thread_index()=%d", me, ai, a.mc, a.res, idx);
        } else n_extra_worker++;
    }
    if (worker && idx < a.res) vs_violation("WORKER-IN-RESERVED-SLOT", "worker thread %d has slot %d in arena %d with %d reserved slots (body nesting %zu, enclosing arena %d, own execute frames %zu)", me, idx, ai, a.res, ts.tags.size(), ts.arena, ts.xarenas.size());
    if (!worker && idx >= a.res) n_ext_nonreserved++;
    for (auto& f : a.in) if (f.idx == idx && f.thread != me) vs_violation("SLOT-SHARED", "threads %d and %d are both inside bodies of arena %d with current_thread_index()=%d", f.thread, me, ai, idx);
    { auto it = a.slot_last.find(idx); if (it != a.slot_last.end() && it->second != me) n_slot_reuse++; a.slot_last[idx] = me; }
    bool found = false; for (auto& f : a.in) if (f.thread == me && f.idx == idx) { f.depth++; found = true; }
    if (!found) a.in.push_back({ me, idx, 1, worker, wthread });
    { std::set<int> th, ex; for (auto& f : a.in) { th.insert(f.thread); if (!f.worker) ex.insert(f.thread); }
      int bound = a.mc + ((a.mc == 1 && a.res >= 1) ? 1 : 0);
      if ((int)th.size() > a.max_in) a.max_in = (int)th.size();
      if ((int)th.size() > bound) vs_violation("OVER-CONCURRENCY", "%zu threads are inside bodies of arena %d (max_concurrency %d, reserved %d)", th.size(), ai, a.mc, a.res);
      if ((int)th.size() > a.mc && (int)ex.size() > a.mc && g_witness) vs_violation("ARENA-OVERSUBSCRIBED", "%zu external threads are inside arena %d of max_concurrency %d", ex.size(), ai, a.mc); }
    if (wthread) {
        bool mand = enq_seen || x_pending > 0;      // mandatory concurrency: something was enqueued (explicitly, or an execute() had to delegate its functor)
        int w = workers_in_bodies(-1), bound = std::max(win_max - 1, mand ? 1 : 0);
        if (w > max_workers_seen) max_workers_seen = w;
        if (w == bound) n_budget_tight++;
        if (w > bound) vs_violation("WORKER-BUDGET", "%d worker threads execute bodies simultaneously; largest max_allowed_parallelism in force since the last quiescent point is %d%s", w, win_max, mand ? " (enqueued work: one mandatory worker)" : "");
        // under a limit of 1 the only worker is the mandatory one, and it is granted for enqueued work: it must be in an arena that has some
        if (worker && win_max == 1 && !a.enq_seen && a.x_pending == 0) vs_violation("MANDATORY-WORKER-MISPLACED", "max_allowed_parallelism is 1 since the last quiescent point and a worker thread executes a body in arena %d, into which nothing was enqueued (the mandatory worker belongs to the arenas with enqueued work)", ai);
    }
    BodyScope s; s.arena = ai; s.saved_arena = ts.arena; if (ts.arena >= 0 && ts.arena != ai) n_nested_arena++;
    ts.arena = ai; ts.tags.push_back(tag);
    return s;
}
static void body_exit(BodyScope& s) {
    Arena& a = AR[(size_t)s.arena]; int me = vs_self(); int idx = tbb::this_task_arena::current_thread_index();
    bool found = false;
    for (size_t i = 0; i < a.in.size(); i++) if (a.in[i].thread == me && a.in[i].idx == idx) { found = true; if (--a.in[i].depth == 0) a.in.erase(a.in.begin() + (long)i); break; }
    if (!found) vs_violation("SLOT-CHANGED", "thread %d left a body of arena %d with current_thread_index()=%d, which it did not have on entry", me, s.arena, idx);
    ts.tags.pop_back(); ts.arena = s.saved_arena;
}

static void run_ops(const std::vector<Op>& ops);
static void run_unit_body(int u, bool same_thread_inline) {
    Unit& x = U[(size_t)u];
    if (++x.started > 1) vs_violation("RAN-TWICE", "unit %d started twice", u);
    BodyScope s = body_enter(x.arena, x.tag, same_thread_inline);
    run_ops(x.ops);
    body_exit(s);
    x.finished++;
}
static void submit(int u, int arena, long tag) { Unit& x = U[(size_t)u]; if (x.submitted) vs_inconclusive("BAD-CASE", "unit %d submitted twice", u); x.submitted = true; x.arena = arena; x.tag = tag; x.sub_thread = vs_self(); }
static void gc_op(const Op& op, bool quiescent) {
    if (op.c == '+') {
        if (GC.count(op.a)) vs_inconclusive("BAD-CASE", "gc %d exists", op.a);
        GC[op.a] = new tbb::global_control(tbb::global_control::max_allowed_parallelism, (size_t)op.b); GCV[op.a] = op.b;      // lowering: in force when the call returned
    } else {
        if (!GC.count(op.a)) return;       // created in a script that did not run that far: nothing to do
        tbb::global_control* p = GC[op.a]; GC.erase(op.a); GCV.erase(op.a);
        win_max = std::max(win_max, cur_L());       // raising: may take effect as soon as the call starts
        delete p;
    }
    if (!quiescent) n_mid_limit++;
}
// H: the wait of a task_group is kept open by a deferred task_handle that a helper thread (no arena, no bodies) drops later: dropping an unrun
// handle releases the group's wait reference.  Meanwhile the waiting thread sits in the scheduler under its isolation tag.
struct Held { tbb::task_handle h; int k; };
static std::vector<Held*> g_held; static bool g_releaser_stop = false; static long n_held_waits = 0;
static void releaser_main(void*) {
    for (;;) {
        vs_block_until([] { return !g_held.empty() || g_releaser_stop; });
        if (g_held.empty()) return;
        Held* x = g_held.front(); g_held.erase(g_held.begin());
        vs_work(x->k);
        x->k = -1;                      // from here on the wait may end
        x->h = tbb::task_handle();      // drop
    }
}
extern "C" void (*onetbb_verif_execute_delegated_hook)(const void*);
static long n_hook_delegated = 0;
static void on_delegated(const void*) { n_hook_delegated++; enq_seen = true; for (auto& a : AR) a.enq_seen = true; }
static void run_ops(const std::vector<Op>& ops) {
    for (auto& op : ops) {
        switch (op.c) {
        case 'H': {
            long tag = next_tag++; int k = op.a; n_held_waits++;
            tbb::this_task_arena::isolate([tag, k] {
                ts.tags.push_back(tag);
                tbb::task_group tg; Held x; x.k = k; x.h = tg.defer([] {});
                g_held.push_back(&x);
                tg.wait();
                if (x.k != -1) vs_violation("WAIT-RETURNED-EARLY", "task_group::wait returned while a deferred task_handle of the group was still alive");
                ts.tags.pop_back(); });
            break; }
        case 'W': vs_work(op.a); break;
        case '+': case '-': gc_op(op, false); break;
        case 'X': {
            // A full arena turns execute() into an enqueued delegate (mandatory concurrency) -- and the caller may still end up running that functor itself
            // (it enters when a slot frees), so a delegation cannot be recognised from outside: every execute() counts as possibly enqueued work.
            // Exception: while no worker can be anywhere (limit 1 since the last quiescent point, nothing enqueued or possibly delegated so far) and the
            // scenario has no more external threads than the arena has slots, the arena cannot be full: this execute() certainly runs in place.
            int u = op.b, me = vs_self(); submit(u, op.a, 0);
            // Exact since the hook onetbb_verif_execute_delegated_hook exists (ONETBB_VERIF, /repo src/tbb/arena.cpp): the library reports the moment an execute()
            // finds no free slot and enqueues its functor; on_delegated() then marks enqueued work before the task is published.  (A static argument "fewer threads
            // than slots, so never full" is wrong: a slot that its last occupant is just releasing still looks taken -- found by the thorough tier.)
            bool may_delegate = false;
            if (may_delegate) { x_pending++; enq_seen = true; AR[(size_t)op.a].x_pending++; AR[(size_t)op.a].enq_seen = true; } else n_x_inplace_certain++;
            int xa = op.a;
            ts.xarenas.push_back(xa);     // also while it waits for a delegated functor the caller sits in the arena as an external thread
            ts.tags.push_back(0);         // ... and execute() drops the caller's isolation for its whole duration (nested_arena_context)
            { int xa = op.a; AR[(size_t)op.a].ta->execute([u, me, xa, may_delegate] { bool same = vs_self() == me; if (may_delegate) { x_pending--; AR[(size_t)xa].x_pending--; } if (!same) n_delegated++;
                if (!same && !may_delegate) { enq_seen = true; AR[(size_t)xa].enq_seen = true; n_x_wrongly_certain++; }     // delegated after all: then it was enqueued work (keeps the oracle sound if the reasoning above misses a case)
                run_unit_body(u, same); }); }
            ts.tags.pop_back(); ts.xarenas.pop_back();
            if (U[(size_t)u].finished != 1) vs_violation("EXECUTE-RETURNED-EARLY", "task_arena::execute returned but unit %d finished %d times", u, U[(size_t)u].finished);
            break; }
        case 'E': { int u = op.b; submit(u, op.a, 0); enq_seen = true; AR[(size_t)op.a].enq_seen = true; AR[(size_t)op.a].ta->enqueue([u] { run_unit_body(u, false); }); break; }
        case 'I': {
            int u = op.a; Unit& x = U[(size_t)u]; if (x.submitted) vs_inconclusive("BAD-CASE", "unit %d submitted twice", u); x.submitted = true; x.started++;
            long tag = next_tag++;
            tbb::this_task_arena::isolate([&x, tag] { ts.tags.push_back(tag); run_ops(x.ops); ts.tags.pop_back(); });
            x.finished++;
            break; }
        case 'K': {
            // Critical tasks (the tasks of a prioritised flow-graph node) sit in the arena's critical stream and are looked for at every dispatch step; they carry
            // the isolation of the thread that put the message, so a thread waiting in another isolation scope must leave them alone (arena::get_critical_task).
            int u = op.b, n = op.a; Unit& x = U[(size_t)u]; if (x.submitted) vs_inconclusive("BAD-CASE", "unit %d submitted twice", u); x.submitted = true; x.started++;
            int ai = ts.arena; long ptag = ts.tags.empty() ? 0 : ts.tags.back();
            std::vector<int> ran((size_t)n, 0);
            {
                tbb::flow::graph fg;
                tbb::flow::function_node<int, int> pn(fg, tbb::flow::unlimited, [ai, ptag, &ran](int id) {
                    if (++ran[(size_t)id] > 1) vs_violation("RAN-TWICE", "priority node body ran twice for message %d", id);
                    BodyScope s = body_enter(ai, ptag, false); n_crit_bodies++; vs_work(1); body_exit(s); return id; }, tbb::flow::node_priority_t(1));
                for (int i = 0; i < n; i++) pn.try_put(i);
                long tag = next_tag++;
                tbb::this_task_arena::isolate([&x, tag] { ts.tags.push_back(tag); run_ops(x.ops); ts.tags.pop_back(); });
                x.finished++;
                // graph::wait_for_all waits through task_arena::execute on the graph's arena, and execute() drops the caller's isolation for its duration (as in op X):
                // inside this wait the thread may take work of any scope.  (First version of this leg forgot that: ISOLATION alarms on the unchanged tree, oracle corrected.)
                // The same holds for ~graph(), which waits once more (second correction, found by the seed sweep): the 0 frame stays until the graph is gone.
                ts.tags.push_back(0);
                fg.wait_for_all();
                for (int i = 0; i < n; i++) if (ran[(size_t)i] != 1) vs_violation("WAIT-RETURNED-EARLY", "graph::wait_for_all returned but the priority node body ran %d times for message %d", ran[(size_t)i], i);
            }
            ts.tags.pop_back();
            break; }
        case 'P': {
            int ai = ts.arena; long tag = ts.tags.empty() ? 0 : ts.tags.back(); int k = op.b; int me = vs_self();
            auto body = [ai, tag, k, me](const tbb::blocked_range<int>& r) { for (int i = r.begin(); i < r.end(); i++) { BodyScope s = body_enter(ai, tag, false); vs_work(k); body_exit(s); } (void)me; };
            tbb::blocked_range<int> rg(0, op.a, 1);
            if (op.d == 0) tbb::parallel_for(rg, body, tbb::simple_partitioner());
            else if (op.d == 1) tbb::parallel_for(rg, body, tbb::auto_partitioner());
            else tbb::parallel_for(rg, body, tbb::static_partitioner());
            break; }
        case 'G': {
            tbb::task_group tg; int ai = ts.arena; long tag = ts.tags.empty() ? 0 : ts.tags.back();
            for (int u : op.us) { submit(u, ai, tag); tg.run([u] { run_unit_body(u, false); }); }
            tg.wait();
            for (int u : op.us) if (U[(size_t)u].finished != 1) vs_violation("WAIT-RETURNED-EARLY", "task_group::wait returned but unit %d finished %d times", u, U[(size_t)u].finished);
            break; }
        }
    }
}

static int g_rounds = 1, round_go = -1; static std::vector<std::vector<std::vector<Op>>> TS_;   // [round][thread] ops
static std::vector<std::vector<char>> round_done;
static void thread_rounds(int t) {
    for (int r = 0; r < g_rounds; r++) {
        vs_block_until([r] { return round_go >= r; });
        if ((size_t)t < TS_[(size_t)r].size()) run_ops(TS_[(size_t)r][(size_t)t]);
        round_done[(size_t)r][(size_t)t] = 1;
    }
}
static void ext_main(void* p) { thread_rounds((int)(intptr_t)p); }
// Every DEADLOCK is a violation.  The kind EXECUTE-WAIT-LOST-WAKEUP only names a shape that was a genuine defect (repaired in /repo 5444123): execute() on
// a full arena enqueues a delegate and sleeps on my_exit_monitors; a WORKER giving its slot back did not notify that monitor, so a caller that was itself the
// last permitted worker slept for ever after the occupying workers had left on recall.
static int g_witness_mode = 0;
static void on_deadlock(const char* detail) {
    vs_violation(x_pending > 0 ? "EXECUTE-WAIT-LOST-WAKEUP" : "DEADLOCK", "%s (%d execute() calls waiting for a slot or for their delegated functor)", detail, x_pending);
}
static void quiescent_checks(const char* when) {
    for (size_t i = 0; i < AR.size(); i++) {
        if (!AR[i].in.empty()) vs_violation("BOOKKEEPING", "arena %zu still has in-flight bodies at a quiescent point (%s)", i, when);
        for (auto& kv : AR[i].obs_cnt) if (kv.second != 0) vs_violation("OBSERVER-UNBALANCED", "at a quiescent point (%s) thread %d has %d more on_scheduler_entry than on_scheduler_exit calls for arena %zu", when, kv.first, kv.second, i);
    }
}

// allotment at quiescence: every arena gets parked tasks (enqueued while nobody else runs), workers block inside them
static int park_release = 0; static std::vector<std::set<int>> parked;
static void allotment_phase(int L) {
    vs_wait_quiescent();
    tbb::global_control gc(tbb::global_control::max_allowed_parallelism, (size_t)L);
    int Leff = std::min(L, cur_L());
    vs_wait_quiescent();
    parked.assign(AR.size(), {});
    vs_solo_begin(2000000);
    for (size_t i = 0; i < AR.size(); i++) {
        if (!can_enqueue(ACfg{ AR[i].mc, AR[i].res, AR[i].pri })) continue;
        for (int k = 0; k < AR[i].mc + 2; k++) AR[i].ta->enqueue([i] { int me = vs_self(); if (vs_is_scenario_thread(me)) return; parked[i].insert(me); vs_block_until([] { return park_release != 0; }); parked[i].erase(me); });
    }
    if (vs_solo_end()) vs_inconclusive("SOLO-BLOCKED", "enqueue blocked in solo mode");
    // demand of an arena = worker slots; the mandatory worker of a workerless arena counts as demand 1
    std::vector<int> demand(AR.size(), 0); int total = 0;
    for (size_t i = 0; i < AR.size(); i++) if (can_enqueue(ACfg{ AR[i].mc, AR[i].res, AR[i].pri })) { int w = AR[i].mc - AR[i].res; demand[i] = w > 0 ? w : 1; total += demand[i]; }
    int limit = std::max(Leff - 1, total > 0 ? 1 : 0), expect = std::min(total, limit), got = 0;
    // settle: the granted workers park inside the bodies.  A worker that was woken but finds no arena to join never sleeps (it keeps polling), so
    // "too few" cannot be seen as a quiescent state: give the runtime 600000 scheduler steps (fairness bound 4000, longest directed stall 100000) instead.
    uint64_t t0 = vs_steps();
    vs_block_until([expect, t0] { int g = 0; for (auto& p : parked) g += (int)p.size(); return g >= expect || vs_steps() > t0 + 600000; });
    for (auto& p : parked) got += (int)p.size();
    if (got >= expect) { vs_wait_quiescent(); got = 0; for (auto& p : parked) got += (int)p.size(); }
    else got = -got - 1;      // timed out below the expectation: reported below
    if (got < 0) { got = -got - 1; std::string d; for (size_t i = 0; i < AR.size(); i++) d += " a" + std::to_string(i) + "(pri" + std::to_string(AR[i].pri) + ",demand" + std::to_string(demand[i]) + ")=" + std::to_string(parked[i].size());
        vs_violation("ALLOTMENT-SUM", "only %d workers reached the parked tasks within 600000 scheduler steps, expected min(total demand %d, limit %d) = %d;%s", got, total, limit, expect, d.c_str()); }
    got = 0;
    for (size_t i = 0; i < AR.size(); i++) {
        got += (int)parked[i].size();
        if ((int)parked[i].size() > demand[i]) vs_violation("ALLOTMENT-ABOVE-DEMAND", "arena %zu (max_concurrency %d, reserved %d) holds %zu workers at quiescence", i, AR[i].mc, AR[i].res, parked[i].size());
    }
    std::string dump; for (size_t i = 0; i < AR.size(); i++) dump += " a" + std::to_string(i) + "(pri" + std::to_string(AR[i].pri) + ",demand" + std::to_string(demand[i]) + ")=" + std::to_string(parked[i].size());
    if (got != expect) vs_violation("ALLOTMENT-SUM", "workers parked in arenas sum to %d, expected min(total demand %d, limit %d) = %d;%s", got, total, limit, expect, dump.c_str());
    // priority: pri 1 (high) before 0 (normal) before 2 (low)
    auto rank = [](int p) { return p == 1 ? 0 : p == 0 ? 1 : 2; };
    if (Leff - 1 >= 1) for (size_t i = 0; i < AR.size(); i++) for (size_t j = 0; j < AR.size(); j++)
        if (rank(AR[i].pri) < rank(AR[j].pri) && (int)parked[i].size() < demand[i] && !parked[j].empty())
            vs_violation("ALLOTMENT-PRIORITY", "arena %zu has higher priority and unsatisfied demand, but lower-priority arena %zu holds workers;%s", i, j, dump.c_str());
    vs_stat_flag(total > limit ? "allotment_scarce" : "allotment_plenty"); vs_stat_add("n_allot_checks", 1);
    park_release = 1;
    vs_block_until([] { for (auto& p : parked) if (!p.empty()) return false; return true; });
    vs_wait_quiescent();
}

void h_run(Case& c) {
    int allot = 0; std::vector<std::vector<Op>> G_;
    auto parse_ops = [](const std::vector<std::string>& w, size_t from, std::vector<Op>& out) {
        for (size_t i = from; i < w.size(); i++) {
            Op op; op.c = w[i][0]; const char* s = w[i].c_str() + 1; int v[3] = { 0, 0, 0 };
            if (op.c == 'G') { for (const char* q = s; *q;) { op.us.push_back(atoi(q)); while (*q && *q != ',') q++; if (*q == ',') q++; } }
            else { sscanf(s, "%d:%d:%d", &v[0], &v[1], &v[2]); op.a = v[0]; op.b = v[1]; op.d = v[2]; }
            out.push_back(op);
        }
    };
    for (auto& l : c.lines) {
        auto w = split_ws(l);
        if (w[0] == "cfg") {
            L0 = (int)kvl(l, "par", 2); g_ext = (int)kvl(l, "ext", 1); g_rounds = (int)kvl(l, "rounds", 1); allot = (int)kvl(l, "allot", 0); g_witness_mode = (int)kvl(l, "witness", 0); g_witness = g_witness_mode == 1;
            std::string as = kvs(l, "arenas", "2:0:0");
            for (size_t p = 0; p < as.size();) { size_t e = as.find(',', p); std::string it = as.substr(p, e == std::string::npos ? std::string::npos : e - p); Arena a; a.mc = 1; a.res = 0; a.pri = 0; sscanf(it.c_str(), "%d:%d:%d", &a.mc, &a.res, &a.pri); if (a.mc < 1 || a.res > a.mc) vs_inconclusive("BAD-CASE", "bad arena"); AR.push_back(a); if (e == std::string::npos) break; p = e + 1; }
            TS_.assign((size_t)g_rounds, std::vector<std::vector<Op>>((size_t)g_ext)); G_.assign((size_t)g_rounds, {});
        } else if (w[0] == "g") { size_t r = (size_t)atoi(w[1].c_str()); if (r < G_.size()) parse_ops(w, 2, G_[r]); }
        else if (w[0] == "t") { size_t r = (size_t)atoi(w[1].c_str()), t = (size_t)atoi(w[2].c_str()); if (r < TS_.size() && t < TS_[r].size()) parse_ops(w, 3, TS_[r][t]); }
        else if (w[0] == "u") { size_t id = (size_t)atoi(w[1].c_str()); if (U.size() <= id) U.resize(id + 1); parse_ops(w, 2, U[id].ops); }
    }
    size_t maxu = 0;
    auto scan = [&](const std::vector<Op>& ops) { for (auto& op : ops) { if (op.c == 'X' || op.c == 'E') { maxu = std::max(maxu, (size_t)op.b + 1); if (op.a < 0 || (size_t)op.a >= AR.size()) vs_inconclusive("BAD-CASE", "bad arena index"); } if (op.c == 'I') maxu = std::max(maxu, (size_t)op.a + 1); if (op.c == 'K') maxu = std::max(maxu, (size_t)op.b + 1); for (int u : op.us) maxu = std::max(maxu, (size_t)u + 1); } };
    for (auto& r : TS_) for (auto& t : r) scan(t); for (size_t i = 0; i < U.size(); i++) scan(U[i].ops);
    if (U.size() < maxu) U.resize(maxu);
    round_done.assign((size_t)g_rounds, std::vector<char>((size_t)g_ext, 0));
    vs_begin(c.sched.c_str());
    vs_on_deadlock(on_deadlock);
    {
        tbb::global_control base(tbb::global_control::max_allowed_parallelism, (size_t)L0);
        win_max = L0;
        for (size_t i = 0; i < AR.size(); i++) {
            tbb::task_arena::priority pr = AR[i].pri == 1 ? tbb::task_arena::priority::high : AR[i].pri == 2 ? tbb::task_arena::priority::low : tbb::task_arena::priority::normal;
            AR[i].ta = new tbb::task_arena(AR[i].mc, (unsigned)AR[i].res, pr);
            AR[i].obs = new Obs(*AR[i].ta, (int)i); AR[i].obs->observe(true);
        }
        onetbb_verif_execute_delegated_hook = on_delegated;
        std::vector<int> tids; int rel_tid = vs_thread_start(releaser_main, nullptr);
        for (int e = 1; e < g_ext; e++) tids.push_back(vs_thread_start(ext_main, (void*)(intptr_t)e));
        for (int r = 0; r < g_rounds; r++) {
            if (r > 0 || !G_[(size_t)r].empty()) vs_wait_quiescent();
            for (auto& op : G_[(size_t)r]) gc_op(op, true);
            if (!G_[(size_t)r].empty()) vs_wait_quiescent();      // whoever was woken by a transiently higher limit is asleep again
            win_max = cur_L(); enq_seen = false; for (auto& a : AR) a.enq_seen = false;
            round_go = r;
            if (!TS_[(size_t)r].empty()) run_ops(TS_[(size_t)r][0]);
            round_done[(size_t)r][0] = 1;
            vs_block_until([r] { for (char d : round_done[(size_t)r]) if (!d) return false; for (auto& u : U) if (u.submitted && u.finished != 1) return false; return true; });
            vs_wait_quiescent();
            quiescent_checks("end of round");
        }
        for (int t : tids) vs_thread_join(t);
        g_releaser_stop = true; vs_thread_join(rel_tid);
        if (allot) allotment_phase(allot);
        for (auto& a : AR) a.obs->observe(false);
        for (auto& kv : GC) delete kv.second;
    }
    long nsub = 0; int max_in = 0; long entries = 0;
    for (auto& u : U) if (u.submitted) { nsub++; if (u.started != 1 || u.finished != 1) vs_violation("LEDGER", "a submitted unit started %d / finished %d times", u.started, u.finished); }
    for (auto& a : AR) { max_in = std::max(max_in, a.max_in); entries += a.entries; if (a.entries != a.exits) vs_violation("OBSERVER-UNBALANCED", "%ld entries vs %ld exits", a.entries, a.exits); }
    vs_stat_add("n_units", nsub); vs_stat_add("n_bodies", n_bodies); vs_stat_add("n_worker_bodies", n_worker_bodies); vs_stat_add("n_delegated", n_delegated); vs_stat_add("n_extra_worker", n_extra_worker);
    vs_stat_add("n_iso_wait_exec", n_iso_wait_exec); vs_stat_add("n_mid_limit", n_mid_limit); vs_stat_add("n_slot_reuse", n_slot_reuse); vs_stat_add("n_observer_entries", entries); vs_stat_add("n_excluded", n_excluded + kvl(c.lines[0], "clamped", 0));
    vs_stat_max("max_in_arena", max_in); vs_stat_max("max_workers", max_workers_seen);
    if (n_crit_bodies) vs_stat_flag("critical_task_bodies"); if (n_held_waits) vs_stat_flag("isolated_wait_held_open_from_outside"); if (n_x_inplace_certain) vs_stat_flag("execute_certainly_in_place_under_limit_1"); if (n_x_wrongly_certain) vs_stat_flag("execute_delegated_although_arena_not_full"); if (n_hook_delegated) vs_stat_flag("execute_delegated_reported_by_hook"); if (n_worker_bodies) vs_stat_flag("worker_in_arena"); if (n_delegated) vs_stat_flag("delegated_execute"); if (n_extra_worker) vs_stat_flag("extra_worker_slot"); if (n_iso_wait_exec) vs_stat_flag("body_started_in_isolated_wait");
    if (n_mid_limit) vs_stat_flag("limit_changed_while_running"); if (n_slot_reuse) vs_stat_flag("slot_reused_by_other_thread"); if (n_nested_arena) vs_stat_flag("nested_arena"); if (n_budget_tight) vs_stat_flag("worker_budget_reached");
    if (n_excluded) vs_stat_flag("excluded_external_in_extra_slot"); if (n_ext_nonreserved) vs_stat_flag("external_in_nonreserved_slot");
    vs_stat_add("nt", (max_in >= 2 && entries > 0) ? 1 : 0);
    vs_ok();
}

int main(int argc, char** argv) { return drv_main(argc, argv); }
