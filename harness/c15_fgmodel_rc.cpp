// C15 / C14 (sequential leg) -- one flow-graph node against an executable model of its documented sequential contract, rapidcheck.
// A node under test (broadcast, function (identity), overwrite, write_once, queue, priority_queue, sequencer, limiter<int,int>) has 1-3 successors that
// are programmable receivers: each accepts the next <budget> messages and rejects afterwards (budget set by the program at any time), and answers
// register_predecessor() with a fixed true / false (true = the edge goes to the pull state and the receiver remembers its predecessor).
// Operations: try_put to the node, set a budget, a receiver pulls from its predecessor (try_get; on failure it gives the edge back with
// register_successor), limiter decrements of -3..+3, clear() of overwrite/write_once, try_get and try_reserve / try_release / try_consume by the test, make_edge of a late successor, graph::reset(rf_reset_bodies) (R; function / async nodes).
// After every operation graph::wait_for_all() is called, so the state is quiescent, and then compared with the model:
//   the return value of the call, the exact sequence of values every receiver has got so far, and at the end the items still buffered.
// What the model states (sequential reading of the documented contracts, C15 statement):
//   broadcast / function output / overwrite / write_once / limiter offer a message to every successor that is in the push state, in edge order; a successor
//     that rejects stays a successor unless it took the edge over (register_predecessor true) -- so it gets the next message again;
//   queue (FIFO) / priority_queue (largest first) / sequencer (0,1,2,... no gap, duplicates and numbers already emitted are rejected) hand every item to the
//     first successor in edge order that accepts it, keep what nobody accepts, and forward again when an item arrives or a successor (re)registers;
//   overwrite keeps the latest, write_once the first value until clear(), both give it to try_get and to a successor attached later;
//   limiter: a put is accepted iff count < threshold and some successor accepts it; count' = count + 1; decrement d: count' = min(threshold, max(0, count - d)).
// usage: c15_fgmodel_rc <max_success> [<property id for the replay file name>]   (env VERIF_LEG_SEED, VERIF_REPLAY_DIR)   |   c15_fgmodel_rc replay <file>
// case (one line):  fg nut=<bc|fn|as|ow|wo|q|pq|seq|lim|jk> T=<threshold> copy=<0|1 node copy-constructed from a prototype> sinks=<regpred:budget:attached,...> ops=<P5,B0:2,U1,D-2,C,G,V,L,M,E2,R,...>
#include <rapidcheck.h>
#include "oneapi/tbb/flow_graph.h"
#include "oneapi/tbb/global_control.h"
#include <cstdio>
#include <set>
#include <map>
#include <deque>
#include <string>
#include <vector>
#include <chrono>
#include <fstream>
#include <memory>
using namespace tbb::flow;
typedef tbb::detail::d2::graph_task gtask;

static std::string g_err;
static bool fail(const std::string& s) { if (g_err.empty()) g_err = s; return false; }
static std::string num(long v) { return std::to_string(v); }
static std::vector<std::string> split(const std::string& s, char c) { std::vector<std::string> r; size_t p = 0; while (p <= s.size()) { size_t e = s.find(c, p); if (e == std::string::npos) e = s.size(); if (e > p) r.push_back(s.substr(p, e - p)); p = e + 1; } return r; }
static std::string kv(const std::string& l, const char* k) { std::string key = std::string(" ") + k + "=", s = " " + l; size_t p = s.find(key); if (p == std::string::npos) return ""; size_t e = s.find(' ', p + 1); return s.substr(p + key.size(), e == std::string::npos ? std::string::npos : e - p - key.size()); }

// ------------------------------------------------------------------ the programmable receiver
struct Sink : receiver<int> {
    graph& g; bool regpred; int budget; std::vector<int> log; sender<int>* pred = nullptr;
    Sink(graph& gr, bool rp, int b) : g(gr), regpred(rp), budget(b) {}
    graph& graph_reference() const override { return g; }
    gtask* try_put_task(const int& v) override { if (budget == 0) return nullptr; if (budget > 0) budget--; log.push_back(v); return const_cast<gtask*>(tbb::detail::d2::SUCCESSFULLY_ENQUEUED); }
#if __TBB_PREVIEW_FLOW_GRAPH_TRY_PUT_AND_WAIT
    gtask* try_put_task(const int& v, const tbb::detail::d2::message_metainfo&) override { return try_put_task(v); }
#endif
    bool register_predecessor(predecessor_type& p) override { if (!regpred) return false; pred = &p; return true; }
    bool remove_predecessor(predecessor_type& p) override { if (pred == &p) pred = nullptr; return true; }
};

// ------------------------------------------------------------------ the model
struct MSink { bool regpred = false; int budget = -1; bool attached = false, haspred = false; std::vector<int> log; };
struct Model {
    std::string kind; int T = 1; std::vector<MSink> s; std::vector<int> push;
    std::deque<int> items; std::multiset<int> bag; std::set<int> present; int head = 0; bool valid = false; int val = 0; int count = 0; bool reserved = false; int rsv = 0; std::map<int, int> port[2];
    bool accepts(int k, int v) { MSink& m = s[(size_t)k]; if (m.budget == 0) return false; if (m.budget > 0) m.budget--; m.log.push_back(v); return true; }
    bool offer_all(int v) { bool any = false; for (size_t i = 0; i < push.size();) { int k = push[i]; if (accepts(k, v)) { any = true; i++; } else if (s[(size_t)k].regpred) { push.erase(push.begin() + (long)i); s[(size_t)k].haspred = true; } else i++; } return any; }
    bool offer_one(int v) { for (size_t i = 0; i < push.size();) { int k = push[i]; if (accepts(k, v)) return true; if (s[(size_t)k].regpred) { push.erase(push.begin() + (long)i); s[(size_t)k].haspred = true; } else i++; } return false; }
    bool buffering() const { return kind == "q" || kind == "pq" || kind == "seq"; }
    void forward() {
        if (reserved) return;      // nothing leaves a buffer while one of its items is reserved
        if (kind == "q") while (!items.empty() && offer_one(items.front())) items.pop_front();
        else if (kind == "pq") while (!bag.empty() && offer_one(*bag.rbegin())) bag.erase(std::prev(bag.end()));
        else if (kind == "seq") while (present.count(head) && offer_one(head)) { present.erase(head); head++; }
    }
    bool put(int v) {
        if (kind == "bc" || kind == "fn" || kind == "as") { offer_all(v); return true; }
        if (kind == "jk") return jput(0, v);
        if (kind == "ow") { valid = true; val = v; offer_all(v); return true; }
        if (kind == "wo") { if (valid) return false; valid = true; val = v; offer_all(v); return true; }
        if (kind == "q") { items.push_back(v); forward(); return true; }
        if (kind == "pq") { bag.insert(v); forward(); return true; }
        if (kind == "seq") { if (v < head || present.count(v)) return false; present.insert(v); forward(); return true; }
        if (kind == "lim") { if (count >= T) return false; bool any = offer_all(v); if (any) count++; return any; }
        return false;
    }
    bool reserve(int& x) {   // try_reserve: the next item stays in the node but is promised to the caller
        if (reserved) return false;
        if (kind == "q") { if (items.empty()) return false; x = items.front(); }
        else if (kind == "pq") { if (bag.empty()) return false; x = *bag.rbegin(); bag.erase(std::prev(bag.end())); }
        else if (kind == "seq") { if (!present.count(head)) return false; x = head; }
        else return false;
        reserved = true; rsv = x; return true;
    }
    void release() { reserved = false; if (kind == "pq") bag.insert(rsv); forward(); }
    void consume() { reserved = false; if (kind == "q") items.pop_front(); else if (kind == "seq") { present.erase(head); head++; } forward(); }
    bool get(int& x) {       // try_get on the node (by the test, or by a successor in the pull state)
        if (reserved && buffering()) return false;
        if (kind == "q") { if (items.empty()) return false; x = items.front(); items.pop_front(); return true; }
        if (kind == "pq") { if (bag.empty()) return false; x = *bag.rbegin(); bag.erase(std::prev(bag.end())); return true; }
        if (kind == "seq") { if (!present.count(head)) return false; x = head; present.erase(head); head++; return true; }
        if (kind == "ow" || kind == "wo") { if (!valid) return false; x = val; return true; }
        return false;
    }
    void attach(int k) {     // register_successor
        if ((kind == "ow" || kind == "wo") && valid) { if (accepts(k, val)) push.push_back(k); else s[(size_t)k].haspred = true; return; }     // a rejecting late successor must take the edge over (precondition, see run_case)
        push.push_back(k); if (buffering()) forward();
    }
    // key_matching join of two ports (key = value & 7): a tuple leaves as soon as both ports hold a message with the same key
    bool jput(int p, int v) { int k = v & 7; port[p][k] = v; if (port[0].count(k) && port[1].count(k)) { int a = port[0][k], b = port[1][k]; port[0].erase(k); port[1].erase(k); offer_all(a * 100 + b); } return true; }
    // graph::reset(): buffered items, stored values, counts and partial tuples are dropped; edges stay as they are
    void reset_all() { items.clear(); bag.clear(); present.clear(); head = 0; valid = false; count = 0; reserved = false; port[0].clear(); port[1].clear(); }
    void decrement(int d) { long c = (long)count - d; if (c < 0) c = 0; if (c > T) c = T; count = (int)c; }
};

// ------------------------------------------------------------------ one case: the real node and the model side by side
static bool g_nontrivial = false; static std::string g_class;
static bool run_case(const std::string& line) {
    g_err.clear(); g_nontrivial = false;
    Model m; m.kind = kv(line, "nut"); m.T = std::max(1, atoi(kv(line, "T").c_str())); g_class = m.kind;
    graph g;
    std::unique_ptr<broadcast_node<int>> bc; std::unique_ptr<function_node<int, int>> fn; std::unique_ptr<overwrite_node<int>> ow; std::unique_ptr<write_once_node<int>> wo;
    std::unique_ptr<queue_node<int>> q; std::unique_ptr<priority_queue_node<int>> pq; std::unique_ptr<sequencer_node<int>> seq; std::unique_ptr<limiter_node<int, int>> lim;
    typedef async_node<int, int> AN; std::unique_ptr<AN> as;
    typedef join_node<std::tuple<int, int>, key_matching<int>> JK; std::unique_ptr<JK> jk; std::unique_ptr<function_node<std::tuple<int, int>, int>> jconv; receiver<int>* in1 = nullptr;
    receiver<int>* in = nullptr; sender<int>* out = nullptr; bool copy = atoi(kv(line, "copy").c_str()) != 0;
    // copy=1: the node under test is copy-constructed from a prototype that stays in the graph without edges (a copy has the prototype's body / threshold, no edges, no items)
    auto mk = [&](auto& holder, auto* proto) { typedef typename std::remove_pointer<decltype(proto)>::type NT; if (copy) { holder.reset(new NT(*proto)); return proto; } holder.reset(proto); return (NT*)nullptr; };
    std::unique_ptr<graph_node> proto_keep;
    if (m.kind == "bc") { auto* p = mk(bc, new broadcast_node<int>(g)); proto_keep.reset(p); in = bc.get(); out = bc.get(); }
    else if (m.kind == "fn") { auto* p = mk(fn, new function_node<int, int>(g, unlimited, [](int v) { return v; })); proto_keep.reset(p); in = fn.get(); out = fn.get(); }
    else if (m.kind == "as") { auto* p = mk(as, new AN(g, unlimited, [](const int& v, AN::gateway_type& gw) { gw.try_put(v); })); proto_keep.reset(p); in = as.get(); out = &output_port<0>(*as); }
    else if (m.kind == "ow") { auto* p = mk(ow, new overwrite_node<int>(g)); proto_keep.reset(p); in = ow.get(); out = ow.get(); }
    else if (m.kind == "wo") { auto* p = mk(wo, new write_once_node<int>(g)); proto_keep.reset(p); in = wo.get(); out = wo.get(); }
    else if (m.kind == "q") { auto* p = mk(q, new queue_node<int>(g)); proto_keep.reset(p); in = q.get(); out = q.get(); }
    else if (m.kind == "pq") { auto* p = mk(pq, new priority_queue_node<int>(g)); proto_keep.reset(p); in = pq.get(); out = pq.get(); }
    else if (m.kind == "seq") { auto* p = mk(seq, new sequencer_node<int>(g, [](const int& v) -> size_t { return (size_t)v; })); proto_keep.reset(p); in = seq.get(); out = seq.get(); }
    else if (m.kind == "lim") { auto* p = mk(lim, new limiter_node<int, int>(g, (size_t)m.T)); proto_keep.reset(p); in = lim.get(); out = lim.get(); }
    else if (m.kind == "jk") {
        jk.reset(new JK(g, [](int v) { return v & 7; }, [](int v) { return v & 7; }));
        jconv.reset(new function_node<std::tuple<int, int>, int>(g, unlimited, [](const std::tuple<int, int>& t) { return std::get<0>(t) * 100 + std::get<1>(t); }));
        make_edge(*jk, *jconv); in = &input_port<0>(*jk); in1 = &input_port<1>(*jk); out = jconv.get(); }
    else return true;
    std::vector<std::unique_ptr<Sink>> S;
    for (auto& sp : split(kv(line, "sinks"), ',')) {
        auto f = split(sp, ':'); if (f.size() < 3) return true;
        MSink ms; ms.regpred = atoi(f[0].c_str()) != 0; ms.budget = atoi(f[1].c_str()); ms.attached = atoi(f[2].c_str()) != 0; m.s.push_back(ms);
        S.emplace_back(new Sink(g, ms.regpred, ms.budget));
    }
    if (S.empty()) return true;
    for (size_t k = 0; k < S.size(); k++) if (m.s[k].attached) { make_edge(*out, *S[k]); m.attach((int)k); }
    g.wait_for_all();
    int n_rej = 0, n_pull = 0, n_keep = 0, n_resv = 0, n_resets = 0;
    auto compare = [&](const std::string& after) -> bool {
        for (size_t k = 0; k < S.size(); k++) {
            if (S[k]->log != m.s[k].log) {
                std::string a, b; for (int v : S[k]->log) a += num(v) + " "; for (int v : m.s[k].log) b += num(v) + " ";
                return fail("after " + after + ": successor " + num((long)k) + " of the " + m.kind + " node has received [ " + a + "], the contract gives [ " + b + "]");
            }
            if ((S[k]->pred != nullptr) != m.s[k].haspred) return fail("after " + after + ": successor " + num((long)k) + (S[k]->pred ? " was given the edge (pull state)" : " was not given the edge") + ", the contract says otherwise");
        }
        return true; };
    for (auto& op : split(kv(line, "ops"), ',')) {
        char c = op[0]; int a = op.size() > 1 ? atoi(op.c_str() + 1) : 0;
        if (c == 'P') {
            if (jk && m.port[0].count(a & 7)) continue;
            bool r = in->try_put(a); g.wait_for_all(); size_t before = 0; for (auto& x : m.s) before += x.log.size();
            bool e = m.put(a); size_t after = 0; for (auto& x : m.s) after += x.log.size();
            if (r != e) return fail("try_put(" + num(a) + ") to the " + m.kind + " node returned " + (r ? "true" : "false") + ", the contract gives " + (e ? "true" : "false"));
            if (!e || after == before) n_rej++;
        } else if (c == 'Q') {
            if (!jk) continue;
            if (m.port[1].count(a & 7)) continue;      // a second message with a key that is still waiting in the same port is outside the contract
            bool r = in1->try_put(a); g.wait_for_all(); bool e = m.jput(1, a);
            if (r != e) return fail("try_put(" + num(a) + ") to port 1 of the key_matching join returned " + (r ? "true" : "false"));
        } else if (c == 'Z') {
            g.reset(); m.reset_all(); n_resets++;
        } else if (c == 'B') {
            size_t p = op.find(':'); if (p == std::string::npos || (size_t)a >= S.size()) continue; int b = atoi(op.c_str() + p + 1);
            S[(size_t)a]->budget = b; m.s[(size_t)a].budget = b;
        } else if (c == 'U') {
            if ((size_t)a >= S.size() || !m.s[(size_t)a].haspred || !S[(size_t)a]->pred) { if ((size_t)a < S.size() && m.s[(size_t)a].haspred != (S[(size_t)a]->pred != nullptr)) return fail("pull state of successor " + num(a) + " differs from the contract"); continue; }
            int x = -1, y = -1; sender<int>* p = S[(size_t)a]->pred; bool r = p->try_get(x); bool e = m.get(y);
            if (r != e || (r && x != y)) return fail("successor " + num(a) + " pulled from the " + m.kind + " node: try_get returned " + (r ? "true, " + num(x) : "false") + ", the contract gives " + (e ? "true, " + num(y) : "false"));
            n_pull++;
            if (r) { S[(size_t)a]->log.push_back(x); m.s[(size_t)a].log.push_back(y); }
            else { S[(size_t)a]->pred = nullptr; m.s[(size_t)a].haspred = false; make_edge(*p, *S[(size_t)a]); m.attach(a); }
            g.wait_for_all();
        } else if (c == 'D') {
            if (!lim || a == 0) continue;
            lim->decrementer().try_put(a); g.wait_for_all(); m.decrement(a);
        } else if (c == 'C') {
            if (ow) ow->clear(); else if (wo) wo->clear(); else continue; m.valid = false;
        } else if (c == 'G') {
            int x = -1, y = -1; bool r = out->try_get(x); g.wait_for_all(); bool e = m.get(y);
            if (r != e || (r && x != y)) return fail("try_get on the " + m.kind + " node returned " + (r ? "true, " + num(x) : "false") + ", the contract gives " + (e ? "true, " + num(y) : "false"));
        } else if (c == 'V') {
            if (!m.buffering()) continue;
            int x = -1, y = -1; bool r = out->try_reserve(x); g.wait_for_all(); bool e = m.reserve(y);
            if (r != e || (r && x != y)) return fail("try_reserve on the " + m.kind + " node returned " + (r ? "true, " + num(x) : "false") + ", the contract gives " + (e ? "true, " + num(y) : "false"));
            if (r) n_resv++;
        } else if (c == 'L' || c == 'M') {
            if (!m.buffering() || !m.reserved) continue;      // release / consume only by the holder of a reservation
            if (c == 'L') { out->try_release(); m.release(); } else { out->try_consume(); m.consume(); }
            g.wait_for_all();
        } else if (c == 'R') {
            // graph::reset(rf_reset_bodies) at a quiescent point: bodies go back to their initial copies; for these (stateless) bodies nothing visible changes
            if (!(fn || as)) continue;
            g.reset(rf_reset_bodies);
        } else if (c == 'E') {
            if ((size_t)a >= S.size() || m.s[(size_t)a].attached) continue;
            // precondition: a successor that rejects and refuses the edge, attached to an overwrite/write_once node that holds a value, makes the node retry for ever (documented hazard)
            if ((m.kind == "ow" || m.kind == "wo") && m.valid && m.s[(size_t)a].budget == 0 && !m.s[(size_t)a].regpred) continue;
            m.s[(size_t)a].attached = true; make_edge(*out, *S[(size_t)a]); g.wait_for_all(); m.attach(a);
        } else continue;
        if (!compare(op)) return false;
    }
    // what is still buffered (an outstanding reservation is given back first)
    if (m.buffering() && m.reserved) { out->try_release(); m.release(); g.wait_for_all(); if (!compare("the final try_release")) return false; }
    if (m.buffering()) for (int guard = 0; guard < 1000; guard++) {
        int x = -1, y = -1; bool r = out->try_get(x), e = m.get(y);
        if (r != e || (r && x != y)) return fail("final drain of the " + m.kind + " node: try_get returned " + (r ? "true, " + num(x) : "false") + ", the contract gives " + (e ? "true, " + num(y) : "false"));
        if (!r) break; n_keep++;
    }
    g.wait_for_all();
    g_nontrivial = (m.kind == "jk") ? (n_resets > 0 || !m.s[0].log.empty()) : n_rej > 0 && (n_pull > 0 || n_keep > 0 || n_resv > 0 || m.kind == "lim" || m.kind == "bc" || m.kind == "fn" || m.kind == "as" || m.kind == "ow" || m.kind == "wo");
    return true;
}

// ------------------------------------------------------------------ generator
static int pick(int lo, int hi) { return *rc::gen::resize(100, rc::gen::inRange(lo, hi + 1)); }
static std::string gen_case() {
    static const char* K[] = { "bc", "fn", "ow", "wo", "q", "q", "pq", "seq", "seq", "lim", "lim", "lim", "as", "jk" };
    std::string kind = K[pick(0, 13)]; int copy = pick(0, 3) == 0; int T = pick(1, 4); int ns = pick(1, 3);
    static const int BUD[] = { -1, -1, 0, 1, 2, 3 };
    std::string sinks; for (int k = 0; k < ns; k++) sinks += (k ? "," : "") + std::to_string(pick(0, 1)) + ":" + std::to_string(BUD[pick(0, 5)]) + ":" + std::to_string(pick(0, 3) ? 1 : 0);
    if (kind == "jk") { sinks = "0:-1:1"; ns = 1; copy = 0; }
    int nops = pick(1, 24); std::string ops; int next_seq = 0;
    for (int i = 0; i < nops; i++) {
        std::string o; int c = pick(0, 19);
        if (kind == "jk") { int w = pick(0, 9); o = w < 4 ? "P" + std::to_string(pick(0, 63)) : w < 8 ? "Q" + std::to_string(pick(0, 63)) : "Z"; ops += (i ? "," : "") + o; continue; }
        if (c == 19 && pick(0, 2) == 0) { ops += (i ? std::string(",") : std::string()) + "Z"; continue; }
        if (c < 9) { int v = pick(0, 15); if (kind == "seq") { v = pick(0, 3) ? next_seq++ : pick(0, 12); } o = "P" + std::to_string(v); }
        else if (c < 13) o = "B" + std::to_string(pick(0, ns - 1)) + ":" + std::to_string(BUD[pick(0, 5)]);
        else if (c < 16) o = "U" + std::to_string(pick(0, ns - 1));
        else if (c == 16) { if (kind == "lim") { int d = pick(-3, 4); if (d <= 0) d -= 1; if (d > 3) d = 1; o = "D" + std::to_string(d); } else if (kind == "ow" || kind == "wo") o = "C"; else o = "G"; }
        else if (c == 17) o = (kind == "lim") ? "D" + std::to_string(pick(1, 3)) : (kind == "fn" || kind == "as") ? "R" : "G";
        else if (c == 18) { bool bufk = kind == "q" || kind == "pq" || kind == "seq"; int w = pick(0, 5); o = (bufk && w < 4) ? (w < 2 ? "V" : w == 2 ? "L" : "M") : "E" + std::to_string(pick(0, ns - 1)); }
        else o = (kind == "ow" || kind == "wo") ? "C" : "P" + std::to_string(pick(0, 15));
        ops += (i ? "," : "") + o;
    }
    return "fg nut=" + kind + " T=" + std::to_string(T) + " copy=" + std::to_string(copy) + " sinks=" + sinks + " ops=" + ops;
}
static unsigned long long fnv(const std::string& s) { unsigned long long h = 1469598103934665603ull; for (unsigned char c : s) { h ^= c; h *= 1099511628211ull; } return h; }
static std::string jesc(const std::string& s) { std::string o = "\""; for (char c : s) { if (c == '"' || c == '\\') { o += '\\'; o += c; } else if (c == '\n') o += "\\n"; else o += c; } return o + "\""; }

int main(int argc, char** argv) {
    tbb::global_control gc(tbb::global_control::max_allowed_parallelism, 1);      // every graph task runs inside wait_for_all on this thread: the sequential contract
    if (argc >= 3 && std::string(argv[1]) == "replay") { std::ifstream f(argv[2]); std::string l; while (std::getline(f, l)) { if (l.empty() || l[0] == '#') continue; bool ok = run_case(l); printf("%s %s\n", ok ? "OK" : "VIOLATION NODE-CONTRACT", g_err.c_str()); return ok ? 0 : 1; } return 2; }
    long max_success = argc > 1 ? atol(argv[1]) : 2000; std::string prop = argc > 2 ? argv[2] : "C15"; const char* sd = getenv("VERIF_LEG_SEED"); const char* rd = getenv("VERIF_REPLAY_DIR");
    std::string params = "seed=" + std::string(sd ? sd : "1") + " max_success=" + std::to_string(max_success) + " max_size=100"; setenv("RC_PARAMS", params.c_str(), 1);
    auto t0 = std::chrono::steady_clock::now();
    unsigned long long evals = 0; std::set<unsigned long long> nt; std::vector<std::string> samples; std::string failing; std::map<std::string, long> cls;
    bool ok = rc::check("flow-graph nodes follow their sequential contract", [&] {
        std::string c = gen_case(); evals++;
        bool good = run_case(c);
        if (good && g_nontrivial) { if (nt.insert(fnv(c)).second) cls["fgmodel_" + g_class]++; if (samples.size() < 4 && nt.size() % 97 == 1) samples.push_back(c); }
        if (!good) failing = c;
        RC_ASSERT(good);
    });
    std::string viol;
    if (!ok && !failing.empty() && !run_case(failing)) {
        char name[400]; snprintf(name, sizeof name, "%s/%s-fgmodel-%016llx.case", rd ? rd : ".", prop.c_str(), fnv(failing));
        FILE* fp = fopen(name, "w"); if (fp) { fprintf(fp, "%s\n# verdict: VIOLATION NODE-CONTRACT %s\n# replay: c15_fgmodel_rc replay <this file>\n", failing.c_str(), g_err.c_str()); fclose(fp); }
        viol = "{\"kind\":\"NODE-CONTRACT\",\"detail\":" + jesc(g_err) + ",\"replay\":" + jesc(name) + ",\"case\":" + jesc(failing) + "}";
    }
    double wall = std::chrono::duration<double>(std::chrono::steady_clock::now() - t0).count();
    std::string j = "{\"evaluations\":" + std::to_string(evals) + ",\"nontrivial_hashes\":[";
    { bool f = true; int n = 0; for (auto h : nt) { if (n++ >= 6000) break; char b[40]; snprintf(b, sizeof b, "%s\"g%llx\"", f ? "" : ",", h); j += b; f = false; } }
    j += "],\"classes\":{"; { bool f = true; for (auto& kv2 : cls) { j += (f ? "" : ",") + jesc(kv2.first) + ":" + std::to_string(kv2.second); f = false; } }
    j += "},\"sums\":{},\"samples\":["; for (size_t i = 0; i < samples.size(); i++) j += (i ? "," : "") + jesc(samples[i]);
    char w[64]; snprintf(w, sizeof w, "%.2f", wall); j += "],\"inconclusive\":0,\"wall_s\":" + std::string(w) + ",\"violations\":[" + viol + "]}";
    fflush(stderr); puts(j.c_str());
    return viol.empty() ? 0 : 1;
}
