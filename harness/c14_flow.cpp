// C14 -- flow graph conserves messages, honours node concurrency limits, wait_for_all means idle.
// DESIGN.md s.6 C14.
//
// program text (nodes are "macro nodes": every port carries Msg; node ids are a topological order):
//   cfg par=<1..4> ext=<1..3>
//   n <id> <kind> pol=<0 queueing|1 rejecting|2 queueing_lightweight|3 rejecting_lightweight> conc=<0 unlimited|1|2> work=<k> thr=<t> fb=<0|1> df=<0|1> cnt=<n> base=<root>
//        kinds: fn mf bc buf q pq join lim split idx seq ow wo inp async
//        join  = join_node<tuple<Msg,Msg>,queueing> + merge function_node (pol/conc/work)            2 in / 1 out
//        split = fork function_node<Msg,tuple<Msg,Msg>> (pol/conc/work) + split_node                  1 in / 2 out
//        idx   = indexer_node<Msg,Msg> + queueing untag function_node                                 2 in / 1 out
//        lim   = limiter_node<Msg>(thr) + queueing worker multifunction_node<Msg,tuple<Msg,continue_msg>>; fb=1: worker port 1 -> decrementer (df=1: decrement first, then cnt points of work, then the output); pol=<k>: k more successors of the limiter that only keep a copy
//        mf    = multifunction_node<Msg,tuple<Msg,Msg>>: routing by bits of the id                    1 in / 2 out
//        inp   = input_node producing cnt messages (roots base..base+cnt-1); async = async_node completed by a foreign thread
//   e <from>.<oport> <to>.<iport>
//   t <thread> <op> ...     P<node>.<port>:<root>[:<seq>] external try_put   W<k> work   A graph.wait_for_all()   S idle until all others blocked   I<node> activate input node
//
// loss-free construction rule (property text): a receiver that may reject (rejecting fn/mf/fork with a limit, limiter, write_once) has only
// buffering predecessors (buf q pq seq inp) or external try_put whose `false` is recorded; broadcasting keepers (inp) then have that single successor;
// a round-robin keeper with several successors has only function-like successors fed by nothing else (judged collectively).
#include "oneapi/tbb/flow_graph.h"
#include "oneapi/tbb/global_control.h"
#include "../engine/drv/drv.h"

const char* H_PROP = "C14";
bool H_TSO = true;

enum Kind { K_FN, K_MF, K_BC, K_BUF, K_Q, K_PQ, K_JOIN, K_LIM, K_SPLIT, K_IDX, K_SEQ, K_OW, K_WO, K_INP, K_ASYNC, K_N };
static const char* KN[K_N] = { "fn", "mf", "bc", "buf", "q", "pq", "join", "lim", "split", "idx", "seq", "ow", "wo", "inp", "async" };
static int nin_of(int k) { return (k == K_JOIN || k == K_IDX) ? 2 : k == K_INP ? 0 : 1; }
static int nout_of(int k) { return (k == K_MF || k == K_SPLIT) ? 2 : 1; }
static bool is_krr(int k) { return k == K_BUF || k == K_Q || k == K_PQ || k == K_SEQ; }   // keeps, hands each item to ONE successor
static bool is_kbc(int k) { return k == K_INP; }                                          // keeps only if every successor rejected
static bool fnlike(int k) { return k == K_FN || k == K_MF || k == K_SPLIT || k == K_ASYNC; }
struct NP { int kind = 0, pol = 0, conc = 0, work = 0, thr = 1, fb = 1, df = 0, cnt = 0, base = 0; };
static bool may_reject(const NP& n) {
    if (n.kind == K_LIM || n.kind == K_WO) return true;
    if (n.kind == K_FN || n.kind == K_MF || n.kind == K_SPLIT) return (n.pol & 1) && n.conc > 0;
    return false;
}
#ifndef C14_KINDS
#define C14_KINDS 0x7fff
#endif

// ------------------------------------------------------------------ generator
struct GN { NP p; std::vector<std::vector<std::pair<int, int>>> succ; std::vector<int> nedges; std::vector<char> ext; std::vector<char> locked; };
// directed generator (drive --limdir): several buffering predecessors race for a limiter with threshold 1-2 whose successor sends the
// decrement from another thread -- the shape of the limiter lost wake-up (fixed in /repo 20ef389, kept as mutant C14-revert-limiter-lost-wakeup-fix)
static std::string gen_limdir(Src& s) {
    int par = s.range(3, 4), ext = 1 + (int)s.weighted({ 1, 5, 3 }), nq = 2 + (int)s.coin(3);
    static const char* QK[] = { "q", "buf", "pq" };
    char b[200]; std::string o; snprintf(b, sizeof b, "cfg par=%d ext=%d\n", par, ext); o = b; int id = 0; std::vector<int> qs, tgt; std::string edges;
    for (int i = 0; i < nq; i++) {
        bool pre = s.coin(3);      // a function node in front of the queue: the offer then comes from a graph task on a worker
        if (pre) { snprintf(b, sizeof b, "n %d fn pol=0 conc=%d work=%d thr=1 fb=1 df=0 cnt=0 base=0\n", id, (int)s.choose(2), s.range(0, 3)); o += b; tgt.push_back(id); id++; }
        snprintf(b, sizeof b, "n %d %s pol=0 conc=0 work=0 thr=1 fb=1 df=0 cnt=0 base=0\n", id, QK[s.weighted({ 5, 2, 2 })]); o += b;
        if (pre) { snprintf(b, sizeof b, "e %d.0 %d.0\n", id - 1, id); edges += b; } else tgt.push_back(id);
        qs.push_back(id); id++;
    }
    int lim = id++;
    { int df = s.coin(8) ? 0 : 1; snprintf(b, sizeof b, "n %d lim pol=%d conc=%d work=%d thr=%d fb=1 df=%d cnt=%d base=0\n", lim, (int)s.weighted({ 1, 2, 3, 2 }), s.coin(6) ? 2 : 1, (int)s.weighted({ 4, 1, 1 }), s.coin(8) ? 2 : 1, df, df ? s.range(1, 8) : 0); o += b; }
    for (int q : qs) { snprintf(b, sizeof b, "e %d.0 %d.0\n", q, lim); edges += b; }
    if (s.flip()) { snprintf(b, sizeof b, "n %d fn pol=0 conc=%d work=%d thr=1 fb=1 df=0 cnt=0 base=0\n", id, (int)s.choose(2), s.range(0, 2)); o += b; snprintf(b, sizeof b, "e %d.0 %d.0\n", lim, id); edges += b; id++; }
    o += edges; int root = 0;
    for (int t = 0; t < ext; t++) {
        o += "t " + std::to_string(t); int nops = s.range(2, 6);
        for (int q = 0; q < nops; q++) {
            if (q && s.coin(2)) { o += " W" + std::to_string(s.range(1, 8)); }
            o += " P" + std::to_string(tgt[s.choose((uint32_t)tgt.size())]) + ".0:" + std::to_string(root++);
        }
        o += "\n";
    }
    return o;
}
std::string h_gen(Src& s) {
    if (drv_flag("--limdir")) return gen_limdir(s);
    int par = s.range(1, 4); if (par < 2 && s.flip()) par = 2;
    bool witness = drv_flag("--witness");
    int ext = 1 + (int)s.weighted({ 5, 3, 1 }); if (witness && ext < 2) ext = 2;
    int nn = s.range(2, 8);
    std::vector<GN> g; std::vector<std::string> elines;
    auto new_gn = [](int kind) { GN n; n.p.kind = kind; n.succ.resize(nout_of(kind)); n.nedges.assign(nin_of(kind), 0); n.ext.assign(nin_of(kind), 0); n.locked.assign(nout_of(kind), 0); return n; };
    for (int it = 0; it < nn && (int)g.size() < 9; it++) {
        static const uint32_t W[K_N] = { 9, 2, 2, 2, 3, 1, 2, 2, 1, 1, 1, 1, 1, 1, 1 };
        uint32_t w[K_N]; for (int k = 0; k < K_N; k++) w[k] = ((C14_KINDS >> k) & 1) ? W[k] : 0;
        if (it == nn - 1 && it > 0) w[K_INP] = 0;
        int k = (int)s.weighted({ w[0], w[1], w[2], w[3], w[4], w[5], w[6], w[7], w[8], w[9], w[10], w[11], w[12], w[13], w[14] });
        if (witness && it == 0) k = K_FN;
        GN n = new_gn(k);
        if (k == K_FN) { n.p.pol = (int)s.weighted({ 4, 6, 1, 2 }); n.p.conc = (int)s.weighted({ 2, 6, 2 }); n.p.work = s.range(0, 8); }
        if (witness && it == 0) { n.p.pol = 2; n.p.conc = 1; n.p.work = s.range(2, 8); }
        else if (k == K_MF || k == K_SPLIT || k == K_JOIN) { n.p.pol = (int)s.weighted({ 3, 3 }); n.p.conc = (int)s.weighted({ 2, 5, 2 }); n.p.work = s.range(0, 5); }
        else if (k == K_LIM) { n.p.thr = s.range(1, 3); n.p.fb = s.coin(4) ? 0 : 1; n.p.conc = (int)s.weighted({ 2, 3, 2 }); n.p.work = s.range(0, 4); n.p.df = s.flip(); if (n.p.df) n.p.cnt = s.range(0, 6); if (s.coin(3)) n.p.pol = s.range(1, 3); }
        else if (k == K_IDX) { n.p.conc = (int)s.weighted({ 2, 3, 1 }); n.p.work = s.range(0, 3); }
        else if (k == K_ASYNC) { n.p.conc = (int)s.weighted({ 3, 2, 1 }); n.p.work = s.range(0, 4); }
        else if (k == K_INP) { n.p.cnt = s.range(1, 4); }
        int ni = nin_of(k); bool rej = may_reject(n.p);
        std::vector<std::array<int, 3>> pend;    // (src node, src port, my in-port), my id is fixed when I am pushed
        for (int p = 0; p < ni; p++) {
            // legal sources for my in-port p; a non-keeping source of a may-reject receiver gets a buffering node in between
            int cur = (int)g.size();
            std::vector<std::pair<int, int>> cand, cand_shared;
            for (int j = 0; j < cur && k != K_SEQ; j++) for (int o = 0; o < (int)g[j].succ.size(); o++) {
                int jk = g[j].p.kind; if (g[j].locked[o]) continue;
                if (is_kbc(jk) && rej && !g[j].succ[o].empty()) continue;
                if (is_kbc(jk) && k == K_WO) continue;   // input_node -> write_once_node: once the value is set the input_node re-spawns its put task for ever (try_release + spawn_put, the edge never flips): wait_for_all cannot return; outside the domain
                bool taken = false; for (auto& pe : pend) if (pe[0] == j && pe[1] == o) taken = true;
                if (is_krr(jk) && (taken || !g[j].succ[o].empty())) {
                    // joining a round-robin group: every member must be function-like and fed by this edge only
                    bool ok = fnlike(k) && !taken;
                    for (auto& sp : g[j].succ[o]) { GN& m = g[sp.first]; if (!fnlike(m.p.kind) || m.nedges[0] != 1 || m.ext[0]) ok = false; }
                    if (ok) cand_shared.push_back({ j, o });
                    continue;
                }
                cand.push_back({ j, o });
            }
            uint32_t how = s.weighted({ cand.empty() ? 0u : 7u, cand.size() > 1 ? 2u : 0u, 1u, cand_shared.empty() ? 0u : 4u });   // 1 edge, 2 edges, external only, join a group
            if (cand.empty() && how < 2) how = 2;
            auto connect = [&](std::pair<int, int> c) {
                int jk = g[c.first].p.kind;
                if (rej && !is_krr(jk) && !is_kbc(jk)) {      // put a buffering node in between
                    static const int BK[] = { K_Q, K_BUF, K_PQ }; GN b = new_gn(BK[s.choose(3)]); int bid = (int)g.size();
                    g[c.first].succ[c.second].push_back({ bid, 0 }); b.nedges[0] = 1;
                    elines.push_back("e " + std::to_string(c.first) + "." + std::to_string(c.second) + " " + std::to_string(bid) + ".0");
                    g.push_back(b); c = { bid, 0 };
                }
                pend.push_back({ c.first, c.second, p }); n.nedges[p]++;
                if (is_kbc(g[c.first].p.kind) && rej) g[c.first].locked[c.second] = 1;
            };
            if (how == 3) { connect(cand_shared[s.choose((uint32_t)cand_shared.size())]); continue; }
            if (how == 0 || how == 1) {
                uint32_t a = s.choose((uint32_t)cand.size()); auto c1 = cand[cand.size() - 1 - a];      // 0 = the most recent port: chains
                std::pair<int, int> c2{ -1, -1 }; if (how == 1) { uint32_t b = s.choose((uint32_t)cand.size() - 1); if (b >= cand.size() - 1 - a) b++; c2 = cand[b]; }
                connect(c1); if (c2.first >= 0) connect(c2);
                n.ext[p] = s.coin(4);
            } else n.ext[p] = 1;
        }
        int me = (int)g.size();
        for (auto& pe : pend) { g[pe[0]].succ[pe[1]].push_back({ me, pe[2] }); elines.push_back("e " + std::to_string(pe[0]) + "." + std::to_string(pe[1]) + " " + std::to_string(me) + "." + std::to_string(pe[2])); }
        g.push_back(n);
    }
    nn = (int)g.size();
    // external targets
    std::vector<std::pair<int, int>> tg; std::vector<int> inps;
    for (int i = 0; i < nn; i++) { for (int p = 0; p < (int)g[i].ext.size(); p++) if (g[i].ext[p]) tg.push_back({ i, p }); if (g[i].p.kind == K_INP) inps.push_back(i); }
    if (tg.empty() && inps.empty()) { for (int i = 0; i < nn && tg.empty(); i++) if (g[i].p.kind != K_INP) { tg.push_back({ i, 0 }); g[i].ext[0] = 1; } }
    // "hot" targets first: those from which a may-reject receiver is reachable (that is where edges flip between push and pull)
    {
        std::vector<char> hot(nn, 0);
        for (int i = nn - 1; i >= 0; i--) { if (may_reject(g[i].p)) hot[i] = 1; for (auto& so : g[i].succ) for (auto& sp : so) if (hot[sp.first]) hot[i] = 1; }
        std::stable_sort(tg.begin(), tg.end(), [&](const std::pair<int, int>& a, const std::pair<int, int>& b) { return hot[a.first] > hot[b.first]; });
    }
    int wfav = 0; if (witness) { bool f = false; for (size_t q = 0; q < tg.size(); q++) if (tg[q].first == 0) { wfav = (int)q; f = true; } if (!f) { tg.push_back({ 0, 0 }); wfav = (int)tg.size() - 1; } }
    struct TOp { char c; int a = 0, b = 0, root = 0, seq = 0; };
    std::vector<std::vector<TOp>> th(ext); int root = 0; int shared_fav = -1;
    for (int t = 0; t < ext; t++) {
        int nops = s.range(1, 10); int fav = shared_fav;
        for (int q = 0; q < nops; q++) {
            uint32_t c = (q == 0 && t == 0 && !tg.empty()) ? 0 : s.weighted({ tg.empty() ? 0u : 9u, 2, witness ? 5u : 1u, 0 });
            if (tg.empty() && c == 0) c = 1;
            TOp op;
            if (c == 0) { if (root >= 40) continue; if (witness) fav = wfav; else if (fav < 0 || s.coin(3)) { fav = (int)s.choose((uint32_t)tg.size()); if (fav && s.flip()) fav /= 2; if (shared_fav < 0) shared_fav = fav; } auto x = tg[fav]; op.c = 'P'; op.a = x.first; op.b = x.second; op.root = root++; }
            else if (c == 1) { op.c = 'W'; op.a = s.range(1, 6); }
            else { op.c = 'A'; }
            th[t].push_back(op);
        }
        if (s.coin(8)) { TOp op; op.c = 'S'; th[t].insert(th[t].begin() + s.choose((uint32_t)th[t].size() + 1), op); }
    }
    for (int i : inps) { g[i].p.base = root; root += g[i].p.cnt; TOp op; op.c = 'I'; op.a = i; int t = (int)s.choose((uint32_t)ext); th[t].insert(th[t].begin() + s.choose((uint32_t)th[t].size() + 1), op); }
    // sequence numbers: a permutation over the puts that target one sequencer
    for (int i = 0; i < nn; i++) if (g[i].p.kind == K_SEQ) {
        std::vector<TOp*> ps; for (auto& t : th) for (auto& op : t) if (op.c == 'P' && op.a == i) ps.push_back(&op);
        std::vector<int> nums; for (size_t q = 0; q < ps.size(); q++) nums.push_back((int)q);
        for (auto* op : ps) { uint32_t x = s.choose((uint32_t)nums.size()); op->seq = nums[x]; nums.erase(nums.begin() + x); }
    }
    std::string o = "cfg par=" + std::to_string(par) + " ext=" + std::to_string(ext) + (witness ? " strictlw=1" : "") + "\n";
    for (int i = 0; i < nn; i++) {
        NP& p = g[i].p; char b[200];
        snprintf(b, sizeof b, "n %d %s pol=%d conc=%d work=%d thr=%d fb=%d df=%d cnt=%d base=%d\n", i, KN[p.kind], p.pol, p.conc, p.work, p.thr, p.fb, p.df, p.cnt, p.base); o += b;
    }
    for (auto& e : elines) o += e + "\n";
    for (int t = 0; t < ext; t++) {
        o += "t " + std::to_string(t);
        for (auto& op : th[t]) {
            if (op.c == 'P') { o += " P" + std::to_string(op.a) + "." + std::to_string(op.b) + ":" + std::to_string(op.root); if (g[op.a].p.kind == K_SEQ) o += ":" + std::to_string(op.seq); }
            else if (op.c == 'W') o += " W" + std::to_string(op.a);
            else if (op.c == 'I') o += " I" + std::to_string(op.a);
            else o += std::string(" ") + op.c;
        }
        o += "\n";
    }
    return o;
}

// ------------------------------------------------------------------ runtime model
using namespace tbb::flow;
// a message is destroyed inside the graph: counted when it happens on a library worker thread (the harness's own threads keep local copies)
static long g_msg_dtors_worker = 0;
struct Msg {
    uint64_t id = 0, mask = 0; uint32_t seq = 0;
    Msg() = default; Msg(const Msg&) = default; Msg& operator=(const Msg&) = default;
    ~Msg() { if (vs_active() && !vs_is_scenario_thread(vs_self())) g_msg_dtors_worker++; }
};
typedef std::tuple<Msg, Msg> Msg2;
struct MsgLess { bool operator()(const Msg& a, const Msg& b) const { return a.id < b.id; } };
static inline uint64_t mix(uint64_t x) { x ^= x >> 30; x *= 0xbf58476d1ce4e5b9ull; x ^= x >> 27; x *= 0x94d049bb133111ebull; x ^= x >> 31; return x; }
static inline uint64_t HH(uint64_t id, int node, int port) { return mix(id ^ (0x9E3779B97F4A7C15ull * (uint64_t)(node * 4 + port + 1))); }
static inline uint64_t HH2(uint64_t a, uint64_t b, int node) { return mix(HH(a, node, 2) + 3 * HH(b, node, 3)); }
static inline uint64_t rootid(int r) { return mix(0xABCDEF01ull + (uint64_t)r); }
static inline int mf_route(uint64_t id) { return (int)((id >> 17) & 3); }

struct Inv { uint64_t id, id2, mask; int tag; uint64_t t0, t1; int thread; bool inl; };
struct Comp { uint64_t id; uint64_t t; bool ok; };
struct NodeRt { virtual receiver<Msg>* in(int) { return nullptr; } virtual sender<Msg>* out(int) { return nullptr; } virtual bool drain(Msg&) { return false; } virtual void activate() {} virtual ~NodeRt() {} };
struct NodeSt {
    NP p; std::vector<std::vector<std::pair<int, int>>> succ, pred; std::vector<Inv> log; int live = 0, limit = 0; long entered = 0, decs = 0;
    std::vector<Comp> comps; std::vector<uint64_t> produced; int stops = 0; bool in_src = false; NodeRt* rt = nullptr; long paths = 1;
};
struct Root { int node = -1, port = 0; uint64_t inv = 0, ret = 0; bool ok = false, done = false, from_input = false; uint64_t id = 0; int thread = -1; };
static std::vector<NodeSt> N; static std::vector<Root> R; static graph* G;
static thread_local int tl_ext_put = 0;
static long g_busy = 0; static uint64_t g_busy_since = 0; static long g_reserved = 0; static long g_enters = 0;
static long n_reject_pull = 0, n_slot_race = 0, n_async_foreign = 0, n_ext_false = 0, n_waits = 0, n_wait_overlap = 0, n_other_thread = 0, n_cover = 0, n_inline = 0;
static std::map<std::pair<int, uint64_t>, std::pair<uint64_t, bool>> g_pending_pull;   // (may-reject successor, id) -> (time the message landed in its keeper, successor saturated then)
struct AsyncJob { int node; Msg m; async_node<Msg, Msg>::gateway_type* gw; };
static std::deque<AsyncJob> g_jobs; static bool g_async_stop = false; static int g_async_tid = -1;

static bool saturated(int s) {
    NodeSt& n = N[s];
    if (n.p.kind == K_LIM) return n.entered - n.decs >= n.p.thr;
    return n.limit > 0 && (n.p.pol & 1) && n.live >= n.limit;
}
// a message is handed to out-port `op` of `node` (or externally to in-port): remember when it lands in a keeper whose may-reject successor is saturated
static void note_arrival(int s, uint64_t id) {
    if (!is_krr(N[s].p.kind)) return;
    for (auto& sp : N[s].succ[0]) if (may_reject(N[sp.first].p) && N[sp.first].p.kind != K_WO) g_pending_pull[{ sp.first, id }] = { vs_now(), saturated(sp.first) };
}
static void note_emit(int node, int op, uint64_t id) { for (auto& sp : N[node].succ[op]) note_arrival(sp.first, id); }
static std::string origin(uint64_t id);
static int enter(int node, uint64_t id, uint64_t id2, uint64_t mask, int tag) {
    NodeSt& n = N[node];
    if (n.limit && n.live >= n.limit) vs_violation("CONCURRENCY-LIMIT", "node %d (%s, concurrency %d): body started while %d bodies are running", node, KN[n.p.kind], n.limit, n.live);
    n.live++; g_enters++;
    { long seen = 0; for (auto& iv : n.log) if (iv.id == id && iv.id2 == id2 && iv.tag == tag) seen++;     // one delivery per path at most: catches re-delivery loops at once
      if (seen >= n.paths) vs_violation("DUP-MESSAGE", "node %d (%s): message %s delivered %ld times, only %ld distinct paths lead here", node, KN[n.p.kind], origin(id).c_str(), seen + 1, n.paths); }
    bool inl = tl_ext_put > 0; if (inl) n_inline++;
    if (!inl && g_busy++ == 0) g_busy_since = vs_now();
    { auto it = g_pending_pull.find({ node, id });
      if (it != g_pending_pull.end()) {   // did it wait in the keeper while this node was at its limit?
          int over = 0; for (auto& iv : n.log) if (!iv.t1 || iv.t1 > it->second.first) over++;
          if (it->second.second || (n.limit && over >= n.limit)) n_reject_pull++;
          g_pending_pull.erase(it); } }
    for (int r = 0; r < (int)R.size() && r < 64; r++) if ((mask >> r & 1) && R[r].thread >= 0 && R[r].thread != vs_self()) { n_other_thread++; break; }
    n.log.push_back(Inv{ id, id2, mask, tag, vs_now(), 0, vs_self(), inl });
    return (int)n.log.size() - 1;
}
static void leave(int node, int idx) {
    NodeSt& n = N[node]; n.live--; n.log[idx].t1 = vs_now();
    if (!n.log[idx].inl) g_busy--;
}

struct FnBody { int node; Msg operator()(const Msg& m) const noexcept { int i = enter(node, m.id, 0, m.mask, -1); vs_work(N[node].p.work); Msg o{ HH(m.id, node, 0), m.mask, m.seq }; note_emit(node, 0, o.id); leave(node, i); return o; } };
struct MergeBody { int node; Msg operator()(const Msg2& t) const noexcept { const Msg& a = std::get<0>(t); const Msg& b = std::get<1>(t); int i = enter(node, a.id, b.id, a.mask | b.mask, -1); vs_work(N[node].p.work); Msg o{ HH2(a.id, b.id, node), a.mask | b.mask, 0 }; note_emit(node, 0, o.id); leave(node, i); return o; } };
struct ForkBody { int node; Msg2 operator()(const Msg& m) const noexcept { int i = enter(node, m.id, 0, m.mask, -1); vs_work(N[node].p.work); Msg2 o(Msg{ HH(m.id, node, 0), m.mask, 0 }, Msg{ HH(m.id, node, 1), m.mask, 0 }); note_emit(node, 0, std::get<0>(o).id); note_emit(node, 1, std::get<1>(o).id); leave(node, i); return o; } };
typedef indexer_node<Msg, Msg> IdxNode;
struct UntagBody { int node; Msg operator()(const IdxNode::output_type& t) const noexcept { int tag = (int)t.tag(); const Msg& m = cast_to<Msg>(t); int i = enter(node, m.id, 0, m.mask, tag); vs_work(N[node].p.work); Msg o{ HH(m.id, node, tag), m.mask, 0 }; note_emit(node, 0, o.id); leave(node, i); return o; } };
typedef multifunction_node<Msg, std::tuple<Msg, Msg>, queueing> MfQ;
struct MfBody {
    int node;
    template <class Ports> void operator()(const Msg& m, Ports& ports) const noexcept {
        int i = enter(node, m.id, 0, m.mask, -1); vs_work(N[node].p.work); int r = mf_route(m.id);
        if (r & 1) { Msg o{ HH(m.id, node, 0), m.mask, 0 }; note_emit(node, 0, o.id); std::get<0>(ports).try_put(o); }
        if (r & 2) { Msg o{ HH(m.id, node, 1), m.mask, 0 }; note_emit(node, 1, o.id); std::get<1>(ports).try_put(o); }
        leave(node, i);
    }
};
struct WorkerBody {
    int node;
    template <class Ports> void operator()(const Msg& m, Ports& ports) const noexcept {
        NodeSt& n = N[node];
        n.entered++;
        if (n.entered - n.decs > n.p.thr) vs_violation("LIMITER-THRESHOLD", "limiter %d (threshold %d): %ld messages forwarded with only %ld decrements sent", node, n.p.thr, n.entered, n.decs);
        int i = enter(node, m.id, 0, m.mask, -1); vs_work(n.p.work);
        Msg o{ HH(m.id, node, 0), m.mask, 0 };
        if (n.p.fb && n.p.df) { n.decs++; std::get<1>(ports).try_put(continue_msg()); vs_work(n.p.cnt); }   // df=1: decrement early, then cnt more points of work while the worker's slot is still held
        note_emit(node, 0, o.id); std::get<0>(ports).try_put(o);
        if (n.p.fb && !n.p.df) { n.decs++; std::get<1>(ports).try_put(continue_msg()); }
        leave(node, i);
    }
};
struct AsyncBody {
    int node;
    void operator()(const Msg& m, async_node<Msg, Msg>::gateway_type& gw) const noexcept {
        int i = enter(node, m.id, 0, m.mask, -1); gw.reserve_wait(); g_reserved++; if (g_busy++ == 0) g_busy_since = vs_now(); g_jobs.push_back(AsyncJob{ node, m, &gw }); vs_work(N[node].p.work); leave(node, i);
    }
};
struct SrcBody {
    int node;
    Msg operator()(tbb::flow_control& fc) const {
        NodeSt& n = N[node];
        if (n.in_src) vs_violation("CONCURRENCY-LIMIT", "input_node %d: body invoked while it is already running", node);
        n.in_src = true; g_enters++; if (g_busy++ == 0) g_busy_since = vs_now();
        Msg o; vs_work(1);
        if ((int)n.produced.size() >= n.p.cnt) { n.stops++; fc.stop(); }
        else { int r = n.p.base + (int)n.produced.size(); o = Msg{ rootid(r), r < 64 ? 1ull << r : 0, 0 }; n.produced.push_back(o.id); R[r].ok = true; R[r].done = true; R[r].ret = vs_now(); R[r].from_input = true; note_emit(node, 0, o.id); }
        n.in_src = false; g_busy--; return o;
    }
};
static void async_worker(void*) {
    for (;;) {
        vs_block_until([] { return !g_jobs.empty() || g_async_stop; });
        if (g_jobs.empty()) return;
        AsyncJob j = g_jobs.front(); g_jobs.pop_front();
        vs_work(1 + N[j.node].p.work);
        Msg o{ HH(j.m.id, j.node, 0), j.m.mask, 0 }; note_emit(j.node, 0, o.id);
        bool ok = j.gw->try_put(o); n_async_foreign++;
        N[j.node].comps.push_back(Comp{ j.m.id, vs_now(), ok });
        g_reserved--; g_busy--;    // from here on the graph is allowed to become idle
        j.gw->release_wait();
    }
}

template <class Pol> struct FnRt : NodeRt { function_node<Msg, Msg, Pol> f; FnRt(int id, size_t c) : f(*G, c, FnBody{ id }) {} receiver<Msg>* in(int) override { return &f; } sender<Msg>* out(int) override { return &f; } };
template <class Pol> struct MfRt : NodeRt { multifunction_node<Msg, std::tuple<Msg, Msg>, Pol> f; MfRt(int id, size_t c) : f(*G, c, MfBody{ id }) {} receiver<Msg>* in(int) override { return &f; } sender<Msg>* out(int p) override { return p == 0 ? (sender<Msg>*)&output_port<0>(f) : (sender<Msg>*)&output_port<1>(f); } };
template <class Pol> struct JoinRt : NodeRt {
    join_node<Msg2, queueing> j; function_node<Msg2, Msg, Pol> f;
    JoinRt(int id, size_t c) : j(*G), f(*G, c, MergeBody{ id }) { make_edge(j, f); }
    receiver<Msg>* in(int p) override { return p == 0 ? (receiver<Msg>*)&input_port<0>(j) : (receiver<Msg>*)&input_port<1>(j); } sender<Msg>* out(int) override { return &f; }
};
template <class Pol> struct SplitRt : NodeRt {
    function_node<Msg, Msg2, Pol> f; split_node<Msg2> sp;
    SplitRt(int id, size_t c) : f(*G, c, ForkBody{ id }), sp(*G) { make_edge(f, sp); }
    receiver<Msg>* in(int) override { return &f; } sender<Msg>* out(int p) override { return p == 0 ? (sender<Msg>*)&output_port<0>(sp) : (sender<Msg>*)&output_port<1>(sp); }
};
struct IdxRt : NodeRt {
    IdxNode ix; function_node<IdxNode::output_type, Msg, queueing> f;
    IdxRt(int id, size_t c) : ix(*G), f(*G, c, UntagBody{ id }) { make_edge(ix, f); }
    receiver<Msg>* in(int p) override { return p == 0 ? (receiver<Msg>*)&input_port<0>(ix) : (receiver<Msg>*)&input_port<1>(ix); } sender<Msg>* out(int) override { return &f; }
};
struct LimRt : NodeRt {
    limiter_node<Msg> l; multifunction_node<Msg, std::tuple<Msg, continue_msg>, queueing> w;
    LimRt(int id, size_t thr, size_t c, bool fb, int extra) : l(*G, thr), w(*G, c, WorkerBody{ id }) {
        make_edge(l, w); if (fb) make_edge(output_port<1>(w), l.decrementer());
        for (int i = 0; i < extra; i++) make_edge(l, *new buffer_node<Msg>(*G));   // pol=<k>: k more successors of the limiter that just keep a copy (a forward then takes longer)
    }
    receiver<Msg>* in(int) override { return &l; } sender<Msg>* out(int) override { return &output_port<0>(w); }
};
struct BcRt : NodeRt { broadcast_node<Msg> b; BcRt() : b(*G) {} receiver<Msg>* in(int) override { return &b; } sender<Msg>* out(int) override { return &b; } };
template <class B> struct BufRt : NodeRt { B b; template <class... A> BufRt(A&&... a) : b(*G, std::forward<A>(a)...) {} receiver<Msg>* in(int) override { return &b; } sender<Msg>* out(int) override { return &b; } bool drain(Msg& m) override { return b.try_get(m); } };
struct SeqFn { size_t operator()(const Msg& m) const { return m.seq; } };
struct InpRt : NodeRt { input_node<Msg> s; InpRt(int id) : s(*G, SrcBody{ id }) {} sender<Msg>* out(int) override { return &s; } bool drain(Msg& m) override { return s.try_get(m); } void activate() override { s.activate(); } };
struct AsyncRt : NodeRt { async_node<Msg, Msg> a; AsyncRt(int id, size_t c) : a(*G, c, AsyncBody{ id }) {} receiver<Msg>* in(int) override { return &a; } sender<Msg>* out(int) override { return &output_port<0>(a); } };

static NodeRt* make_node(int id) {
    NP& p = N[id].p; size_t c = p.conc == 0 ? (size_t)unlimited : (size_t)p.conc;
    switch (p.kind) {
    case K_FN: switch (p.pol) { case 0: return new FnRt<queueing>(id, c); case 1: return new FnRt<rejecting>(id, c); case 2: return new FnRt<queueing_lightweight>(id, c); default: return new FnRt<rejecting_lightweight>(id, c); }
    case K_MF: return (p.pol & 1) ? (NodeRt*)new MfRt<rejecting>(id, c) : (NodeRt*)new MfRt<queueing>(id, c);
    case K_JOIN: return (p.pol & 1) ? (NodeRt*)new JoinRt<rejecting>(id, c) : (NodeRt*)new JoinRt<queueing>(id, c);
    case K_SPLIT: return (p.pol & 1) ? (NodeRt*)new SplitRt<rejecting>(id, c) : (NodeRt*)new SplitRt<queueing>(id, c);
    case K_IDX: return new IdxRt(id, c);
    case K_LIM: return new LimRt(id, (size_t)p.thr, c, p.fb != 0, p.pol);
    case K_BC: return new BcRt();
    case K_BUF: return new BufRt<buffer_node<Msg>>();
    case K_Q: return new BufRt<queue_node<Msg>>();
    case K_PQ: return new BufRt<priority_queue_node<Msg, MsgLess>>();
    case K_SEQ: return new BufRt<sequencer_node<Msg>>(SeqFn());
    case K_OW: return new BufRt<overwrite_node<Msg>>();
    case K_WO: return new BufRt<write_once_node<Msg>>();
    case K_INP: return new InpRt(id);
    case K_ASYNC: return new AsyncRt(id, c);
    }
    return nullptr;
}

// ------------------------------------------------------------------ oracle
typedef std::map<uint64_t, long> MS;
static void ms_add(MS& a, const MS& b) { for (auto& kv : b) a[kv.first] += kv.second; }
static long ms_size(const MS& a) { long s = 0; for (auto& kv : a) s += kv.second; return s; }
static std::string origin(uint64_t id) {   // readable name of an id: which root / which hop
    for (size_t r = 0; r < R.size(); r++) if (R[r].id == id) return "root" + std::to_string(r);
    for (size_t n = 0; n < N.size(); n++) for (auto& iv : N[n].log) for (int p = 0; p < 4; p++) if (HH(iv.id, (int)n, p) == id) return "out" + std::to_string(p) + "(node" + std::to_string(n) + "," + origin(iv.id) + ")";
    for (size_t n = 0; n < N.size(); n++) for (auto& iv : N[n].log) if (iv.id2 && HH2(iv.id, iv.id2, (int)n) == id) return "merge(node" + std::to_string(n) + "," + origin(iv.id) + "," + origin(iv.id2) + ")";
    char b[32]; snprintf(b, sizeof b, "?%llx", (unsigned long long)id); return b;
}
// observed multiset must equal the expected one
static void ms_expect_equal(const MS& exp, const MS& obs, int node, const char* what) {
    for (auto& kv : exp) { auto it = obs.find(kv.first); long o = it == obs.end() ? 0 : it->second; if (o < kv.second) vs_violation("LOST-MESSAGE", "node %d (%s) %s: message %s expected %ld time(s), seen %ld", node, KN[N[node].p.kind], what, origin(kv.first).c_str(), kv.second, o); }
    for (auto& kv : obs) { auto it = exp.find(kv.first); long e = it == exp.end() ? 0 : it->second; if (kv.second > e) vs_violation(e ? "DUP-MESSAGE" : "PHANTOM-MESSAGE", "node %d (%s) %s: message %s expected %ld time(s), seen %ld", node, KN[N[node].p.kind], what, origin(kv.first).c_str(), e, kv.second); }
}
static bool g_wo_valid[64]; static uint64_t g_wo_val[64];
static std::map<int, std::map<uint32_t, uint64_t>> g_seq_in;   // sequencer node -> accepted (seq -> id)
static bool refusing(int s) {
    NodeSt& n = N[s];
    if (n.p.kind == K_LIM) return !n.p.fb && (long)n.log.size() >= n.p.thr;
    if (n.p.kind == K_WO) return g_wo_valid[s];
    return false;
}
static void final_evaluate() {
    size_t nn = N.size();
    std::vector<std::vector<MS>> Out(nn), ExtAcc(nn);
    for (size_t i = 0; i < nn; i++) { Out[i].resize(nout_of(N[i].p.kind)); ExtAcc[i].resize(std::max(1, nin_of(N[i].p.kind))); }
    for (size_t r = 0; r < R.size(); r++) {
        Root& ro = R[r]; if (ro.from_input || ro.node < 0 || !ro.done) continue;
        if (ro.ok) ExtAcc[ro.node][ro.port][ro.id]++;
        else { n_ext_false++; if (!may_reject(N[ro.node].p) && N[ro.node].p.kind != K_SEQ) vs_violation("PUT-REJECTED", "external try_put of root %zu to node %d (%s) port %d returned false although this receiver never rejects", r, ro.node, KN[N[ro.node].p.kind], ro.port); if (N[ro.node].p.kind == K_SEQ) vs_violation("PUT-REJECTED", "sequencer %d rejected root %zu with a fresh sequence number", ro.node, r); }
    }
    // drain keepers first (values needed by refusing()); what the input_nodes produced is fixed before, a drain may trigger further production
    std::vector<std::vector<uint64_t>> Produced(nn); for (size_t i = 0; i < nn; i++) Produced[i] = N[i].produced;
    std::vector<MS> Left(nn);
    for (size_t i = 0; i < nn; i++) {
        int k = N[i].p.kind; Msg m;
        if (k == K_OW || k == K_WO) { g_wo_valid[i] = N[i].rt->drain(m); g_wo_val[i] = m.id; }
        else if (k == K_INP) { if (N[i].rt->drain(m)) Left[i][m.id]++; }    // one try_get only: a failing try_get of an active input_node spawns a task that runs the body again
        else if (is_krr(k)) { int guard = 0; while (N[i].rt->drain(m)) { Left[i][m.id]++; if (++guard > 200) vs_violation("DUP-MESSAGE", "node %zu (%s) keeps delivering items to try_get", i, KN[k]); } }
    }
    for (size_t i = 0; i < nn; i++) for (auto& iv : N[i].log) if (!iv.t1) vs_violation("WAIT-NOT-IDLE", "final wait_for_all returned while a body of node %zu is still running", i);
    for (size_t i = 0; i < nn; i++) {
        NodeSt& n = N[i]; int k = n.p.kind; int ni = nin_of(k);
        std::vector<MS> In(std::max(1, ni)); bool group_member = false;
        for (int p = 0; p < ni; p++) {
            ms_add(In[p], ExtAcc[i][p]);
            for (auto& pr : n.pred[p]) { if (is_krr(N[pr.first].p.kind) && N[pr.first].succ[pr.second].size() > 1) group_member = true; else ms_add(In[p], Out[pr.first][pr.second]); }
        }
        MS obs; for (auto& iv : n.log) obs[iv.id]++;
        auto leftover_ok = [&](const MS& left) {
            if (left.empty()) return;
            for (int o = 0; o < (int)n.succ.size(); o++) for (auto& sp : n.succ[o]) if (!refusing(sp.first))
                vs_violation("STUCK-MESSAGE", "node %zu (%s) still holds %ld message(s) (e.g. %s) although successor node %d is idle and would accept", i, KN[k], ms_size(left), origin(left.begin()->first).c_str(), sp.first);
        };
        switch (k) {
        case K_FN: case K_MF: case K_SPLIT: case K_LIM: case K_ASYNC:
            if (!group_member) ms_expect_equal(In[0], obs, (int)i, "body invocations");
            if (k == K_LIM && !n.p.fb && (long)n.log.size() > n.p.thr) vs_violation("LIMITER-THRESHOLD", "limiter %zu without decrements forwarded %zu > threshold %d", i, n.log.size(), n.p.thr);
            for (auto& iv : n.log) {
                if (k == K_MF) { int r = mf_route(iv.id); if (r & 1) Out[i][0][HH(iv.id, (int)i, 0)]++; if (r & 2) Out[i][1][HH(iv.id, (int)i, 1)]++; }
                else if (k == K_SPLIT) { Out[i][0][HH(iv.id, (int)i, 0)]++; Out[i][1][HH(iv.id, (int)i, 1)]++; }
                else Out[i][0][HH(iv.id, (int)i, 0)]++;
            }
            if (k == K_ASYNC) {
                MS cs; for (auto& c : n.comps) { cs[c.id]++; if (!c.ok && !n.succ[0].empty()) vs_violation("PUT-REJECTED", "async gateway try_put of node %zu returned false although its successors never reject", i); }
                ms_expect_equal(obs, cs, (int)i, "async completions");
            }
            break;
        case K_IDX: {
            MS o0, o1; for (auto& iv : n.log) { (iv.tag == 0 ? o0 : o1)[iv.id]++; if (iv.tag != 0 && iv.tag != 1) vs_violation("WRONG-PORT", "indexer %zu delivered tag %d", i, iv.tag); Out[i][0][HH(iv.id, (int)i, iv.tag)]++; }
            ms_expect_equal(In[0], o0, (int)i, "messages tagged 0"); ms_expect_equal(In[1], o1, (int)i, "messages tagged 1"); break; }
        case K_JOIN: {
            long exp = std::min(ms_size(In[0]), ms_size(In[1]));
            MS a, b; for (auto& iv : n.log) { a[iv.id]++; b[iv.id2]++; Out[i][0][HH2(iv.id, iv.id2, (int)i)]++; }
            for (auto& kv : a) if (kv.second > (In[0].count(kv.first) ? In[0][kv.first] : 0)) vs_violation(In[0].count(kv.first) ? "DUP-MESSAGE" : "PHANTOM-MESSAGE", "join %zu port 0: message %s used %ld times in tuples", i, origin(kv.first).c_str(), kv.second);
            for (auto& kv : b) if (kv.second > (In[1].count(kv.first) ? In[1][kv.first] : 0)) vs_violation(In[1].count(kv.first) ? "DUP-MESSAGE" : "PHANTOM-MESSAGE", "join %zu port 1: message %s used %ld times in tuples", i, origin(kv.first).c_str(), kv.second);
            if ((long)n.log.size() != exp) vs_violation((long)n.log.size() < exp ? "LOST-MESSAGE" : "DUP-MESSAGE", "join %zu: %zu tuples processed, ports received %ld and %ld messages", i, n.log.size(), ms_size(In[0]), ms_size(In[1]));
            break; }
        case K_BC: Out[i][0] = In[0]; break;
        case K_OW:
            Out[i][0] = In[0];
            if (g_wo_valid[i] != !In[0].empty()) vs_violation("LOST-MESSAGE", "overwrite_node %zu: valid=%d but %ld messages were put", i, (int)g_wo_valid[i], ms_size(In[0]));
            if (g_wo_valid[i] && !In[0].count(g_wo_val[i])) vs_violation("PHANTOM-MESSAGE", "overwrite_node %zu holds a value never put", i);
            break;
        case K_WO:
            if (g_wo_valid[i]) Out[i][0][g_wo_val[i]]++;
            ms_expect_equal(In[0], Out[i][0], (int)i, "accepted value");     // exactly the one accepted message (keepers' Out = what left them)
            break;
        case K_BUF: case K_Q: case K_PQ: case K_SEQ: {
            MS in = In[0];
            if (k == K_SEQ) {   // only the gap-free prefix 0,1,2,... can ever leave (later numbers stay parked behind the gap)
                in.clear(); uint32_t want = 0;
                for (auto& kv : g_seq_in[(int)i]) { if (kv.first != want) break; in[kv.second]++; want++; }
            }
            for (auto& kv : Left[i]) if (!in.count(kv.first) || in[kv.first] < kv.second) vs_violation("PHANTOM-MESSAGE", "node %zu (%s): try_get returned %s which is not among its pending inputs", i, KN[k], origin(kv.first).c_str());
            leftover_ok(Left[i]);
            MS passed = in; for (auto& kv : Left[i]) { passed[kv.first] -= kv.second; if (!passed[kv.first]) passed.erase(kv.first); }
            if (n.succ[0].size() > 1) { MS got; for (auto& sp : n.succ[0]) for (auto& iv : N[sp.first].log) got[iv.id]++; ms_expect_equal(passed, got, (int)i, "messages taken by its successor group"); }
            Out[i][0] = passed; break; }
        case K_INP: {
            MS prod; for (auto id : Produced[i]) prod[id]++;
            for (auto& kv : prod) if (kv.second > 1) vs_violation("DUP-MESSAGE", "input_node %zu produced the same message twice", i);
            for (auto& kv : Left[i]) if (!prod.count(kv.first)) vs_violation("PHANTOM-MESSAGE", "input_node %zu: try_get returned an item its body never produced", i);
            leftover_ok(Left[i]);
            bool anyref = false; for (auto& sp : n.succ[0]) if (refusing(sp.first)) anyref = true;
            if (!n.succ[0].empty() && !anyref && N[i].entered && (int)Produced[i].size() != n.p.cnt) vs_violation("STUCK-MESSAGE", "input_node %zu was activated, has an accepting successor, but produced only %zu of %d messages", i, Produced[i].size(), n.p.cnt);
            MS passed = prod; for (auto& kv : Left[i]) passed.erase(kv.first);
            Out[i][0] = passed; break; }
        }
    }
}

// a wait_for_all invoked at `inv` returned at `ret`
static bool finished_at(int node, uint64_t id) { for (auto& iv : N[node].log) if (iv.id == id && iv.t1) return true; return false; }
static void closure(int node, int port, uint64_t id, int root, int depth);
static void fwd(int node, int op, uint64_t id, int root, int depth) { for (auto& sp : N[node].succ[op]) closure(sp.first, sp.second, id, root, depth + 1); }
static uint64_t g_cw_inv = 0; static bool g_strict_lw = false; static long n_lw_waived = 0;
// Known gap (finding C14-lightweight-wait-for-all-gap, two facets): work that is held by ANOTHER external thread inside its own
// try_put is invisible to wait_for_all, because that thread is not a graph task:
//  (1) a lightweight body running inline in that try_put occupies its node's concurrency slot; a message queued behind it becomes a
//      task only when that body ends;
//  (2) buffer_node::handle_operations publishes SUCCEEDED for a put before it creates the forwarding task; when the aggregator handler
//      is that other thread (possibly at the end of an inline lightweight chain) the accepted message has no task for a while.
// Documented wait_for_all waits for tasks and reserve_wait only, so coverage of a root is not demanded at and behind such a node
// while a try_put of another thread is in progress at or after the wait's invocation.  Witness mode (cfg strictlw=1) demands it.
static bool gap_window(int root) {
    if (g_strict_lw) return false;
    (void)root;   // the other thread's try_put must still be running when the wait is invoked (otherwise the task it owes exists already)
    for (auto& ro : R) if (ro.node >= 0 && !ro.from_input && ro.inv && ro.thread != vs_self() && (!ro.done || ro.ret > g_cw_inv)) return true;
    return false;
}
static bool gap_node(int node) {
    NodeSt& n = N[node]; int k = n.p.kind;
    if (k == K_BUF || k == K_Q || k == K_PQ) return true;
    return n.limit && (k == K_ASYNC || (k == K_FN && (n.p.pol & 2)));
}
static void closure(int node, int port, uint64_t id, int root, int depth) {
    NodeSt& n = N[node]; int k = n.p.kind; if (depth > 40) return;
    if (gap_node(node) && gap_window(root)) { n_lw_waived++; return; }
    auto need = [&]() -> bool {
        if (!finished_at(node, id))
            vs_violation("WAIT-TOO-EARLY", "wait_for_all returned although root %d (accepted before the wait was invoked) has not been processed by node %d (%s): message %s", root, node, KN[k], origin(id).c_str());
        n_cover++; return true; };
    switch (k) {
    case K_FN: if (need()) fwd(node, 0, HH(id, node, 0), root, depth); break;
    case K_MF: { if (!need()) break; int r = mf_route(id); if (r & 1) fwd(node, 0, HH(id, node, 0), root, depth); if (r & 2) fwd(node, 1, HH(id, node, 1), root, depth); break; }
    case K_SPLIT: if (need()) { fwd(node, 0, HH(id, node, 0), root, depth); fwd(node, 1, HH(id, node, 1), root, depth); } break;
    case K_IDX: if (need()) fwd(node, 0, HH(id, node, port), root, depth); break;
    case K_ASYNC: { if (!need()) break; bool c = false; for (auto& x : n.comps) if (x.id == id) c = true; if (!c) vs_violation("WAIT-TOO-EARLY", "wait_for_all returned while the async activity of node %d for root %d holds a reserve_wait", node, root); fwd(node, 0, HH(id, node, 0), root, depth); break; }
    case K_BC: case K_OW: fwd(node, 0, id, root, depth); break;
    case K_BUF: case K_Q: case K_PQ:
        if (n.succ[0].size() <= 1) fwd(node, 0, id, root, depth);
        else {
            bool f = false;
            for (auto& sp : n.succ[0]) if (finished_at(sp.first, id)) { f = true; closure(sp.first, sp.second, id, root, depth + 1); break; }
            if (!f) {
                std::string d; char b[160];
                for (auto& sp : n.succ[0]) { bool seen = false; for (auto& iv : N[sp.first].log) if (iv.id == id) { seen = true; snprintf(b, sizeof b, " node%d:started@%lu,fin@%lu,thr%d", sp.first, (unsigned long)iv.t0, (unsigned long)iv.t1, iv.thread); d += b; } if (!seen) { snprintf(b, sizeof b, " node%d:unseen(live=%d)", sp.first, N[sp.first].live); d += b; } }
                snprintf(b, sizeof b, " put[%lu,%lu] wait[%lu,now=%lu] busy=%ld since %lu", (unsigned long)R[root].inv, (unsigned long)R[root].ret, (unsigned long)g_cw_inv, (unsigned long)vs_now(), g_busy, (unsigned long)g_busy_since); d += b;
                vs_violation("WAIT-TOO-EARLY", "wait_for_all returned although root %d (accepted before the wait) was not taken by any successor of node %d (%s):%s", root, node, KN[k], d.c_str());
            }
        }
        break;
    default: break;    // join port, limiter, write_once, sequencer: the message may legitimately be parked
    }
}
static void check_wait(uint64_t inv, uint64_t ret, bool final_wait) {
    n_waits++; g_cw_inv = inv;
    if (g_busy > 0 && (final_wait || g_busy_since < inv))
        vs_violation("WAIT-NOT-IDLE", "wait_for_all [%lu,%lu] returned while %ld node bodies / reserve_wait (%ld) are outstanding since %lu: no idle instant inside the wait", (unsigned long)inv, (unsigned long)ret, g_busy, g_reserved, (unsigned long)g_busy_since);
    bool overlap = false;
    for (size_t r = 0; r < R.size(); r++) {
        Root& ro = R[r]; if (ro.node < 0 || ro.from_input) continue;
        if (ro.inv && (!ro.done || ro.ret > inv) && ro.inv < ret) overlap = true;
        if (ro.done && ro.ok && ro.ret < inv) closure(ro.node, ro.port, ro.id, (int)r, 0);
    }
    if (overlap) n_wait_overlap++;
}

// ------------------------------------------------------------------ interpreter
struct TOp { char c; int a = 0, b = 0, root = 0, seq = 0; };
static std::vector<std::vector<TOp>> T;
struct PutRec { int node; uint64_t inv, ret; int thread; };
static std::vector<PutRec> g_puts;
static void run_thread(int t) {
    for (auto& op : T[t]) {
        switch (op.c) {
        case 'W': vs_work(op.a); break;
        case 'S': vs_wait_quiescent(); break;
        case 'I': N[op.a].entered = 1; N[op.a].rt->activate(); break;
        case 'A': { uint64_t inv = vs_now(); G->wait_for_all(); uint64_t ret = vs_now(); check_wait(inv, ret, false); break; }
        case 'P': {
            Root& ro = R[op.root]; ro.node = op.a; ro.port = op.b; ro.id = rootid(op.root); ro.thread = vs_self();
            Msg m{ ro.id, op.root < 64 ? 1ull << op.root : 0, (uint32_t)op.seq };
            note_arrival(op.a, m.id);
            ro.inv = vs_now(); tl_ext_put++;
            bool ok = N[op.a].rt->in(op.b)->try_put(m);
            tl_ext_put--; ro.ret = vs_now(); ro.ok = ok; ro.done = true;
            if (!ok) g_pending_pull.erase({ op.a, m.id });
            if (ok && N[op.a].p.kind == K_SEQ) g_seq_in[op.a][(uint32_t)op.seq] = m.id;
            g_puts.push_back(PutRec{ op.a, ro.inv, ro.ret, vs_self() });
            break; }
        }
    }
}
static void ext_thread(void* p) { run_thread((int)(intptr_t)p); }

void h_run(Case& c) {
    int par = 2, ext = 1, maxroot = 0;
    for (auto& l : c.lines) {
        auto w = split_ws(l); if (w.empty()) continue;
        if (w[0] == "cfg") { par = (int)kvl(l, "par", 2); ext = (int)kvl(l, "ext", 1); g_strict_lw = kvl(l, "strictlw", 0) != 0; T.resize(ext); }
        else if (w[0] == "n") {
            int id = atoi(w[1].c_str()); if ((int)N.size() <= id) N.resize(id + 1);
            NP& p = N[id].p; for (int k = 0; k < K_N; k++) if (w[2] == KN[k]) p.kind = k;
            p.pol = (int)kvl(l, "pol", 0); p.conc = (int)kvl(l, "conc", 0); p.work = (int)kvl(l, "work", 0); p.thr = (int)kvl(l, "thr", 1); p.fb = (int)kvl(l, "fb", 1); p.df = (int)kvl(l, "df", 0); p.cnt = (int)kvl(l, "cnt", 0); p.base = (int)kvl(l, "base", 0);
            N[id].succ.resize(nout_of(p.kind)); N[id].pred.resize(std::max(1, nin_of(p.kind)));
            N[id].limit = (p.kind == K_FN || p.kind == K_MF || p.kind == K_SPLIT || p.kind == K_JOIN || p.kind == K_IDX || p.kind == K_LIM || p.kind == K_ASYNC) ? p.conc : 0;
            maxroot = std::max(maxroot, p.base + p.cnt);
        } else if (w[0] == "e") {
            int a, ao, b, bi; sscanf(w[1].c_str(), "%d.%d", &a, &ao); sscanf(w[2].c_str(), "%d.%d", &b, &bi);
            N[a].succ[ao].push_back({ b, bi }); N[b].pred[bi].push_back({ a, ao });
        } else if (w[0] == "t") {
            int t = atoi(w[1].c_str()); if ((int)T.size() <= t) T.resize(t + 1);
            for (size_t i = 2; i < w.size(); i++) {
                TOp op; op.c = w[i][0];
                if (op.c == 'P') { sscanf(w[i].c_str() + 1, "%d.%d:%d:%d", &op.a, &op.b, &op.root, &op.seq); maxroot = std::max(maxroot, op.root + 1); }
                else op.a = atoi(w[i].c_str() + 1);
                T[t].push_back(op);
            }
        }
    }
    R.resize(maxroot);
    {   // number of distinct paths into every node (an upper bound for how often one message id may arrive there)
        std::vector<std::vector<long>> outp(N.size());
        for (size_t i = 0; i < N.size(); i++) {
            long in = N[i].p.kind == K_INP ? 1 : 0;
            for (size_t p2 = 0; p2 < N[i].pred.size(); p2++) { in += 1; for (auto& pr : N[i].pred[p2]) in += outp[pr.first][pr.second]; }
            if (in > 100000) in = 100000;
            N[i].paths = in; outp[i].assign(N[i].succ.size(), in);
        }
    }
    for (auto& n : N) if (n.p.kind == K_INP) for (int r = n.p.base; r < n.p.base + n.p.cnt; r++) { R[r].node = (int)(&n - &N[0]); R[r].id = rootid(r); R[r].from_input = true; }
    vs_begin(c.sched.c_str());
    new tbb::global_control(tbb::global_control::max_allowed_parallelism, (size_t)par);
    G = new graph;
    bool have_async = false;
    for (size_t i = 0; i < N.size(); i++) { N[i].rt = make_node((int)i); if (N[i].p.kind == K_ASYNC) have_async = true; }
    for (size_t i = 0; i < N.size(); i++) for (int o = 0; o < (int)N[i].succ.size(); o++) for (auto& sp : N[i].succ[o]) make_edge(*N[i].rt->out(o), *N[sp.first].rt->in(sp.second));
    if (have_async) g_async_tid = vs_thread_start(async_worker, nullptr);
    std::vector<int> tids;
    for (int e = 1; e < ext; e++) tids.push_back(vs_thread_start(ext_thread, (void*)(intptr_t)e));
    run_thread(0);
    for (int t : tids) vs_thread_join(t);
    uint64_t inv = vs_now(); G->wait_for_all(); uint64_t ret = vs_now(); long dtors0 = g_msg_dtors_worker;
    check_wait(inv, ret, true);
    long enters = g_enters;
    vs_wait_quiescent();
    if (g_msg_dtors_worker != dtors0) vs_violation("WAIT-TOO-EARLY", "%ld message object(s) were destroyed by worker threads inside the graph after the final wait_for_all had returned (a task outlived the wait)", g_msg_dtors_worker - dtors0);
    if (g_enters != enters || g_busy) vs_violation("BODY-AFTER-IDLE", "%ld node bodies started after the final wait_for_all had returned with no external activity", g_enters - enters);
    final_evaluate();
    vs_end();
    // non-triviality, measured
    for (auto& p : g_puts) {
        NodeSt& n = N[p.node]; if (!n.limit) continue; bool race = false;
        for (auto& q : g_puts) if (&q != &p && q.node == p.node && q.thread != p.thread && q.inv < p.ret && p.inv < q.ret) race = true;
        for (auto& iv : n.log) if (iv.thread != p.thread && ((iv.t0 > p.inv && iv.t0 < p.ret) || (iv.t1 > p.inv && iv.t1 < p.ret))) race = true;
        if (race) n_slot_race++;
    }
    long nbodies = 0; for (auto& n : N) nbodies += (long)n.log.size();
    vs_stat_add("n_bodies", nbodies); vs_stat_add("n_reject_pull", n_reject_pull); vs_stat_add("n_slot_race", n_slot_race); vs_stat_add("n_async_foreign", n_async_foreign);
    vs_stat_add("n_ext_false", n_ext_false); vs_stat_add("n_waits", n_waits); vs_stat_add("n_wait_overlap", n_wait_overlap); vs_stat_add("n_other_thread", n_other_thread); vs_stat_add("n_cover", n_cover); vs_stat_add("n_inline", n_inline); vs_stat_add("n_lw_waived", n_lw_waived); vs_stat_add("n_excluded", n_lw_waived ? 1 : 0);
    if (n_reject_pull) vs_stat_flag("reject_then_pull"); if (n_slot_race) vs_stat_flag("slot_race"); if (n_async_foreign) vs_stat_flag("async_foreign"); if (n_wait_overlap) vs_stat_flag("wait_overlaps_put"); if (n_ext_false) vs_stat_flag("external_rejected");
    for (auto& n : N) vs_stat_flag((std::string("k_") + KN[n.p.kind]).c_str());
    vs_stat_add("nt", (n_reject_pull + n_slot_race + n_async_foreign) > 0 ? 1 : 0);
    vs_ok();
}

int main(int argc, char** argv) { return drv_main(argc, argv); }
