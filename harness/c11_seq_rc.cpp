// C11 (sequential part) -- index <-> (segment, offset) arithmetic of concurrent_vector's segment table is a
// bijection for every 64-bit index.  rapidcheck property over boundary-biased indices (2^k, 2^k +- 1, random).
#include <rapidcheck.h>
#include "oneapi/tbb/concurrent_vector.h"
#include <cstdio>
#include <set>
#include <string>
#include <chrono>
using ST = tbb::detail::d1::segment_table<int, std::allocator<int>, tbb::concurrent_vector<int, std::allocator<int>>, 3>;
static unsigned long long g_evals = 0; static std::set<unsigned long long> g_nt; static std::string g_sample, g_fail;
static rc::Gen<unsigned long long> genIndex() {
    using namespace rc;
    return gen::resize(100, gen::oneOf(
        gen::map(gen::tuple(gen::inRange(0, 63), gen::inRange(-2, 3)), [](std::tuple<int, int> t) { unsigned long long b = 1ull << std::get<0>(t); long long d = std::get<1>(t); return (d < 0 && b < (unsigned long long)(-d)) ? 0ull : b + d; }),
        gen::arbitrary<unsigned long long>(),
        gen::map(gen::inRange(0, 5000), [](int v) { return (unsigned long long)v; })));
}
int main() {
    auto t0 = std::chrono::steady_clock::now();
    bool ok = rc::check("segment arithmetic is a bijection", [&] {
        unsigned long long i = *genIndex(); if (i >= (1ull << 63)) i >>= 1;
        g_evals++;
        size_t k = ST::segment_index_of((size_t)i); size_t base = ST::segment_base(k); size_t sz = ST::segment_size(k);
        std::string c = "index=" + std::to_string(i) + " segment=" + std::to_string(k) + " base=" + std::to_string(base) + " size=" + std::to_string(sz);
        if (g_sample.empty() && i > 100) g_sample = c;
        if (i >= 8) g_nt.insert(i);
        g_fail = c;
        RC_ASSERT(base <= i); RC_ASSERT(i - base < sz);                     // i lies in its segment
        RC_ASSERT(k == 0 || ST::segment_base(k) == ST::segment_base(k - 1) + ST::segment_size(k - 1));   // segments tile the index space
        if (i > 0) { size_t kp = ST::segment_index_of((size_t)i - 1); RC_ASSERT(kp == k || kp + 1 == k); }   // monotone, no gaps
        RC_ASSERT(ST::segment_index_of(base) == k); size_t last = base + (sz - 1); bool last_ok = last < base || ST::segment_index_of(last) == k; RC_ASSERT(last_ok);
        RC_ASSERT(k < 64);
    });
    double wall = std::chrono::duration<double>(std::chrono::steady_clock::now() - t0).count();
    std::string j = "{\"evaluations\":" + std::to_string(g_evals) + ",\"nontrivial_hashes\":[";
    bool f = true; int n = 0; for (auto h : g_nt) { if (n++ >= 4000) break; char b[32]; snprintf(b, sizeof b, "%s\"%llx\"", f ? "" : ",", h); j += b; f = false; }
    j += "],\"classes\":{\"segment_arithmetic\":" + std::to_string(g_evals) + "},\"samples\":[\"" + g_sample + "\"],\"inconclusive\":0,\"wall_s\":" + std::to_string(wall) + ",\"violations\":[";
    if (!ok) {
        std::string path = std::string(getenv("VERIF_REPLAY_DIR") ? getenv("VERIF_REPLAY_DIR") : ".") + "/C11-segment-arith.case";
        FILE* fp = fopen(path.c_str(), "w"); if (fp) { fprintf(fp, "segarith %s\n", g_fail.c_str()); fclose(fp); }
        j += "{\"kind\":\"SEGMENT-ARITHMETIC\",\"detail\":\"" + g_fail + "\",\"replay\":\"" + path + "\",\"case\":\"segarith " + g_fail + "\"}";
    }
    j += "]}";
    puts(j.c_str());
    return ok ? 0 : 1;
}
