// C12 -- concurrent_unordered_{map,set,multimap,multiset} and concurrent_{map,set,multimap,multiset}: concurrent
// insert / emplace / lookup / iteration never lose or duplicate keys; one winner per key in unique containers;
// traversals see every earlier element exactly once; ordered containers iterate in comparator order.  DESIGN.md s.6 C12.
//
// program:  assoc type=<um|us|umm|ums|om|os|omm|oms> hash=<id|const|low|hi> cmp=<less|greater> buckets=<n> grow=<g> lvl=<seed> threads=<n>
//           pre <k> <k> ...            keys inserted by thread 0 before the threads start (then, unordered: rehash(buckets<<g) if g>0)
//           t <i> <op> <op> ...
// ops:  in<k> insert(const value&)  im<k> insert(value&&)  ih<k> insert(hint,value)  em<k> emplace  eh<k> emplace_hint
//       fd<k> find  ct<k> count  cn<k> contains  lb<k> lower_bound  ub<k> upper_bound (ordered only)  er<k> equal_range
//       mg<k> merge(source): a private one-element container holding key k is merged into the shared one (a concurrently safe modifier:
//             the node moves over iff the key can be inserted; otherwise it stays in the source, which must remain intact)
//       rh<n> rehash(n) (unordered only; concurrently safe) -- the bucket count must stay a power of two and every key findable
//       tr full traversal begin()..end()   rg traversal through range() split twice   W<n> work
// cfg swap=<0|1|2>: at quiescence the contents are swapped into a fresh container (1) or moved out and back (2) and looked up there too
// Only operations documented as concurrency-safe run concurrently; unsafe_erase / clear / rehash only at quiescence.
// Every element carries a unique id inside its key (ignored by hash, equality and comparator), so equal keys stay distinguishable.
// `lvl` seeds the skip list's level generator (the library seeds it with time(nullptr): here it is part of the case, see c12_level_seed).
#include <ctime>
static int g_lvl_seed = 1;
static inline long c12_level_seed() { return g_lvl_seed; }
#define time(x) c12_level_seed()      /* concurrent_geometric_level_generator(): engines(time(nullptr)) -- the only use in these headers */
#include "oneapi/tbb/concurrent_unordered_map.h"
#include "oneapi/tbb/concurrent_unordered_set.h"
#include "oneapi/tbb/concurrent_map.h"
#include "oneapi/tbb/concurrent_set.h"
#undef time
#include "../engine/drv/drv.h"

const char* H_PROP = "C12";
bool H_TSO = true;

enum { IN, IM, IH, EM, EH, MG, FD, CT, CN, LB, UB, ER, TR, RG, RH, WK, NCODE };
static const char* CODE[NCODE] = { "in", "im", "ih", "em", "eh", "mg", "fd", "ct", "cn", "lb", "ub", "er", "tr", "rg", "rh", "W" };
static const char* TYPES[8] = { "um", "us", "umm", "ums", "om", "os", "omm", "oms" };
static const char* HMODE[4] = { "id", "const", "low", "hi" };
static bool is_ins(int c) { return c <= MG; }
static const int KOFF[8] = { 0, 8, 1, 16, 9, 24, 4, 32 };    // same bucket for <= 8 buckets / neighbours in key order / pairs sharing a split-order key (hash=hi)

// ------------------------------------------------------------------ generator
std::string h_gen(Src& s) {
    int ty = (int)s.choose(8); bool ord = ty >= 4, multi = (ty >> 1) & 1;
    int hm = ord ? 0 : (int)s.weighted({ 4, 2, 2, 2 }); int cg = ord ? (int)s.choose(2) : 0;
    static const int B0[4] = { 1, 2, 4, 8 }; int b0 = ord ? 0 : B0[s.choose(4)];
    int npre;
    if (ord) { static const int PN[6] = { 0, 1, 3, 8, 20, 40 }; npre = PN[s.choose(6)]; }
    else { uint32_t c = s.weighted({ 6, 2, 1 }); npre = c == 0 ? 4 * b0 - s.range(0, 2) : c == 1 ? 0 : s.range(1, 4 * b0 + 3); }
    int grow = ord ? 0 : (int)s.weighted({ 5, 2, 1 });
    int lvl = 1 + (int)s.choose(5000);
    int nt = s.range(2, 4), nk = s.range(1, 5), base = s.range(0, 3);
    std::vector<int> keys;
    for (int i = 0; i < nk; i++) { int k = base + KOFF[s.choose(8)]; if (std::find(keys.begin(), keys.end(), k) == keys.end()) keys.push_back(k); }
    std::string o = std::string("assoc type=") + TYPES[ty] + " hash=" + HMODE[hm] + " cmp=" + (cg ? "greater" : "less") + " buckets=" + std::to_string(b0) +
                    " grow=" + std::to_string(grow) + " lvl=" + std::to_string(lvl) + " threads=" + std::to_string(nt) + " swap=" + std::to_string((int)s.weighted({ 3, 2, 2 })) + "\n";
    o += "pre"; std::vector<int> used;
    for (int i = 0; i < npre; i++) {
        int k;
        if (s.coin(4)) k = keys[s.choose((uint32_t)keys.size())];
        else k = (i & 1) ? base + 8 * (5 + i / 2) : 100 + i;     // same low bits as the op keys / spread out
        if (!multi && std::find(used.begin(), used.end(), k) != used.end()) k = 1000 + i;
        used.push_back(k); o += " " + std::to_string(k);
    }
    o += "\n";
    for (int t = 0; t < nt; t++) {
        o += "t " + std::to_string(t);
        int nops = s.range(1, 8);
        for (int i = 0; i < nops; i++) {
            int c = (int)s.weighted({ 5, 2, 1, 3, 1, 2, 4, 2, 2, ord ? 2u : 0u, ord ? 1u : 0u, 2, 3, 1, ord ? 0u : 1u, 1 });
            if (c == WK) o += " W" + std::to_string(s.range(1, 6));
            else if (c == TR || c == RG) o += std::string(" ") + CODE[c];
            else if (c == RH) { static const int BC[] = { 16, 64, 3, 256, 100 }; o += std::string(" rh") + std::to_string(BC[s.choose(5)]); }
            else o += std::string(" ") + CODE[c] + std::to_string(keys[s.choose((uint32_t)keys.size())]);
        }
        o += "\n";
    }
    return o;
}

// ------------------------------------------------------------------ instrumented key (element identity = uid)
struct K;
static std::set<const K*> g_live; static long n_constructed = 0, n_destroyed = 0;
struct K {
    int k, uid;
    void reg() { n_constructed++; if (!g_live.insert(this).second) vs_violation("VALUE-LIFETIME", "a key object was constructed at %p on top of a live one", (void*)this); }
    K(int kk, int u) : k(kk), uid(u) { reg(); }
    K(const K& o) : k(o.k), uid(o.uid) { reg(); }
    K(K&& o) : k(o.k), uid(o.uid) { reg(); o.k = MOVED_FROM; }     // like std::string: the source no longer compares equal to what it was
    static const int MOVED_FROM = -777777;
    K& operator=(const K&) = delete;
    ~K() { n_destroyed++; if (!g_live.erase(this)) vs_violation("VALUE-LIFETIME", "key object at %p destroyed twice / never constructed", (void*)this); }
};
static int g_hmode = 0, g_greater = 0;
static std::size_t hash_of(int k) {
    std::size_t u = (std::size_t)(unsigned)k;
    switch (g_hmode) { case 0: return u; case 1: return 7; case 2: return (u << 4) | 5; default: return (u >> 1) | ((u & 1) << 63); }
}
struct KHash { std::size_t operator()(const K& x) const { return hash_of(x.k); } };
struct KEq { bool operator()(const K& a, const K& b) const { return a.k == b.k; } };
// the source of a merge() may hash differently from the target: the node's split-order key is recomputed for the target and must be
// restored when the node goes back to the source
struct KHash2 { std::size_t operator()(const K& x) const { return (std::size_t)(unsigned)x.k * 0x9E3779B97F4A7C15ull + 12345; } };
template <class C> struct MergeSrc { typedef C type; };
template <> struct MergeSrc<tbb::concurrent_unordered_map<K, int, struct KHash, KEq>> { typedef tbb::concurrent_unordered_map<K, int, KHash2, KEq> type; };
template <> struct MergeSrc<tbb::concurrent_unordered_set<K, struct KHash, KEq>> { typedef tbb::concurrent_unordered_set<K, KHash2, KEq> type; };
template <> struct MergeSrc<tbb::concurrent_unordered_multimap<K, int, struct KHash, KEq>> { typedef tbb::concurrent_unordered_multimap<K, int, KHash2, KEq> type; };
template <> struct MergeSrc<tbb::concurrent_unordered_multiset<K, struct KHash, KEq>> { typedef tbb::concurrent_unordered_multiset<K, KHash2, KEq> type; };
static bool cmp_k(int a, int b) { return g_greater ? a > b : a < b; }
struct KCmp { bool operator()(const K& a, const K& b) const { return cmp_k(a.k, b.k); } };

// ------------------------------------------------------------------ program + history
struct Op { int code = WK, k = 0; };
struct Rec { int tid, code, k; bool ok = false; int rk = 0, ruid = INT_MIN; long cnt = -1; uint64_t inv = 0, resp = 0; std::vector<std::pair<int, int>> seq; };
struct El { int k; uint64_t inv, resp, vis, ret; bool success; };   // vis: first time any operation reported it; ret: first time an insert of it (winning or failing) returned
static const int NONE = INT_MIN;
static std::vector<std::vector<Op>> g_prog; static std::vector<int> g_pre;
static std::vector<Rec> g_recs; static std::map<int, El> g_el;       // uid -> element (uid = index of the inserting Rec, or -1-i for pre-filled)
static int g_nt = 2, g_type = 0, g_b0 = 8, g_grow = 0, g_swap = 0;
static bool g_ord, g_multi, g_map;
static long n_ins_pairs = 0, n_trav_overlap = 0, n_failed = 0, n_partial = 0, n_same_key_race = 0, n_nonmono = 0;

static void tso_settle() { if (vs_tso_on) std::atomic_thread_fence(std::memory_order_seq_cst); }

template <class C, bool MAP> struct Acc;
template <class C> struct Acc<C, true> {
    static typename C::value_type mk(int k, int uid) { return typename C::value_type(K(k, uid), uid); }
    static const K& key(const typename C::value_type& v) { return v.first; }
    static bool intact(const typename C::value_type& v) { return v.first.uid == v.second; }
    static auto emplace(C& c, int k, int uid) { return c.emplace(K(k, uid), uid); }
    static auto emplace_hint(C& c, int k, int uid) { return c.emplace_hint(c.cend(), K(k, uid), uid); }
};
template <class C> struct Acc<C, false> {
    static typename C::value_type mk(int k, int uid) { return K(k, uid); }
    static const K& key(const typename C::value_type& v) { return v; }
    static bool intact(const typename C::value_type&) { return true; }
    static auto emplace(C& c, int k, int uid) { return c.emplace(k, uid); }
    static auto emplace_hint(C& c, int k, int uid) { return c.emplace_hint(c.cend(), k, uid); }
};

static const long TRAV_CAP = 20000;
template <class C, bool MAP, class It> static void take(Rec& r, It it) {
    const K& key = Acc<C, MAP>::key(*it);
    if (!g_live.count(&key)) vs_violation("VALUE-LIFETIME", "%s reached an element whose key object is not alive", CODE[r.code]);
    if (!Acc<C, MAP>::intact(*it)) vs_violation("ELEMENT-CORRUPT", "%s reached an element with key uid %d but mapped value differs", CODE[r.code], key.uid);
    r.seq.push_back({ key.k, key.uid });
    if ((long)r.seq.size() > TRAV_CAP) vs_violation("TRAVERSAL-CYCLE", "%s did not end after %ld elements", CODE[r.code], TRAV_CAP);
}
template <class C, bool MAP, class R> static void walk_range(C& c, Rec& r, R& rg, int depth) {
    if (depth == 0 && rg.empty()) return;          // what parallel_for / parallel_reduce do with a Range: an empty() root range is not traversed at all
    if (depth < 2 && rg.is_divisible()) { R right(rg, tbb::split()); walk_range<C, MAP>(c, r, rg, depth + 1); walk_range<C, MAP>(c, r, right, depth + 1); return; }
    for (auto it = rg.begin(); it != rg.end(); ++it) take<C, MAP>(r, it);
}

template <class C, bool MAP, bool ORD> static void do_op(C& c, int tid, const Op& op) {
    if (op.code == WK) { vs_work(op.k); return; }
    g_recs.push_back(Rec{ tid, op.code, op.k }); int id = (int)g_recs.size() - 1; int k = op.k;
    using A = Acc<C, MAP>;
    Rec r = g_recs[id];
    auto point_at = [&](auto it, bool is_end) { if (is_end) { r.ruid = NONE; return; } const K& key = A::key(*it);
        if (!g_live.count(&key)) vs_violation("VALUE-LIFETIME", "%s%d returned an iterator to an element that is not alive", CODE[op.code], k);
        if (!A::intact(*it)) vs_violation("ELEMENT-CORRUPT", "%s%d returned an element with inconsistent payload", CODE[op.code], k);
        r.rk = key.k; r.ruid = key.uid; };
    r.inv = vs_now();
    switch (op.code) {
    case IN: { const typename C::value_type v = A::mk(k, id); auto p = c.insert(v); r.ok = p.second; point_at(p.first, p.first == c.end()); break; }
    case IM: { auto p = c.insert(A::mk(k, id)); r.ok = p.second; point_at(p.first, p.first == c.end()); break; }
    case IH: { const typename C::value_type v = A::mk(k, id); auto it = c.insert(c.cend(), v); point_at(it, it == c.end()); r.ok = r.ruid == id; break; }
    case EM: { auto p = A::emplace(c, k, id); r.ok = p.second; point_at(p.first, p.first == c.end()); break; }
    case EH: { auto it = A::emplace_hint(c, k, id); point_at(it, it == c.end()); r.ok = r.ruid == id; break; }
    case MG: { typename MergeSrc<C>::type src; auto ps = src.insert(A::mk(k, id)); (void)ps; c.merge(src);
               bool moved = src.size() == 0; r.ok = moved;
               if (!moved) { if (src.size() != 1) vs_violation("MERGE-SOURCE", "merge of a one-element source left it with %zu elements", src.size());
                             K q(k, -1); auto si = src.find(q); if (si == src.end() || A::key(*si).uid != id) vs_violation("MERGE-SOURCE", "merge(%d) did not move the node, and the source no longer finds its own key", k);
                             if (g_multi) vs_violation("INSERT-RESULT", "merge into a multi container left the node in the source"); }
               { K q(k, -1); auto it = c.find(q); if (it == c.end()) vs_violation(moved ? "LOST-KEY" : "INSERT-RESULT", "after merge(%d) the target does not find the key (node %s)", k, moved ? "moved" : "stayed in the source");
                 if (moved) { r.rk = k; r.ruid = id; } else point_at(it, false); }
               break; }
    case RH: if constexpr (!ORD) { c.rehash((std::size_t)k); std::size_t bc = c.unsafe_bucket_count(); if (bc & (bc - 1)) vs_violation("BUCKET-COUNT", "after rehash(%d) the bucket count is %zu, not a power of two", k, bc); } r.ok = true; break;
    case FD: { K q(k, -1); auto it = c.find(q); point_at(it, it == c.end()); r.ok = r.ruid != NONE; break; }
    case CT: { K q(k, -1); r.cnt = (long)c.count(q); break; }
    case CN: { K q(k, -1); r.ok = c.contains(q); break; }
    case LB: if constexpr (ORD) { K q(k, -1); auto it = c.lower_bound(q); point_at(it, it == c.end()); } break;
    case UB: if constexpr (ORD) { K q(k, -1); auto it = c.upper_bound(q); point_at(it, it == c.end()); } break;
    case ER: { K q(k, -1); auto pr = c.equal_range(q); for (auto it = pr.first; it != pr.second; ++it) take<C, MAP>(r, it); break; }
    case TR: for (auto it = c.begin(); it != c.end(); ++it) take<C, MAP>(r, it); break;
    case RG: { auto rg = c.range(); walk_range<C, MAP>(c, r, rg, 0); break; }
    }
    tso_settle(); r.resp = vs_now();
    g_recs[id] = r;
}

// ------------------------------------------------------------------ judge
static std::string show(const Rec& r) {
    char b[160]; snprintf(b, sizeof b, "t%d %s%d @%lu-%lu -> ok=%d elem=(%d,#%d) cnt=%ld n=%zu", r.tid, CODE[r.code], r.k, (unsigned long)r.inv, (unsigned long)r.resp, (int)r.ok, r.ruid == NONE ? 0 : r.rk, r.ruid == NONE ? -99999 : r.ruid, r.cnt, r.seq.size());
    return b;
}
static std::string history() {      // compact dump of the whole case history for violation details
    std::string s = " || history:";
    for (std::size_t i = 0; i < g_recs.size() && s.size() < 900; i++) { const Rec& r = g_recs[i]; char b[120];
        snprintf(b, sizeof b, " [#%zu t%d %s%d @%lu-%lu ok=%d e=#%d c=%ld n=%zu]", i, r.tid, CODE[r.code], r.k, (unsigned long)r.inv, (unsigned long)r.resp, (int)r.ok, r.ruid == INT_MIN ? -99999 : r.ruid, r.cnt, r.seq.size()); s += b; }
    return s;
}
// When does an element count as present for operation r?  Everywhere: once any earlier operation reported it (insert-only containers,
// presence is monotonic) -- except the top-down lookups of the skip list: the library links a node on level 0 before it raises
// my_max_height from 0, so find/count/contains/bounds of an EMPTY list can miss an element that an iteration already reached; C12 only
// promises "a find started after an insert returned", so there the element counts from the first return of an insert of it, and the
// anomaly is measured (class lookup_missed_element_already_iterated) instead of judged.
static bool top_down(const Rec& r) { return g_ord && (r.code == FD || r.code == CN || r.code == CT || r.code == LB || r.code == UB || r.code == ER); }
static bool present_before(const El& e, const Rec& r) { return e.success && (top_down(r) ? e.ret : e.vis) < r.inv; }
static bool seen_before(const El& e, const Rec& r) { return e.success && e.vis < r.inv; }
static const El* known(int uid) { auto f = g_el.find(uid); return f == g_el.end() ? nullptr : &f->second; }
// an element reported by an operation must come from a successful insert that was invoked before the operation returned
static void check_seen(const Rec& r, int k, int uid, const char* what) {
    const El* e = known(uid);
    if (!e || !e->success) vs_violation("GHOST-ELEMENT", "%s: %s reports element (%d,#%d) which no successful insert produced", show(r).c_str(), what, k, uid);
    if (e->k != k) vs_violation("ELEMENT-CORRUPT", "%s: element #%d carries key %d, was inserted with key %d", show(r).c_str(), uid, k, e->k);
    if (e->inv >= r.resp) vs_violation("GHOST-ELEMENT", "%s: element #%d seen before its insert was invoked (@%lu)", show(r).c_str(), uid, (unsigned long)e->inv);
}
// sequence checks shared by traversals (whole = true) and equal_range (whole = false: restricted to keys equivalent to r.k)
static void check_seq(const Rec& r, bool whole, const char* what) {
    std::set<int> uids; std::set<int> ks;
    for (std::size_t i = 0; i < r.seq.size(); i++) {
        int k = r.seq[i].first, uid = r.seq[i].second;
        check_seen(r, k, uid, what);
        if (!uids.insert(uid).second) vs_violation("TRAVERSAL-DUP", "%s: %s yields element (%d,#%d) twice", show(r).c_str(), what, k, uid);
        if (!g_multi && !ks.insert(k).second) vs_violation("TRAVERSAL-DUPKEY", "%s: %s of a unique container yields two elements with key %d", show(r).c_str(), what, k);
        // an iterator pair is a pair of positions: an element of another key inserted between them while the caller walks the range is
        // legitimately passed over; only a foreign element that was already present before the call cannot lie inside the range
        if (!whole && k != r.k && known(uid)->vis < r.inv) vs_violation("RANGE-WRONG", "%s: equal_range yields element (%d,#%d) which was present before the call", show(r).c_str(), k, uid);
        if (g_ord && i > 0 && cmp_k(k, r.seq[i - 1].first)) vs_violation("TRAVERSAL-ORDER", "%s: %s yields key %d after key %d (comparator %s)", show(r).c_str(), what, k, r.seq[i - 1].first, g_greater ? "greater" : "less");
    }
    for (auto& kv : g_el) { const El& e = kv.second;
        if ((whole || e.k == r.k) && !uids.count(kv.first)) {
            if (present_before(e, r)) vs_violation("TRAVERSAL-MISSED", "%s: %s does not contain element (%d,#%d) which was present since @%lu%s", show(r).c_str(), what, e.k, kv.first, (unsigned long)e.vis, history().c_str());
            else if (seen_before(e, r)) n_nonmono++;
        }
    }
}

static void judge() {
    // 1. elements: outcome of every insert
    for (std::size_t i = 0; i < g_recs.size(); i++) { Rec& r = g_recs[i]; if (!is_ins(r.code)) continue;
        if (r.ruid == NONE) vs_violation("INSERT-RESULT", "%s: returned end()", show(r).c_str());
        if (r.ok != (r.ruid == (int)i)) vs_violation("INSERT-RESULT", "%s: reports %s but the returned iterator points to element #%d (own element is #%zu)", show(r).c_str(), r.ok ? "success" : "failure", r.ruid, i);
        if (r.rk != r.k) vs_violation("INSERT-RESULT", "%s: returned iterator points to key %d", show(r).c_str(), r.rk);
        if (g_multi && !r.ok) vs_violation("INSERT-RESULT", "%s: insert into a multi container failed", show(r).c_str());
        g_el[(int)i] = El{ r.k, r.inv, r.resp, r.resp, r.resp, r.ok };
        if (!r.ok) n_failed++;
    }
    // 2. earliest moment an element is known to be present: its insert returned, or some operation reported it
    auto lower_vis = [](int uid, uint64_t t, bool by_insert) { auto f = g_el.find(uid); if (f == g_el.end() || !f->second.success) return;
        if (t < f->second.vis) f->second.vis = t; if (by_insert && t < f->second.ret) f->second.ret = t; };
    for (auto& r : g_recs) { if (r.ruid != NONE && !(is_ins(r.code) && r.ok)) lower_vis(r.ruid, r.resp, is_ins(r.code)); for (auto& p : r.seq) lower_vis(p.second, r.resp, false); }
    // 3. unique containers: exactly one winner per key; a failed insert points to the winner, which must have been invoked by then
    if (!g_multi) {
        std::map<int, std::vector<int>> winners; std::map<int, int> attempts;
        for (auto& kv : g_el) { attempts[kv.second.k]++; if (kv.second.success) winners[kv.second.k].push_back(kv.first); }
        for (auto& a : attempts) { auto& w = winners[a.first];
            if (w.size() > 1) vs_violation("DUP-WINNER", "key %d: %zu inserts report success (elements #%d and #%d) in a unique-key container", a.first, w.size(), w[0], w[1]);
            if (w.empty()) vs_violation("NO-WINNER", "key %d: %d insert(s), none reports success", a.first, a.second);
        }
        for (std::size_t i = 0; i < g_recs.size(); i++) { Rec& r = g_recs[i]; if (!is_ins(r.code) || r.ok) continue;
            check_seen(r, r.rk, r.ruid, "failed insert");
        }
    }
    // 4. lookups and traversals
    for (auto& r : g_recs) {
        std::vector<int> before, possible;     // elements equivalent to r.k: known present before the op was invoked / could be present by its return
        std::size_t seen = 0;
        for (auto& kv : g_el) if (kv.second.success && kv.second.k == r.k) { if (present_before(kv.second, r)) before.push_back(kv.first); if (seen_before(kv.second, r)) seen++; if (kv.second.inv < r.resp) possible.push_back(kv.first); }
        if ((r.code == FD || r.code == CN) && !r.ok && before.empty() && seen) n_nonmono++;
        if (r.code == CT && r.cnt >= (long)before.size() && r.cnt < (long)seen) n_nonmono++;
        switch (r.code) {
        case FD: case CN:
            if (!before.empty() && !r.ok) vs_violation("LOST-KEY", "%s: not found although element #%d with this key was present since @%lu%s", show(r).c_str(), before[0], (unsigned long)g_el[before[0]].vis, history().c_str());
            if (r.ok && possible.empty()) vs_violation("GHOST-ELEMENT", "%s: found a key nobody inserted", show(r).c_str());
            if (r.code == FD && r.ok) { check_seen(r, r.rk, r.ruid, "find"); if (r.rk != r.k) vs_violation("RANGE-WRONG", "%s: find returned key %d", show(r).c_str(), r.rk); }
            break;
        case CT:
            if (r.cnt < (long)before.size()) vs_violation("LOST-KEY", "%s: count=%ld but %zu element(s) with this key were present before the call", show(r).c_str(), r.cnt, before.size());
            {   // multi containers: count = distance(equal_range), so elements of other keys inserted into that stretch during the call are counted
                long foreign = 0;
                if (g_multi) for (auto& kv : g_el) if (kv.second.success && kv.second.k != r.k && kv.second.inv < r.resp && kv.second.vis >= r.inv) foreign++;
                if (r.cnt > (long)possible.size() + foreign) vs_violation("GHOST-ELEMENT", "%s: count=%ld but at most %zu element(s) with this key can exist (+%ld inserted next to them during the call)", show(r).c_str(), r.cnt, possible.size(), foreign);
            }
            break;
        case LB: case UB: if (g_ord) {
            bool strict = r.code == UB;    // result must be the first element e with (LB) !(e<k)  /  (UB) k<e
            if (r.ruid != NONE) { check_seen(r, r.rk, r.ruid, "bound");
                if (strict ? !cmp_k(r.k, r.rk) : cmp_k(r.rk, r.k)) vs_violation("BOUND-WRONG", "%s: returned key %d is on the wrong side of %d", show(r).c_str(), r.rk, r.k); }
            for (auto& kv : g_el) { const El& e = kv.second; if (!seen_before(e, r)) continue;
                bool qualifies = strict ? cmp_k(r.k, e.k) : !cmp_k(e.k, r.k);
                if (qualifies && (r.ruid == NONE || cmp_k(e.k, r.rk)) && !present_before(e, r)) { n_nonmono++; continue; }
                if (qualifies && (r.ruid == NONE || cmp_k(e.k, r.rk))) vs_violation("BOUND-SKIPPED", "%s: element (%d,#%d), present since @%lu, lies before the returned position", show(r).c_str(), e.k, kv.first, (unsigned long)e.vis);
            } } break;
        case ER: check_seq(r, false, "equal_range"); break;
        case TR: check_seq(r, true, "traversal"); break;
        case RG: check_seq(r, true, "range traversal"); break;
        }
    }
}

// non-triviality, measured: two inserts of different threads overlapped in time on the same key / bucket / neighbouring position,
// or a traversal overlapped a successful insert
static void measure(std::size_t bucket_count, const std::vector<std::pair<int, int>>& final_seq) {
    std::map<int, int> pos; for (std::size_t i = 0; i < final_seq.size(); i++) pos[final_seq[i].second] = (int)i;
    auto where = [&](const Rec& r, int id) { int u = r.ok ? id : r.ruid; auto f = pos.find(u); return f == pos.end() ? -1000 : f->second; };
    for (std::size_t a = 0; a < g_recs.size(); a++) for (std::size_t b = a + 1; b < g_recs.size(); b++) {
        Rec &x = g_recs[a], &y = g_recs[b];
        if (x.tid == y.tid || !(x.inv < y.resp && y.inv < x.resp)) continue;
        if (is_ins(x.code) && is_ins(y.code)) {
            bool near;
            if (x.k == y.k) { near = true; n_same_key_race++; }
            else if (g_ord) near = std::abs(where(x, (int)a) - where(y, (int)b)) <= 1;
            else near = hash_of(x.k) % bucket_count == hash_of(y.k) % bucket_count;
            if (near) n_ins_pairs++;
        }
        bool xt = x.code == TR || x.code == RG || x.code == ER, yt = y.code == TR || y.code == RG || y.code == ER;
        if ((xt && is_ins(y.code) && y.ok) || (yt && is_ins(x.code) && x.ok)) n_trav_overlap++;
    }
    for (auto& r : g_recs) for (auto& p : r.seq) { const El* e = known(p.second); if (e && e->resp > r.resp) { n_partial++; break; } }
}

template <class C> static C* g_c;
template <class C, bool MAP, bool ORD> static void thread_body(void* p) { int tid = (int)(intptr_t)p; for (auto& op : g_prog[tid]) do_op<C, MAP, ORD>(*g_c<C>, tid, op); }

template <class C, bool MAP, bool ORD> static void run_all() {
    using A = Acc<C, MAP>;
    C* cp; if constexpr (ORD) cp = new C(); else cp = new C((std::size_t)g_b0);
    C& c = *cp; g_c<C> = cp;
    for (std::size_t i = 0; i < g_pre.size(); i++) {
        int uid = -1 - (int)i; auto p = (i & 1) ? c.insert(A::mk(g_pre[i], uid)) : A::emplace(c, g_pre[i], uid);
        if (!p.second && g_multi) vs_violation("INSERT-RESULT", "pre-fill insert of key %d into a multi container failed", g_pre[i]);
        g_el[uid] = El{ g_pre[i], 0, 0, 0, 0, p.second };
    }
    std::size_t bc0 = 0;
    if constexpr (!ORD) { if (g_grow) c.rehash(c.unsafe_bucket_count() << g_grow); bc0 = c.unsafe_bucket_count(); }
    std::vector<int> ids;
    for (int t = 1; t < g_nt; t++) ids.push_back(vs_thread_start(thread_body<C, MAP, ORD>, (void*)(intptr_t)t));
    thread_body<C, MAP, ORD>((void*)(intptr_t)0);
    for (int id : ids) vs_thread_join(id);
    // ---- quiescence
    judge();
    std::size_t nsucc = 0; std::map<int, long> per_key; for (auto& kv : g_el) { per_key[kv.second.k] += 0; if (kv.second.success) { nsucc++; per_key[kv.second.k]++; } }
    for (auto& op_t : g_prog) for (auto& op : op_t) if (op.code != WK && op.code != TR && op.code != RG && op.code != RH) per_key[op.k] += 0;
    auto lookups = [&](C& x, const char* where) {           // every key reachable through the lookup path, exact counts
        for (auto& kv : per_key) {
            K q(kv.first, -1); long cnt = (long)x.count(q); auto it = x.find(q); bool f = it != x.end();
            if (cnt != kv.second) vs_violation(cnt < kv.second ? "LOST-KEY" : "GHOST-ELEMENT", "%s count(%d)=%ld, successful inserts of this key: %ld", where, kv.first, cnt, kv.second);
            if (f != (kv.second > 0)) vs_violation(f ? "GHOST-ELEMENT" : "LOST-KEY", "%s find(%d) %s, successful inserts of this key: %ld", where, kv.first, f ? "succeeds" : "fails", kv.second);
            if (f && A::key(*it).k != kv.first) vs_violation("RANGE-WRONG", "%s find(%d) returns key %d", where, kv.first, A::key(*it).k);
        }
        std::size_t n = 0; for (auto it = x.begin(); it != x.end(); ++it) n++;
        if (n != nsucc || x.size() != nsucc) vs_violation("SIZE-MISMATCH", "%s the container iterates over %zu elements and reports size()=%zu, %zu inserts succeeded", where, n, x.size(), nsucc);
    };
    lookups(c, "at quiescence");
    if (g_swap == 1) {          // contents swapped into a fresh (never used) container and back: the receiver must find everything
        C* f; if constexpr (ORD) f = new C(); else f = new C((std::size_t)g_b0);
        f->swap(c);
        if (c.size() != 0 || c.begin() != c.end()) vs_violation("SIZE-MISMATCH", "after swap with a fresh container the source is not empty");
        lookups(*f, "after swap into a fresh container:");
        c.swap(*f); delete f; lookups(c, "after swapping back:"); vs_stat_flag("swap_round_trip");
    } else if (g_swap == 2) {   // move construction and move assignment
        C* m = new C(std::move(c)); lookups(*m, "after move construction:");
        c = std::move(*m); delete m; lookups(c, "after move assignment:"); vs_stat_flag("move_round_trip");
    }
    Rec fin{ 0, TR, 0 }; fin.inv = vs_now(); for (auto it = c.begin(); it != c.end(); ++it) take<C, MAP>(fin, it); fin.resp = vs_now();
    check_seq(fin, true, "final traversal");
    if (fin.seq.size() != nsucc) vs_violation("FINAL-MISMATCH", "final traversal has %zu elements, %zu inserts succeeded", fin.seq.size(), nsucc);
    if (c.size() != nsucc) vs_violation("SIZE-MISMATCH", "size()=%zu at quiescence, %zu inserts succeeded", c.size(), nsucc);
    std::size_t bc1 = 0;
    if constexpr (!ORD) {               // every element sits in the bucket its hash selects, and every bucket is reachable
        bc1 = c.unsafe_bucket_count(); std::size_t total = 0;
        for (std::size_t b = 0; b < bc1; b++) { long guard = 0;
            for (auto it = c.unsafe_begin(b); it != c.unsafe_end(b); ++it) { total++; const K& key = A::key(*it);
                if (hash_of(key.k) % bc1 != b) vs_violation("BUCKET-MISPLACED", "element (%d,#%d) found in bucket %zu of %zu, its hash selects bucket %zu", key.k, key.uid, b, bc1, hash_of(key.k) % bc1);
                if (++guard > TRAV_CAP) vs_violation("TRAVERSAL-CYCLE", "bucket %zu does not end", b); }
        }
        if (total != nsucc) vs_violation("FINAL-MISMATCH", "the buckets hold %zu elements in total, %zu inserts succeeded", total, nsucc);
    }
    if (g_live.size() != nsucc) vs_violation("VALUE-LEAK", "%zu key objects alive at quiescence, container holds %zu elements (constructed %ld destroyed %ld)", g_live.size(), nsucc, n_constructed, n_destroyed);
    measure(bc1 ? bc1 : 1, fin.seq);
    c.clear();
    if (!g_live.empty()) vs_violation("VALUE-LEAK", "%zu key objects alive after clear()", g_live.size());
    if (c.size() != 0 || c.begin() != c.end()) vs_violation("SIZE-MISMATCH", "container not empty after clear()");
    vs_end();
    if (!ORD && bc1 != bc0) vs_stat_flag("bucket_table_grew");
    if (!ORD && g_grow) vs_stat_flag("uninitialised_buckets_at_start");
}

void h_run(Case& c) {
    for (auto& l : c.lines) {
        auto w = split_ws(l);
        if (w[0] == "assoc") {
            std::string ty = kvs(l, "type", "um"); g_type = -1; for (int i = 0; i < 8; i++) if (ty == TYPES[i]) g_type = i;
            std::string hm = kvs(l, "hash", "id"); for (int i = 0; i < 4; i++) if (hm == HMODE[i]) g_hmode = i;
            g_greater = kvs(l, "cmp", "less") == "greater"; g_b0 = (int)kvl(l, "buckets", 8); g_grow = (int)kvl(l, "grow", 0);
            g_lvl_seed = (int)kvl(l, "lvl", 1); g_nt = (int)kvl(l, "threads", 2); g_swap = (int)kvl(l, "swap", 0);
        } else if (w[0] == "pre") { for (std::size_t i = 1; i < w.size(); i++) g_pre.push_back(atoi(w[i].c_str())); }
        else if (w[0] == "t") {
            int t = atoi(w[1].c_str()); if ((int)g_prog.size() <= t) g_prog.resize(t + 1);
            for (std::size_t i = 2; i < w.size(); i++) {
                const std::string& tk = w[i]; Op op;
                if (tk[0] == 'W') { op.code = WK; op.k = atoi(tk.c_str() + 1); }
                else { op.code = -1; for (int k = 0; k < WK; k++) if (tk.compare(0, 2, CODE[k]) == 0) op.code = k;
                       if (op.code < 0) vs_inconclusive("BAD-CASE", "unknown op %s", tk.c_str()); op.k = atoi(tk.c_str() + 2); }
                g_prog[t].push_back(op);
            }
        }
    }
    if (g_type < 0 || g_nt < 1 || g_nt > 8 || g_b0 < 0 || g_b0 > 4096 || g_grow < 0 || g_grow > 4) vs_inconclusive("BAD-CASE", "bad header");
    g_prog.resize(g_nt); g_ord = g_type >= 4; g_multi = (g_type >> 1) & 1; g_map = !(g_type & 1);
    if (g_ord) g_hmode = 0; else { g_greater = 0; if (g_b0 < 1) g_b0 = 8; }
    if (!g_ord) for (auto& t : g_prog) for (auto& op : t) if (op.code == LB || op.code == UB) op.code = FD;

    vs_begin(c.sched.c_str());
    switch (g_type) {
    case 0: run_all<tbb::concurrent_unordered_map<K, int, KHash, KEq>, true, false>(); break;
    case 1: run_all<tbb::concurrent_unordered_set<K, KHash, KEq>, false, false>(); break;
    case 2: run_all<tbb::concurrent_unordered_multimap<K, int, KHash, KEq>, true, false>(); break;
    case 3: run_all<tbb::concurrent_unordered_multiset<K, KHash, KEq>, false, false>(); break;
    case 4: run_all<tbb::concurrent_map<K, int, KCmp>, true, true>(); break;
    case 5: run_all<tbb::concurrent_set<K, KCmp>, false, true>(); break;
    case 6: run_all<tbb::concurrent_multimap<K, int, KCmp>, true, true>(); break;
    case 7: run_all<tbb::concurrent_multiset<K, KCmp>, false, true>(); break;
    }
    vs_stat_add("n_ops", (long)g_recs.size()); vs_stat_add("n_ins_pairs", n_ins_pairs); vs_stat_add("n_trav_overlap", n_trav_overlap); vs_stat_add("n_failed_ins", n_failed);
    vs_stat_add("n_same_key_race", n_same_key_race); vs_stat_add("n_trav_partial", n_partial);
    vs_stat_flag(TYPES[g_type]); if (!g_ord) vs_stat_flag((std::string("hash_") + HMODE[g_hmode]).c_str());
    if (n_ins_pairs) vs_stat_flag("insert_race_near"); if (n_same_key_race) vs_stat_flag("insert_race_same_key"); if (n_trav_overlap) vs_stat_flag("traversal_during_insert");
    if (n_partial) vs_stat_flag("traversal_saw_unreturned_insert"); if (n_failed) vs_stat_flag("insert_failed");
    vs_stat_add("n_lookup_missed_iterated", n_nonmono); if (n_nonmono) vs_stat_flag("lookup_missed_element_already_iterated");
    vs_stat_add("nt", (n_ins_pairs > 0 || n_trav_overlap > 0) ? 1 : 0);
    vs_ok();
}

int main(int argc, char** argv) { return drv_main(argc, argv); }
