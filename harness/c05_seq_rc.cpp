// C05, sequential leg (rapidcheck, header-only, no scheduler): the split arithmetic of the Range classes alone.
//   even   blocked_range<V>(b, b+n, g): split recursively while is_divisible() (what simple_partitioner does):
//          every split gives two non-empty adjacent parts that add up; every leaf has size in [ceil(g/2), g]
//          (exactly one leaf of size n when n <= g).  n up to the type's maximum (grain >= n/2048 bounds the leaves).
//   prop   one proportional split with a proportion proportional_mode::get_split can produce
//          (left = d - d/2, right = d/2, d in 2..1024) of a divisible blocked_range: two non-empty adjacent parts that
//          add up -- for all sizes incl. > 2^24 (float rounding) and up to 2^64-1.
//   nd_even / nd_prop   a chain of up to 64 splits (each time continuing with the left or right part, chosen by the bits of
//          div) of a blocked_range2d / 3d / blocked_nd_range<.,2..4> over int or size_t, per-dimension sizes up to the
//          type's maximum and grain sizes up to 2^63: each split changes exactly one dimension, that dimension was
//          divisible (size > grain: "a range that is not divisible is never split"), the parts are non-empty, adjacent and add up.
//   rvec   model-based: range_vector<Range,8> (the ring buffer of the auto/affinity partitioners) under generated sequences of
//          split_to_fill(depth) / pop_front / pop_back against a std::deque model: same ranges, same depths, same order,
//          every Range object constructed is destroyed exactly once.
// usage:  c05_seq_rc <max_success>        (env VERIF_LEG_SEED, VERIF_REPLAY_DIR)   |   c05_seq_rc replay <file>
// a case is one text line:  prop=<p> vt=<i32|i64|u64|u8> rt=<br|2d|3d|nd> div=<d> dims=<begin>:<size>:<grain>[,...]
#include <rapidcheck.h>
#include <bits/stdc++.h>
#include "oneapi/tbb/blocked_range.h"
#include "oneapi/tbb/blocked_range2d.h"
#include "oneapi/tbb/blocked_range3d.h"
#include "oneapi/tbb/blocked_nd_range.h"
#include "oneapi/tbb/partitioner.h"

struct SCase { std::string prop = "even", vt = "u64", rt = "br", ops; uint64_t div = 2; int D = 1; uint64_t b[4] = { 0, 0, 0, 0 }, n[4] = { 0, 0, 0, 0 }, g[4] = { 1, 1, 1, 1 }; };
static std::string sbegin(const std::string& vt, uint64_t b) { return (vt == "i32" || vt == "i64") ? std::to_string((long long)b) : std::to_string((unsigned long long)b); }
static std::string text(const SCase& c) {
    std::string s = "prop=" + c.prop + " vt=" + c.vt + " rt=" + c.rt + " div=" + std::to_string((unsigned long long)c.div) + " dims=";
    for (int d = 0; d < c.D; d++) s += (d ? "," : "") + sbegin(c.vt, c.b[d]) + ":" + std::to_string((unsigned long long)c.n[d]) + ":" + std::to_string((unsigned long long)c.g[d]);
    if (!c.ops.empty()) s += " ops=" + c.ops;
    return s;
}
static std::string kv(const std::string& l, const char* k) { std::string key = std::string(" ") + k + "=", s = " " + l; size_t p = s.find(key); if (p == std::string::npos) return ""; size_t e = s.find(' ', p + 1); return s.substr(p + key.size(), e == std::string::npos ? std::string::npos : e - p - key.size()); }
static bool parse(const std::string& l, SCase& c) {
    c.ops = kv(l, "ops"); c.prop = kv(l, "prop"); c.vt = kv(l, "vt"); c.rt = kv(l, "rt"); c.div = strtoull(kv(l, "div").c_str(), nullptr, 10); std::string ds = kv(l, "dims"); c.D = 0;
    for (size_t p = 0; p < ds.size() && c.D < 4;) { size_t e = ds.find(',', p); std::string it = ds.substr(p, e == std::string::npos ? std::string::npos : e - p); size_t c1 = it.find(':'), c2 = it.find(':', c1 + 1); if (c1 == std::string::npos || c2 == std::string::npos) return false;
        c.b[c.D] = (c.vt == "i32" || c.vt == "i64") ? (uint64_t)strtoll(it.c_str(), nullptr, 10) : strtoull(it.c_str(), nullptr, 10); c.n[c.D] = strtoull(it.c_str() + c1 + 1, nullptr, 10); c.g[c.D] = strtoull(it.c_str() + c2 + 1, nullptr, 10); c.D++; if (e == std::string::npos) break; p = e + 1; }
    return c.D > 0 && !c.prop.empty();
}
static bool g_nontrivial = false;
template <class V> static uint64_t off(V v, uint64_t base) { return (uint64_t)v - base; }
static std::string fmt(const char* f, ...) { char b[600]; va_list ap; va_start(ap, f); vsnprintf(b, sizeof b, f, ap); va_end(ap); return b; }
#define U(x) ((unsigned long long)(x))

template <class V> static tbb::blocked_range<V> mk(const SCase& c, int d) { return tbb::blocked_range<V>((V)c.b[d], (V)(c.b[d] + c.n[d]), (size_t)c.g[d]); }
// the checks common to every 1-d split: x = left (old object), y = right (new object), [lo,hi) = the range before the split (offsets)
static std::string split_ok(uint64_t lo, uint64_t hi, uint64_t xl, uint64_t xh, uint64_t yl, uint64_t yh) {
    if (xl != lo || yh != hi) return fmt("outer bounds changed: [%llu,%llu) -> [%llu,%llu) + [%llu,%llu)", U(lo), U(hi), U(xl), U(xh), U(yl), U(yh));
    if (xh != yl) return fmt("parts not adjacent: [%llu,%llu) + [%llu,%llu)", U(xl), U(xh), U(yl), U(yh));
    if (!(xl < xh) || !(yl < yh) || xh > hi) return fmt("empty part: [%llu,%llu) -> [%llu,%llu) + [%llu,%llu)", U(lo), U(hi), U(xl), U(xh), U(yl), U(yh));
    return "";
}
template <class V> static std::string judge_even(const SCase& c) {
    typedef tbb::blocked_range<V> R; uint64_t n = c.n[0], g = c.g[0], base = (uint64_t)(V)c.b[0]; if (sizeof(V) < 8) base = (uint64_t)(long long)(V)c.b[0];
    auto o = [&](V v) { return sizeof(V) < 8 ? (uint64_t)((long long)v - (long long)(V)c.b[0]) : (uint64_t)v - base; };
    std::vector<R> st; st.push_back(mk<V>(c, 0)); uint64_t leaves = 0, covered = 0;
    if (st[0].empty() != (n == 0)) return "empty() wrong";
    if (n == 0) return "";
    while (!st.empty()) {
        R x = st.back(); st.pop_back();
        if (x.is_divisible()) {
            g_nontrivial = true; uint64_t lo = o(x.begin()), hi = o(x.end());
            R y(x, tbb::split());
            std::string e = split_ok(lo, hi, o(x.begin()), o(x.end()), o(y.begin()), o(y.end())); if (!e.empty()) return "even split: " + e;
            st.push_back(y); st.push_back(x);
        } else {
            uint64_t sz = o(x.end()) - o(x.begin()); leaves++;
            if (o(x.begin()) != covered) return fmt("leaves not in order / gap at offset %llu", U(covered));
            covered = o(x.end());
            if (n <= g) { if (sz != n) return fmt("n<=g but leaf of size %llu", U(sz)); }
            else if (sz < g - g / 2 || sz > g) return fmt("leaf [%llu,%llu) of size %llu outside [%llu,%llu] (n=%llu)", U(o(x.begin())), U(o(x.end())), U(sz), U(g - g / 2), U(g), U(n));
            if (leaves > (1u << 16)) return "";    // bounded by the generator; safety net only
        }
    }
    if (covered != n) return fmt("leaves cover %llu of %llu", U(covered), U(n));
    return "";
}
template <class V> static std::string judge_prop(const SCase& c) {
    typedef tbb::blocked_range<V> R; R x = mk<V>(c, 0); if (!x.is_divisible()) return "";
    auto o = [&](V v) { return sizeof(V) < 8 ? (uint64_t)((long long)v - (long long)(V)c.b[0]) : (uint64_t)v - (uint64_t)(V)c.b[0]; };
    g_nontrivial = true; tbb::proportional_split p((size_t)(c.div - c.div / 2), (size_t)(c.div / 2));
    uint64_t lo = o(x.begin()), hi = o(x.end());
    R y(x, p);
    std::string e = split_ok(lo, hi, o(x.begin()), o(x.end()), o(y.begin()), o(y.end()));
    return e.empty() ? "" : fmt("proportional split %llu:%llu: ", U(p.left()), U(p.right())) + e;
}
struct Box { uint64_t lo[4], hi[4]; };
template <class V> static void setd(Box& b, int d, const tbb::blocked_range<V>& r, const SCase& c) { b.lo[d] = (uint64_t)r.begin() - (uint64_t)(V)c.b[d]; b.hi[d] = (uint64_t)r.end() - (uint64_t)(V)c.b[d]; }
template <class V> static void box(const tbb::blocked_range2d<V, V>& r, Box& b, const SCase& c) { setd(b, 0, r.rows(), c); setd(b, 1, r.cols(), c); }
template <class V> static void box(const tbb::blocked_range3d<V, V, V>& r, Box& b, const SCase& c) { setd(b, 0, r.pages(), c); setd(b, 1, r.rows(), c); setd(b, 2, r.cols(), c); }
template <class V, unsigned N, class S> static void box(const tbb::detail::d1::blocked_nd_range_impl<V, N, S>& r, Box& b, const SCase& c) { for (unsigned d = 0; d < N; d++) setd(b, (int)d, r.dim(d), c); }
template <class R> static std::string judge_nd_r(R x, const SCase& c) {
    for (int step = 0; step < 64; step++) {
        if (!x.is_divisible()) return "";
        g_nontrivial = true; Box o{}, a{}, b{}; box(x, o, c);
        R keep = x;
        if (c.prop == "nd_prop") { tbb::proportional_split p((size_t)(c.div - c.div / 2), (size_t)(c.div / 2)); R y(x, p); box(x, a, c); box(y, b, c); if ((c.div >> (step % 60)) & 1) keep = y; else keep = x; }
        else { R y(x, tbb::split()); box(x, a, c); box(y, b, c); if ((c.div >> (step % 60)) & 1) keep = y; else keep = x; }
        int changed = 0;
        for (int d = 0; d < c.D; d++) {
            if (a.lo[d] == o.lo[d] && a.hi[d] == o.hi[d] && b.lo[d] == o.lo[d] && b.hi[d] == o.hi[d]) continue;
            changed++; std::string e = split_ok(o.lo[d], o.hi[d], a.lo[d], a.hi[d], b.lo[d], b.hi[d]); if (!e.empty()) return fmt("split %d, dimension %d: ", step, d) + e;
            if (!(o.hi[d] - o.lo[d] > c.g[d])) return fmt("split %d cut dimension %d of size %llu although its grain size is %llu (not divisible)", step, d, U(o.hi[d] - o.lo[d]), U(c.g[d]));
        }
        if (changed != 1) return fmt("split %d: %d dimensions changed by one split", step, changed);
        x = keep;
    }
    return "";
}
// ---- range_vector<R, 8> against a deque model
struct CR : tbb::blocked_range<long> {   // counting range
    static long live, built; typedef tbb::blocked_range<long> B;
    CR(long b, long e, size_t g) : B(b, e, g) { live++; built++; }
    CR(const CR& o) : B(o) { live++; built++; }
    CR(CR& o, tbb::split s) : B(o, s) { live++; built++; }
    ~CR() { live--; }
};
long CR::live = 0, CR::built = 0;
static std::string judge_rvec(const SCase& c) {
    struct M { long lo, hi; int depth; };
    CR::live = 0; CR::built = 0; std::string err;
    {
        CR root((long)c.b[0], (long)(c.b[0] + c.n[0]), (size_t)c.g[0]);
        tbb::detail::d1::range_vector<CR, 8> rv(root);
        std::deque<M> m; m.push_back({ root.begin(), root.end(), 0 });
        auto same = [&](const char* when) -> bool {
            if ((size_t)rv.size() != m.size()) { err = fmt("%s: size() %d, model %zu", when, (int)rv.size(), m.size()); return false; }
            if (rv.empty() != m.empty()) { err = fmt("%s: empty() wrong", when); return false; }
            if (m.empty()) return true;
            if (rv.back().begin() != m.back().lo || rv.back().end() != m.back().hi || rv.back_depth() != m.back().depth) { err = fmt("%s: back() is [%ld,%ld) depth %d, model [%ld,%ld) depth %d", when, rv.back().begin(), rv.back().end(), (int)rv.back_depth(), m.back().lo, m.back().hi, m.back().depth); return false; }
            if (rv.front().begin() != m.front().lo || rv.front().end() != m.front().hi || rv.front_depth() != m.front().depth) { err = fmt("%s: front() is [%ld,%ld) depth %d, model [%ld,%ld) depth %d", when, rv.front().begin(), rv.front().end(), (int)rv.front_depth(), m.front().lo, m.front().hi, m.front().depth); return false; }
            if (CR::live != (long)m.size() + 1) { err = fmt("%s: %ld Range objects alive, %zu expected", when, CR::live, m.size() + 1); return false; }
            return true;
        };
        int pushes = 0;
        for (size_t p = 0; p < c.ops.size() && err.empty(); p++) {
            char op = c.ops[p];
            if (op == 'f') {
                int d = 0; while (p + 1 < c.ops.size() && isdigit((unsigned char)c.ops[p + 1])) d = d * 10 + (c.ops[++p] - '0');
                if (m.empty()) continue;
                rv.split_to_fill((tbb::detail::d1::depth_t)d);
                while (m.size() < 8 && m.back().depth < d && (size_t)(m.back().hi - m.back().lo) > c.g[0]) {
                    M x = m.back(); m.pop_back(); long mid = x.lo + (x.hi - x.lo) / 2;
                    m.push_back({ mid, x.hi, x.depth + 1 }); m.push_back({ x.lo, mid, x.depth + 1 }); pushes++;     // back() keeps the left half
                }
                same("after split_to_fill");
            } else if (op == 'p') { if (m.size() < 2) continue; rv.pop_front(); m.pop_front(); same("after pop_front"); }      // the partitioners offer front() only while size() > 1
            else if (op == 'b') { if (m.empty()) continue; rv.pop_back(); m.pop_back(); same("after pop_back"); }
        }
        if (pushes > 8) g_nontrivial = true;     // the ring index has wrapped
    }
    if (err.empty() && CR::live != 0) err = fmt("%ld Range objects never destroyed (%ld built)", CR::live, CR::built);
    return err.empty() ? "" : "range_vector: " + err;
}
static std::string judge_nd(const SCase& c) {
    for (int d = 0; d < c.D; d++) if (c.n[d] == 0) return "";
    if (c.rt == "2d" && c.D == 2) { if (c.vt == "u64") { auto r = mk<size_t>(c, 0), q = mk<size_t>(c, 1); return judge_nd_r(tbb::blocked_range2d<size_t, size_t>(r.begin(), r.end(), r.grainsize(), q.begin(), q.end(), q.grainsize()), c); }
        auto r = mk<int>(c, 0), q = mk<int>(c, 1); return judge_nd_r(tbb::blocked_range2d<int, int>(r.begin(), r.end(), r.grainsize(), q.begin(), q.end(), q.grainsize()), c); }
    if (c.rt == "3d" && c.D == 3 && c.vt == "u64") { auto p = mk<size_t>(c, 0), r = mk<size_t>(c, 1), q = mk<size_t>(c, 2); return judge_nd_r(tbb::blocked_range3d<size_t, size_t, size_t>(p.begin(), p.end(), p.grainsize(), r.begin(), r.end(), r.grainsize(), q.begin(), q.end(), q.grainsize()), c); }
    if (c.rt == "nd" && c.vt == "u64") switch (c.D) {
    case 2: return judge_nd_r(tbb::blocked_nd_range<size_t, 2>(mk<size_t>(c, 0), mk<size_t>(c, 1)), c);
    case 3: return judge_nd_r(tbb::blocked_nd_range<size_t, 3>(mk<size_t>(c, 0), mk<size_t>(c, 1), mk<size_t>(c, 2)), c);
    default: return "";
    }
    if (c.rt == "3d" && c.D == 3) { auto p = mk<int>(c, 0), r = mk<int>(c, 1), q = mk<int>(c, 2); return judge_nd_r(tbb::blocked_range3d<int, int, int>(p.begin(), p.end(), p.grainsize(), r.begin(), r.end(), r.grainsize(), q.begin(), q.end(), q.grainsize()), c); }
    if (c.rt == "nd") switch (c.D) {
    case 2: return judge_nd_r(tbb::blocked_nd_range<int, 2>(mk<int>(c, 0), mk<int>(c, 1)), c);
    case 3: return judge_nd_r(tbb::blocked_nd_range<int, 3>(mk<int>(c, 0), mk<int>(c, 1), mk<int>(c, 2)), c);
    case 4: return judge_nd_r(tbb::blocked_nd_range<int, 4>(mk<int>(c, 0), mk<int>(c, 1), mk<int>(c, 2), mk<int>(c, 3)), c);
    }
    return "";
}
static std::string judge(const SCase& c) {
    g_nontrivial = false;
    for (int d = 0; d < c.D; d++) if (c.g[d] == 0) return "";
    if (c.prop == "even") { if (c.vt == "i32") return judge_even<int>(c); if (c.vt == "i64") return judge_even<long>(c); if (c.vt == "u8") return judge_even<unsigned char>(c); return judge_even<size_t>(c); }
    if (c.prop == "prop") { if (c.div < 2) return ""; if (c.vt == "i32") return judge_prop<int>(c); if (c.vt == "i64") return judge_prop<long>(c); if (c.vt == "u8") return judge_prop<unsigned char>(c); return judge_prop<size_t>(c); }
    if (c.prop == "rvec") return judge_rvec(c);
    if (c.div < 2) return "";
    return judge_nd(c);
}

// ------------------------------------------------------------------ generators
static uint64_t pick(uint64_t lo, uint64_t hi) { if (hi <= lo) return lo; return *rc::gen::resize(100, rc::gen::inRange<uint64_t>(lo, hi)) ; }   // [lo,hi)
static uint64_t pick_incl(uint64_t lo, uint64_t hi) { if (hi == ~0ull) { uint64_t h = pick(0, 1ull << 32), l = pick(0, 1ull << 32); uint64_t v = (h << 32) | l; return v < lo ? lo : v; } return pick(lo, hi + 1); }
static uint64_t gen_size(uint64_t mx) {
    switch (pick(0, 6)) {
    case 0: return std::min<uint64_t>(pick(0, 70), mx);
    case 1: { uint64_t k = pick(1, 64); uint64_t v = (1ull << k) + pick(0, 3) - 1; return std::min(v, mx); }
    case 2: return mx - std::min<uint64_t>(pick(0, 5), mx);
    case 3: return pick_incl(0, mx);
    case 4: { uint64_t k = pick(24, 64); uint64_t v = (1ull << k) + pick(0, 1ull << 20); return std::min(v, mx); }
    default: return std::min<uint64_t>(pick(0, 5000), mx);
    }
}
static uint64_t type_max(const std::string& vt) { return vt == "i32" ? (uint64_t)INT_MAX : vt == "i64" ? (uint64_t)LLONG_MAX : vt == "u8" ? 255 : ~0ull; }
static uint64_t gen_beg(const std::string& vt, uint64_t n) {
    uint64_t mx = type_max(vt); uint64_t c = pick(0, 5);
    if (vt == "u64" || vt == "u8") return c == 0 ? 0 : c == 1 ? mx - n : std::min<uint64_t>(pick(0, 100), mx - n);
    long long mn = vt == "i32" ? (long long)INT_MIN : LLONG_MIN;      // signed: end-begin must be representable, n <= max
    if (c == 0) return 0; if (c == 1) return (uint64_t)((long long)mx - (long long)n); if (c == 2) return (uint64_t)mn; if (c == 3) return (uint64_t)(-(long long)(n / 2));
    return (uint64_t)(-(long long)pick(0, 100));
}
static SCase gen_case(const std::string& prop) {
    SCase c; c.prop = prop; static const char* VT[] = { "u64", "i64", "i32", "u8" };
    c.div = pick(0, 3) ? pick(2, 17) : pick(2, 1025);
    if (prop == "even" || prop == "prop") {
        c.vt = VT[pick(0, 4)]; c.rt = "br"; c.D = 1; uint64_t mx = type_max(c.vt); uint64_t n = gen_size(mx), g;
        uint64_t gmin = prop == "even" ? std::max<uint64_t>(1, (n >> 11) + ((n & 2047) ? 1 : 0)) : 1;
        switch (pick(0, 5)) {
        case 0: g = std::max<uint64_t>(gmin, pick(1, 9)); break;
        case 1: g = std::max<uint64_t>(gmin, n / pick(1, 2048)); break;
        case 2: g = std::max<uint64_t>(gmin, n ? n - pick(0, std::min<uint64_t>(n, 3)) : 1); break;
        case 3: g = n == ~0ull ? n : n + 1; break;
        default: g = std::max<uint64_t>(gmin, pick_incl(1, std::max<uint64_t>(n, 1))); break;
        }
        if (g == 0) g = 1;
        c.n[0] = n; c.g[0] = g; c.b[0] = gen_beg(c.vt, n);
    } else if (prop == "rvec") {
        c.vt = "i64"; c.rt = "br"; c.D = 1; c.b[0] = pick(0, 50); c.g[0] = pick(1, 4); c.n[0] = pick(0, 4) ? pick(200, 5000) : pick(1, 40);
        int len = (int)pick(1, 40); int depth = (int)pick(1, 6);
        for (int i = 0; i < len; i++) {
            uint64_t k = pick(0, 10);
            if (k < 4) { depth += (int)pick(0, 3); c.ops += "f" + std::to_string(depth); }     // demand raises max_depth
            else if (k < 8) c.ops += "p"; else c.ops += "b";
        }
    } else {
        uint64_t k = pick(0, 5); c.rt = k == 0 ? "2d" : k == 1 ? "3d" : "nd"; c.vt = pick(0, 2) ? "u64" : "i32";
        c.D = c.rt == "2d" ? 2 : c.rt == "3d" ? 3 : (int)pick(2, c.vt == "u64" ? 4 : 5);
        c.div = pick(0, 2) ? pick_incl(2, ~0ull >> 4) : c.div;          // the bits also choose which part the chain continues with
        bool huge = pick(0, 3) == 0;
        for (int d = 0; d < c.D; d++) {
            uint64_t mx = c.vt == "u64" ? ~0ull : (uint64_t)INT_MAX; uint64_t n, g;
            if (!huge) { mx = std::min<uint64_t>(mx, (1ull << 26) - 1); n = std::max<uint64_t>(1, pick(0, 3) ? pick(1, 40) : gen_size(mx));
                g = pick(0, 3) == 0 ? std::max<uint64_t>(1, n - pick(0, std::min<uint64_t>(n, 2))) : pick(0, 2) ? pick(1, 6) : pick(1, n + 2); }
            else {          // sizes and grains up to the largest representable: size*grain leaves 64 bits and the precision of double
                n = std::max<uint64_t>(1, pick(0, 4) == 0 ? pick(1, 4) : gen_size(mx));
                switch (pick(0, 5)) { case 0: g = 1; break; case 1: g = 1ull << pick(0, 64); break; case 2: g = n; break; case 3: g = n > 1 ? n - 1 : 1; break; default: g = std::max<uint64_t>(1, gen_size(~0ull >> 1)); }
            }
            c.n[d] = n; c.g[d] = g; c.b[d] = c.vt == "u64" ? (n > ~0ull - 50 ? 0 : pick(0, 50)) : (uint64_t)((long long)pick(0, 100) - 50);
            if (c.vt == "i32" && (long long)c.b[d] + (long long)n > (long long)INT_MAX) c.b[d] = (uint64_t)((long long)INT_MAX - (long long)n);
        }
    }
    return c;
}

static std::string g_last_fail_case, g_last_fail_detail; static long g_evals = 0; static std::set<uint64_t> g_nt;
static uint64_t fnv(const std::string& s) { uint64_t h = 1469598103934665603ull; for (unsigned char ch : s) { h ^= ch; h *= 1099511628211ull; } return h; }
static std::string jesc(const std::string& s) { std::string o = "\""; for (unsigned char ch : s) { if (ch == '"' || ch == '\\') { o += '\\'; o += (char)ch; } else if (ch == '\n') o += "\\n"; else if (ch < 0x20) o += ' '; else o += (char)ch; } return o + "\""; }

int main(int argc, char** argv) {
    if (argc >= 3 && !strcmp(argv[1], "replay")) {
        std::ifstream f(argv[2]); std::string l; while (std::getline(f, l)) { if (l.empty() || l[0] == '#') continue; SCase c; if (!parse(l, c)) { printf("BAD-CASE\n"); return 2; } std::string e = judge(c); printf("%s %s\n", e.empty() ? "OK" : "VIOLATION RANGE-SPLIT", e.c_str()); return e.empty() ? 0 : 1; }
        return 2;
    }
    long max_success = argc > 1 ? atol(argv[1]) : 300; const char* sd = getenv("VERIF_LEG_SEED"); const char* rd = getenv("VERIF_REPLAY_DIR");
    std::string params = "seed=" + std::string(sd ? sd : "1") + " max_success=" + std::to_string(max_success) + " max_size=100";
    setenv("RC_PARAMS", params.c_str(), 1);
    struct timespec t0; clock_gettime(CLOCK_MONOTONIC, &t0);
    std::string viol; std::vector<std::string> samples;
    static const char* PROPS[] = { "even", "prop", "nd_even", "nd_prop", "rvec" };
    for (const char* p : PROPS) {
        g_last_fail_case.clear();
        std::string prop = p;
        bool ok = rc::check(std::string("C05 range split arithmetic: ") + p, [&] {
            SCase c = gen_case(prop); std::string t = text(c); g_evals++;
            std::string e = judge(c);
            if (g_nontrivial && e.empty()) { g_nt.insert(fnv(t)); if (samples.size() < 4 && g_nt.size() % 97 == 1) samples.push_back(t); }
            if (!e.empty()) { g_last_fail_case = t; g_last_fail_detail = e; }
            RC_ASSERT(e.empty());
        });
        if (!ok && !g_last_fail_case.empty() && viol.empty()) {
            SCase c; std::string e; if (parse(g_last_fail_case, c)) e = judge(c);
            if (!e.empty()) {   // confirmed on the minimised case
                char name[512]; snprintf(name, sizeof name, "%s/C05-seq-%016llx.case", rd ? rd : ".", (unsigned long long)fnv(g_last_fail_case));
                FILE* f = fopen(name, "w"); if (f) { fprintf(f, "%s\n# verdict: VIOLATION RANGE-SPLIT %s\n# replay: c05_seq_rc replay <this file>\n", g_last_fail_case.c_str(), e.c_str()); fclose(f); }
                viol = "{\"kind\":\"RANGE-SPLIT\",\"detail\":" + jesc(e) + ",\"replay\":" + jesc(name) + ",\"case\":" + jesc(g_last_fail_case) + "}";
            }
        }
    }
    struct timespec t1; clock_gettime(CLOCK_MONOTONIC, &t1);
    std::string j = "{\"property\":\"C05\",\"evaluations\":" + std::to_string(g_evals) + ",\"nontrivial_hashes\":[";
    { bool first = true; char b[32]; for (auto h : g_nt) { snprintf(b, sizeof b, "%s\"s%015llx\"", first ? "" : ",", (unsigned long long)(h >> 4)); j += b; first = false; } }
    j += "],\"classes\":{\"seq_range_split\":" + std::to_string(g_nt.size()) + "},\"sums\":{},\"samples\":[";
    for (size_t i = 0; i < samples.size(); i++) j += (i ? "," : "") + jesc(samples[i]);
    char w[64]; snprintf(w, sizeof w, "%.2f", (double)(t1.tv_sec - t0.tv_sec) + (t1.tv_nsec - t0.tv_nsec) * 1e-9);
    j += "],\"inconclusive\":0,\"wall_s\":" + std::string(w) + ",\"violations\":[" + viol + "]}";
    fflush(stderr); puts(j.c_str());
    return viol.empty() ? 0 : 1;
}
