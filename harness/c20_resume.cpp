// C20 -- a suspended task resumes exactly once, however resume races with suspension.   DESIGN.md s.6 C20.
//
// program text:
//   cfg par=<1..4> arena=<mc 1..3>:<reserved 0|1> ext=<foreign resumer threads 0..2>
//   u <id> <op> <op> ...          unit scripts; unit 0 = root, run by the main thread inside arena.execute
// ops:  W<k>                k decision points of work
//       S<m>:<cbw>:<d>      tbb::task::suspend(cb); cb hands the suspend point to  m=0 itself (resume inside the callback, d work after it)
//                           m=1 a container served by a task spawned from the callback (resumes after d work)   m=2 a container served by a
//                           foreign thread (resumes after d work);  cbw = work inside the callback after the hand-off (before resume for m=0)
//       N<u>,<u>,...        task_group: run the listed units, wait   (units suspend inside the wait of the enclosing stack or on whoever steals them)
//       F<n>:<u>            parallel_for over [0,n) grain 1 simple_partitioner, every index runs unit <u> as its body
//       G<u>                (root only) run unit u in the global task_group that is waited for at the very end (not before)
//       R                   (root only) resume every suspension of mode 3 that is parked at this moment
//       S3:<cbw>:<d>        (only below a G unit) the suspend point is parked until the root executes R -- i.e. until the root's own earlier
//                           suspensions have continued -- or, once the root unit is over, until a foreign thread serves it
//       Y<u>                wait inside this_task_arena::isolate until unit u has finished (skipped if u has not started)
//       X<u>                (inside a task) second_arena.execute(unit u inline): unit u runs directly in the execute functor
//   cfg twin=<u|0>         a second external thread runs unit u through arena.execute at the same time as the root
// Suspension happens inside tasks (task_group tasks, parallel_for bodies) and DIRECTLY in an execute functor (root unit, twin unit, X units):
// such a suspension is at the outermost dispatch level of its thread, the frames below belong to that thread, so the code after suspend()
// must continue on the thread that suspended (the library recalls the owner), wherever the resume task is picked up.
#include "oneapi/tbb/task.h"
#include "oneapi/tbb/task_group.h"
#include "oneapi/tbb/task_arena.h"
#include "oneapi/tbb/parallel_for.h"
#include "oneapi/tbb/global_control.h"
#include "oneapi/tbb/partitioner.h"
#if !defined(C20_NO_WB) && defined(__has_include)
#if __has_include("scheduler_common.h")
#include "scheduler_common.h"      // whitebox, statistics only: raw value of suspend_point_type::m_stack_state at the resume call
#if __has_include("governor.h") && __has_include("thread_data.h")
#include "governor.h"              // whitebox: is the current task dispatcher at its outermost level?  (see peek_outermost)
#include "thread_data.h"
#else
namespace tbb { namespace detail { namespace r1 { class governor; } } }
#endif
#define C20_WB 1
#endif
#endif
#include <map>
#include "../engine/drv/drv.h"

const char* H_PROP = "C20";
bool H_TSO = true;

// ------------------------------------------------------------------ generator
struct GenSt { Src& s; int next_unit; int budget; int nsusp; bool any_ext; std::vector<std::string> lines; };
static void gen_unit(GenSt& g, int uid, int depth, bool body, int mult, bool direct = false, bool parked_ok = false) {
    std::string o = "u " + std::to_string(uid);
    std::vector<std::pair<int, int>> todo;     // (unit, 0 = task_group unit / n = parallel_for body run n times)
    int nops = depth == 0 ? g.s.range(1, 2) : g.s.range(1, body ? 2 : 3);
    for (int k = 0; k < nops; k++) {
        bool can_sub = g.budget > 0 && depth < 2;
        bool can_s = g.nsusp + mult <= 7;
        uint32_t c;
        if (depth == 0 && !direct) c = (k == 0 || !can_sub) ? (can_sub ? (g.s.choose(4) == 3 ? 3u : 2u) : 0u) : g.s.weighted({ 1, can_s ? 2u : 0u, 3, 1 });
        else if (direct) c = g.s.weighted({ 2, can_s ? 6u : 0u, can_sub ? 2u : 0u, 0u });
        else c = g.s.weighted({ 3, can_s ? 6u : 0u, can_sub ? 2u : 0u, can_sub ? 1u : 0u, (can_sub && depth == 1) ? 1u : 0u });
        if (c == 0) o += " W" + std::to_string(g.s.range(1, 6));
        else if (c == 1) {
            uint32_t m = g.s.weighted({ 2, 3, 4, parked_ok ? 6u : 0u }); g.nsusp += mult; if (m >= 2) g.any_ext = true;
            o += " S" + std::to_string(m) + ":" + std::to_string(g.s.range(0, 5)) + ":" + std::to_string(g.s.coin(3) ? 0 : g.s.range(0, 6));
        } else if (c == 2) {
            int n = depth == 0 ? g.s.range(2, 4) : g.s.range(1, 3); std::string l;
            for (int i = 0; i < n && g.budget > 0; i++) { int u = g.next_unit++; g.budget--; l += (l.empty() ? "" : ",") + std::to_string(u); todo.push_back({ u, 0 }); }
            if (!l.empty()) o += " N" + l; else o += " W1";
        } else if (c == 3) {
            static const int ns[] = { 2, 3, 4, 6 }; int u = g.next_unit++; g.budget--; int n = ns[g.s.choose(4)];
            o += " F" + std::to_string(n) + ":" + std::to_string(u); todo.push_back({ u, n });
        } else { int u = g.next_unit++; g.budget--; o += " X" + std::to_string(u); todo.push_back({ u, -1 }); }
    }
    if (depth == 0 && !direct && g.budget > 0 && g.s.coin(3)) {      // a chain: G-unit parks suspensions that only the root's R releases, the root suspends itself before R
        int u = g.next_unit++; g.budget--; todo.push_back({ u, -2 });
        // the chain comes after the root's other operations: between G and R the root must not wait in a nested dispatch loop (it could pick up the
        // G unit there, whose parked suspension needs the R that lies below it on the same stack)
        o += " G" + std::to_string(u);
        if (g.nsusp + 1 <= 7) { uint32_t m = g.s.weighted({ 1, 3, 4 }); g.nsusp++; if (m == 2) g.any_ext = true; o += " S" + std::to_string(m) + ":" + std::to_string(g.s.range(0, 5)) + ":" + std::to_string(g.s.range(0, 6)); }
        o += " R"; g.any_ext = true;
    }
    g.lines.push_back(o);
    for (auto& t : todo) { if (t.second == -2) { gen_unit(g, t.first, 1, false, mult, false, true); continue; } if (t.second == -1) gen_unit(g, t.first, depth + 1, false, mult, true); else gen_unit(g, t.first, depth + 1, t.second != 0, t.second ? mult * t.second : mult, false, parked_ok); }
}
std::string h_gen(Src& s) {
    if (drv_flag("--isowait")) {
        // directed: a task suspends, its thread goes on with a sibling that waits INSIDE this_task_arena::isolate until the suspended unit has finished.
        // With one slot nobody but that thread can take the resume task, and it sits in an isolated wait: resumption must not depend on the isolation tag.
        int par = s.range(1, 2), mc = s.range(1, 2), res = mc == 2 ? (int)s.choose(2) : (int)s.choose(2); bool filler = s.coin(2);
        int m = s.coin(3) ? 0 : 2;
        std::string o = "cfg par=" + std::to_string(par) + " arena=" + std::to_string(mc) + ":" + std::to_string(res) + " ext=" + std::to_string(1 + (int)s.choose(2)) + " twin=0\n";
        // spawn order: the waiting unit 2 is spawned before unit 1, so a single thread (newest first) runs unit 1 first -- it suspends -- and then unit 2
        { int ord = (int)s.choose(3); o += std::string("u 0 N") + (ord == 2 ? "1,2" : "2,1") + (filler ? ",3" : "") + "\n"; if (filler && ord == 1) { o = o.substr(0, o.rfind("u 0 ")) + "u 0 N3,2,1\n"; } }
        o += "u 1 W" + std::to_string(s.range(0, 3)) + " S" + std::to_string(m) + ":" + std::to_string(s.range(0, 5)) + ":" + std::to_string(s.range(0, 12));
        if (s.coin(3)) o += " S2:" + std::to_string(s.range(0, 3)) + ":" + std::to_string(s.range(0, 8));
        o += " W" + std::to_string(s.range(0, 2)) + "\n";
        o += "u 2 W" + std::to_string(s.range(0, 8)) + " Y1 W" + std::to_string(s.range(0, 2)) + "\n";
        if (filler) o += "u 3 W" + std::to_string(s.range(0, 5)) + "\n";
        return o;
    }
    int par = 1 + (int)s.weighted({ 4, 2, 3, 1 }); par = par == 1 ? 2 : par == 2 ? 1 : par;   // 0 -> par 2 (simplest interesting), then 1, 3, 4
    int mc = 1 + (int)s.weighted({ 4, 2, 3 }); mc = mc == 1 ? 2 : mc == 2 ? 1 : mc;          // 0 -> 2 slots, then 1, 3
    int res = s.choose(4) == 3 ? 0 : 1;
    GenSt g{ s, 1, 6, 0, false, {} };
    gen_unit(g, 0, 0, false, 1);
    int twin = 0; if (mc >= 2 && s.coin(3)) { twin = g.next_unit++; gen_unit(g, twin, 1, false, 1, true); }
    int ext = g.any_ext ? 1 + (int)s.choose(2) : 0;
    std::string o = "cfg par=" + std::to_string(par) + " arena=" + std::to_string(mc) + ":" + std::to_string(res) + " ext=" + std::to_string(ext) + " twin=" + std::to_string(twin) + "\n";
    for (auto& l : g.lines) o += l + "\n";
    return o;
}

// ------------------------------------------------------------------ interpreter state (plain memory: only the baton holder runs)
struct Op { char c; int a = 0, b = 0, d = 0; std::vector<int> subs; };
struct UnitT { std::vector<Op> ops; };
struct Act { int unit = 0, started = 0, finished = 0; };
struct Susp {
    int unit = 0, mode = 0, cbw = 0, d = 0;
    tbb::task::suspend_point sp = nullptr;
    int th_s = -1, th_c = -1, th_r = -1;
    uint64_t cb_start = 0, cb_end = 0, r_inv = 0, r_ret = 0, c_enter = 0, c_exit = 0, r_step = 0;
    int cont = 0, rcalls = 0, pre_state = -1; bool inside = false, cb_active = false, direct = false;
    uintptr_t stack = 0;
};
static std::vector<UnitT> U; static std::deque<Act> ACT; static std::deque<Susp> SU;
static std::deque<int> XQ; static bool x_done = false; static long x_expected_left = 0;
static std::deque<int> L3; static bool l3_release = false; static long n_parked = 0, n_released_by_root = 0;     // mode 3: parked until the root's R (or, after the root unit, served by a foreign thread)
static tbb::task_group* SG = nullptr;
static long n_early[3], n_late[3], n_migrated = 0, n_otherwork = 0, n_unit_on_worker = 0, n_waitchecks = 0, n_cont_during_cb_window = 0;
static long n_lvl_outer = 0, n_lvl_nested = 0, n_on_coroutine = 0, n_on_master = 0, n_on_worker = 0, n_wb_bad = 0;
static int g_mc = 2, g_par = 2;
struct UnitRun { int th; uint64_t t; };
static std::vector<UnitRun> unit_starts;        // (thread, stamp) of every unit start: "ran other work while suspended"

// ---- which stack am I on?  (statistics only)  A stack = the VMA of /proc/self/maps that holds the address of a local variable:
// coroutine stacks are mmap regions fenced by PROT_NONE pages, thread stacks have a guard page, so two stacks never share a VMA.
struct Vma { uintptr_t lo, hi; };
static std::vector<Vma> g_vmas;
static uintptr_t stack_key(const void* p) {
    uintptr_t a = (uintptr_t)p;
    for (int pass = 0; pass < 2; pass++) {
        for (auto& v : g_vmas) if (a >= v.lo && a < v.hi) return v.lo;
        g_vmas.clear();
        int fd = ::open("/proc/self/maps", O_RDONLY); if (fd < 0) return 0;
        std::string all; char b[8192]; ssize_t n; while ((n = ::read(fd, b, sizeof b)) > 0) all.append(b, (size_t)n); ::close(fd);
        for (auto& l : split_lines(all)) { unsigned long lo = 0, hi = 0; char pr[8] = { 0 }; if (sscanf(l.c_str(), "%lx-%lx %7s", &lo, &hi, pr) == 3 && pr[0] == 'r' && pr[1] == 'w') g_vmas.push_back({ lo, hi }); }
    }
    return 0;
}
static std::map<int, uintptr_t> native_stack;    // first stack a thread was seen on
struct Waiting { uintptr_t stack; uintptr_t frame; };
static std::vector<Waiting> waiting;             // nested waits (N / F ops) in progress: (stack, frame address)

#if C20_WB
// 1 = the calling thread's current task dispatcher is at its outermost level (no dispatch loop below the caller on this stack): a suspension made
// now is the kind the library hands back to its owner.  A task_arena::execute functor is at that level only if execute() found a free slot at
// once; otherwise it is wrapped into a delegated task and runs inside a dispatch loop, even when the calling thread ends up running it itself.
// (SFINAE: if a changed tree renames these internals the peek reports "unknown" and the owner-recall oracle is simply not applied)
template <class G> static auto peek_outermost_impl(G*, int) -> decltype((bool)G::get_thread_data_if_initialized()->my_task_dispatcher->m_properties.outermost, 0) {
    auto* td = G::get_thread_data_if_initialized(); return (td && td->my_task_dispatcher) ? (td->my_task_dispatcher->m_properties.outermost ? 1 : 0) : -1; }
template <class G> static int peek_outermost_impl(G*, long) { return -1; }
static int peek_outermost() { return peek_outermost_impl((tbb::detail::r1::governor*)nullptr, 0); }
template <class S> static auto peek_state(S* sp, int) -> decltype((int)sp->m_stack_state.a.load(std::memory_order_relaxed)) { return (int)sp->m_stack_state.a.load(std::memory_order_relaxed); }
template <class S> static int peek_state(S*, long) { return -1; }
#else
static int peek_outermost() { return -1; }
template <class S> static int peek_state(S*, int) { return -1; }
#endif

static tbb::task_arena* g_arena2 = nullptr; static long n_direct_susp = 0, n_direct_resumed_elsewhere = 0, n_direct_but_delegated = 0;
static void do_resume(int sid) {
    vs_work(1);                                   // the decision point in front of the (atomic) peek + first operation of resume()
    Susp& s = SU[sid];
    if (s.rcalls++) vs_inconclusive("BAD-CASE", "harness resumed suspension %d twice", sid);
    s.th_r = vs_self(); s.r_inv = vs_now(); s.r_step = vs_steps();
    // resume()'s first shared-memory operation is the exchange on m_stack_state: run exactly that one point without a switch so that
    // the raw value read here is the value the exchange sees (everything after it is scheduled normally)
    vs_solo_begin(1);
    s.pre_state = peek_state(s.sp, 0);
    tbb::task::resume(s.sp);
    vs_solo_end();
    SU[sid].r_ret = vs_now();
}

static void on_callback(int sid, tbb::task::suspend_point sp) {
    { Susp& s = SU[sid]; s.cb_active = true; s.cb_start = vs_now(); s.th_s = vs_self(); s.sp = sp;
      int st = peek_state(sp, 0); if (st > 0) n_wb_bad++; }     // inside the callback the stack is active (0) or the peek is unavailable (-1)
    int mode = SU[sid].mode, cbw = SU[sid].cbw, d = SU[sid].d;
    if (mode == 0) { vs_work(cbw); do_resume(sid); vs_work(d); }
    else if (mode == 1) { SG->run([sid, d] { vs_work(d); do_resume(sid); }); vs_work(cbw); }
    else if (mode == 3 && !l3_release) { n_parked++; L3.push_back(sid); vs_work(cbw); }
    else { XQ.push_back(sid); vs_work(cbw); }
    Susp& s = SU[sid]; s.cb_end = vs_now(); s.cb_active = false;
}
static void on_continue(int sid) {
    Susp& s = SU[sid];
    if (s.cb_active) vs_violation("CONTINUED-DURING-CALLBACK", "suspension %d (unit %d mode %d): suspend() returned on thread %d while its callback is still running on thread %d", sid, s.unit, s.mode, vs_self(), s.th_s);
    if (!s.r_inv) vs_violation("RESUMED-BEFORE-RESUME", "suspension %d (unit %d mode %d) continued although resume() was never called for it", sid, s.unit, s.mode);
    if (++s.cont > 1) vs_violation("RESUMED-TWICE", "suspension %d (unit %d mode %d) continued %d times (threads %d then %d)", sid, s.unit, s.mode, s.cont, s.th_c, vs_self());
    if (s.inside) vs_violation("TWO-IN-CONTINUATION", "suspension %d: two threads inside one continuation", sid);
    s.inside = true; s.c_enter = vs_now(); s.th_c = vs_self();
    if (s.direct && s.th_c != s.th_s) vs_violation("CONTINUED-ON-WRONG-THREAD", "suspension %d (unit %d mode %d) was made directly in a task_arena::execute functor on thread %d, but the code after suspend() continued on thread %d (resume was called by thread %d)", sid, s.unit, s.mode, s.th_s, s.th_c, s.th_r);
    if (s.direct && s.th_r != s.th_s) n_direct_resumed_elsewhere++;
    if (s.th_c != s.th_s) n_migrated++;
    bool other = false; for (auto& r : unit_starts) if (r.th == s.th_s && r.t > s.cb_start && r.t < s.c_enter) other = true;
    if (other) n_otherwork++;
    vs_work(2);
    Susp& s2 = SU[sid];
    if (s2.cont != 1) vs_violation("RESUMED-TWICE", "suspension %d continued %d times", sid, s2.cont);
    s2.inside = false; s2.c_exit = vs_now();
}

struct IsoHold { tbb::task_handle h; }; static std::map<int, std::vector<IsoHold*>> iso_holds; static long n_iso_waits = 0, n_iso_skipped = 0;
static void run_unit(int uid, int act, bool direct = false);   // direct: the unit runs in a task_arena::execute functor on the thread that called execute (not inside a task)
static int new_act(int u) { ACT.push_back(Act{ u, 0, 0 }); return (int)ACT.size() - 1; }
static void check_acts(int from, int to, const char* how) {
    n_waitchecks++;
    for (int a = from; a < to; a++) {
        if (ACT[a].started > 1 || ACT[a].finished > 1) vs_violation("RAN-TWICE", "unit %d started=%d finished=%d", ACT[a].unit, ACT[a].started, ACT[a].finished);
        if (ACT[a].finished != 1) vs_violation("WAIT-TOO-EARLY", "%s returned although unit %d (activation %d) has started=%d finished=%d (a suspended task it covers has not continued/finished)", how, ACT[a].unit, a, ACT[a].started, ACT[a].finished);
    }
}
static void classify_suspend(int sid, const void* frame) {
    uintptr_t k = stack_key(frame); int me = vs_self(); SU[sid].stack = k;
    if (!native_stack.count(me)) native_stack[me] = k;
    if (k && native_stack[me] != k) n_on_coroutine++;
    if (me == 0) n_on_master++; else n_on_worker++;
    // dispatch level: nested if some N/F wait is in progress deeper... i.e. on the same stack at a higher frame address than ours
    bool nested = false; for (auto& w : waiting) if (w.stack == k && w.frame > (uintptr_t)frame) nested = true;
    if (nested) n_lvl_nested++; else n_lvl_outer++;
}
static void run_unit(int uid, int act, bool direct) {
    { Act& a = ACT[act]; if (++a.started > 1) vs_violation("RAN-TWICE", "unit %d started %d times", uid, a.started); }
    unit_starts.push_back({ vs_self(), vs_now() });
    if (vs_self() != 0) n_unit_on_worker++;
    for (size_t oi = 0; oi < U[uid].ops.size(); oi++) {
        const Op& op = U[uid].ops[oi];
        switch (op.c) {
        case 'W': vs_work(op.a); break;
        case 'S': {
            SU.push_back(Susp{}); int sid = (int)SU.size() - 1; { Susp& s = SU[sid]; s.unit = uid; s.mode = op.a; s.cbw = op.b; s.d = op.d; s.direct = direct && peek_outermost() == 1; if (s.direct) n_direct_susp++; else if (direct) n_direct_but_delegated++; }
            int anchor = 0; classify_suspend(sid, &anchor);
            tbb::task::suspend([sid](tbb::task::suspend_point sp) { on_callback(sid, sp); });
            on_continue(sid);
            break; }
        case 'N': {
            tbb::task_group tg; int from = (int)ACT.size();
            for (int u : op.subs) new_act(u);
            int anchor = 0; uintptr_t k = stack_key(&anchor); waiting.push_back({ k, (uintptr_t)&anchor });
            for (size_t i = 0; i < op.subs.size(); i++) { int u = op.subs[i], a = from + (int)i; tg.run([u, a] { run_unit(u, a, false); }); }
            tg.wait();
            for (size_t i = 0; i < waiting.size(); i++) if (waiting[i].frame == (uintptr_t)&anchor) { waiting.erase(waiting.begin() + (long)i); break; }
            check_acts(from, from + (int)op.subs.size(), "task_group::wait");
            break; }
        case 'Y': {
            // wait, inside this_task_arena::isolate, until unit op.a has finished: the wait of a task_group is held open by a deferred task_handle that the
            // end of that unit drops.  Skipped when the unit has not started (in isolation nobody might be allowed to run it: a user-level deadlock).
            int target = -1; for (int i = (int)ACT.size() - 1; i >= 0; i--) if (ACT[i].unit == op.a) { target = i; break; }
            if (target < 0 || ACT[target].started == 0) { n_iso_skipped++; break; }
            if (ACT[target].finished) break;
            n_iso_waits++;
            tbb::this_task_arena::isolate([target] {
                tbb::task_group tg; IsoHold h; h.h = tg.defer([] {});
                // register, then look again: the unit may have finished while the handle was being made (no decision point between these two statements)
                if (ACT[target].finished) h.h = tbb::task_handle(); else iso_holds[target].push_back(&h);
                int anchor = 0; uintptr_t k = stack_key(&anchor); waiting.push_back({ k, (uintptr_t)&anchor });
                tg.wait();
                for (size_t i = 0; i < waiting.size(); i++) if (waiting[i].frame == (uintptr_t)&anchor) { waiting.erase(waiting.begin() + (long)i); break; }
                if (ACT[target].finished != 1) vs_violation("WAIT-TOO-EARLY", "the isolated wait returned although the unit it waits for has finished %d times", ACT[target].finished);
            });
            break; }
        case 'G': { int u = op.a, a = new_act(u); SG->run([u, a] { run_unit(u, a, false); }); break; }
        case 'R': { while (!L3.empty()) { int sid = L3.front(); L3.pop_front(); n_released_by_root++; vs_work(SU[sid].d); do_resume(sid); } break; }
        case 'X': {
            int u = op.a, a = new_act(u);
            int caller = vs_self();      // a full arena turns execute() into a delegated task: then the functor runs as a task on some other thread
            g_arena2->execute([u, a, caller] { run_unit(u, a, vs_self() == caller); });
            if (ACT[a].finished != 1) vs_violation("WAIT-TOO-EARLY", "task_arena::execute returned but its functor (unit %d) finished %d times", u, ACT[a].finished);
            break; }
        case 'F': {
            int n = op.a, u = op.b, from = (int)ACT.size();
            for (int i = 0; i < n; i++) new_act(u);
            int anchor = 0; uintptr_t k = stack_key(&anchor); waiting.push_back({ k, (uintptr_t)&anchor });
            tbb::parallel_for(tbb::blocked_range<int>(0, n, 1), [u, from](const tbb::blocked_range<int>& r) { for (int i = r.begin(); i < r.end(); i++) run_unit(u, from + i, false); }, tbb::simple_partitioner());
            for (size_t i = 0; i < waiting.size(); i++) if (waiting[i].frame == (uintptr_t)&anchor) { waiting.erase(waiting.begin() + (long)i); break; }
            check_acts(from, from + n, "parallel_for");
            break; }
        }
    }
    ACT[act].finished++;
    { auto it = iso_holds.find(act); if (it != iso_holds.end()) { std::vector<IsoHold*> hs = it->second; iso_holds.erase(it); for (IsoHold* h : hs) h->h = tbb::task_handle(); } }
}
static void ext_thread(void*) {
    for (;;) {
        vs_block_until([] { return !XQ.empty() || x_done; });
        if (XQ.empty()) break;
        int sid = XQ.front(); XQ.pop_front();
        vs_work(SU[sid].d);
        do_resume(sid);
    }
}

// liveness verdicts keep their kind; the detail says which continuation / unit is missing
static std::string pending_dump() {
    std::string o; char b[160];
    for (size_t i = 0; i < SU.size(); i++) { Susp& s = SU[i]; if (s.cont == 1 && !s.inside) continue;
        snprintf(b, sizeof b, " susp%zu(unit %d mode %d thread %d: callback %s, resume calls %d%s, continued %d)", i, s.unit, s.mode, s.th_s, s.cb_end ? "done" : s.cb_start ? "running" : "not started", s.rcalls, s.r_inv && !s.r_ret ? " (in progress)" : "", s.cont); o += b; }
    for (size_t a = 0; a < ACT.size(); a++) if (ACT[a].finished != 1) { snprintf(b, sizeof b, " unit%d#%zu(started %d finished %d)", ACT[a].unit, a, ACT[a].started, ACT[a].finished); o += b; }
    snprintf(b, sizeof b, " foreign-queue %zu", XQ.size()); o += b;
    return o;
}
static void on_deadlock(const char* d) { vs_violation("DEADLOCK", "%s | pending:%s", d, pending_dump().c_str()); }
static void on_fixpoint(const char* d) { vs_violation("SPIN-FIXPOINT", "%s | pending:%s", d, pending_dump().c_str()); }
// the step budget is exhausted (the run would be closed as inconclusive): a task whose resume() call returned more than a million decision points ago and that
// has still not continued, although threads of its arena kept running all the time, has been forgotten (a livelock with writes is no fix-point, so only this
// progress obligation can name it)
static void on_budget(const char* d) {
    for (size_t i = 0; i < SU.size(); i++) { Susp& s = SU[i];
        if (s.rcalls == 1 && s.r_ret && !s.cont && vs_steps() - s.r_step > 1000000)
            vs_violation("RESUME-FORGOTTEN", "suspension %zu (unit %d mode %d): resume() returned %lu decision points ago and the task has not continued, while the threads of the arena kept running (%s) | pending:%s", i, s.unit, s.mode, (unsigned long)(vs_steps() - s.r_step), d, pending_dump().c_str()); }
}

void h_run(Case& c) {
    int par = 2, mc = 2, res = 1, ext = 0, twin = 0;
    for (auto& l : c.lines) {
        auto w = split_ws(l);
        if (w[0] == "cfg") { par = (int)kvl(l, "par", 2); ext = (int)kvl(l, "ext", 0); twin = (int)kvl(l, "twin", 0); std::string a = kvs(l, "arena", "2:1"); sscanf(a.c_str(), "%d:%d", &mc, &res); }
        else if (w[0] == "u") {
            int id = atoi(w[1].c_str()); if ((int)U.size() <= id) U.resize(id + 1);
            for (size_t i = 2; i < w.size(); i++) {
                Op op; op.c = w[i][0]; const char* p = w[i].c_str() + 1;
                if (op.c == 'W') op.a = atoi(p);
                else if (op.c == 'S') sscanf(p, "%d:%d:%d", &op.a, &op.b, &op.d);
                else if (op.c == 'F') sscanf(p, "%d:%d", &op.a, &op.b);
                else if (op.c == 'X' || op.c == 'G' || op.c == 'Y') op.a = atoi(p);
                else if (op.c == 'R') {}
                else if (op.c == 'N') { for (const char* q = p; *q;) { op.subs.push_back(atoi(q)); while (*q && *q != ',') q++; if (*q == ',') q++; } }
                else vs_inconclusive("BAD-CASE", "unknown op %s", w[i].c_str());
                U[id].ops.push_back(op);
            }
        }
    }
    if (U.empty()) vs_inconclusive("BAD-CASE", "no units");
    if (twin < 0 || twin >= (int)U.size()) vs_inconclusive("BAD-CASE", "bad twin unit");
    for (auto& u : U) for (auto& op : u.ops) { if (op.c == 'F' && (op.b <= 0 || op.b >= (int)U.size())) vs_inconclusive("BAD-CASE", "bad unit"); if ((op.c == 'X' || op.c == 'G') && (op.a <= 0 || op.a >= (int)U.size())) vs_inconclusive("BAD-CASE", "bad unit"); for (int s : op.subs) if (s <= 0 || s >= (int)U.size()) vs_inconclusive("BAD-CASE", "bad unit"); }
    if (res > mc) res = mc; g_mc = mc; g_par = par;
    vs_begin(c.sched.c_str());
    vs_on_deadlock(on_deadlock); vs_on_fixpoint(on_fixpoint); vs_on_budget(on_budget);
    {
        tbb::global_control gc(tbb::global_control::max_allowed_parallelism, (size_t)par);
        tbb::task_arena* arena = new tbb::task_arena(mc, (unsigned)res);
        SG = new tbb::task_group;
        std::vector<int> tids;
        for (int e = 0; e < ext; e++) tids.push_back(vs_thread_start(ext_thread, nullptr));
        g_arena2 = new tbb::task_arena(2, 1);
        int root = new_act(0); int tw_act = twin ? new_act(twin) : -1; static tbb::task_arena* s_arena; s_arena = arena; static int s_twin, s_tw_act; s_twin = twin; s_tw_act = tw_act;
        int tw_tid = -1;
        if (twin) tw_tid = vs_thread_start([](void*) { int caller = vs_self(); s_arena->execute([caller] { run_unit(s_twin, s_tw_act, vs_self() == caller); }); }, nullptr);
        { int caller = vs_self(); arena->execute([root, caller] { run_unit(0, root, vs_self() == caller);
            l3_release = true; while (!L3.empty()) { XQ.push_back(L3.front()); L3.pop_front(); }      // whatever is still parked (or gets parked later) goes to the foreign thread
            SG->wait(); }); }
        if (tw_tid >= 0) { vs_thread_join(tw_tid); if (ACT[tw_act].finished != 1) vs_violation("WAIT-TOO-EARLY", "task_arena::execute of the second external thread returned but its unit finished %d times", ACT[tw_act].finished); }
        if (ACT[root].finished != 1) vs_violation("WAIT-TOO-EARLY", "task_arena::execute returned but the root unit finished %d times", ACT[root].finished);
        x_done = true;
        for (int t : tids) vs_thread_join(t);
    }
    vs_end();
    long nsusp = 0, nearly = 0;
    for (size_t i = 0; i < SU.size(); i++) {
        Susp& s = SU[i]; nsusp++;
        if (s.cont != 1) vs_violation("NOT-RESUMED", "suspension %zu (unit %d mode %d) continued %d times by the end of the case (resume calls %d)", i, s.unit, s.mode, s.cont, s.rcalls);
        if (s.rcalls != 1) vs_violation("NOT-RESUMED", "suspension %zu (unit %d mode %d): callback ran but the hand-off was served %d times", i, s.unit, s.mode, s.rcalls);
        if (s.c_enter < s.r_inv) vs_violation("RESUMED-BEFORE-RESUME", "suspension %zu continued at %lu before resume was invoked at %lu", i, (unsigned long)s.c_enter, (unsigned long)s.r_inv);
        if (s.c_enter < s.cb_end) vs_violation("CONTINUED-DURING-CALLBACK", "suspension %zu continued at %lu before its callback returned at %lu", i, (unsigned long)s.c_enter, (unsigned long)s.cb_end);
        // the early-resume race: resume() found the stack not yet suspended.  With the whitebox peek this is exact (value seen by the
        // exchange); without it only the sufficient condition "resume returned before the callback returned" is counted.
        bool early = s.pre_state >= 0 ? (s.pre_state == 0) : (s.r_ret < s.cb_end);
        if (early) { n_early[s.mode]++; nearly++; } else n_late[s.mode]++;
    }
    for (size_t a = 0; a < ACT.size(); a++) if (ACT[a].started != 1 || ACT[a].finished != 1) vs_violation("LEDGER", "unit %d activation %zu started=%d finished=%d", ACT[a].unit, a, ACT[a].started, ACT[a].finished);
    vs_stat_add("n_susp", nsusp); vs_stat_add("n_early", nearly);
    vs_stat_add("n_early_self", n_early[0]); vs_stat_add("n_early_task", n_early[1]); vs_stat_add("n_early_ext", n_early[2]);
    vs_stat_add("n_late_task", n_late[1]); vs_stat_add("n_late_ext", n_late[2]);
    vs_stat_add("n_migrated", n_migrated); vs_stat_add("n_otherwork", n_otherwork); vs_stat_add("n_waitchecks", n_waitchecks);
    vs_stat_add("n_lvl_outer", n_lvl_outer); vs_stat_add("n_lvl_nested", n_lvl_nested); vs_stat_add("n_on_coroutine", n_on_coroutine);
    vs_stat_add("n_on_master", n_on_master); vs_stat_add("n_on_worker", n_on_worker); vs_stat_add("n_wb_bad", n_wb_bad);
    if (n_early[0]) vs_stat_flag("early_resume_in_callback"); if (n_early[1]) vs_stat_flag("early_resume_by_task"); if (n_early[2]) vs_stat_flag("early_resume_by_foreign_thread");
    if (n_late[1] + n_late[2]) vs_stat_flag("resume_after_switch"); if (n_iso_waits) vs_stat_flag("isolated_wait_for_a_suspended_unit"); if (n_iso_skipped) vs_stat_flag("isolated_wait_skipped_unit_not_started");
    if (n_migrated) vs_stat_flag("continued_on_other_thread"); if (n_otherwork) vs_stat_flag("suspender_ran_other_work");
    vs_stat_add("n_parked", n_parked); vs_stat_add("n_released_by_root", n_released_by_root); if (n_released_by_root) vs_stat_flag("suspension_released_by_code_after_another_suspension");
    vs_stat_add("n_direct_susp", n_direct_susp); vs_stat_add("n_direct_but_delegated", n_direct_but_delegated); if (n_direct_susp) vs_stat_flag("suspend_directly_in_execute_functor"); if (n_direct_resumed_elsewhere) vs_stat_flag("direct_suspension_resumed_by_other_thread"); if (twin) vs_stat_flag("second_external_thread_in_arena");
    if (n_lvl_outer) vs_stat_flag("suspend_at_outermost_level"); if (n_lvl_nested) vs_stat_flag("suspend_inside_nested_wait");
    if (n_on_coroutine) vs_stat_flag("suspend_on_coroutine_stack"); if (n_on_master) vs_stat_flag("suspend_on_master"); if (n_on_worker) vs_stat_flag("suspend_on_worker");
    if (nsusp && (mc == 1 || par == 1)) vs_stat_flag("single_thread_arena");
    // non-trivial: an early resume that was not simply the callback resuming itself, or any early resume when nothing else exists
    vs_stat_add("nt", (n_early[1] + n_early[2]) > 0 ? 1 : 0);
    vs_ok();
}

int main(int argc, char** argv) { return drv_main(argc, argv); }
