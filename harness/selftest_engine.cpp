// Engine self-test: toy programs with planted concurrency bugs, compiled with the same prelude and run by the same driver.
// The engine must find each planted bug and stay silent on the correct twin (bin/selftest).
//   toy dekker fence=<0|1>       store-buffering litmus: both threads reading 0 is only possible without the fences, under TSO
//   toy condwait bug=<0|1>       waiter checks the flag BEFORE registering itself -> lost wake-up -> DEADLOCK
//   toy ticket bug=<0|1>         a ticket lock where thread 0 takes two tickets and serves one -> SPIN-FIXPOINT
//   toy probe bug=<0|1>          linear probing over a FULL 4-slot table for an absent key: a loop without yield or pause that only reads -> read-only livelock;
//                                bug=0: a long but finite read-only walk over 300 000 distinct words (must stay quiet)
//   toy guard                    two threads enter a function-local static initialiser concurrently (scheduler-aware guards)
#include "../engine/drv/drv.h"
const char* H_PROP = "SELFTEST";
bool H_TSO = true;
std::string h_gen(Src& s) {
    std::string w = " W" + std::to_string(s.range(0, 4)) + " W" + std::to_string(s.range(0, 4));
    for (const char* k : { "dekker0", "dekker1", "condwait0", "condwait1", "ticket0", "ticket1", "guard", "probe0", "probe1" })
        if (drv_flag((std::string("--toy-") + k).c_str())) { std::string n = k; bool dig = isdigit(n.back()); return "toy " + (dig ? n.substr(0, n.size() - 1) + " v=" + n.back() : n + " v=0") + w + "\n"; }
    return "toy dekker v=1" + w + "\n";
}
static std::atomic<int> X{ 0 }, Y{ 0 }, flag{ 0 }, waiting{ 0 }, next_ticket{ 0 }, serving{ 0 }; static int word = 0; static int r1 = -1, r2 = -1, v = 0, w0 = 0, w1 = 0, in_cs = 0;
struct Slow { int val; Slow() { vs_work(5); val = 42; } };
static int use_static() { static Slow s; return s.val; }
static void dek(void*) { vs_work(w1); Y.store(1, std::memory_order_relaxed); if (v) std::atomic_thread_fence(std::memory_order_seq_cst); r2 = X.load(std::memory_order_relaxed); vs_work(2); }
static void notifier(void*) { vs_work(w1); flag.store(1); if (waiting.load()) { __atomic_store_n(&word, 1, __ATOMIC_SEQ_CST); syscall(SYS_futex, &word, FUTEX_WAKE_PRIVATE, 1, nullptr, nullptr, 0); } }
static void locker(void* p) {
    int id = (int)(intptr_t)p; int t = next_ticket.fetch_add(1); if (v && id == 0) next_ticket.fetch_add(1);   // planted: a ticket nobody serves
    while (serving.load() != t) std::this_thread::yield();
    if (in_cs++) vs_violation("TOY-EXCLUSION", "two threads in the ticket lock"); vs_work(2); in_cs--;
    serving.store(t + 1);
}
static std::atomic<int> tab[4]; static std::atomic<int>* big = nullptr;
static void prober(void*) {
    if (v) { for (unsigned i = 0;; i = (i + 1) & 3) { int k = tab[i].load(std::memory_order_relaxed); if (k == 0 || k == 99) break; } }       // planted: no empty slot, key 99 absent
    else { long sum = 0; for (int r = 0; r < 3; r++) for (int i = 0; i < 300000; i++) sum += big[i].load(std::memory_order_relaxed); if (sum != 0) vs_violation("TOY-SUM", "sum"); }
}
static void guard_user(void*) { vs_work(w1); if (use_static() != 42) vs_violation("TOY-GUARD", "static not initialised"); }
void h_run(Case& c) {
    std::string kind = split_ws(c.lines[0])[1]; v = (int)kvl(c.lines[0], "v", 0); auto ws = split_ws(c.lines[0]); w0 = atoi(ws[ws.size() - 2].c_str() + 1); w1 = atoi(ws.back().c_str() + 1);
    vs_begin(c.sched.c_str());
    vs_on_deadlock([](const char* d) { vs_violation("TOY-DEADLOCK", "%s", d); }); vs_on_fixpoint([](const char* d) { vs_violation("TOY-FIXPOINT", "%s", d); });
    if (kind == "dekker") { int t = vs_thread_start(dek, nullptr); vs_work(w0); X.store(1, std::memory_order_relaxed); if (v) std::atomic_thread_fence(std::memory_order_seq_cst); r1 = Y.load(std::memory_order_relaxed); vs_work(2); vs_thread_join(t); if (r1 == 0 && r2 == 0) vs_violation("TOY-BOTH-ZERO", "store buffering observed"); }
    else if (kind == "condwait") {
        int t = vs_thread_start(notifier, nullptr); vs_work(w0);
        if (v) { if (!flag.load()) { vs_work(1); waiting.store(1); syscall(SYS_futex, &word, FUTEX_WAIT_PRIVATE, 0, nullptr, nullptr, 0); } }   // planted: check, then register
        else { waiting.store(1); if (!flag.load()) syscall(SYS_futex, &word, FUTEX_WAIT_PRIVATE, 0, nullptr, nullptr, 0); }
        vs_thread_join(t);
    }
    else if (kind == "ticket") { int a = vs_thread_start(locker, (void*)1), b = vs_thread_start(locker, (void*)2); locker((void*)0); vs_thread_join(a); vs_thread_join(b); }
    else if (kind == "probe") { for (int i = 0; i < 4; i++) tab[i].store(i + 1); if (!v) big = new std::atomic<int>[300000](); int a = vs_thread_start(prober, nullptr); vs_work(w0); vs_thread_join(a); }
    else if (kind == "guard") { int a = vs_thread_start(guard_user, nullptr); vs_work(w0); guard_user(nullptr); vs_thread_join(a); }
    vs_end(); vs_stat_add("nt", 1); vs_ok();
}
int main(int argc, char** argv) { return drv_main(argc, argv); }
