// C01 (sequential-submission leg) -- many task_groups fed by one thread, rapidcheck.
// A thread that submits to a task_group registers in a per-thread cache of reference vertices (src/tbb/task.cpp, get_thread_reference_vertex), which is
// purged when it has grown beyond 1000 entries.  The generator therefore draws the number of distinct groups both small and around that limit, gives every
// group 0..3 outstanding tasks (run(), or a deferred task_handle run later), and then waits for the groups in a generated order, optionally submitting
// once more before each wait.  Oracles (C01 statement): every unit ran exactly once by the time the wait for its group returned, never twice, the waiter
// sees the unit's plain write, and no wait hangs (watchdog: 300 s for a case that takes milliseconds) or crashes.
// usage: c01_manygroups_rc <max_success>   (env VERIF_LEG_SEED, VERIF_REPLAY_DIR)   |   c01_manygroups_rc replay <file>
// case (one line):  mg par=<1..3> n=<groups> pat=<pattern key> order=<0 forward|1 reverse|2 stride> late=<0|1> arena=<0|1>
#include <rapidcheck.h>
#include "oneapi/tbb/task_group.h"
#include "oneapi/tbb/task_arena.h"
#include "oneapi/tbb/global_control.h"
#include <atomic>
#include <cstdio>
#include <cstring>
#include <set>
#include <map>
#include <memory>
#include <string>
#include <vector>
#include <chrono>
#include <fstream>
#include <signal.h>
#include <unistd.h>

static std::string g_err; static char g_cur[400]; static bool g_nontrivial = false;
static bool fail(const std::string& s) { if (g_err.empty()) g_err = s; return false; }
static std::string num(long v) { return std::to_string(v); }
static std::string kv(const std::string& l, const char* k) { std::string key = std::string(" ") + k + "=", s = " " + l; size_t p = s.find(key); if (p == std::string::npos) return ""; size_t e = s.find(' ', p + 1); return s.substr(p + key.size(), e == std::string::npos ? std::string::npos : e - p - key.size()); }
static unsigned mix(unsigned a, unsigned b) { unsigned h = a * 2654435761u ^ (b + 0x9e3779b9u + (a << 6) + (a >> 2)); h ^= h >> 15; h *= 2246822519u; h ^= h >> 13; return h; }

struct Unit { std::atomic<int> ran{ 0 }; int payload = 0; };
static bool run_body(int par, int n, unsigned pat, int order, int late) {
    tbb::global_control gc(tbb::global_control::max_allowed_parallelism, (size_t)par);
    std::vector<std::unique_ptr<tbb::task_group>> G; std::vector<std::vector<std::unique_ptr<Unit>>> UU((size_t)n); std::vector<std::vector<tbb::task_handle>> H((size_t)n);
    for (int i = 0; i < n; i++) G.emplace_back(new tbb::task_group);
    long with_one = 0;
    auto add = [&](int i, bool deferred) { UU[(size_t)i].emplace_back(new Unit); Unit* u = UU[(size_t)i].back().get(); int v = (int)UU[(size_t)i].size();
        auto f = [u, v] { u->payload = v; u->ran.fetch_add(1, std::memory_order_relaxed); };
        if (deferred) H[(size_t)i].push_back(G[(size_t)i]->defer(f)); else G[(size_t)i]->run(f); };
    for (int i = 0; i < n; i++) { unsigned h = mix(pat, (unsigned)i); int k = (int)(h % 8); k = k < 1 ? 0 : k < 5 ? 1 : k < 7 ? 2 : 3;       // mostly exactly one outstanding task
        for (int j = 0; j < k; j++) add(i, ((h >> (4 + j)) & 7) == 0);
        if (k == 1) with_one++; }
    if (n > 1000 && with_one > 0) g_nontrivial = true;
    std::vector<int> ord; for (int i = 0; i < n; i++) ord.push_back(order == 1 ? n - 1 - i : i);
    if (order == 2) { ord.clear(); int st = 7; auto gcd = [](int a, int b) { while (b) { int t = a % b; a = b; b = t; } return a; }; while (gcd(st, n) != 1) st += 2;      /* coprime stride: a permutation */ for (int i = 0, x = 0; i < n; i++, x = (x + st) % n) ord.push_back(x); }
    for (int i : ord) {
        for (auto& h : H[(size_t)i]) G[(size_t)i]->run(std::move(h));
        H[(size_t)i].clear();
        if (late && (mix(pat ^ 0x5bd1e995u, (unsigned)i) & 3) == 0) add(i, false);
        tbb::task_group_status st = G[(size_t)i]->wait();
        if (st != tbb::complete) return fail("task_group::wait of group " + num(i) + " returned status " + num((long)st) + " although nothing was cancelled");
        for (size_t j = 0; j < UU[(size_t)i].size(); j++) { Unit& u = *UU[(size_t)i][j]; int r = u.ran.load(std::memory_order_relaxed);
            if (r == 0) return fail("task_group::wait of group " + num(i) + " (of " + num(n) + ") returned before its unit " + num((long)j) + " ran");
            if (r > 1) return fail("unit " + num((long)j) + " of group " + num(i) + " ran " + num(r) + " times");
            if (u.payload != (int)j + 1) return fail("the waiter does not see the write of unit " + num((long)j) + " of group " + num(i)); }
    }
    if ((int)std::set<int>(ord.begin(), ord.end()).size() != n) return fail("harness: wait order is not a permutation");
    for (int i = 0; i < n; i++) for (auto& u : UU[(size_t)i]) if (u->ran.load() != 1) return fail("a unit of group " + num(i) + " ran " + num(u->ran.load()) + " times by the end");
    return true;
}
static bool run_case(const std::string& line) {
    g_err.clear(); g_nontrivial = false; snprintf(g_cur, sizeof g_cur, "%s", line.c_str());
    int par = std::max(1, atoi(kv(line, "par").c_str())), n = std::max(1, atoi(kv(line, "n").c_str())), order = atoi(kv(line, "order").c_str()), late = atoi(kv(line, "late").c_str()), ar = atoi(kv(line, "arena").c_str());
    unsigned pat = (unsigned)strtoul(kv(line, "pat").c_str(), nullptr, 10);
    alarm(300); bool ok;
    if (ar) { tbb::task_arena a(2, 1); ok = a.execute([&] { return run_body(par, n, pat, order, late); }); } else ok = run_body(par, n, pat, order, late);
    alarm(0); return ok;
}

static int pick(int lo, int hi) { return *rc::gen::resize(100, rc::gen::inRange(lo, hi + 1)); }
static std::string gen_case() {
    int c = pick(0, 5), n = c < 2 ? pick(1, 40) : c < 5 ? pick(995, 1030) : pick(1031, 2300);
    return "mg par=" + std::to_string(pick(1, 3)) + " n=" + std::to_string(n) + " pat=" + std::to_string(pick(0, 1000000)) + " order=" + std::to_string(pick(0, 2)) + " late=" + std::to_string(pick(0, 1)) + " arena=" + std::to_string(pick(0, 3) == 0 ? 1 : 0);
}
static unsigned long long fnv(const std::string& s) { unsigned long long h = 1469598103934665603ull; for (unsigned char c : s) { h ^= c; h *= 1099511628211ull; } return h; }
static std::string jesc(const std::string& s) { std::string o = "\""; for (char c : s) { if (c == '"' || c == '\\') { o += '\\'; o += c; } else if (c == '\n') o += "\\n"; else o += c; } return o + "\""; }
static const char* g_rd = nullptr; static bool g_replaying = false;
static void on_crash(int sig) {      // a crash or a hang inside a library call: the current case is the replay file
    const char* what = sig == SIGALRM ? "a wait did not return within 300 s" : "crash inside a task_group call";
    if (g_replaying) { printf("VIOLATION GROUP-WAIT %s (signal %d)\n", what, sig); fflush(stdout); _exit(1); }
    char name[600]; snprintf(name, sizeof name, "%s/C01-manygroups-%016llx.case", g_rd ? g_rd : ".", fnv(g_cur));
    FILE* f = fopen(name, "w"); if (f) { fprintf(f, "%s\n# verdict: VIOLATION GROUP-WAIT %s (signal %d)\n# replay: c01_manygroups_rc replay <this file>\n", g_cur, what, sig); fclose(f); }
    printf("{\"evaluations\":1,\"nontrivial_hashes\":[],\"classes\":{},\"sums\":{},\"samples\":[],\"inconclusive\":0,\"wall_s\":0,\"violations\":[{\"kind\":\"GROUP-WAIT\",\"detail\":\"%s (signal %d; not shrunk)\",\"replay\":\"%s\",\"case\":\"%s\"}]}\n", what, sig, name, g_cur);
    fflush(stdout); _exit(1);
}

int main(int argc, char** argv) {
    { struct sigaction sa; memset(&sa, 0, sizeof sa); sa.sa_handler = on_crash; for (int sg : { SIGSEGV, SIGBUS, SIGABRT, SIGFPE, SIGILL, SIGALRM }) sigaction(sg, &sa, nullptr); }
    if (argc >= 3 && std::string(argv[1]) == "replay") { g_replaying = true; std::ifstream f(argv[2]); std::string l; while (std::getline(f, l)) { if (l.empty() || l[0] == '#') continue; bool ok = run_case(l); printf("%s %s\n", ok ? "OK" : "VIOLATION GROUP-WAIT", g_err.c_str()); return ok ? 0 : 1; } return 2; }
    long max_success = argc > 1 ? atol(argv[1]) : 300; const char* sd = getenv("VERIF_LEG_SEED"); g_rd = getenv("VERIF_REPLAY_DIR");
    std::string params = "seed=" + std::string(sd ? sd : "1") + " max_success=" + std::to_string(max_success) + " max_size=100"; setenv("RC_PARAMS", params.c_str(), 1);
    auto t0 = std::chrono::steady_clock::now();
    unsigned long long evals = 0; std::set<unsigned long long> nt; std::vector<std::string> samples; std::string failing; std::map<std::string, long> cls;
    bool ok = rc::check("one thread feeds many task_groups; every wait returns after its units ran exactly once", [&] {
        std::string c = gen_case(); evals++;
        bool good = run_case(c);
        if (good && g_nontrivial) { if (nt.insert(fnv(c)).second) cls["manygroups_reference_cache_purged_with_outstanding_work"]++; if (samples.size() < 4 && nt.size() % 37 == 1) samples.push_back(c); }
        if (!good) failing = c;
        RC_ASSERT(good);
    });
    std::string viol;
    if (!ok && !failing.empty() && !run_case(failing)) {
        char name[600]; snprintf(name, sizeof name, "%s/C01-manygroups-%016llx.case", g_rd ? g_rd : ".", fnv(failing));
        FILE* fp = fopen(name, "w"); if (fp) { fprintf(fp, "%s\n# verdict: VIOLATION GROUP-WAIT %s\n# replay: c01_manygroups_rc replay <this file>\n", failing.c_str(), g_err.c_str()); fclose(fp); }
        viol = "{\"kind\":\"GROUP-WAIT\",\"detail\":" + jesc(g_err) + ",\"replay\":" + jesc(name) + ",\"case\":" + jesc(failing) + "}";
    }
    double wall = std::chrono::duration<double>(std::chrono::steady_clock::now() - t0).count();
    std::string j = "{\"evaluations\":" + std::to_string(evals) + ",\"nontrivial_hashes\":[";
    { bool f = true; int n = 0; for (auto h : nt) { if (n++ >= 6000) break; char b[40]; snprintf(b, sizeof b, "%s\"g%llx\"", f ? "" : ",", h); j += b; f = false; } }
    j += "],\"classes\":{"; { bool f = true; for (auto& kv2 : cls) { j += (f ? "" : ",") + jesc(kv2.first) + ":" + std::to_string(kv2.second); f = false; } }
    j += "},\"sums\":{},\"samples\":["; for (size_t i = 0; i < samples.size(); i++) j += (i ? "," : "") + jesc(samples[i]);
    char w[64]; snprintf(w, sizeof w, "%.2f", wall); j += "],\"inconclusive\":0,\"wall_s\":" + std::string(w) + ",\"violations\":[" + viol + "]}";
    fflush(stderr); puts(j.c_str());
    return viol.empty() ? 0 : 1;
}
