// C02 (whitebox L1) -- concurrent_monitor: a sleeper that registered (prepare_wait) before the notifier's notify
// is never left asleep on a satisfied condition.  Optional leg: includes the internal header directly; if it stops
// compiling against a changed tree the check records `skipped` and goes on with the API layer.
//
// program:  mon sleepers=<n> notifiers=<m> mode=<0 wait(pred) | 1 manual prepare/commit>
//           s <i> flag=<f> W<k>                       sleeper i waits until flag f is set
//           n <j> <op> ...   ops: F<f> set flag f      A notify_all   O notify_one   P<f> notify(ctx==f)   W<k>
// Generator invariant: every flag some sleeper waits for is set exactly once, and after each F<f> the same notifier
// issues a notification that covers every sleeper of f (A, or P<f>, or one O per sleeper when all sleepers share f).
#include "concurrent_monitor.h"
#include "../engine/drv/drv.h"

const char* H_PROP = "C02";
bool H_TSO = true;
using tbb::detail::r1::concurrent_monitor;

std::string h_gen(Src& s) {
    int ns = s.range(1, 3), nn = s.range(1, 2); int mode = (int)s.choose(2); bool shared = s.flip();
    int nf = shared ? 1 : ns;
    std::string o = "mon sleepers=" + std::to_string(ns) + " notifiers=" + std::to_string(nn) + " mode=" + std::to_string(mode) + "\n";
    for (int i = 0; i < ns; i++) o += "s " + std::to_string(i) + " flag=" + std::to_string(shared ? 0 : i) + " W" + std::to_string(s.range(0, 6)) + "\n";
    std::vector<std::string> nops(nn);
    for (int f = 0; f < nf; f++) {
        int j = (int)s.choose((uint32_t)nn);
        nops[j] += " W" + std::to_string(s.range(0, 6)) + " F" + std::to_string(f);
        uint32_t k = s.weighted({ 3, 3, shared ? 3u : 0u });
        if (k == 0) nops[j] += " A"; else if (k == 1) nops[j] += " P" + std::to_string(f); else for (int i = 0; i < ns; i++) nops[j] += " O";
    }
    for (int j = 0; j < nn; j++) { if (s.coin(3)) nops[j] += " W2 A"; o += "n " + std::to_string(j) + nops[j] + "\n"; }
    return o;
}

static concurrent_monitor* mon; static std::atomic<int> flags[4]; static int g_mode;
static std::vector<int> s_flag, s_work; static std::vector<std::vector<std::string>> n_ops; static long n_slept = 0, n_cancelled = 0, n_done = 0;
static void sleeper(void* p) {
    int i = (int)(intptr_t)p; int f = s_flag[i]; vs_work(s_work[i]);
    concurrent_monitor::thread_context ctx{ std::uintptr_t(f) };
    if (g_mode == 0) {
        long before = vs_futex_blocked_total();
        while (!flags[f].load(std::memory_order_relaxed)) mon->wait([&] { return flags[f].load(std::memory_order_relaxed) != 0; /* true = condition holds, do not sleep */ }, ctx);
        if (vs_futex_blocked_total() > before) n_slept++;
    } else {
        for (;;) {
            mon->prepare_wait(ctx);
            if (flags[f].load(std::memory_order_relaxed)) { mon->cancel_wait(ctx); n_cancelled++; break; }
            if (mon->commit_wait(ctx)) n_slept++;
            if (flags[f].load(std::memory_order_relaxed)) break;
        }
    }
    n_done++;
}
static void notifier(void* p) {
    int j = (int)(intptr_t)p;
    for (auto& op : n_ops[j]) {
        char c = op[0]; int a = atoi(op.c_str() + 1);
        if (c == 'W') vs_work(a);
        else if (c == 'F') flags[a].store(1, std::memory_order_relaxed);
        else if (c == 'A') mon->notify_all();
        else if (c == 'O') mon->notify_one();
        else if (c == 'P') mon->notify([a](std::uintptr_t ctx) { return ctx == (std::uintptr_t)a; });
    }
}
void h_run(Case& c) {
    int ns = 1, nn = 1;
    for (auto& l : c.lines) {
        auto w = split_ws(l);
        if (w[0] == "mon") { ns = (int)kvl(l, "sleepers", 1); nn = (int)kvl(l, "notifiers", 1); g_mode = (int)kvl(l, "mode", 0); s_flag.assign(ns, 0); s_work.assign(ns, 0); n_ops.resize(nn); }
        else if (w[0] == "s") { int i = atoi(w[1].c_str()); s_flag[i] = (int)kvl(l, "flag", 0); for (auto& x : w) if (x[0] == 'W') s_work[i] = atoi(x.c_str() + 1); }
        else if (w[0] == "n") { int j = atoi(w[1].c_str()); n_ops[j].assign(w.begin() + 2, w.end()); }
    }
    vs_begin(c.sched.c_str());
    vs_on_deadlock([](const char* d) { vs_violation("MONITOR-LOST-WAKEUP", "%ld sleeper(s) finished, the rest sleeps for ever although every flag is set and notified: %s", n_done, d); });
    vs_on_fixpoint([](const char* d) { vs_violation("MONITOR-SPIN", "%s", d); });
    mon = new concurrent_monitor;
    std::vector<int> ids;
    for (int i = 0; i < ns; i++) ids.push_back(vs_thread_start(sleeper, (void*)(intptr_t)i));
    for (int j = 1; j < nn; j++) ids.push_back(vs_thread_start(notifier, (void*)(intptr_t)j));
    notifier((void*)(intptr_t)0);
    for (int id : ids) vs_thread_join(id);
    vs_end();
    vs_stat_add("n_slept", n_slept); vs_stat_add("n_cancelled", n_cancelled); vs_stat_flag("monitor_l1"); if (n_slept) vs_stat_flag("monitor_sleeper_slept");
    vs_stat_add("nt", n_slept > 0 ? 1 : 0);
    vs_ok();
}
int main(int argc, char** argv) { return drv_main(argc, argv); }
