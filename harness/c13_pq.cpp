// C13 -- concurrent_priority_queue is a linearizable priority queue; a throwing element copy/move reaches
// only the caller of that operation.
//
// program:  pq cmp=<0 less|1 greater> prefill=<n> threads=<k> throw=<0|k-th copy/move construction throws> [witness=1]
//           t <i> <op> ...        ops: P<prio> push(const&)  M<prio> push(&&)  E<prio> emplace  Q try_pop  W<k> work
// Known finding (DESIGN s.11.3): a throwing element ASSIGNMENT inside the aggregated handler bricks the queue;
// generated faults are constructor throws only; witness=1 makes the assignment throw.
#include "oneapi/tbb/concurrent_priority_queue.h"
#include "../engine/drv/drv.h"
#include "../engine/lin/lin.h"

const char* H_PROP = "C13";
bool H_TSO = true;
enum { K_PUSH = 0, K_POP = 1 };
static const char* KN[] = { "push", "try_pop" };

std::string h_gen(Src& s) {
    if (drv_flag("--witness")) return "pq cmp=0 prefill=0 threads=1 throw=0 witness=1\nt 0 P1 P2 Q P3 Q\n";
    int nt = s.range(2, 4); int cmp = (int)s.choose(2); static const int pf[] = { 0, 0, 1, 3, 8, 20, 40 }; int prefill = pf[s.choose(7)];
    int thr = s.coin(5) ? s.range(1, 10) : 0; int athr = (!thr && s.coin(8)) ? s.range(1, 3) : 0;
    std::string o = "pq cmp=" + std::to_string(cmp) + " prefill=" + std::to_string(prefill) + " threads=" + std::to_string(nt) + " throw=" + std::to_string(thr) + (athr ? " athrow=" + std::to_string(athr) : "") + "\n";
    int dom = s.range(2, 6);
    for (int t = 0; t < nt; t++) {
        o += "t " + std::to_string(t); int nops = s.range(1, 7);
        for (int k = 0; k < nops; k++) {
            switch (s.weighted({ 4, 2, 1, 5, 1 })) {
            case 0: o += " P" + std::to_string(s.choose((uint32_t)dom)); break;
            case 1: o += " M" + std::to_string(s.choose((uint32_t)dom)); break;
            case 2: o += " E" + std::to_string(s.choose((uint32_t)dom)); break;
            case 3: o += " Q"; break;
            default: o += " W" + std::to_string(s.range(1, 6));
            }
        }
        o += "\n";
    }
    return o;
}

static long g_cnt = 0, g_throw_at = 0; static bool g_armed = false, g_assign_throws = false; static long g_live = 0; static int g_fired = 0;
struct Boom { int id; };
static long g_alloc_cnt = 0, g_athrow_at = 0;
template <class T> struct PAlloc {     // vector allocator that fails at the generated index while armed
    using value_type = T; using is_always_equal = std::true_type;
    PAlloc() = default; template <class U> PAlloc(const PAlloc<U>&) {}
    T* allocate(size_t n) { if (g_armed && g_athrow_at && ++g_alloc_cnt == g_athrow_at) { g_fired++; throw std::bad_alloc(); } return (T*)std::malloc(n * sizeof(T)); }
    void deallocate(T* p, size_t) { std::free(p); }
    template <class U> bool operator==(const PAlloc<U>&) const { return true; }
    template <class U> bool operator!=(const PAlloc<U>&) const { return false; }
};
struct Elem {
    int prio, id; unsigned guard;
    static void tick(int id) { if (g_armed && ++g_cnt == g_throw_at) { g_fired++; throw Boom{ id }; } }
    Elem() : prio(-1), id(-1), guard(0xE1E1) { g_live++; }
    Elem(int p, int i) : prio(p), id(i), guard(0xE1E1) { g_live++; }
    Elem(const Elem& o) : prio(o.prio), id(o.id), guard(o.guard) { tick(o.id); g_live++; }
    Elem(Elem&& o) : prio(o.prio), id(o.id), guard(o.guard) { g_live++; }   // moves never throw here: reheap()/heapify() move elements outside the handler's try block (known finding)
    Elem& operator=(const Elem& o) { if (g_assign_throws && g_armed) { g_armed = false; g_fired++; throw Boom{ o.id }; } prio = o.prio; id = o.id; guard = o.guard; return *this; }
    Elem& operator=(Elem&& o) { if (g_assign_throws && g_armed) { g_armed = false; g_fired++; throw Boom{ o.id }; } prio = o.prio; id = o.id; guard = o.guard; return *this; }
    ~Elem() { g_live--; }
};
struct Less { bool operator()(const Elem& a, const Elem& b) const { return a.prio < b.prio; } };
struct Greater { bool operator()(const Elem& a, const Elem& b) const { return a.prio > b.prio; } };

// model: multiset of (prio,id); a successful pop must return an element no other present element beats
struct PModel {
    std::map<int, int> prio_of; bool greater = false;   // id -> prio
    std::string key() const { std::string k; for (auto& kv : prio_of) { k += std::to_string(kv.first); k += ','; } return k; }
    bool apply(const LinOp& o) {
        if (o.kind == K_PUSH) { if (!o.pending && !o.ok) return true; prio_of[(int)o.a] = (int)o.b; return true; }
        if (o.pending) { return true; }
        if (!o.ok) return prio_of.empty();
        auto it = prio_of.find((int)o.ret); if (it == prio_of.end()) return false;
        for (auto& kv : prio_of) if (greater ? kv.second < it->second : kv.second > it->second) return false;
        prio_of.erase(it); return true;
    }
};

static std::vector<std::vector<std::string>> g_ops; static std::vector<LinOp> H; static std::vector<std::pair<int, int>> g_initial;
static int g_nt, g_cmp; static bool g_witness; static long n_overlap = 0, n_inflight = 0, n_threw = 0, n_foreign_exc = 0; static int g_next_id = 1000;
template <class Q> struct Run {
    static Q* q;
    static void thread_fn(void* p) {
        int t = (int)(intptr_t)p;
        for (auto& op : g_ops[t]) {
            char c = op[0]; int v = atoi(op.c_str() + 1);
            if (c == 'W') { vs_work(v); continue; }
            LinOp o; o.thread = t; o.pending = true; o.kind = c == 'Q' ? K_POP : K_PUSH;
            int id = 0; if (o.kind == K_PUSH) { id = g_next_id++; o.a = id; o.b = v; }
            if (n_inflight > 0) n_overlap++; n_inflight++;
            size_t idx = H.size(); o.inv = vs_now(); H.push_back(o);
            bool ok = false, threw = false; long ret = 0; int fired_before = g_fired;
            try {
                if (c == 'P') { bool a = g_armed; g_armed = false; Elem e(v, id); g_armed = a; q->push(e); ok = true; }
                else if (c == 'M') { bool a = g_armed; g_armed = false; Elem e(v, id); g_armed = a; q->push(std::move(e)); ok = true; }
                else if (c == 'E') { q->emplace(v, id); ok = true; }
                else { bool a = g_armed && !g_assign_throws; Elem e; (void)a; ok = q->try_pop(e); if (ok) { ret = e.id; if (e.guard != 0xE1E1) vs_violation("TORN-ITEM", "popped element %d has a damaged payload", e.id); } }
            } catch (Boom& b) { threw = true; if (o.kind == K_PUSH && b.id != id) n_foreign_exc++; if (o.kind == K_POP && !g_witness) vs_violation("EXCEPTION-AT-WRONG-CALLER", "try_pop of t%d received the exception of element %d", t, b.id); }
            catch (std::bad_alloc&) { threw = true; }
            (void)fired_before;
            LinOp& r = H[idx]; r.resp = vs_now(); r.pending = false; r.ok = ok; r.ret = ret; n_inflight--;
            if (threw) { n_threw++; if (g_fired == 0) vs_violation("SPURIOUS-EXCEPTION", "%s threw although no fault was injected", KN[r.kind]); }
        }
    }
    static void judge(bool hung, const char* detail) {
        if (hung) vs_violation(g_witness ? "QUEUE-BRICKED" : "PQ-HANG", "an operation never returned: %s %s", detail, lin_dump(H, KN).c_str());
        g_armed = false;
        // exception accounting: every injected throw must have surfaced at exactly one pushing caller
        if (n_threw != g_fired) vs_violation("EXCEPTION-LOST-OR-DUPLICATED", "%d injected throw(s) but %ld operation(s) reported an exception", g_fired, n_threw);
        std::map<int, int> pushed, popped; for (auto& p : g_initial) pushed[p.first]++;
        for (auto& o : H) { if (o.kind == K_PUSH && o.ok) pushed[(int)o.a]++; if (o.kind == K_POP && o.ok) popped[(int)o.ret]++; }
        { Elem e; while (q->try_pop(e)) { LinOp o; o.thread = 99; o.kind = K_POP; o.ok = true; o.ret = e.id; o.inv = vs_now(); o.resp = vs_now(); H.push_back(o); if (popped.count(e.id)) vs_violation("DUPLICATED-ITEM", "element %d popped twice", e.id); popped[e.id]++; }
          LinOp o; o.thread = 99; o.kind = K_POP; o.ok = false; o.inv = vs_now(); o.resp = vs_now(); H.push_back(o); }
        for (auto& kv : popped) { if (!pushed.count(kv.first)) vs_violation("INVENTED-ITEM", "element %d popped but never pushed successfully", kv.first); if (kv.second > 1) vs_violation("DUPLICATED-ITEM", "element %d popped %d times", kv.first, kv.second); }
        for (auto& kv : pushed) if (!popped.count(kv.first)) vs_violation("LOST-ITEM", "element %d was pushed (push returned) but never came out", kv.first);
        delete q;
        if (g_live != 0) vs_violation("ELEMENT-LEAK", "%ld element objects alive after the queue was destroyed", g_live);
        int lin = -2;
        if (H.size() <= 26) {
            PModel m; m.greater = g_cmp == 1; for (auto& p : g_initial) m.prio_of[p.first] = p.second;
            LinChecker<PModel> lc(H, 3000000); lin = lc.run(m);
            if (lin == 0) vs_violation("NOT-LINEARIZABLE", "no priority-queue linearization of: %s initial=%zu", lin_dump(H, KN).c_str(), g_initial.size());
        }
        vs_end();
        vs_stat_add("n_ops", (long)H.size()); vs_stat_add("n_overlap", n_overlap); vs_stat_add("n_threw", n_threw); vs_stat_add("n_lin_checked", lin == 1); vs_stat_add("n_foreign_exc", n_foreign_exc);
        if (n_threw) vs_stat_flag("ctor_threw"); if (n_foreign_exc) vs_stat_flag("exception_translated");
        vs_stat_add("nt", n_overlap > 0 ? 1 : 0);
        vs_ok();
    }
    static void run(long prefill) {
        q = new Q;
        for (long i = 0; i < prefill; i++) { int id = 100 + (int)i, pr = (int)((i * 7) % 5); q->push(Elem(pr, id)); g_initial.push_back({ id, pr }); }
        g_armed = true;
        auto hang = [](const char* d) { judge(true, d); }; vs_on_deadlock(hang); vs_on_fixpoint(hang);
        std::vector<int> ids; for (int t = 1; t < g_nt; t++) ids.push_back(vs_thread_start(thread_fn, (void*)(intptr_t)t));
        thread_fn((void*)(intptr_t)0);
        for (int id : ids) vs_thread_join(id);
        judge(false, "");
    }
};
template <class Q> Q* Run<Q>::q = nullptr;

void h_run(Case& c) {
    long prefill = 0;
    for (auto& l : c.lines) {
        auto w = split_ws(l);
        if (w[0] == "pq") { g_cmp = (int)kvl(l, "cmp", 0); prefill = kvl(l, "prefill", 0); g_nt = (int)kvl(l, "threads", 2); g_throw_at = kvl(l, "throw", 0); g_athrow_at = kvl(l, "athrow", 0); g_witness = kvl(l, "witness", 0) != 0; g_assign_throws = g_witness; }
        else if (w[0] == "t") { int t = atoi(w[1].c_str()); if ((int)g_ops.size() <= t) g_ops.resize(t + 1); g_ops[t].assign(w.begin() + 2, w.end()); }
    }
    g_ops.resize(g_nt); H.reserve(256);
    vs_begin(c.sched.c_str());
    if (g_athrow_at) { if (g_cmp == 0) Run<tbb::concurrent_priority_queue<Elem, Less, PAlloc<Elem>>>::run(prefill); else Run<tbb::concurrent_priority_queue<Elem, Greater, PAlloc<Elem>>>::run(prefill); return; }
    if (g_cmp == 0) Run<tbb::concurrent_priority_queue<Elem, Less>>::run(prefill); else Run<tbb::concurrent_priority_queue<Elem, Greater>>::run(prefill);
}
int main(int argc, char** argv) { return drv_main(argc, argv); }
