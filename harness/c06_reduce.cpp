// C06 -- parallel_reduce / parallel_deterministic_reduce / parallel_scan / parallel_sort equal the sequential
// result for any input and schedule.   DESIGN.md s.6 C06.
//
// program text (one cfg line, then 1-2 op lines executed one after the other by the main thread inside an explicit
// task_arena(mc); workers = par-1):
//   cfg par=<1..4> mc=<1..4>
//   reduce form=<fn|body> part=<simple|auto|static|affinity|default> begin=<b> n=<n> grain=<g> work=<k>
//         parallel_reduce over blocked_range<int>(b, b+n, g); value = free monoid (vector of indices, concatenation)
//   dreduce form=<fn|body> part=<simple|static> begin=<b> n=<n> grain=<g> work=<k> runs=<2..3>
//         parallel_deterministic_reduce with a parenthesisation-recording operation "(L R)", run several times:
//         in the test arena under max_allowed_parallelism 1, in the test arena with all workers (runs-1 times) and in a
//         one-slot arena; the strings of all runs that saw the same max_concurrency() must be identical
//         (simple_partitioner: of all runs)
//   every reduce / dreduce / scan line also has  nest=<k>: every k-th body invocation (0 = never) runs and waits for a tiny nested task_group
//         inside operator(), so the thread may execute a sibling subtask of the same algorithm while that body is still open;
//         reduce / dreduce lines have  ctx=<0|1>: 1 = the overload that takes a task_group_context (an isolated one) is called;
//         dreduce part=default = the overload without a partitioner argument (documented to be simple_partitioner); every dreduce op
//         additionally runs the explicit simple_partitioner overload without context as the reference tree for simple / default
//   scan form=<fn|body> part=<simple|auto|default> begin=<b> n=<n> grain=<g> work=<k>
//         parallel_scan with the free monoid; every final pass is checked against its incoming prefix
//   sort n=<n> kind=<rand|sorted|reverse|inv|few> p=<pos> ranks=<R> cmp=<lt|gt|mod|default> mod=<m> it=<vec|ptr|rng> seed=<s> cw=<k>
//         parallel_sort of n (key,id) records.  rank_i: rand = random in [0,R); sorted = floor(i*R/n); reverse = sorted
//         backwards; inv = sorted with elements p and p+1 swapped; few = random in [0,R).  key = rank (lt/default),
//         -rank (gt), rank + m*random (mod: comparator compares key mod m; rank < m).  cw: every cw-th comparison is one
//         decision point (0 = never)
#include "oneapi/tbb/parallel_reduce.h"
#include "oneapi/tbb/parallel_scan.h"
#include "oneapi/tbb/parallel_sort.h"
#include "oneapi/tbb/blocked_range.h"
#include "oneapi/tbb/partitioner.h"
#include "oneapi/tbb/task_arena.h"
#include "oneapi/tbb/task_group.h"
#include "oneapi/tbb/global_control.h"
#include "../engine/drv/drv.h"

const char* H_PROP = "C06";
bool H_TSO = true;

static const char* PARTS[] = { "simple", "auto", "static", "affinity", "default" };

// ------------------------------------------------------------------ generator
static const int PRIMES[] = { 2, 3, 5, 7, 11, 13, 17, 31, 37, 61, 97, 127, 131, 199, 251 };
static const int POW2PM[] = { 1, 2, 3, 4, 5, 7, 8, 9, 15, 16, 17, 31, 32, 33, 63, 64, 65, 127, 128, 129, 255, 256, 257, 511, 512, 513 };
static int gen_size(Src& s, int g, int cap) {
    long n;
    switch (s.weighted({ 4, 4, 2, 2, 1 })) {
    case 0: n = s.range(0, 40); if (n == 0) n = 6; else if (n == 6) n = 0; break;
    case 1: { static const int m[] = { 2, 1, 4, 3, 8, 16 }; n = (long)m[s.choose(6)] * g + s.range(0, 2) - 1; break; }
    case 2: n = PRIMES[s.choose(15)]; break;
    case 3: n = POW2PM[s.choose(26)]; break;
    default: n = s.range(0, 2); break;
    }
    if (n < 0) n = 0; if (n > cap) n = cap;
    return (int)n;
}
static int gen_grain(Src& s) {
    switch (s.weighted({ 5, 3, 1 })) {
    case 0: return s.range(1, 8);
    case 1: { static const int g[] = { 16, 10, 13, 32, 64, 100 }; return g[s.choose(6)]; }
    default: return s.range(1, 300);
    }
}
static std::string gen_rng(Src& s, bool simple_like) {
    int g = gen_grain(s); int n = gen_size(s, g, simple_like ? std::min(64 * g, 2048) : 600);
    long b; switch (s.choose(4)) { case 0: b = 0; break; case 1: b = -s.range(1, 40); break; case 2: b = (long)INT_MAX - n; break; default: b = s.range(1, 1000); break; }
    static const int NEST[] = { 0, 2, 3, 5 };
    return "begin=" + std::to_string(b) + " n=" + std::to_string(n) + " grain=" + std::to_string(g) + " work=" + std::to_string(s.range(0, 6)) + " nest=" + std::to_string(NEST[s.weighted({ 5, 1, 2, 2 })]);
}
static std::string gen_sort(Src& s) {
    static const int NS[] = { 500, 10, 9, 11, 499, 501, 0, 1, 2, 3, 8, 12, 100, 498, 502, 503, 511, 512, 513, 600, 777, 1000, 1024, 1500, 2000, 3000 };
    int n = NS[s.weighted({ 6, 2, 2, 2, 4, 4, 1, 1, 1, 1, 1, 1, 1, 2, 2, 1, 1, 1, 1, 2, 2, 2, 1, 1, 1, 1 })];
    if (s.coin(6)) n = s.range(0, 1200);
    static const char* CMP[] = { "lt", "gt", "mod", "default" }; int cmp = (int)s.weighted({ 3, 2, 3, 1 });
    static const char* KIND[] = { "inv", "rand", "sorted", "reverse", "few" }; int kind = (int)s.weighted({ 5, 3, 2, 1, 2 });
    long m = 1; if (cmp == 2) { static const int M[] = { 7, 1, 2, 3, 1000 }; m = M[s.choose(5)]; }
    long R, p = 0;
    if (kind == 0) {   // one adjacent inversion at position p, distinct ranks
        R = std::max(n, 1); if (cmp == 2) m = n + 3;
        int hi = std::max(0, n - 2);
        // dense around the boundary between the 9-element serial probe and the parallel probe (pairs (8,9), (9,10), (10,11))
        switch (s.weighted({ 4, 2, 2, 3 })) { case 0: { static const int P[] = { 9, 10, 8, 0, 11 }; p = P[s.choose(5)]; break; } case 1: p = s.range(0, 14); break; case 2: p = hi - s.range(0, 14); break; default: p = s.range(0, hi); break; }
        if (p > hi) p = hi; if (p < 0) p = 0;
    } else if (kind == 1) { static const int D[] = { 0, 1, 2 }; int d = D[s.choose(3)]; R = d == 0 ? 2L * n + 1 : d == 1 ? n / 4 + 1 : 3; }
    else if (kind == 2 || kind == 3) { int d = (int)s.choose(3); R = d == 0 ? std::max(n, 1) : d == 1 ? 5 : 1; }
    else R = s.range(1, 4);
    if (cmp == 2 && R > m) R = m;
    static const char* IT[] = { "vec", "ptr", "rng" }; int it = cmp == 0 ? (int)s.weighted({ 3, 2, 0 }) : cmp == 2 ? (int)s.weighted({ 3, 0, 2 }) : 0;
    static const int CW[] = { 0, 64, 16 };
    return std::string("sort n=") + std::to_string(n) + " kind=" + KIND[kind] + " p=" + std::to_string(p) + " ranks=" + std::to_string(R) + " cmp=" + CMP[cmp] + " mod=" + std::to_string(m) +
           " it=" + IT[it] + " seed=" + std::to_string(1 + s.choose(1000)) + " cw=" + std::to_string(CW[s.choose(3)]);
}
std::string h_gen(Src& s) {
    int par = 2 + (int)s.weighted({ 4, 4, 3, 1 }); if (par == 5) par = 1;
    int mc = 2 + (int)s.weighted({ 4, 3, 3, 1 }); if (mc == 5) mc = 1;
    std::string o = "cfg par=" + std::to_string(par) + " mc=" + std::to_string(mc) + "\n";
    int nops = 1 + (int)s.weighted({ 3, 1 });
    for (int k = 0; k < nops; k++) {
        const char* form = s.flip() ? "body" : "fn";
        switch (s.weighted({ 6, 4, 5, 5 })) {
        case 0: { int part = (int)s.weighted({ 3, 4, 2, 3, 1 }); o += std::string("reduce form=") + form + " part=" + PARTS[part] + " ctx=" + std::to_string((int)s.coin(3)) + " " + gen_rng(s, part == 0); break; }
        case 1: { static const int DP[] = { 0, 2, 4 }; int part = DP[s.weighted({ 3, 3, 2 })]; o += std::string("dreduce form=") + form + " part=" + PARTS[part] + " ctx=" + std::to_string((int)s.coin(2)) + " " + gen_rng(s, part != 2) + " runs=" + std::to_string(s.range(2, 3)); break; }
        case 2: { static const int P[] = { 1, 0, 4 }; int part = P[s.choose(3)]; o += std::string("scan form=") + form + " part=" + PARTS[part] + " " + gen_rng(s, part == 0); break; }
        default: o += gen_sort(s); break;
        }
        o += "\n";
    }
    return o;
}

// ------------------------------------------------------------------ common oracle state
typedef std::vector<int> Seq;
typedef tbb::blocked_range<int> BR;
static int g_work = 0, g_caller = 0, g_B = 0, g_N = 0;
static long n_ops = 0, n_body_calls = 0, n_body_other = 0, n_splits = 0, n_splits_other = 0, n_joins = 0, n_prescan = 0, n_final = 0, n_nt_ops = 0, n_cmp = 0, n_cmp_other = 0;
static std::set<std::string> g_flags;
static int part_of(const std::string& l) { std::string p = kvs(l, "part", "auto"); for (int i = 0; i < 5; i++) if (p == PARTS[i]) return i; vs_inconclusive("BAD-CASE", "unknown partitioner"); }
static std::string seqs(const Seq& v) { std::string s = "["; size_t k = 0; for (int x : v) { if (k++ > 40) { s += "..."; break; } s += std::to_string(x) + " "; } return s + "]"; }
static void check_seq(const Seq& v, const char* what) {
    if ((int)v.size() != g_N) vs_violation("REDUCE-RESULT", "%s: result has %zu elements, sequential fold of [%d,%d) has %d: %s", what, v.size(), g_B, g_B + g_N, g_N, seqs(v).c_str());
    for (int i = 0; i < g_N; i++) if (v[i] != g_B + i) vs_violation("REDUCE-RESULT", "%s: result differs from the left-to-right fold at position %d: got %d expected %d: %s", what, i, v[i], g_B + i, seqs(v).c_str());
}
static void range_check(const BR& r, const char* what) {
    if (r.empty()) vs_violation("EMPTY-CHUNK", "%s body got an empty range", what);
    if (r.begin() < g_B || r.end() > g_B + g_N) vs_violation("OUT-OF-RANGE", "%s body got [%d,%d) outside [%d,%d)", what, r.begin(), r.end(), g_B, g_B + g_N);
}
template <class F> static void with_part(int part, const F& f) {
    if (part == 0) f(tbb::simple_partitioner()); else if (part == 1) f(tbb::auto_partitioner()); else if (part == 2) f(tbb::static_partitioner());
    else { tbb::affinity_partitioner ap; f(ap); }
}

// a tiny nested task_group run + wait inside a body: while it waits the thread may run a sibling subtask of the enclosing algorithm
static int g_nest = 0; static long g_body_ctr = 0, n_nested = 0;
// On the calling thread the nested task is enqueued into a helper arena instead, so the wait cannot be satisfied from the local pool and the
// caller executes whatever it finds meanwhile -- e.g. its own freshly spawned right sibling while the left body is still open.  (Only the
// caller does that: worker threads waiting for another arena could use up all workers that arena needs.)
static tbb::task_arena* g_helper = nullptr;
static void maybe_nest() {
    if (!g_nest || (++g_body_ctr % g_nest) != 0) return;
    n_nested++; tbb::task_group tg;
    if (g_helper && vs_self() == g_caller) g_helper->enqueue(tg.defer([] { vs_work(2); })); else tg.run([] { vs_work(1); });
    tg.wait();
}

// ------------------------------------------------------------------ reduce
static int g_next_body = 0;
struct RBody {
    Seq acc; int id, from, running = 0; bool dead = false;
    RBody() : id(g_next_body++), from(-1) {}
    RBody(RBody& o, tbb::split) : id(g_next_body++), from(o.id) {
        if (o.dead) vs_violation("JOIN-PARTNER", "body %d was split from body %d which had already been joined away", id, o.id);
        n_splits++; if (vs_self() != g_caller) n_splits_other++;
    }
    void operator()(const BR& r) {
        if (dead) vs_violation("JOIN-PARTNER", "body %d ran [%d,%d) after it had been joined into another body", id, r.begin(), r.end());
        if (running) vs_violation("JOIN-PARTNER", "body %d entered for [%d,%d) while it is still inside operator() for an earlier subrange", id, r.begin(), r.end());
        range_check(r, "parallel_reduce"); running++; n_body_calls++; if (vs_self() != g_caller) n_body_other++;
        vs_work(g_work);
        int half = r.begin() + (r.end() - r.begin()) / 2;
        for (int i = r.begin(); i < half; i++) acc.push_back(i);
        maybe_nest();
        for (int i = half; i < r.end(); i++) acc.push_back(i);
        running--;
    }
    void join(RBody& rhs) {
        n_joins++;
        if (dead || rhs.dead) vs_violation("JOIN-PARTNER", "join(%d <- %d) involves a body that was already joined away", id, rhs.id);
        if (rhs.from != id) vs_violation("JOIN-PARTNER", "body %d (split from body %d) was joined into body %d", rhs.id, rhs.from, id);
        if (running || rhs.running) vs_violation("JOIN-EARLY", "join(%d <- %d) while one of them is still inside operator()", id, rhs.id);
        vs_work(g_work ? 1 : 0);
        acc.insert(acc.end(), rhs.acc.begin(), rhs.acc.end()); rhs.dead = true;
    }
};
static void op_reduce(const std::string& l) {
    bool body = kvs(l, "form", "fn") == "body"; int part = part_of(l); g_B = (int)kvl(l, "begin", 0); g_N = (int)kvl(l, "n", 0); int g = (int)kvl(l, "grain", 1); g_work = (int)kvl(l, "work", 0);
    if (g < 1 || g_N < 0) vs_inconclusive("BAD-CASE", "reduce");
    bool cx = kvl(l, "ctx", 0) != 0; g_nest = (int)kvl(l, "nest", 0); tbb::task_group_context ctx(tbb::task_group_context::isolated);
    BR range(g_B, g_B + g_N, (size_t)g); g_caller = vs_self(); long s0 = n_splits_other, c0 = n_body_calls;
    if (body) {
        RBody b;
        if (cx) { if (part == 4) tbb::parallel_reduce(range, b, ctx); else with_part(part, [&](auto&& p) { tbb::parallel_reduce(range, b, p, ctx); }); }
        else if (part == 4) tbb::parallel_reduce(range, b); else with_part(part, [&](auto&& p) { tbb::parallel_reduce(range, b, p); });
        if (b.dead || b.running) vs_violation("JOIN-PARTNER", "the user's body was joined away / is still running at return");
        check_seq(b.acc, "parallel_reduce(body)");
    } else {
        auto rb = [](const BR& r, Seq acc) {
            range_check(r, "parallel_reduce"); n_body_calls++; bool other = vs_self() != g_caller; if (other) n_body_other++;
            if (acc.empty() && r.begin() != g_B) { n_splits++; if (other) n_splits_other++; }     // a fresh (split) accumulator
            vs_work(g_work);
            for (int i = r.begin(); i < r.end(); i++) acc.push_back(i);
            maybe_nest();
            return acc; };
        auto jn = [](Seq a, const Seq& b) { n_joins++; a.insert(a.end(), b.begin(), b.end()); return a; };
        Seq res;
        if (cx) { if (part == 4) res = tbb::parallel_reduce(range, Seq(), rb, jn, ctx); else with_part(part, [&](auto&& p) { res = tbb::parallel_reduce(range, Seq(), rb, jn, p, ctx); }); }
        else if (part == 4) res = tbb::parallel_reduce(range, Seq(), rb, jn); else with_part(part, [&](auto&& p) { res = tbb::parallel_reduce(range, Seq(), rb, jn, p); });
        check_seq(res, "parallel_reduce(lambda)");
    }
    n_ops++;
    if (n_splits_other > s0) { n_nt_ops++; g_flags.insert("reduce_split_on_steal"); }
    if (n_body_calls - c0 >= 2) g_flags.insert("reduce_multi_chunk");
    g_flags.insert(std::string("reduce_") + (body ? "body_" : "fn_") + PARTS[part]); if (cx) g_flags.insert("reduce_context_overload"); if (g_nest) g_flags.insert("nested_wait_in_body");
    g_nest = 0;
}

// ------------------------------------------------------------------ deterministic reduce
static std::string leaf_str(const BR& r) { return std::to_string(r.begin()) + ":" + std::to_string(r.end()); }
static bool g_dr_other = false; static int g_dr_leaves = 0;
struct DBody {
    std::string s;
    DBody() {}
    DBody(DBody&, tbb::split) { n_splits++; if (vs_self() != g_caller) n_splits_other++; }
    void operator()(const BR& r) {
        range_check(r, "parallel_deterministic_reduce"); n_body_calls++; g_dr_leaves++; if (vs_self() != g_caller) { n_body_other++; g_dr_other = true; }
        vs_work(g_work); maybe_nest(); std::string lf = leaf_str(r); s = s.empty() ? lf : "(" + s + " " + lf + ")";
    }
    void join(DBody& rhs) { n_joins++; s = "(" + s + " " + rhs.s + ")"; }
};
static void check_paren(const std::string& s, const char* what) {   // leaves in order, adjacent, covering
    int pos = g_B; size_t i = 0; bool any = false;
    while (i < s.size()) {
        if (s[i] == '(' || s[i] == ')' || s[i] == ' ') { i++; continue; }
        int b = 0, e = 0, used = 0; if (sscanf(s.c_str() + i, "%d:%d%n", &b, &e, &used) != 2) vs_violation("REDUCE-RESULT", "%s: malformed result %s", what, s.c_str());
        if (b != pos || e <= b) vs_violation("REDUCE-RESULT", "%s: operands out of order: leaf %d:%d follows position %d in %s", what, b, e, pos, s.substr(0, 300).c_str());
        pos = e; i += (size_t)used; any = true;
    }
    if (pos != g_B + g_N || (g_N > 0 && !any)) vs_violation("REDUCE-RESULT", "%s: result covers [%d,%d) of [%d,%d): %s", what, g_B, pos, g_B, g_B + g_N, s.substr(0, 300).c_str());
}
static std::string dreduce_once(const BR& range, bool body, int part, bool cx) {
    g_caller = vs_self(); tbb::task_group_context ctx(tbb::task_group_context::isolated);
    if (body) {
        DBody b;
        if (cx) { if (part == 0) tbb::parallel_deterministic_reduce(range, b, tbb::simple_partitioner(), ctx); else if (part == 2) tbb::parallel_deterministic_reduce(range, b, tbb::static_partitioner(), ctx); else tbb::parallel_deterministic_reduce(range, b, ctx); }
        else { if (part == 0) tbb::parallel_deterministic_reduce(range, b, tbb::simple_partitioner()); else if (part == 2) tbb::parallel_deterministic_reduce(range, b, tbb::static_partitioner()); else tbb::parallel_deterministic_reduce(range, b); }
        return b.s;
    }
    auto rb = [](const BR& r, std::string init) {
        range_check(r, "parallel_deterministic_reduce"); n_body_calls++; g_dr_leaves++; if (vs_self() != g_caller) { n_body_other++; g_dr_other = true; }
        vs_work(g_work); maybe_nest(); std::string lf = leaf_str(r); return init.empty() ? lf : "(" + init + " " + lf + ")"; };
    auto jn = [](const std::string& a, const std::string& b) { n_joins++; return "(" + a + " " + b + ")"; };
    if (cx) {
        if (part == 0) return tbb::parallel_deterministic_reduce(range, std::string(), rb, jn, tbb::simple_partitioner(), ctx);
        if (part == 2) return tbb::parallel_deterministic_reduce(range, std::string(), rb, jn, tbb::static_partitioner(), ctx);
        return tbb::parallel_deterministic_reduce(range, std::string(), rb, jn, ctx);
    }
    if (part == 0) return tbb::parallel_deterministic_reduce(range, std::string(), rb, jn, tbb::simple_partitioner());
    if (part == 2) return tbb::parallel_deterministic_reduce(range, std::string(), rb, jn, tbb::static_partitioner());
    return tbb::parallel_deterministic_reduce(range, std::string(), rb, jn);
}
static void op_dreduce(const std::string& l, int mc) {
    bool body = kvs(l, "form", "fn") == "body"; int part = part_of(l); g_B = (int)kvl(l, "begin", 0); g_N = (int)kvl(l, "n", 0); int g = (int)kvl(l, "grain", 1); g_work = (int)kvl(l, "work", 0); int runs = (int)kvl(l, "runs", 2);
    if (g < 1 || g_N < 0 || (part != 0 && part != 2 && part != 4)) vs_inconclusive("BAD-CASE", "dreduce");
    bool cx = kvl(l, "ctx", 0) != 0; g_nest = (int)kvl(l, "nest", 0);
    BR range(g_B, g_B + g_N, (size_t)g);
    struct Run { std::string s; int conc; const char* where; };
    std::vector<Run> rs; g_dr_other = false; g_dr_leaves = 0;
    {   // (a) the current (test) arena while max_allowed_parallelism is 1
        tbb::global_control one(tbb::global_control::max_allowed_parallelism, 1);
        rs.push_back({ dreduce_once(range, body, part, cx), tbb::this_task_arena::max_concurrency(), "test arena, max_allowed_parallelism=1" });
    }
    for (int k = 1; k < runs; k++) rs.push_back({ dreduce_once(range, body, part, cx), tbb::this_task_arena::max_concurrency(), "test arena, all workers" });
    {   // (b) a one-slot arena: only the calling thread
        tbb::task_arena solo(1); std::string s; int conc = 0;
        solo.execute([&] { s = dreduce_once(range, body, part, cx); conc = tbb::this_task_arena::max_concurrency(); });
        rs.push_back({ s, conc, "one-slot arena" });
    }
    {   // (c) a second arena with the same number of slots as the test arena
        tbb::task_arena twin(mc); std::string s; int conc = 0;
        twin.execute([&] { s = dreduce_once(range, body, part, cx); conc = tbb::this_task_arena::max_concurrency(); });
        rs.push_back({ s, conc, "second arena of equal size" });
    }
    // reference tree: the explicit simple_partitioner overload without a context (simple and default must reproduce it)
    if (part != 2) rs.push_back({ dreduce_once(range, body, 0, false), tbb::this_task_arena::max_concurrency(), "reference: explicit simple_partitioner, no context" });
    for (auto& r : rs) check_paren(r.s, "parallel_deterministic_reduce");
    for (size_t a = 0; a < rs.size(); a++) for (size_t b = a + 1; b < rs.size(); b++) {
        if (part == 2 && rs[a].conc != rs[b].conc) continue;      // static_partitioner: initial divisor = max_concurrency()
        if (rs[a].s != rs[b].s) vs_violation("NONDETERMINISTIC-REDUCE", "%s_partitioner, [%d,%d) grain %d: split/join tree differs between run %zu (%s, max_concurrency %d) and run %zu (%s, max_concurrency %d): %s  vs  %s",
                                             PARTS[part], g_B, g_B + g_N, g, a, rs[a].where, rs[a].conc, b, rs[b].where, rs[b].conc, rs[a].s.substr(0, 400).c_str(), rs[b].s.substr(0, 400).c_str());
    }
    n_ops++;
    if (g_dr_other && g_dr_leaves > (int)rs.size()) { n_nt_ops++; g_flags.insert("dreduce_leaf_on_other_thread"); }
    g_flags.insert(std::string("dreduce_") + (body ? "body_" : "fn_") + PARTS[part]); if (cx) g_flags.insert("dreduce_context_overload"); if (g_nest) g_flags.insert("nested_wait_in_body");
    g_nest = 0;
}

// ------------------------------------------------------------------ scan
static std::vector<int> g_final_cnt; static bool g_scan_other = false; static long g_scan_pre = 0;
static void scan_visit(const BR& r, Seq& sum, bool fin) {
    range_check(r, "parallel_scan"); n_body_calls++; if (vs_self() != g_caller) { n_body_other++; g_scan_other = true; }
    vs_work(g_work); maybe_nest();
    if (fin) {
        n_final++;
        // the incoming prefix of a final pass must be exactly [B, r.begin)
        if ((int)sum.size() != r.begin() - g_B) vs_violation("SCAN-PREFIX", "final pass over [%d,%d): incoming prefix has %zu elements, expected %d: %s", r.begin(), r.end(), sum.size(), r.begin() - g_B, seqs(sum).c_str());
        for (int i = 0; i < (int)sum.size(); i++) if (sum[i] != g_B + i) vs_violation("SCAN-PREFIX", "final pass over [%d,%d): incoming prefix wrong at position %d: %s", r.begin(), r.end(), i, seqs(sum).c_str());
        for (int i = r.begin(); i < r.end(); i++) if (++g_final_cnt[i - g_B] > 1) vs_violation("SCAN-FINAL-TWICE", "index %d got a second final pass (chunk [%d,%d))", i, r.begin(), r.end());
    } else { n_prescan++; g_scan_pre++; }
    for (int i = r.begin(); i < r.end(); i++) sum.push_back(i);
}
struct SBody {
    Seq sum;
    SBody() {}
    SBody(SBody&, tbb::split) { n_splits++; if (vs_self() != g_caller) n_splits_other++; }
    template <class Tag> void operator()(const BR& r, Tag) { scan_visit(r, sum, Tag::is_final_scan()); }
    void reverse_join(SBody& a) { n_joins++; Seq t(a.sum); t.insert(t.end(), sum.begin(), sum.end()); sum.swap(t); }
    void assign(SBody& b) { sum = b.sum; }
};
static void op_scan(const std::string& l) {
    bool body = kvs(l, "form", "fn") == "body"; int part = part_of(l); g_B = (int)kvl(l, "begin", 0); g_N = (int)kvl(l, "n", 0); int g = (int)kvl(l, "grain", 1); g_work = (int)kvl(l, "work", 0);
    if (g < 1 || g_N < 0 || part == 2 || part == 3) vs_inconclusive("BAD-CASE", "scan");
    g_nest = (int)kvl(l, "nest", 0);
    BR range(g_B, g_B + g_N, (size_t)g); g_caller = vs_self(); g_final_cnt.assign((size_t)g_N, 0); g_scan_other = false; g_scan_pre = 0;
    Seq res;
    if (body) {
        SBody b;
        if (part == 0) tbb::parallel_scan(range, b, tbb::simple_partitioner()); else if (part == 1) tbb::parallel_scan(range, b, tbb::auto_partitioner()); else tbb::parallel_scan(range, b);
        res = b.sum;
    } else {
        auto sc = [](const BR& r, const Seq& sum, bool fin) { Seq t(sum); scan_visit(r, t, fin); return t; };
        auto rj = [](const Seq& a, const Seq& b) { n_joins++; Seq t(a); t.insert(t.end(), b.begin(), b.end()); return t; };
        if (part == 0) res = tbb::parallel_scan(range, Seq(), sc, rj, tbb::simple_partitioner()); else if (part == 1) res = tbb::parallel_scan(range, Seq(), sc, rj, tbb::auto_partitioner()); else res = tbb::parallel_scan(range, Seq(), sc, rj);
    }
    for (int i = 0; i < g_N; i++) if (g_final_cnt[i] != 1) vs_violation("SCAN-FINAL-MISSING", "parallel_scan returned but index %d had %d final passes", g_B + i, g_final_cnt[i]);
    check_seq(res, "parallel_scan return value");
    n_ops++;
    if (g_scan_pre > 0 && g_scan_other) { n_nt_ops++; g_flags.insert("scan_prepass_after_steal"); }
    g_flags.insert(std::string("scan_") + (body ? "body_" : "fn_") + PARTS[part]); if (g_nest) g_flags.insert("nested_wait_in_body");
    g_nest = 0;
}

// ------------------------------------------------------------------ sort
struct Elem { long key; int id; };
static int g_cw = 0;
static inline void cmp_tick() { n_cmp++; if (vs_self() != g_caller) n_cmp_other++; if (g_cw && n_cmp % g_cw == 0) vs_work(1); }
static bool operator<(const Elem& a, const Elem& b) { cmp_tick(); return a.key < b.key; }
struct CmpLt { bool operator()(const Elem& a, const Elem& b) const { cmp_tick(); return a.key < b.key; } };
struct CmpGt { bool operator()(const Elem& a, const Elem& b) const { cmp_tick(); return a.key > b.key; } };
struct CmpMod { long m; bool operator()(const Elem& a, const Elem& b) const { cmp_tick(); return a.key % m < b.key % m; } };
template <class C> static void judge_sort(const std::vector<Elem>& a, const std::vector<Elem>& orig, const C& lessf, const std::string& l) {
    size_t n = orig.size();
    if (a.size() != n) vs_violation("SORT-NOT-PERMUTATION", "size changed");
    std::vector<char> seen(n, 0);
    for (size_t i = 0; i < n; i++) {
        int id = a[i].id;
        if (id < 0 || (size_t)id >= n || seen[id]++) vs_violation("SORT-NOT-PERMUTATION", "record id %d at position %zu is duplicated / not from the input (%s)", id, i, l.c_str());
        if (a[i].key != orig[id].key) vs_violation("SORT-NOT-PERMUTATION", "record id %d at position %zu has key %ld, the input had %ld", id, i, a[i].key, orig[id].key);
    }
    for (size_t i = 0; i + 1 < n; i++) if (lessf(a[i + 1], a[i])) vs_violation("SORT-NOT-SORTED", "after parallel_sort: element %zu (key %ld, id %d) must come before element %zu (key %ld, id %d) (%s)", i + 1, a[i + 1].key, a[i + 1].id, i, a[i].key, a[i].id, l.c_str());
}
static void op_sort(const std::string& l) {
    long n = kvl(l, "n", 0), p = kvl(l, "p", 0), R = kvl(l, "ranks", 1), m = kvl(l, "mod", 1); std::string kind = kvs(l, "kind", "rand"), cmp = kvs(l, "cmp", "lt"), it = kvs(l, "it", "vec");
    uint64_t rng = (uint64_t)kvl(l, "seed", 1) * 0x9E3779B97F4A7C15ull + 12345; auto rnd = [&]() { rng ^= rng << 13; rng ^= rng >> 7; rng ^= rng << 17; return rng >> 11; };
    g_cw = (int)kvl(l, "cw", 0);
    if (n < 0 || n > 20000 || R < 1 || m < 1 || (cmp == "mod" && R > m)) vs_inconclusive("BAD-CASE", "sort");
    std::vector<long> rank((size_t)n);
    for (long i = 0; i < n; i++) rank[i] = (kind == "rand" || kind == "few") ? (long)(rnd() % (uint64_t)R) : (i * R) / n;
    if (kind == "reverse") std::reverse(rank.begin(), rank.end());
    if (kind == "inv" && p >= 0 && p + 1 < n) std::swap(rank[p], rank[p + 1]);
    std::vector<Elem> a((size_t)n);
    for (long i = 0; i < n; i++) { long k = rank[i]; if (cmp == "gt") k = -k; else if (cmp == "mod") k = k + m * (long)(rnd() % 5); a[i] = Elem{ k, (int)i }; }
    // shuffle the ids so that (key,id) order is unrelated to the position
    for (long i = n - 1; i > 0; i--) { long j = (long)(rnd() % (uint64_t)(i + 1)); std::swap(a[i].id, a[j].id); }
    std::vector<Elem> orig((size_t)n); for (auto& e : a) orig[e.id] = e;
    bool presorted = true;
    g_caller = vs_self(); long c0 = n_cmp_other;
    if (cmp == "lt") { CmpLt c; for (long i = 0; i + 1 < n; i++) if (a[i + 1].key < a[i].key) presorted = false; if (it == "ptr") tbb::parallel_sort(a.data(), a.data() + n, c); else tbb::parallel_sort(a.begin(), a.end(), c); judge_sort(a, orig, [](const Elem& x, const Elem& y) { return x.key < y.key; }, l); }
    else if (cmp == "gt") { CmpGt c; for (long i = 0; i + 1 < n; i++) if (a[i + 1].key > a[i].key) presorted = false; tbb::parallel_sort(a.begin(), a.end(), c); judge_sort(a, orig, [](const Elem& x, const Elem& y) { return x.key > y.key; }, l); }
    else if (cmp == "mod") { CmpMod c{ m }; for (long i = 0; i + 1 < n; i++) if (a[i + 1].key % m < a[i].key % m) presorted = false; if (it == "rng") tbb::parallel_sort(a, c); else tbb::parallel_sort(a.begin(), a.end(), c); judge_sort(a, orig, [m](const Elem& x, const Elem& y) { return x.key % m < y.key % m; }, l); }
    else if (cmp == "default") { for (long i = 0; i + 1 < n; i++) if (a[i + 1].key < a[i].key) presorted = false; tbb::parallel_sort(a.begin(), a.end()); judge_sort(a, orig, [](const Elem& x, const Elem& y) { return x.key < y.key; }, l); }
    else vs_inconclusive("BAD-CASE", "cmp");
    n_ops++;
    if (n >= 500) { n_nt_ops++; g_flags.insert("sort_parallel_path"); if (presorted) g_flags.insert("sort_presorted_input"); if (kind == "inv") g_flags.insert(p <= 9 ? "sort_one_inversion_in_serial_probe" : "sort_one_inversion_in_parallel_probe"); }
    else g_flags.insert("sort_serial_path");
    if (n >= 498 && n <= 502) g_flags.insert("sort_size_at_cutoff");
    if (n_cmp_other > c0) g_flags.insert("sort_cmp_on_other_thread");
    g_flags.insert("sort_cmp_" + cmp);
}

void h_run(Case& c) {
    int par = 2, mc = 2; std::vector<std::string> ops;
    for (auto& l : c.lines) { auto w = split_ws(l); if (w.empty()) continue; if (w[0] == "cfg") { par = (int)kvl(l, "par", 2); mc = (int)kvl(l, "mc", 2); } else ops.push_back(l); }
    if (par < 1 || par > 8 || mc < 1 || mc > 8) vs_inconclusive("BAD-CASE", "cfg");
    vs_begin(c.sched.c_str());
    {
        tbb::global_control gc(tbb::global_control::max_allowed_parallelism, (size_t)par);
        tbb::task_arena arena(mc); tbb::task_arena helper(1, 0); g_helper = &helper;
#if TBB_USE_ASSERT
        // known finding C16 (market::update_allotment asserts `assigned == max_workers` with max_allowed_parallelism 1, an arena whose slot is held by the
        // external thread and a mandatory request elsewhere): the assertion-enabled leg does not enqueue into the helper arena under a limit of 1 (counted)
        if (par == 1) { g_helper = nullptr; if (g_nest) vs_stat_add("n_excluded", 1); }
#endif
        arena.execute([&] {
            for (auto& l : ops) {
                std::string k = split_ws(l)[0];
                if (k == "reduce") op_reduce(l); else if (k == "dreduce") op_dreduce(l, mc); else if (k == "scan") op_scan(l); else if (k == "sort") op_sort(l);
                else vs_inconclusive("BAD-CASE", "unknown op");
            }
        });
    }
    g_helper = nullptr;
    vs_end();
    vs_stat_add("n_nested_waits", n_nested); vs_stat_add("n_ops", n_ops); vs_stat_add("n_body_calls", n_body_calls); vs_stat_add("n_body_other", n_body_other); vs_stat_add("n_splits", n_splits); vs_stat_add("n_splits_other", n_splits_other);
    vs_stat_add("n_joins", n_joins); vs_stat_add("n_prescan", n_prescan); vs_stat_add("n_finalscan", n_final); vs_stat_add("n_cmp", n_cmp); vs_stat_add("n_cmp_other", n_cmp_other);
    for (auto& f : g_flags) vs_stat_flag(f.c_str());
    vs_stat_add("nt", n_nt_ops > 0 ? 1 : 0);
    vs_ok();
}

int main(int argc, char** argv) { return drv_main(argc, argv); }
