// C08 -- mutexes: mutual exclusion, reader/writer rules, truthful upgrade, try never blocks,
// FIFO for queuing types, no lost hand-off.   See DESIGN.md s.6 C08.
//
// program:   mutex <type> threads=<n> native=<0|1> ctor=<0|1 scoped_lock(m, write) constructor / destructor instead of acquire / release>
//            t <i> <op> <op> ...
// ops: A acquire-writer  a acquire-reader  T try-writer  t try-reader  (suffix ! = run the try solo)
//      U upgrade  D downgrade  R release  W<k> work k points  S (holding a read lock) wait until a second reader is inside
#include "oneapi/tbb/spin_mutex.h"
#include "oneapi/tbb/spin_rw_mutex.h"
#include "oneapi/tbb/queuing_mutex.h"
#include "oneapi/tbb/queuing_rw_mutex.h"
#include "oneapi/tbb/mutex.h"
#include "oneapi/tbb/rw_mutex.h"
#include <memory>
#include "../engine/drv/drv.h"

const char* H_PROP = "C08";
bool H_TSO = true;

static const char* TYPES[] = { "spin_mutex", "spin_rw_mutex", "queuing_mutex", "queuing_rw_mutex", "mutex", "rw_mutex", "speculative_spin_mutex", "speculative_spin_rw_mutex" };
static bool is_rw(int t) { return t == 1 || t == 3 || t == 5 || t == 7; }
static bool has_native(int t) { return t == 0 || t == 1 || t == 4 || t == 5; }

// ------------------------------------------------------------------ generator
std::string h_gen(Src& s) {
    if (drv_flag("--dgshare")) {
        // directed: a writer downgrades and, still holding the read lock, waits until another reader is inside with it.  Only readers are waiting, so every
        // reader-writer mutex has to admit them at the downgrade (a sleeping reader must be woken by it, not by the later release).
        static const int RW[] = { 5, 5, 5, 1, 3, 7 }; int ty = RW[s.choose(6)]; int nt = s.range(2, 3);
        std::string o = std::string("mutex ") + TYPES[ty] + " threads=" + std::to_string(nt) + " native=0 ctor=" + (s.coin(3) ? "1" : "0") + "\n";
        o += "t 0 A W" + std::to_string(s.range(1, 40)) + " D S W" + std::to_string(s.range(0, 3)) + " R\n";
        for (int t = 1; t < nt; t++) o += "t " + std::to_string(t) + " W" + std::to_string(s.range(0, 12)) + " a W" + std::to_string(s.range(0, 4)) + " R\n";
        return o;
    }
    int ty = (int)s.choose(8); if (drv_flag("--sleepy")) ty = s.flip() ? 4 : 5;   // tbb::mutex / tbb::rw_mutex: the types that put waiters to sleep
    int nt = s.range(2, 4); bool rw = is_rw(ty);
    bool native = has_native(ty) && s.flip();
    std::string o = std::string("mutex ") + TYPES[ty] + " threads=" + std::to_string(nt) + " native=" + (native ? "1" : "0") + " ctor=" + ((!native && s.coin(3)) ? "1" : "0") + "\n";
    for (int t = 0; t < nt; t++) {
        o += "t " + std::to_string(t);
        int nops = s.range(1, 6); int hold = 0;   // 0 none 1 reader 2 writer
        for (int k = 0; k < nops; k++) {
            if (hold == 0) {
                uint32_t c = rw ? s.weighted({ 4, 4, 2, 2, 2 }) : s.weighted({ 6, 0, 3, 0, 2 });
                if (c == 4) { o += " W" + std::to_string(s.range(1, 6)); continue; }
                bool solo = (c >= 2) && s.coin(3);
                static const char* nm[] = { "A", "a", "T", "t" };
                o += std::string(" ") + nm[c] + (solo ? "!" : "");
                // the generator does not know whether a try succeeds: the interpreter tracks it; a
                // following op that needs a held lock is skipped when the try failed
                hold = (c == 0 || c == 2) ? 2 : 1;
                o += " W" + std::to_string(s.range(0, 4));
            } else {
                uint32_t c = (rw && !native) ? s.weighted({ 5, hold == 1 ? 3u : 0u, hold == 2 ? 2u : 0u, 2 }) : s.weighted({ 5, 0, 0, 2 });
                if (c == 0) { o += " R"; hold = 0; }
                else if (c == 1) { o += " U W" + std::to_string(s.range(0, 3)); hold = 2; }
                else if (c == 2) { o += " D W" + std::to_string(s.range(0, 3)); hold = 1; }
                else o += " W" + std::to_string(s.range(1, 5));
            }
        }
        if (hold) o += " R";
        o += "\n";
    }
    return o;
}

// ------------------------------------------------------------------ interpreter + oracle
static int g_writers = 0, g_readers = 0; static long g_epoch = 0;
static long n_waited = 0, n_overlap = 0, n_upg_true = 0, n_upg_false = 0, n_try_fail = 0, n_conc_upg = 0, n_solo = 0;
static int g_inside_acquire = 0, g_upgrading = 0; static bool g_fifo_ok = true;
struct Req { int tid; bool write; uint64_t inv, q, grant; };
static std::vector<Req> g_reqs;
static int g_type; static bool g_native; static int g_has_updown = 0; static bool g_ctor = false; static long n_isw = 0, n_share_waits = 0; static int g_done_threads = 0, g_nthreads = 2;
static std::vector<std::vector<std::string>> g_ops;

static void enter(bool write, const char* how) {
    if (write) { if (g_writers != 0 || g_readers != 0) vs_violation("MUTEX-EXCLUSION", "writer entered (%s) while writers=%d readers=%d type=%s", how, g_writers, g_readers, TYPES[g_type]); g_writers++; g_epoch++; }
    else { if (g_writers != 0) vs_violation("MUTEX-EXCLUSION", "reader entered (%s) while writers=%d type=%s", how, g_writers, TYPES[g_type]); g_readers++; }
}
static void check_inside(bool write) {
    if (write) { if (g_writers != 1 || g_readers != 0) vs_violation("MUTEX-EXCLUSION", "inside writer section: writers=%d readers=%d type=%s", g_writers, g_readers, TYPES[g_type]); }
    else { if (g_writers != 0 || g_readers < 1) vs_violation("MUTEX-EXCLUSION", "inside reader section: writers=%d readers=%d type=%s", g_writers, g_readers, TYPES[g_type]); }
}
static void leave(bool write) { check_inside(write); if (write) g_writers--; else g_readers--; }

template <class M> struct Ops {      // scoped_lock based.  cfg ctor=1: every acquisition constructs a fresh scoped_lock with the acquiring constructor, release = its destructor
    typedef typename M::scoped_lock SL;
    M& m; std::unique_ptr<SL> p;
    explicit Ops(M& mm) : m(mm) { if (!g_ctor) p.reset(new SL()); }
    template <class X = M> auto mk(bool w, int) -> decltype(new typename X::scoped_lock(std::declval<X&>(), true)) { return new SL(m, w); }
    template <class X = M> SL* mk(bool, long) { return new SL(m); }
    template <class X = M> auto acq1(bool w, int) -> decltype(std::declval<typename X::scoped_lock&>().acquire(std::declval<X&>(), true)) { p->acquire(m, w); }
    template <class X = M> void acq1(bool, long) { p->acquire(m); }
    void acq(bool w, int) { if (g_ctor) p.reset(mk(w, 0)); else acq1(w, 0); isw(w, "acquire", 0); }
    template <class X = M> auto tryacq1(bool w, int) -> decltype(std::declval<typename X::scoped_lock&>().try_acquire(std::declval<X&>(), true)) { return p->try_acquire(m, w); }
    template <class X = M> bool tryacq1(bool, long) { return p->try_acquire(m); }
    bool tryacq(bool w, int) { if (g_ctor) p.reset(new SL()); bool ok = tryacq1(w, 0); if (ok) isw(w, "try_acquire", 0); else if (g_ctor) p.reset(); return ok; }
    template <class X = M> auto up(int) -> decltype(std::declval<typename X::scoped_lock&>().upgrade_to_writer()) { bool r = p->upgrade_to_writer(); isw(true, "upgrade_to_writer", 0); return r; }
    template <class X = M> bool up(long) { return true; }
    template <class X = M> auto down(int) -> decltype(std::declval<typename X::scoped_lock&>().downgrade_to_reader()) { auto r = p->downgrade_to_reader(); isw(false, "downgrade_to_reader", 0); return r; }
    template <class X = M> bool down(long) { return true; }
    // scoped_lock::is_writer() (reader-writer types that have it) tells the mode the lock is held in
    template <class X = M> auto isw(bool w, const char* after, int) -> decltype(std::declval<typename X::scoped_lock&>().is_writer(), void()) {
        n_isw++; if (p->is_writer() != w) vs_violation("IS-WRITER-LIE", "scoped_lock::is_writer() is %d after %s, the lock is held as a %s, type=%s", (int)p->is_writer(), after, w ? "writer" : "reader", TYPES[g_type]); }
    template <class X = M> void isw(bool, const char*, long) {}
    void rel(bool) { if (g_ctor) p.reset(); else p->release(); }
};
template <class M> struct NatOps {   // native lock()/unlock() API
    M& m; explicit NatOps(M& mm) : m(mm) {}
    template <class X = M> auto acq(bool w, int) -> decltype(std::declval<X&>().lock_shared()) { if (w) m.lock(); else m.lock_shared(); }
    template <class X = M> void acq(bool, long) { m.lock(); }
    template <class X = M> auto tryacq(bool w, int) -> decltype(std::declval<X&>().try_lock_shared()) { return w ? m.try_lock() : m.try_lock_shared(); }
    template <class X = M> bool tryacq(bool, long) { return m.try_lock(); }
    template <class X = M> auto up(int) -> decltype(std::declval<X&>().upgrade()) { return m.upgrade(); }
    template <class X = M> bool up(long) { return true; }
    template <class X = M> auto down(int) -> decltype(std::declval<X&>().downgrade(), true) { m.downgrade(); return true; }
    template <class X = M> bool down(long) { return true; }
    template <class X = M> auto rel(bool w) -> decltype(std::declval<X&>().unlock_shared()) { if (w) m.unlock(); else m.unlock_shared(); }
    template <class X = M> void rel(...) { m.unlock(); }
};

template <class O> static void run_thread(O& o, int tid) {
    int hold = 0; long e0 = 0; bool fifo_type = (g_type == 2 || g_type == 3);
    for (auto& op : g_ops[tid]) {
        char c = op[0]; bool solo = op.size() > 1 && op[1] == '!';
        if (c == 'W') { int k = atoi(op.c_str() + 1); if (hold) check_inside(hold == 2); vs_work(k); if (hold) check_inside(hold == 2); continue; }
        if (c == 'A' || c == 'a') {
            if (hold) continue;
            bool w = (c == 'A');
            Req r{ tid, w, vs_now(), 0, 0 };
            if (g_writers + g_readers > 0) n_overlap++;
            vs_first_yield_reset(); g_inside_acquire++;
            o.acq(w, 0);
            g_inside_acquire--;
            r.q = vs_first_yield(); r.grant = vs_now(); if (r.q) n_waited++;
            enter(w, "acquire"); hold = w ? 2 : 1; e0 = g_epoch;
            if (fifo_type) g_reqs.push_back(r);
        } else if (c == 'T' || c == 't') {
            if (hold) continue;
            bool w = (c == 'T'); bool ok;
            if (solo) { n_solo++; vs_solo_begin(10000); ok = o.tryacq(w, 0); if (vs_solo_end()) vs_violation("TRY-BLOCKED", "try_%s did not return on its own within 10000 points type=%s", w ? "lock" : "lock_shared", TYPES[g_type]); }
            else ok = o.tryacq(w, 0);
            if (ok) { enter(w, "try"); hold = w ? 2 : 1; e0 = g_epoch; } else n_try_fail++;
        } else if (c == 'U') {
            if (hold != 1 || g_native) continue;   // upgrade/downgrade exist on scoped_lock only
            check_inside(false); g_readers--;           // from here on this thread may legally lose the lock inside upgrade
            if (g_upgrading) n_conc_upg++;
            g_upgrading++; bool ok = o.up(0); g_upgrading--;
            if (g_writers != 0 || g_readers != 0) vs_violation("MUTEX-EXCLUSION", "upgrade returned while writers=%d readers=%d type=%s", g_writers, g_readers, TYPES[g_type]);
            if (ok && g_epoch != e0) vs_violation("UPGRADE-LIE", "upgrade returned true although %ld writer section(s) ran since the read lock was taken type=%s", g_epoch - e0, TYPES[g_type]);
            if (ok) n_upg_true++; else n_upg_false++;
            g_writers++; g_epoch++; hold = 2; e0 = g_epoch;
        } else if (c == 'D') {
            if (hold != 2 || g_native) continue;
            check_inside(true); g_writers--; g_readers++;   // readers may join from the moment downgrade starts
            o.down(0); hold = 1; e0 = g_epoch;
            check_inside(false);
        } else if (c == 'S') {
            // holding a read lock: wait until another reader shares it (or nobody else is left who could)
            if (hold != 1) continue;
            n_share_waits++;
            vs_block_until([] { return g_readers >= 2 || g_done_threads >= g_nthreads - 1; });
            check_inside(false);
        } else if (c == 'R') {
            if (!hold) continue;
            leave(hold == 2); o.rel(hold == 2); hold = 0;
        }
    }
    if (hold) { leave(hold == 2); o.rel(hold == 2); }
    g_done_threads++;
}

template <class M> struct Ctx { M m; };
template <class M, bool NAT> static void thread_body(void* p) {
    auto* a = (std::pair<Ctx<M>*, int>*)p;
    if constexpr (NAT) { if (g_native) { NatOps<M> o(a->first->m); run_thread(o, a->second); return; } }
    Ops<M> o(a->first->m); run_thread(o, a->second);
}
template <class M, bool NAT = true> static void run_all(int nt) {
    static Ctx<M> ctx; std::vector<std::pair<Ctx<M>*, int>> args; args.reserve(8); std::vector<int> ids;
    for (int t = 0; t < nt; t++) args.push_back({ &ctx, t });
    for (int t = 1; t < nt; t++) ids.push_back(vs_thread_start(thread_body<M, NAT>, &args[t]));
    thread_body<M, NAT>(&args[0]);
    for (int id : ids) vs_thread_join(id);
}
template <class M> static void run_all_scoped_only(int nt) { g_native = false; run_all<M, false>(nt); }

void h_run(Case& c) {
    int nt = 2; std::string ty;
    for (auto& l : c.lines) {
        auto w = split_ws(l);
        if (w[0] == "mutex") { ty = w[1]; nt = (int)kvl(l, "threads", 2); g_nthreads = nt; g_native = kvl(l, "native", 0) != 0; g_ctor = kvl(l, "ctor", 0) != 0; }
        else if (w[0] == "t") { int t = atoi(w[1].c_str()); if ((int)g_ops.size() <= t) g_ops.resize(t + 1); g_ops[t].assign(w.begin() + 2, w.end()); }
    }
    g_ops.resize(nt);
    g_type = -1; for (int i = 0; i < 8; i++) if (ty == TYPES[i]) g_type = i;
    if (g_type < 0) vs_inconclusive("BAD-CASE", "unknown mutex type");
    vs_begin(c.sched.c_str());
    switch (g_type) {
    case 0: run_all<tbb::spin_mutex>(nt); break;
    case 1: run_all<tbb::spin_rw_mutex>(nt); break;
    case 2: run_all_scoped_only<tbb::queuing_mutex>(nt); break;
    case 3: run_all_scoped_only<tbb::queuing_rw_mutex>(nt); break;
    case 4: run_all<tbb::mutex>(nt); break;
    case 5: run_all<tbb::rw_mutex>(nt); break;
    case 6: run_all_scoped_only<tbb::speculative_spin_mutex>(nt); break;
    case 7: run_all_scoped_only<tbb::speculative_spin_rw_mutex>(nt); break;
    }
    vs_end();
    if (g_writers || g_readers) vs_violation("MUTEX-EXCLUSION", "bookkeeping not balanced at end writers=%d readers=%d", g_writers, g_readers);
    // FIFO (queuing types, scenarios without upgrade/downgrade): a request that was already queued
    // (had reached a wait inside acquire) before a conflicting request was invoked is granted first.
    bool updown = false; for (auto& t : g_ops) for (auto& op : t) if (op[0] == 'U' || op[0] == 'D') updown = true;
    long fifo_pairs = 0;
    if (!updown) for (auto& a : g_reqs) for (auto& b : g_reqs) {
        if (&a == &b || !(a.write || b.write)) continue;
        if (a.q && a.q < b.inv) { fifo_pairs++; if (!(a.grant < b.grant)) vs_violation("FIFO-ORDER", "request of t%d (%s, queued at %lu) was overtaken by later request of t%d (%s, invoked at %lu): grants %lu vs %lu type=%s", a.tid, a.write ? "W" : "R", (unsigned long)a.q, b.tid, b.write ? "W" : "R", (unsigned long)b.inv, (unsigned long)a.grant, (unsigned long)b.grant, TYPES[g_type]); }
    }
    vs_stat_add("n_waited", n_waited); vs_stat_add("n_overlap", n_overlap); vs_stat_add("n_upg_true", n_upg_true); vs_stat_add("n_upg_false", n_upg_false);
    vs_stat_add("n_tryfail", n_try_fail); vs_stat_add("n_fifo_pairs", fifo_pairs); vs_stat_add("n_solo", n_solo);
    if (n_conc_upg) vs_stat_flag("concurrent_upgrade");
    if (fifo_pairs) vs_stat_flag("fifo_pair");
    if (n_upg_false) vs_stat_flag("upgrade_false");
    if (n_try_fail) vs_stat_flag("try_failed"); if (n_share_waits) vs_stat_flag("downgraded_holder_waits_for_a_second_reader"); if (g_ctor) vs_stat_flag("scoped_lock_constructor_form"); if (n_isw) vs_stat_flag("is_writer_checked");
    vs_stat_flag(TYPES[g_type]);
    vs_stat_add("nt", (n_overlap > 0 && n_waited > 0) ? 1 : 0);
    vs_ok();
}

int main(int argc, char** argv) { return drv_main(argc, argv); }
