// C15 -- buffering / ordering / joining / limiting flow-graph nodes keep their contracts.   DESIGN.md s.6 C15.
// One node under test (NUT) between generated feeders and generated sinks, plus direct try_get/try_reserve/try_release/try_consume calls.
//
// program text:
//   nut <kind> par=<1..4> sink=<0 queueing serial|1 rejecting serial|2 none|3 lightweight unlimited> swork=<k> via=<0 direct|1 serial feeder node|2 unlimited feeder node|3 queue_node in front (lim)|4 queue_node in front and direct puts on port 1 (lim)>
//       thr=<t> fb=<0|1> nsink=<n> witness=<0|1>
//       kinds: q buf pq seq (buffers)   jq jk jr (join queueing / key_matching / reserving behind two queue_nodes)   lim   ow wo   bc   split idx
//   t <thread> <op> ...
//       P<port>:<id>:<aux>  try_put item <id> to input port <port> (aux = sequence number / priority / key)
//       G<port>  try_get (buffers, ow/wo; jr: from queue <port>)      R try_reserve   L try_release   C try_consume (only executed when this thread holds the reservation)
//       D  decrement (limiter)      E  attach the late successor (ow/wo)      W<k> work
// Thread 0 finally joins the others, calls wait_for_all and judges.
#include "oneapi/tbb/flow_graph.h"
#include "oneapi/tbb/global_control.h"
#include "../engine/drv/drv.h"

const char* H_PROP = "C15";
bool H_TSO = true;

enum Kind { N_Q, N_BUF, N_PQ, N_SEQ, N_JQ, N_JK, N_JR, N_LIM, N_OW, N_WO, N_BC, N_SPLIT, N_IDX, N_KINDS };
static const char* KN[N_KINDS] = { "q", "buf", "pq", "seq", "jq", "jk", "jr", "lim", "ow", "wo", "bc", "split", "idx" };
static bool buflike(int k) { return k <= N_SEQ; }
static bool joinlike(int k) { return k == N_JQ || k == N_JK || k == N_JR; }

// ------------------------------------------------------------------ generator
struct GOp { char c; int port = 0, id = 0, aux = 0, k = 0; };
std::string h_gen(Src& s) {
    bool witness = drv_flag("--witness");
    static const uint32_t W[N_KINDS] = { 5, 4, 4, 4, 4, 4, 4, 5, 2, 2, 1, 1, 1 };
    bool limmix = drv_flag("--limmix");      // focused: limiter<Msg,int> fed through a queue AND directly, slow lightweight successor, decrements of 0..3
    int kind = witness ? N_BUF : limmix ? N_LIM : (int)s.weighted({ W[0], W[1], W[2], W[3], W[4], W[5], W[6], W[7], W[8], W[9], W[10], W[11], W[12] });
    int par = s.range(1, 4); if (par < 2 && s.flip()) par = 2;
    int nthr = 1 + (int)s.weighted({ 3, 5, 2 }); if (witness && nthr < 2) nthr = 2;
    int sink = (int)s.weighted({ 3, 5, 1 }), swork = s.range(0, 6), via = (int)s.weighted({ 5, 2, 2 }), thr = s.range(1, 4), fb = 0, nsink = 2; bool idec = false;   // idec: limiter_node<Msg, int> with integral decrements of 1..3
    bool use_res = false, use_get = true, excl = false;
    if (buflike(kind)) {
        use_res = s.choose(3) != 0; use_get = s.choose(4) != 0;
        if (kind == N_BUF && !witness && use_res) {          // known defect domain: buffer_node::try_get (also the pull of a rejecting successor) ignores a reservation
            excl = use_get || sink == 1; use_get = false; if (sink == 1) sink = 0;
        }
        if (witness) { use_res = true; use_get = true; }
        sink = witness ? (int)s.weighted({ 0, 2, 5 }) : (int)s.weighted({ 2, 4, 3 }); if (sink == 1) swork = s.range(4, 24);
        if (kind == N_BUF && !witness && use_res && sink == 1) { sink = 0; excl = true; }
    } else if (joinlike(kind)) { if (sink == 2) sink = 1; if (kind == N_JR) via = 0; if (sink == 1) swork = s.range(3, 20); }
    else if (kind == N_LIM) { fb = s.choose(3) == 0; idec = !fb && s.coin(2); via = (int)s.weighted({ 3, 0, 0, 4, idec ? 3u : 0u }); /* via=3: queue_node predecessor; via=4: the queue AND direct puts to the limiter (port 1) */ sink = (int)s.weighted({ 3, via >= 3 ? 0u : 2u, 0, 3 }); if (sink == 1) swork = s.range(3, 15); if (limmix) { fb = 0; idec = true; via = 4; thr = s.range(1, 2); } if (via == 4) { sink = 3; swork = s.range(4, 20); } }
    else if (kind == N_OW || kind == N_WO) { sink = 0; }
    else if (kind == N_BC) { sink = s.flip() ? 0 : 3; nsink = s.range(2, 3); via = via == 2 ? 0 : via; }
    else { sink = 0; }
    std::vector<std::vector<GOp>> th(nthr); int nid = 0;
    bool attach_done = !(kind == N_OW || kind == N_WO);
    for (int t = 0; t < nthr; t++) {
        int nops = s.range(1, 8); bool holding = false;
        for (int q = 0; q < nops; q++) {
            GOp op; op.c = 'W';
            if (holding) { uint32_t c = s.weighted({ 2, 2, 3 }); if (c == 2) { op.c = 'W'; op.k = s.range(1, 6); } else { op.c = c == 0 ? 'L' : 'C'; holding = false; } th[t].push_back(op); continue; }
            // weights: put, get, reserve, decrement, attach, work
            uint32_t wp = 8, wg = 0, wr = 0, wd = 0, we = 0, ww = 2;
            if (buflike(kind)) { wg = use_get ? 3 : 0; wr = use_res ? 3 : 0; if (witness) { wp = 5; wg = 5; wr = 4; } }
            if (kind == N_JR) wg = 2;
            if (kind == N_LIM) wd = 4;
            if (kind == N_OW || kind == N_WO) { wg = 2; we = attach_done ? 0 : 3; }
            uint32_t c = (q == 0 && t == 0) ? 0 : s.weighted({ wp, wg, wr, wd, we, ww });
            if (c == 0) {
                if (nid >= 30) continue;
                op.c = 'P'; op.id = nid++; op.port = (joinlike(kind) || kind == N_IDX || (kind == N_LIM && via == 4)) ? (int)s.choose(2) : 0;
                if (kind == N_SEQ) op.aux = 0;      // assigned below
                else if (kind == N_PQ) op.aux = (int)s.choose(4);
                else if (kind == N_JK) op.aux = (int)s.choose(3);
            } else if (c == 1) { op.c = 'G'; op.port = kind == N_JR ? (int)s.choose(2) : 0; }
            else if (c == 2) { op.c = 'R'; holding = true; }
            else if (c == 3) { op.c = 'D'; op.k = idec ? (s.coin(limmix ? 2 : 4) ? 0 : s.range(1, 3)) : 1; }      // a decrement of 0 changes nothing but still makes the limiter look at its predecessors
            else if (c == 4) { op.c = 'E'; attach_done = true; }
            else { op.c = 'W'; op.k = s.range(1, 6); }
            th[t].push_back(op);
        }
        if (holding) { GOp op; op.c = s.flip() ? 'C' : 'L'; th[t].push_back(op); }
    }
    if (kind == N_SEQ) {     // mostly a permutation of 0..n-1, sometimes a duplicate or a stale (small) number instead
        std::vector<GOp*> ps; for (auto& t : th) for (auto& op : t) if (op.c == 'P') ps.push_back(&op);
        std::vector<int> nums; for (size_t q = 0; q < ps.size(); q++) nums.push_back((int)q);
        for (auto* op : ps) {
            if (s.coin(6)) { op->aux = (int)s.choose((uint32_t)ps.size()); continue; }    // duplicate / stale / maybe leaves a gap
            uint32_t x = s.choose((uint32_t)nums.size()); op->aux = nums[x]; nums.erase(nums.begin() + x);
        }
    }
    char b[256];
    snprintf(b, sizeof b, "nut %s par=%d sink=%d swork=%d via=%d thr=%d fb=%d nsink=%d witness=%d excl=%d idec=%d\n", KN[kind], par, sink, swork, via, thr, fb, nsink, witness ? 1 : 0, excl ? 1 : 0, idec ? 1 : 0);
    std::string o = b;
    for (int t = 0; t < nthr; t++) {
        o += "t " + std::to_string(t);
        for (auto& op : th[t]) {
            if (op.c == 'P') o += " P" + std::to_string(op.port) + ":" + std::to_string(op.id) + ":" + std::to_string(op.aux);
            else if (op.c == 'G') o += " G" + std::to_string(op.port);
            else if (op.c == 'W') o += " W" + std::to_string(op.k);
            else if (op.c == 'D' && idec) o += " D" + std::to_string(op.k);
            else o += std::string(" ") + op.c;
        }
        o += "\n";
    }
    return o;
}

// ------------------------------------------------------------------ runtime
using namespace tbb::flow;
struct Msg { int id = -1; int aux = 0; };
typedef std::tuple<Msg, Msg> Msg2;
struct PriLess { bool operator()(const Msg& a, const Msg& b) const { return a.aux < b.aux; } };
struct SeqOf { size_t operator()(const Msg& m) const { return (size_t)m.aux; } };
struct KeyOf { int operator()(const Msg& m) const { return m.aux; } };
typedef indexer_node<Msg, Msg> IdxNode;

struct Item { int id = -1, port = 0, aux = 0, thread = -1, prod = -1; long pord = -1; uint64_t pinv = 0, presp = 0; bool done = false, ok = false; };
struct Exit { int id, id2, how /*0 sink 1 get 2 consume 3 drain*/, sink; uint64_t lo, hi; int thread; int tag; };
struct Call { char c; int thread; uint64_t inv, resp; bool ok; int id; int port; };
static std::vector<Item> IT; static std::vector<Exit> EX; static std::vector<Call> CL;
static int g_kind, g_sinkpol, g_swork, g_via, g_thr, g_fb, g_nsink, g_witness, g_excl;
static uint64_t g_sink_fin[4]; static int g_sink_live[4]; static long g_sink_n[4]; static uint64_t g_sink_lo[4]; static std::set<int> g_put_busy;
static long g_forwarded = 0, g_decs = 0;
static long n_nt_pull = 0, n_nt_overlap = 0, n_nt_opposite = 0, n_nt_dec = 0, n_replaced = 0, n_put_false = 0;
static graph* G;
static long g_prod_ctr[8];

static Item& item(int id) { if (id < 0 || id >= (int)IT.size()) vs_violation("PHANTOM-ITEM", "the node delivered an item with id %d that was never put", id); return IT[id]; }
// a sink body (serial unless lightweight-unlimited): the item left the NUT between the end of the previous body of this sink and now
static void sink_enter(int w, int id, int id2, int tag) {
    if (g_sinkpol != 3 && g_sink_live[w]++) vs_violation("SINK-CONCURRENCY", "serial sink %d runs two bodies at once", w);
    uint64_t now = vs_now(); uint64_t lo;
    if (g_sinkpol == 1) lo = g_sink_fin[w];                    // a serial rejecting sink cannot accept before its previous body ended
    else { lo = std::max(item(id).pinv, g_sink_lo[w]); g_sink_lo[w] = lo; }   // a queueing sink: any time after the put (its input queue is FIFO)
    if (g_sinkpol == 1 && g_put_busy.count(id)) n_nt_pull++;   // this item was put while the sink was busy: it was rejected or waited, then pulled / pushed again
    EX.push_back(Exit{ id, id2, 0, w, lo, now, vs_self(), tag }); g_sink_n[w]++;
    if (g_kind == N_LIM) { g_forwarded++; if (g_forwarded - g_decs > g_thr) vs_violation("LIMITER-THRESHOLD", "limiter threshold %d: %ld messages forwarded but only %ld decrements were invoked so far (item %d)", g_thr, g_forwarded, g_decs, id); }
    vs_work(g_swork);
}
static void sink_leave(int w) { if (g_kind == N_LIM && g_fb) g_decs++; g_sink_fin[w] = vs_now(); if (g_sinkpol != 3) g_sink_live[w]--; }
struct SinkB { int w; continue_msg operator()(const Msg& m) const noexcept { sink_enter(w, m.id, -1, m.aux); sink_leave(w); return continue_msg(); } };
struct SinkB2 { int w; continue_msg operator()(const Msg2& t) const noexcept { sink_enter(w, std::get<0>(t).id, std::get<1>(t).id, -1); sink_leave(w); return continue_msg(); } };
struct SinkBT { int w; continue_msg operator()(const IdxNode::output_type& t) const noexcept { const Msg& m = cast_to<Msg>(t); sink_enter(w, m.id, -1, (int)t.tag()); sink_leave(w); return continue_msg(); } };

struct SinkBase { virtual ~SinkBase() {} };
template <class In, class Body> struct SinkNode : SinkBase {
    function_node<In, continue_msg, queueing>* q = nullptr; function_node<In, continue_msg, rejecting>* r = nullptr; function_node<In, continue_msg, queueing_lightweight>* l = nullptr;
    SinkNode(int pol, int w) { if (pol == 1) r = new function_node<In, continue_msg, rejecting>(*G, 1, Body{ w }); else if (pol == 3) l = new function_node<In, continue_msg, queueing_lightweight>(*G, unlimited, Body{ w }); else q = new function_node<In, continue_msg, queueing>(*G, 1, Body{ w }); }
    receiver<In>& in() { return r ? (receiver<In>&)*r : l ? (receiver<In>&)*l : (receiver<In>&)*q; }
    sender<continue_msg>& out() { return r ? (sender<continue_msg>&)*r : l ? (sender<continue_msg>&)*l : (sender<continue_msg>&)*q; }
};

// the put itself, from a harness thread or from inside a feeder node body
static void do_put(receiver<Msg>* r, int id, int prod) {
    Item& it = IT[id]; it.thread = vs_self(); it.prod = prod; it.pord = g_prod_ctr[prod]++;
    Msg m{ id, it.aux };
    it.pinv = vs_now(); bool ok = r->try_put(m); it.presp = vs_now(); it.ok = ok; it.done = true;
    if (ok && g_sink_live[0] > 0) g_put_busy.insert(id);
    if (!ok) n_put_false++;
}
static receiver<Msg>* g_port[2];                                   // input ports of the NUT (or of its queue predecessors)
typedef multifunction_node<Msg, std::tuple<Msg>, queueing> FeederNode;
struct FeedB { int port; template <class P> void operator()(const Msg& m, P&) const { vs_work(1); do_put(g_port[port], m.id, g_via == 1 ? 4 + port : 6); } };
static FeederNode* g_feeder[2];
static sender<Msg>* g_sender[2];                                   // what G/R/L/C talk to (buffers; jr: the two queues; ow/wo)
static int g_idec = 0; static limiter_node<Msg, int>* g_limi = nullptr;     // idec=1: integral decrementer, a decrement may exceed the current count
static limiter_node<Msg>* g_lim; static overwrite_node<Msg>* g_ow; static SinkNode<Msg, SinkB>* g_late;
static void lim_dec(int k) { g_decs += k; if (g_limi) g_limi->decrementer().try_put(k); else g_lim->decrementer().try_put(continue_msg()); }
static receiver<Msg>* lim_recv() { return g_limi ? static_cast<receiver<Msg>*>(g_limi) : static_cast<receiver<Msg>*>(g_lim); }
static std::vector<std::vector<GOp>> T;

static void run_thread(int t) {
    int held = -1;
    for (auto& op : T[t]) {
        switch (op.c) {
        case 'W': vs_work(op.k); break;
        case 'P':
            if (g_via == 1 || g_via == 2) { Msg m{ op.id, IT[op.id].aux }; g_feeder[op.port]->try_put(m); }
            else do_put(g_port[op.port], op.id, t);
            break;
        case 'G': { Msg m; Call c{ 'G', t, vs_now(), 0, false, -1, op.port }; c.ok = g_sender[op.port]->try_get(m); c.resp = vs_now(); c.id = c.ok ? m.id : -1; CL.push_back(c);
            if (c.ok && g_kind != N_OW && g_kind != N_WO) { item(m.id); EX.push_back(Exit{ m.id, -1, 1, op.port, c.inv, c.resp, t, -1 }); } break; }
        case 'R': { Msg m; Call c{ 'R', t, vs_now(), 0, false, -1, 0 }; c.ok = g_sender[0]->try_reserve(m); c.resp = vs_now(); c.id = c.ok ? m.id : -1; CL.push_back(c); if (c.ok) { item(m.id); held = m.id; } break; }
        case 'L': case 'C': {
            if (held < 0) break;
            Call c{ op.c, t, vs_now(), 0, true, held, 0 }; if (op.c == 'L') g_sender[0]->try_release(); else g_sender[0]->try_consume(); c.resp = vs_now(); CL.push_back(c);
            if (op.c == 'C') { uint64_t rinv = 0, rresp = 0; for (auto& x : CL) if (x.c == 'R' && x.ok && x.id == held && x.thread == t) { rinv = x.inv; rresp = x.resp; } EX.push_back(Exit{ held, -1, 2, 0, rinv, rresp, t, -1 }); }
            held = -1; break; }
        case 'D': { Call c{ 'D', t, vs_now(), 0, true, -1, 0 }; lim_dec(g_limi ? op.k : 1); c.resp = vs_now(); CL.push_back(c); break; }
        case 'E': { Call c{ 'E', t, vs_now(), 0, true, -1, 0 }; make_edge(*g_ow, g_late->in()); c.resp = vs_now(); CL.push_back(c); break; }
        }
    }
}
static void ext_thread(void* p) { run_thread((int)(intptr_t)p); }
static bool overlap(uint64_t a0, uint64_t a1, uint64_t b0, uint64_t b1) { return a0 < b1 && b0 < a1; }

// judges, one per family (defined below)
static void judge_buflike(); static void judge_join(); static void judge_lim(); static void judge_ow(); static void judge_fanout();

void h_run(Case& c) {
    int par = 2;
    for (auto& l : c.lines) {
        auto w = split_ws(l); if (w.empty()) continue;
        if (w[0] == "nut") {
            for (int k = 0; k < N_KINDS; k++) if (w[1] == KN[k]) g_kind = k;
            par = (int)kvl(l, "par", 2); g_sinkpol = (int)kvl(l, "sink", 0); g_swork = (int)kvl(l, "swork", 0); g_via = (int)kvl(l, "via", 0); g_thr = (int)kvl(l, "thr", 1); g_fb = (int)kvl(l, "fb", 0); g_nsink = (int)kvl(l, "nsink", 2); g_witness = (int)kvl(l, "witness", 0); g_excl = (int)kvl(l, "excl", 0); g_idec = (int)kvl(l, "idec", 0);
        } else if (w[0] == "t") {
            int t = atoi(w[1].c_str()); if ((int)T.size() <= t) T.resize(t + 1);
            for (size_t i = 2; i < w.size(); i++) {
                GOp op; op.c = w[i][0];
                if (op.c == 'P') { sscanf(w[i].c_str() + 1, "%d:%d:%d", &op.port, &op.id, &op.aux); if ((int)IT.size() <= op.id) IT.resize(op.id + 1); IT[op.id].id = op.id; IT[op.id].port = op.port; IT[op.id].aux = op.aux; }
                else if (op.c == 'G') op.port = atoi(w[i].c_str() + 1);
                else if (op.c == 'W') op.k = atoi(w[i].c_str() + 1);
                else if (op.c == 'D') op.k = w[i].size() > 1 ? atoi(w[i].c_str() + 1) : 1;
                T[t].push_back(op);
            }
        }
    }
    if (T.empty()) T.resize(1);
    vs_begin(c.sched.c_str());
    new tbb::global_control(tbb::global_control::max_allowed_parallelism, (size_t)par);
    G = new graph;
    // ---- build
    switch (g_kind) {
    case N_Q: case N_BUF: case N_PQ: case N_SEQ: {
        buffer_node<Msg>* b = g_kind == N_Q ? new queue_node<Msg>(*G) : g_kind == N_PQ ? (buffer_node<Msg>*)new priority_queue_node<Msg, PriLess>(*G) : g_kind == N_SEQ ? (buffer_node<Msg>*)new sequencer_node<Msg>(*G, SeqOf()) : new buffer_node<Msg>(*G);
        g_port[0] = b; g_sender[0] = b;
        if (g_sinkpol != 2) { auto* s = new SinkNode<Msg, SinkB>(g_sinkpol, 0); make_edge(*b, s->in()); }
        break; }
    case N_JQ: { auto* j = new join_node<Msg2, queueing>(*G); g_port[0] = &input_port<0>(*j); g_port[1] = &input_port<1>(*j); auto* s = new SinkNode<Msg2, SinkB2>(g_sinkpol, 0); make_edge(*j, s->in()); break; }
    case N_JK: { auto* j = new join_node<Msg2, key_matching<int>>(*G, KeyOf(), KeyOf()); g_port[0] = &input_port<0>(*j); g_port[1] = &input_port<1>(*j); auto* s = new SinkNode<Msg2, SinkB2>(g_sinkpol, 0); make_edge(*j, s->in()); break; }
    case N_JR: {
        auto* q0 = new queue_node<Msg>(*G); auto* q1 = new queue_node<Msg>(*G); auto* j = new join_node<Msg2, reserving>(*G);
        make_edge(*q0, input_port<0>(*j)); make_edge(*q1, input_port<1>(*j)); g_port[0] = q0; g_port[1] = q1; g_sender[0] = q0; g_sender[1] = q1;
        auto* s = new SinkNode<Msg2, SinkB2>(g_sinkpol, 0); make_edge(*j, s->in()); break; }
    case N_LIM: {
        auto* s = new SinkNode<Msg, SinkB>(g_sinkpol, 0);
        if (g_idec) { g_limi = new limiter_node<Msg, int>(*G, (size_t)g_thr); make_edge(*g_limi, s->in()); }
        else { g_lim = new limiter_node<Msg>(*G, (size_t)g_thr); make_edge(*g_lim, s->in()); if (g_fb) make_edge(s->out(), g_lim->decrementer()); }
        if (g_via >= 3) { auto* q = new queue_node<Msg>(*G); if (g_limi) make_edge(*q, *g_limi); else make_edge(*q, *g_lim); g_port[0] = q; g_sender[0] = q; if (g_via == 4) g_port[1] = lim_recv(); } else g_port[0] = lim_recv();
        break; }
    case N_OW: case N_WO: {
        g_ow = g_kind == N_OW ? new overwrite_node<Msg>(*G) : new write_once_node<Msg>(*G); g_port[0] = g_ow; g_sender[0] = g_ow;
        auto* a = new SinkNode<Msg, SinkB>(0, 0); make_edge(*g_ow, a->in()); g_late = new SinkNode<Msg, SinkB>(0, 1); break; }
    case N_BC: { auto* b = new broadcast_node<Msg>(*G); g_port[0] = b; for (int i = 0; i < g_nsink; i++) { auto* s = new SinkNode<Msg, SinkB>(g_sinkpol, i); make_edge(*b, s->in()); } break; }
    case N_SPLIT: {
        auto* sp = new split_node<Msg2>(*G); auto* f = new function_node<Msg, Msg2, queueing>(*G, unlimited, [](const Msg& m) { return Msg2(Msg{ m.id, 0 }, Msg{ m.id, 1 }); });
        make_edge(*f, *sp); g_port[0] = f; for (int i = 0; i < 2; i++) { auto* s = new SinkNode<Msg, SinkB>(0, i); if (i == 0) make_edge(output_port<0>(*sp), s->in()); else make_edge(output_port<1>(*sp), s->in()); }
        break; }
    case N_IDX: { auto* ix = new IdxNode(*G); g_port[0] = &input_port<0>(*ix); g_port[1] = &input_port<1>(*ix); auto* s = new SinkNode<IdxNode::output_type, SinkBT>(0, 0); make_edge(*ix, s->in()); break; }
    }
    if (g_via == 1 || g_via == 2) for (int p = 0; p < 2; p++) g_feeder[p] = new FeederNode(*G, g_via == 1 ? 1 : unlimited, FeedB{ p });
    // ---- run
    std::vector<int> tids;
    for (size_t e = 1; e < T.size(); e++) tids.push_back(vs_thread_start(ext_thread, (void*)(intptr_t)e));
    run_thread(0);
    for (int t : tids) vs_thread_join(t);
    G->wait_for_all();
    for (int w = 0; w < 4; w++) if (g_sink_live[w] > 0 && g_sinkpol != 3) vs_violation("WAIT-NOT-IDLE", "wait_for_all returned while sink %d is running", w);
    for (auto& it : IT) if (it.id >= 0 && !it.done && (g_via == 1 || g_via == 2)) vs_violation("LOST-ITEM", "item %d given to the feeder node was never put (feeder body did not run)", it.id);
    if (buflike(g_kind)) judge_buflike(); else if (joinlike(g_kind)) judge_join(); else if (g_kind == N_LIM) judge_lim(); else if (g_kind == N_OW || g_kind == N_WO) judge_ow(); else judge_fanout();
    vs_end();
    vs_stat_add("n_excluded", g_excl); vs_stat_add("n_items", (long)IT.size()); vs_stat_add("n_exits", (long)EX.size()); vs_stat_add("n_calls", (long)CL.size()); vs_stat_add("n_put_false", n_put_false); { long ro = 0, go = 0; for (auto& c : CL) { if (c.c == 'R' && c.ok) ro++; if (c.c == 'G' && c.ok) go++; } vs_stat_add("n_reserve_ok", ro); vs_stat_add("n_get_ok", go); } vs_stat_add("n_kj_replaced", n_replaced);
    vs_stat_add("n_nt_pull", n_nt_pull); vs_stat_add("n_nt_overlap", n_nt_overlap); vs_stat_add("n_nt_opposite", n_nt_opposite); vs_stat_add("n_nt_dec", n_nt_dec);
    vs_stat_flag((std::string("k_") + KN[g_kind]).c_str());
    if (n_nt_pull) vs_stat_flag("reject_then_pull"); if (n_nt_overlap) vs_stat_flag("consumer_overlaps_put"); if (n_nt_opposite) vs_stat_flag("ports_raced"); if (n_nt_dec) vs_stat_flag("decrement_races_put");
    if (n_replaced) vs_stat_flag("key_duplicate_replaced");
    vs_stat_add("nt", (n_nt_pull + n_nt_overlap + n_nt_opposite + n_nt_dec) > 0 ? 1 : 0);
    vs_ok();
}

// ------------------------------------------------------------------ oracles
static int exit_index(const Exit& e) { return (int)(&e - &EX[0]); }
// x must have left the node before y: contradicted when y surely left first
static void must_precede(const Exit& x, const Exit& y, const char* kind, const char* why) {
    bool bad = y.hi < x.lo;
    if (!bad && x.how == 0 && y.how == 0 && x.sink == y.sink && g_sinkpol != 3 && exit_index(y) < exit_index(x)) bad = true;   // a serial sink preserves the order in which it accepted
    if (bad) vs_violation(kind, "%s: item %d (left in [%lu,%lu] via %d) must leave before item %d (left in [%lu,%lu] via %d)", why, x.id, (unsigned long)x.lo, (unsigned long)x.hi, x.how, y.id, (unsigned long)y.lo, (unsigned long)y.hi, y.how);
}
static void count_overlaps() {   // a consumer-side call overlapped a put of another thread
    for (auto& c : CL) for (auto& it : IT) if (it.done && it.thread != c.thread && overlap(c.inv, c.resp, it.pinv, it.presp)) { if (c.c == 'D') n_nt_dec++; else n_nt_overlap++; }
}
static void drain_into_exits(int port) {
    Msg m; int guard = 0;
    while (g_sender[port]->try_get(m)) { item(m.id); uint64_t t = vs_now(); EX.push_back(Exit{ m.id, -1, 3, port, t, t, vs_self(), -1 }); if (++guard > 100) vs_violation("DUP-ITEM", "try_get keeps returning items"); }
}
struct Hold { int id, thread; uint64_t rinv, rresp, einv, eresp; bool consumed; };
static std::vector<Hold> holds() {
    std::vector<Hold> h;
    for (size_t i = 0; i < CL.size(); i++) if (CL[i].c == 'R' && CL[i].ok) {
        Hold x{ CL[i].id, CL[i].thread, CL[i].inv, CL[i].resp, UINT64_MAX, UINT64_MAX, false };
        for (size_t j = i + 1; j < CL.size(); j++) if ((CL[j].c == 'L' || CL[j].c == 'C') && CL[j].thread == x.thread && CL[j].id == x.id && CL[j].inv > x.rresp) { x.einv = CL[j].inv; x.eresp = CL[j].resp; x.consumed = CL[j].c == 'C'; break; }
        h.push_back(x);
    }
    return h;
}
static void judge_buflike() {
    drain_into_exits(0);
    std::vector<std::vector<const Exit*>> ex(IT.size());
    for (auto& e : EX) ex[item(e.id).id].push_back(&e);
    auto H = holds();
    // reservations: exclusive, nothing taken from under a reservation
    for (auto& h : H) {
        for (auto& c : CL) if (c.c == 'R' && c.ok && !(c.thread == h.thread && c.inv == h.rinv) && c.inv > h.rresp && c.resp < h.einv)
            vs_violation("DOUBLE-RESERVE", "try_reserve of thread %d returned item %d in [%lu,%lu] while thread %d holds a reservation of item %d since %lu", c.thread, c.id, (unsigned long)c.inv, (unsigned long)c.resp, h.thread, h.id, (unsigned long)h.rresp);
        for (auto& e : EX) {
            if (e.how == 2 && e.thread == h.thread && e.id == h.id) continue;
            bool inside = e.lo > h.rresp && e.hi < h.einv;
            if (inside && e.id == h.id)
                vs_violation(g_kind == N_BUF ? "BUFFER-GET-RESERVED" : "RESERVED-ITEM-TAKEN", "item %d left the %s node (via %d, in [%lu,%lu]) while thread %d held it reserved (reserved at %lu, %s invoked at %lu)", e.id, KN[g_kind], e.how, (unsigned long)e.lo, (unsigned long)e.hi, h.thread, (unsigned long)h.rresp, h.consumed ? "try_consume" : "try_release", (unsigned long)h.einv);
            if (inside && g_kind != N_BUF)
                vs_violation("RESERVED-QUEUE-MOVED", "item %d left the %s node in [%lu,%lu] while its front item %d was reserved", e.id, KN[g_kind], (unsigned long)e.lo, (unsigned long)e.hi, h.id);
        }
    }
    // conservation
    std::map<int, int> seq_ok; int gap = 0;
    if (g_kind == N_SEQ) {
        std::map<int, int> puts; for (auto& it : IT) if (it.done) { puts[it.aux]++; if (it.ok) seq_ok[it.aux]++; }
        for (auto& kv : puts) if (seq_ok[kv.first] != 1) vs_violation("SEQ-ACCEPT", "sequence number %d was put %d times and accepted %d times (exactly one put of a number can be accepted)", kv.first, kv.second, seq_ok[kv.first]);
        while (seq_ok.count(gap) && seq_ok[gap]) gap++;
    }
    for (auto& it : IT) {
        if (it.id < 0 || !it.done) continue;
        int n = (int)ex[it.id].size();
        if (!it.ok) { if (g_kind != N_SEQ) vs_violation("PUT-REJECTED", "%s node rejected item %d", KN[g_kind], it.id); if (n) vs_violation("PHANTOM-ITEM", "item %d was rejected by try_put but left the node", it.id); continue; }
        if (n > 1 && g_kind == N_BUF && (ex[it.id][0]->how == 2 || ex[it.id][1]->how == 2))
            vs_violation("BUFFER-GET-RESERVED", "item %d was consumed under a reservation of the buffer_node and ALSO handed out via %d (0 successor, 1 try_get, 3 final try_get): try_get/pull ignored the reservation", it.id, ex[it.id][0]->how == 2 ? ex[it.id][1]->how : ex[it.id][0]->how);
        if (n > 1) vs_violation("DUP-ITEM", "item %d left the %s node %d times (via %d and %d)", it.id, KN[g_kind], n, ex[it.id][0]->how, ex[it.id][1]->how);
        if (g_kind == N_SEQ && it.aux >= gap) { if (n) vs_violation("SEQ-GAP", "sequencer emitted number %d although number %d was never accepted", it.aux, gap); continue; }
        if (n == 0) vs_violation("LOST-ITEM", "item %d (aux %d) was accepted by the %s node but never delivered, not even to a final try_get", it.id, it.aux, KN[g_kind]);
    }
    // order contracts
    for (auto& x : IT) for (auto& y : IT) {
        if (x.id < 0 || y.id < 0 || x.id == y.id || !x.ok || !y.ok || ex[x.id].empty() || ex[y.id].empty()) continue;
        if (g_kind == N_Q && x.prod == y.prod && x.prod != 6 && x.pord < y.pord) must_precede(*ex[x.id][0], *ex[y.id][0], "FIFO-ORDER", "queue_node, same producer");
        if (g_kind == N_SEQ && x.aux < y.aux) must_precede(*ex[x.id][0], *ex[y.id][0], "SEQ-ORDER", "sequencer_node");
    }
    if (g_kind == N_PQ) {
        struct Sel { int id; uint64_t lo, hi; }; std::vector<Sel> sel;
        for (auto& e : EX) sel.push_back(Sel{ e.id, e.lo, e.hi });
        for (auto& h : H) if (!h.consumed) sel.push_back(Sel{ h.id, h.rinv, h.rresp });
        for (auto& sx : sel) for (auto& y : IT) {
            if (y.id < 0 || !y.ok || y.id == sx.id || y.aux <= IT[sx.id].aux) continue;
            if (!(y.presp < sx.lo)) continue;                                      // not surely inside yet
            bool present = true;
            for (auto* e : ex[y.id]) if (!(e->lo > sx.hi)) present = false;          // may have left already
            for (auto& h : H) if (h.id == y.id && overlap(h.rinv, h.consumed ? UINT64_MAX : h.eresp, sx.lo, sx.hi + 1)) present = false;   // may have been out on reservation
            if (present) vs_violation("PRIORITY-ORDER", "priority_queue_node handed out item %d (priority %d) in [%lu,%lu] although item %d with higher priority %d was buffered during that whole interval (put returned at %lu)", sx.id, IT[sx.id].aux, (unsigned long)sx.lo, (unsigned long)sx.hi, y.id, y.aux, (unsigned long)y.presp);
        }
    }
    count_overlaps();
}

static void judge_join() {
    if (g_kind == N_JR) { drain_into_exits(0); drain_into_exits(1); }
    std::vector<int> used(IT.size(), 0); std::vector<const Exit*> tuples; std::vector<const Exit*> where(IT.size(), nullptr);
    for (auto& e : EX) {
        if (e.how == 0) {
            Item& a = item(e.id); Item& b = item(e.id2);
            if (a.port != 0 || b.port != 1) vs_violation("WRONG-PORT", "tuple (%d,%d): components came from ports %d,%d", e.id, e.id2, a.port, b.port);
            used[a.id]++; used[b.id]++; where[a.id] = &e; where[b.id] = &e; tuples.push_back(&e);
            if (g_kind == N_JK) { if (a.aux != b.aux) vs_violation("KEY-MISMATCH", "key_matching join emitted tuple (%d key %d, %d key %d)", a.id, a.aux, b.id, b.aux); if (!a.ok) n_replaced++; if (!b.ok) n_replaced++; }
        } else { used[item(e.id).id]++; where[e.id] = &e; }
    }
    for (auto& it : IT) if (it.id >= 0 && used[it.id] > 1) vs_violation("DUP-ITEM", "item %d (port %d) was used %d times", it.id, it.port, used[it.id]);
    long acc[2] = { 0, 0 }; for (auto& it : IT) if (it.id >= 0 && it.done && it.ok) acc[it.port]++;
    if (g_kind == N_JQ) {
        for (auto& it : IT) if (it.id >= 0 && it.done && !it.ok) vs_violation("PUT-REJECTED", "queueing join port %d rejected item %d", it.port, it.id);
        long m = (long)tuples.size(), want = std::min(acc[0], acc[1]);
        if (m != want) vs_violation(m < want ? "LOST-ITEM" : "DUP-ITEM", "queueing join: ports accepted %ld and %ld messages but %ld tuples were emitted", acc[0], acc[1], m);
        for (int p = 0; p < 2; p++) {
            std::vector<Item*> sq; for (auto* t : tuples) sq.push_back(&IT[p == 0 ? t->id : t->id2]);
            for (size_t i = 0; i < sq.size(); i++) for (size_t j = i + 1; j < sq.size(); j++) {
                bool bad = sq[j]->presp < sq[i]->pinv || (sq[i]->prod == sq[j]->prod && sq[i]->prod != 6 && sq[j]->pord < sq[i]->pord);
                if (bad) vs_violation("JOIN-ORDER", "queueing join port %d: tuple %zu holds item %d but the later tuple %zu holds item %d which arrived before it", p, i, sq[i]->id, j, sq[j]->id);
            }
            for (auto& u : IT) if (u.id >= 0 && u.port == p && u.ok && !used[u.id]) for (auto* x : sq) {
                bool bad = u.presp < x->pinv || (u.prod == x->prod && u.prod != 6 && u.pord < x->pord);
                if (bad) vs_violation("JOIN-ORDER", "queueing join port %d: item %d is still waiting although item %d, which arrived after it, was used in a tuple", p, u.id, x->id);
            }
        }
    } else if (g_kind == N_JK) {
        std::map<int, long> a0, a1, tk; for (auto& it : IT) if (it.id >= 0 && it.done && it.ok) (it.port == 0 ? a0 : a1)[it.aux]++;
        for (auto* t : tuples) tk[IT[t->id].aux]++;
        for (int k = 0; k < 3; k++) { long want = std::min(a0[k], a1[k]); if (tk[k] != want) vs_violation(tk[k] < want ? "LOST-ITEM" : "DUP-ITEM", "key_matching join, key %d: ports accepted %ld and %ld messages but %ld tuples were emitted", k, a0[k], a1[k], tk[k]); }
        for (auto& it : IT) if (it.id >= 0 && it.done && !it.ok) {
            bool dup = false; for (auto& o : IT) if (o.id >= 0 && o.id != it.id && o.port == it.port && o.aux == it.aux && o.pinv && o.pinv < it.presp) dup = true;
            if (!dup) vs_violation("PUT-REJECTED", "key_matching port %d rejected item %d (key %d) although no other message with that key was ever put to this port before", it.port, it.id, it.aux);
        }
    } else {
        for (auto& it : IT) {
            if (it.id < 0 || !it.done) continue;
            if (!it.ok) vs_violation("PUT-REJECTED", "queue_node in front of the reserving join rejected item %d", it.id);
            if (!used[it.id]) vs_violation("LOST-ITEM", "reserving join: item %d (queue %d) is neither in a tuple, nor taken by try_get, nor left in its queue: a port was consumed without a complete tuple", it.id, it.port);
        }
        long left[2] = { 0, 0 }; for (auto& e : EX) if (e.how == 3) left[e.sink]++;
        if (left[0] && left[1]) vs_violation("STUCK-TUPLE", "reserving join: both queues still hold items (%ld and %ld) at quiescence but no tuple was made", left[0], left[1]);
        for (auto& x : IT) for (auto& y : IT) if (x.id >= 0 && y.id >= 0 && x.id != y.id && x.port == y.port && x.prod == y.prod && x.prod != 6 && x.pord < y.pord && where[x.id] && where[y.id] && where[x.id] != where[y.id])
            must_precede(*where[x.id], *where[y.id], "FIFO-ORDER", "queue_node feeding a reserving join, same producer");
    }
    for (auto& a : IT) for (auto& b : IT) if (a.id >= 0 && b.id >= 0 && a.port == 0 && b.port == 1 && a.done && b.done && a.thread != b.thread && overlap(a.pinv, a.presp, b.pinv, b.presp)) n_nt_opposite++;
    count_overlaps();
}

static void judge_lim() {
    if (g_limi) {
        // saturate: keep putting fresh messages at quiescence; whatever decrement credit the node still remembers is used up now, and the sink-side
        // oracle (forwarded - sum of the decrements invoked <= threshold) sees any credit that was counted twice
        long budget = g_thr + g_decs + 3;
        for (long i = 0; i < budget; i++) { int pid = (int)IT.size(); IT.push_back(Item()); IT[pid].id = pid; long before = g_forwarded; do_put(g_port[0], pid, 7); G->wait_for_all(); if (g_forwarded == before) break; }
    }
    std::vector<int> seen(IT.size(), 0); for (auto& e : EX) if (e.how == 0) seen[item(e.id).id]++;
    for (auto& it : IT) if (it.id >= 0 && seen[it.id] > 1) vs_violation("DUP-ITEM", "limiter forwarded item %d %d times", it.id, seen[it.id]);
    if (g_via == 4) {
        // mixed feeding (queue predecessor and direct puts): judged by the threshold oracle at every forward (sink body) and the duplicate check above only
    } else
    if (g_via != 3) {
        for (auto& it : IT) {
            if (it.id < 0 || !it.done) continue;
            if (it.ok && !seen[it.id]) vs_violation("LOST-ITEM", "limiter accepted item %d (try_put true) but never forwarded it", it.id);
            if (!it.ok && seen[it.id]) vs_violation("PHANTOM-ITEM", "limiter rejected item %d (try_put false) but forwarded it", it.id);
            if (!it.ok && g_sinkpol != 1) {     // a rejection needs threshold-many messages that could be counted or in flight
                long cnt = 0; for (auto& o : IT) if (o.id >= 0 && o.id != it.id && o.pinv && o.pinv < it.presp && (o.ok || !o.done || o.presp > it.pinv)) cnt++;
                if (cnt < g_thr) vs_violation("PUT-REJECTED", "limiter (threshold %d) rejected item %d although only %ld other puts had started", g_thr, it.id, cnt);
            }
        }
        // liveness probe: after threshold-many decrements at quiescence the counter is 0 and a fresh put must pass
        if (g_limi) lim_dec(g_thr + 1);       // more than the count can be: clamped to 0 (no put is in flight, nothing is remembered)
        else for (int i = 0; i < g_thr; i++) lim_dec(1);
        G->wait_for_all();
        int pid = (int)IT.size(); IT.push_back(Item()); IT[pid].id = pid; long before = g_forwarded;
        do_put(lim_recv(), pid, 7); G->wait_for_all();
        if (!IT[pid].ok || g_forwarded != before + 1) vs_violation("LIMITER-STUCK", "limiter (threshold %d) at quiescence after %d decrements: a fresh try_put returned %d and %ld messages were forwarded", g_thr, g_thr, (int)IT[pid].ok, g_forwarded - before);
    } else {
        long acc = 0; for (auto& it : IT) if (it.id >= 0 && it.done) { if (!it.ok) vs_violation("PUT-REJECTED", "queue_node in front of the limiter rejected item %d", it.id); acc++; }
        long left = acc - g_forwarded;
        if (left < 0) vs_violation("DUP-ITEM", "limiter forwarded %ld messages, only %ld were put", g_forwarded, acc);
        if (left > 0 && g_fb) vs_violation("LIMITER-STUCK", "limiter with a decrement edge from its successor: %ld messages are still waiting in the queue at quiescence", left);
        if (left > 0 && g_forwarded < g_thr) vs_violation("LIMITER-STUCK", "limiter (threshold %d): %ld messages wait in the queue although only %ld were ever forwarded", g_thr, left, g_forwarded);
        for (long i = 0; i < left; i++) {      // saturated at quiescence: every decrement must release exactly one waiting message
            long before = g_forwarded; lim_dec(1); G->wait_for_all();
            if (g_forwarded != before + 1) vs_violation("LIMITER-STUCK", "saturated limiter (threshold %d) with %ld waiting messages: one decrement released %ld messages", g_thr, left - i, g_forwarded - before);
        }
        drain_into_exits(0);
        for (auto& e : EX) if (e.how == 3) vs_violation("LIMITER-STUCK", "item %d is still in the queue after the limiter was decremented for every waiting message", e.id);
        for (auto& it : IT) if (it.id >= 0 && it.done && !seen[it.id]) { bool s2 = false; for (auto& e : EX) if (e.how == 0 && e.id == it.id) s2 = true; if (!s2) vs_violation("LOST-ITEM", "item %d went into the queue in front of the limiter and was never forwarded", it.id); }
    }
    for (auto& e : EX) if (e.how == 0) for (auto& c : CL) if (c.c == 'D' && c.inv < e.hi && e.hi < c.resp) n_nt_dec++;
    count_overlaps();
}

static void judge_ow() {
    std::vector<const Exit*> A, B; for (auto& e : EX) if (e.how == 0) (e.sink == 0 ? A : B).push_back(&e);
    const Call* att = nullptr; for (auto& c : CL) if (c.c == 'E') att = &c;
    std::vector<int> pos(IT.size(), -1);
    for (size_t i = 0; i < A.size(); i++) { if (pos[item(A[i]->id).id] >= 0) vs_violation("DUP-ITEM", "%s delivered item %d twice to a successor", KN[g_kind], A[i]->id); pos[A[i]->id] = (int)i; }
    int winner = -1;
    if (g_kind == N_OW) {
        for (auto& it : IT) if (it.id >= 0 && it.done) { if (!it.ok) vs_violation("PUT-REJECTED", "overwrite_node rejected item %d", it.id); if (pos[it.id] < 0) vs_violation("LOST-ITEM", "overwrite_node did not deliver item %d to its successor", it.id); }
        for (size_t i = 0; i < A.size(); i++) for (size_t j = i + 1; j < A.size(); j++) if (IT[A[j]->id].presp < IT[A[i]->id].pinv) vs_violation("OW-ORDER", "overwrite_node delivered item %d before item %d whose try_put had returned earlier", A[i]->id, A[j]->id);
    } else {
        long nput = 0, nok = 0; for (auto& it : IT) if (it.id >= 0 && it.done) { nput++; if (it.ok) { nok++; winner = it.id; } }
        if (nput && nok != 1) vs_violation("WO-ACCEPT", "write_once_node accepted %ld of %ld puts", nok, nput);
        if (winner >= 0) for (auto& o : IT) if (o.id >= 0 && o.done && o.id != winner && o.presp < IT[winner].pinv) vs_violation("WO-FIRST", "write_once_node kept item %d although the try_put of item %d had returned before it was even put", winner, o.id);
        if (winner >= 0 && !(A.size() == 1 && A[0]->id == winner)) vs_violation(A.empty() ? "LOST-ITEM" : "WO-FIRST", "write_once_node accepted item %d but its successor received %zu messages (first %d)", winner, A.size(), A.empty() ? -1 : A[0]->id);
        if (winner < 0 && !A.empty()) vs_violation("PHANTOM-ITEM", "write_once_node delivered item %d that was never accepted", A[0]->id);
    }
    // the late successor
    if (!att) { if (!B.empty()) vs_violation("PHANTOM-ITEM", "a successor that was never attached received item %d", B[0]->id); }
    else if (g_kind == N_WO) {
        if (winner >= 0 && !(B.size() == 1 && B[0]->id == winner)) vs_violation(B.empty() ? "LATE-SUCCESSOR" : "WO-FIRST", "write_once_node holds item %d but the successor attached later received %zu messages", winner, B.size());
        if (winner < 0 && !B.empty()) vs_violation("PHANTOM-ITEM", "late successor of an empty write_once_node received item %d", B[0]->id);
    } else {
        if (B.empty()) {
            for (auto& it : IT) if (it.id >= 0 && it.done && (it.presp < att->inv || it.pinv > att->resp)) vs_violation("LATE-SUCCESSOR", "overwrite_node: successor attached in [%lu,%lu] received nothing although item %d was put in [%lu,%lu]", (unsigned long)att->inv, (unsigned long)att->resp, it.id, (unsigned long)it.pinv, (unsigned long)it.presp);
        } else {
            int k = pos[item(B[0]->id).id]; if (k < 0) vs_violation("PHANTOM-ITEM", "late successor received item %d which the first successor never saw", B[0]->id);
            if (B.size() != A.size() - (size_t)k) vs_violation("LATE-SUCCESSOR", "overwrite_node: late successor received %zu messages starting with item %d, the first successor received %zu from there on", B.size(), B[0]->id, A.size() - (size_t)k);
            for (size_t i = 0; i < B.size(); i++) if (B[i]->id != A[(size_t)k + i]->id) vs_violation("LATE-SUCCESSOR", "overwrite_node: late successor's message %zu is item %d, the first successor saw item %d at that position", i, B[i]->id, A[(size_t)k + i]->id);
            for (auto& it : IT) if (it.id >= 0 && it.done) {
                if (it.presp < att->inv && pos[it.id] > k) vs_violation("LATE-SUCCESSOR", "overwrite_node: item %d was put before the successor was attached but is newer than the value it got first (item %d)", it.id, B[0]->id);
                if (it.pinv > att->resp && pos[it.id] < k) vs_violation("LATE-SUCCESSOR", "overwrite_node: item %d was put after the successor was attached but the successor never received it", it.id);
                if (it.presp < att->inv && pos[it.id] < k) { bool newer = false; for (auto& o : IT) if (o.id >= 0 && o.done && pos[o.id] > pos[it.id] && pos[o.id] <= k) newer = true; (void)newer; }
            }
            // "latest": the first value must not have been surely overwritten before the attach began
            for (auto& o : IT) if (o.id >= 0 && o.done && pos[o.id] > k && o.presp < att->inv) vs_violation("LATE-SUCCESSOR", "overwrite_node gave the late successor item %d first although item %d had overwritten it before the attach began", B[0]->id, o.id);
        }
    }
    // direct try_get
    for (auto& c : CL) if (c.c == 'G') {
        if (c.ok) {
            Item& v = item(c.id);
            if (v.pinv > c.resp || !v.ok) vs_violation("PHANTOM-ITEM", "%s try_get returned item %d before it was put / although it was rejected", KN[g_kind], v.id);
            if (g_kind == N_OW) for (auto& o : IT) if (o.id >= 0 && o.done && pos[o.id] > pos[v.id] && o.presp < c.inv) vs_violation("OW-LATEST", "overwrite_node try_get in [%lu,%lu] returned item %d although item %d had overwritten it before", (unsigned long)c.inv, (unsigned long)c.resp, v.id, o.id);
            if (g_kind == N_WO && v.id != winner) vs_violation("WO-FIRST", "write_once_node try_get returned item %d, the accepted one is %d", v.id, winner);
        } else {
            for (auto& o : IT) if (o.id >= 0 && o.done && o.ok && o.presp < c.inv) vs_violation("LOST-ITEM", "%s try_get in [%lu,%lu] returned false although item %d was stored before", KN[g_kind], (unsigned long)c.inv, (unsigned long)c.resp, o.id);
        }
    }
    count_overlaps();
}

static void judge_fanout() {
    int ns = g_kind == N_BC ? g_nsink : g_kind == N_SPLIT ? 2 : 1;
    std::vector<std::vector<int>> cnt(ns, std::vector<int>(IT.size(), 0));
    for (auto& e : EX) {
        Item& it = item(e.id); if (e.sink >= ns) vs_violation("WRONG-PORT", "unexpected sink %d", e.sink);
        cnt[e.sink][it.id]++;
        if (g_kind == N_SPLIT && e.tag != e.sink) vs_violation("WRONG-PORT", "split_node: tuple element %d of item %d arrived at output port %d", e.tag, e.id, e.sink);
        if (g_kind == N_IDX && e.tag != it.port) vs_violation("WRONG-PORT", "indexer_node: item %d was put to port %d but is tagged %d", e.id, it.port, e.tag);
    }
    for (auto& it : IT) if (it.id >= 0 && it.done) {
        if (!it.ok) vs_violation("PUT-REJECTED", "%s rejected item %d", KN[g_kind], it.id);
        for (int w = 0; w < ns; w++) if (cnt[w][it.id] != 1) vs_violation(cnt[w][it.id] ? "DUP-ITEM" : "LOST-ITEM", "%s: successor %d received item %d %d times", KN[g_kind], w, it.id, cnt[w][it.id]);
    }
    for (auto& a : IT) for (auto& b : IT) if (a.id >= 0 && b.id > a.id && a.done && b.done && a.thread != b.thread && overlap(a.pinv, a.presp, b.pinv, b.presp)) n_nt_overlap++;
}

int main(int argc, char** argv) { return drv_main(argc, argv); }
