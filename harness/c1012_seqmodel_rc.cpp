// C10 / C12 (sequential leg) -- concurrent_hash_map, concurrent_unordered_map and concurrent_map against std::map, rapidcheck model-based testing.
// One thread, so every call has a unique expected result.  The point is the state space the concurrent legs reach only thinly: long operation sequences over
// STRUCTURED key sets (an identity-like hash; keys = small base + multiples of 256 / 512 / 1024 / 2048, so that a key's home bucket, its parent buckets of the
// lazy split and their siblings are all in play), bulk fills across the growth thresholds, explicit rehash(n) at any moment, clear, copy construction, copy /
// move assignment, swap with a second container, merge, and full iteration compared with the model.  Oracle: the return value of every call, and after every
// structural operation the complete contents (iteration, size, empty, per-key find of the whole key universe; ordered iteration and bounds for concurrent_map).
// usage: c1012_seqmodel_rc <C10|C12> <max_success>   (env VERIF_LEG_SEED, VERIF_REPLAY_DIR)   |   c1012_seqmodel_rc replay <file>
// case (one line):  seq kind=<chm|chmf|cum|cmap> fail=<allocation indices that throw (chmf: hash map over a failing allocator)|-> ops=<i<k>,e<k>,f<k>,F<n>,r<n>,c,C,A,M,s,m<k>,l<k>,...>
//   i insert(k)  e erase(k)  f find/count(k)  F<n> insert n consecutive keys from the fill cursor  r<n> rehash(n)  c clear  C copy-construct and continue with the copy
//   A copy-assign into a fresh container and continue with it  M move-assign likewise  s swap with the side container  m<k> merge a one-key container {k}  l<k> lower/upper_bound(k)
#include <rapidcheck.h>
#include "oneapi/tbb/concurrent_hash_map.h"
#include "oneapi/tbb/concurrent_unordered_map.h"
#include "oneapi/tbb/concurrent_map.h"
#include <cstdio>
#include <set>
#include <map>
#include <string>
#include <vector>
#include <chrono>
#include <fstream>
#include <memory>
#include <cstring>
#include <signal.h>
#include <unistd.h>

static std::string g_err;
static bool fail(const std::string& s) { if (g_err.empty()) g_err = s; return false; }
static std::string num(long v) { return std::to_string(v); }
static std::vector<std::string> split(const std::string& s, char c) { std::vector<std::string> r; size_t p = 0; while (p <= s.size()) { size_t e = s.find(c, p); if (e == std::string::npos) e = s.size(); if (e > p) r.push_back(s.substr(p, e - p)); p = e + 1; } return r; }
static std::string kv(const std::string& l, const char* k) { std::string key = std::string(" ") + k + "=", s = " " + l; size_t p = s.find(key); if (p == std::string::npos) return ""; size_t e = s.find(' ', p + 1); return s.substr(p + key.size(), e == std::string::npos ? std::string::npos : e - p - key.size()); }

struct IdHashCompare { size_t hash(int k) const { return (size_t)k; } bool equal(int a, int b) const { return a == b; } };
struct IdHash { size_t operator()(int k) const { return (size_t)k; } };
typedef tbb::concurrent_hash_map<int, int, IdHashCompare> CHM;
// allocator whose k-th allocation (counted over the whole case, only while armed) throws std::bad_alloc
static long g_alloc_calls = 0; static std::set<long> g_alloc_plan; static bool g_alloc_armed = false; static long g_alloc_refused = 0;
template <class T> struct FA {
    typedef T value_type; FA() {} template <class U> FA(const FA<U>&) {}
    T* allocate(size_t n) { if (g_alloc_armed && g_alloc_plan.count(++g_alloc_calls)) { g_alloc_refused++; throw std::bad_alloc(); } return (T*)::operator new(n * sizeof(T)); }
    void deallocate(T* p, size_t) { ::operator delete((void*)p); }
    template <class U> bool operator==(const FA<U>&) const { return true; } template <class U> bool operator!=(const FA<U>&) const { return false; }
};
typedef tbb::concurrent_hash_map<int, int, IdHashCompare, FA<std::pair<const int, int>>> CHMF;
typedef tbb::concurrent_unordered_map<int, int, IdHash> CUM;
typedef tbb::concurrent_map<int, int> CMAP;
typedef std::map<int, int> Model;

// ------------------------------------------------------------------ adaptors: the same small vocabulary for the three containers
struct AChm {
    typedef CHM C; static const char* name() { return "concurrent_hash_map"; }
    static bool insert(C& c, int k, int v) { return c.insert(std::make_pair(k, v)); }
    static long erase(C& c, int k) { return c.erase(k) ? 1 : 0; }
    static bool find(C& c, int k, int& v) { C::const_accessor a; if (!c.find(a, k)) return false; v = a->second; return true; }
    static long count(C& c, int k) { return (long)c.count(k); }
    static void rehash(C& c, long n) { c.rehash((size_t)n); }
    static bool merge1(C&, int, int) { return false; }
    static bool has_merge() { return false; }
};
struct AChmF {
    typedef CHMF C; static const char* name() { return "concurrent_hash_map (failing allocator)"; }
    static bool insert(C& c, int k, int v) { return c.insert(std::make_pair(k, v)); }
    static long erase(C& c, int k) { return c.erase(k) ? 1 : 0; }
    static bool find(C& c, int k, int& v) { C::const_accessor a; if (!c.find(a, k)) return false; v = a->second; return true; }
    static long count(C& c, int k) { return (long)c.count(k); }
    static void rehash(C& c, long n) { c.rehash((size_t)n); }
    static bool merge1(C&, int, int) { return false; }
    static bool has_merge() { return false; }
};
struct ACum {
    typedef CUM C; static const char* name() { return "concurrent_unordered_map"; }
    static bool insert(C& c, int k, int v) { return c.insert(std::make_pair(k, v)).second; }
    static long erase(C& c, int k) { return (long)c.unsafe_erase(k); }
    static bool find(C& c, int k, int& v) { auto it = c.find(k); if (it == c.end()) return false; v = it->second; if (!c.contains(k)) return false; return true; }
    static long count(C& c, int k) { return (long)c.count(k); }
    static void rehash(C& c, long n) { c.rehash((size_t)n); }
    static bool has_merge() { return true; }
    static bool merge1(C& c, int k, int v) { C src; src.insert(std::make_pair(k, v)); c.merge(src); return src.empty(); }      // true: the node moved over
};
struct ACmap {
    typedef CMAP C; static const char* name() { return "concurrent_map"; }
    static bool insert(C& c, int k, int v) { return c.insert(std::make_pair(k, v)).second; }
    static long erase(C& c, int k) { return (long)c.unsafe_erase(k); }
    static bool find(C& c, int k, int& v) { auto it = c.find(k); if (it == c.end()) return false; v = it->second; if (!c.contains(k)) return false; return true; }
    static long count(C& c, int k) { return (long)c.count(k); }
    static void rehash(C&, long) {}
    static bool has_merge() { return true; }
    static bool merge1(C& c, int k, int v) { C src; src.insert(std::make_pair(k, v)); c.merge(src); return src.empty(); }
};
template <class C> static bool bounds(C&, const Model&, int) { return true; }
template <> bool bounds<CMAP>(CMAP& c, const Model& m, int k) {
    auto lb = c.lower_bound(k); auto ml = m.lower_bound(k);
    if ((lb == c.end()) != (ml == m.end()) || (lb != c.end() && lb->first != ml->first)) return fail("lower_bound(" + num(k) + ") differs from the model");
    auto ub = c.upper_bound(k); auto mu = m.upper_bound(k);
    if ((ub == c.end()) != (mu == m.end()) || (ub != c.end() && ub->first != mu->first)) return fail("upper_bound(" + num(k) + ") differs from the model");
    return true;
}
template <class C> static bool ordered_ok(C&) { return true; }
template <> bool ordered_ok<CMAP>(CMAP& c) { int prev = -1; bool first = true; for (auto& e : c) { if (!first && e.first <= prev) return fail("concurrent_map iteration is not strictly ascending at key " + num(e.first)); prev = e.first; first = false; } return true; }

static bool g_nontrivial = false; static std::string g_class;
static std::vector<int> g_universe;      // every key a case may touch (the per-key check walks all of them)
template <class A> static bool full_check(typename A::C& c, const Model& m, const std::string& after) {
    std::map<int, int> seen; size_t n = 0;
    for (auto it = c.begin(); it != c.end(); ++it) { n++; if (!seen.insert({ it->first, it->second }).second) return fail("after " + after + ": iteration of the " + A::name() + " visits key " + num(it->first) + " twice"); }
    if (seen != m) {
        for (auto& e : m) if (!seen.count(e.first)) return fail("after " + after + ": key " + num(e.first) + " is in the model but iteration of the " + A::name() + " does not visit it");
        for (auto& e : seen) if (!m.count(e.first)) return fail("after " + after + ": iteration of the " + A::name() + " visits key " + num(e.first) + " which is not in the model");
        return fail("after " + after + ": a mapped value differs from the model");
    }
    if (c.size() != m.size()) return fail("after " + after + ": size() is " + num((long)c.size()) + ", the model holds " + num((long)m.size()));
    if (c.empty() != m.empty()) return fail("after " + after + ": empty() is wrong");
    for (int k : g_universe) { int v = -1; bool f = A::find(c, k, v); auto it = m.find(k); if (f != (it != m.end()) || (f && v != it->second)) return fail("after " + after + ": find(" + num(k) + ") gives " + (f ? "value " + num(v) : std::string("nothing")) + ", the model " + (it != m.end() ? "value " + num(it->second) : std::string("nothing")));
        if (A::count(c, k) != (long)m.count(k)) return fail("after " + after + ": count(" + num(k) + ") is wrong"); }
    return ordered_ok(c);
}
template <class A> static bool drive(const std::string& line) {
    typedef typename A::C C;
    std::unique_ptr<C> c(new C()); std::unique_ptr<C> side(new C()); Model m, mside; int fillcur = 3000, opno = 0, structural = 0; long vctr = 1;
    auto ops = split(kv(line, "ops"), ',');
    g_universe.clear(); { std::set<int> u; int fc = 3000; for (auto& op : ops) { long a = op.size() > 1 ? atol(op.c_str() + 1) : 0; if (op[0] == 'i' || op[0] == 'e' || op[0] == 'f' || op[0] == 'm' || op[0] == 'l') u.insert((int)a); if (op[0] == 'F') { for (long i = 0; i < a && i < 1200; i++) u.insert(fc++); } } g_universe.assign(u.begin(), u.end()); }
    for (auto& op : ops) {
        opno++; char k = op[0]; long a = op.size() > 1 ? atol(op.c_str() + 1) : 0; std::string what = "op " + num(opno) + " (" + op + ")"; bool check = false;
        if (k == 'i') { int v = (int)vctr++; bool r = false, threw = false; g_alloc_armed = true; try { r = A::insert(*c, (int)a, v); } catch (std::bad_alloc&) { threw = true; } g_alloc_armed = false;
            if (threw) { int got = -1; bool f = A::find(*c, (int)a, got); auto it = m.find((int)a); if (it != m.end()) { if (!f || got != it->second) return fail(what + ": an insert that threw bad_alloc damaged the element that was already there"); } else if (f) { if (got != v) return fail(what + ": after an insert that threw bad_alloc the key holds a value nobody gave it"); m.insert({ (int)a, v }); } check = true; }
            else { bool e = m.insert({ (int)a, v }).second; if (r != e) return fail(what + ": insert(" + num(a) + ") returned " + num(r) + ", the model " + num(e)); } }
        else if (k == 'e') { long r = A::erase(*c, (int)a); long e = (long)m.erase((int)a); if (r != e) return fail(what + ": erase(" + num(a) + ") returned " + num(r) + ", the model " + num(e)); }
        else if (k == 'f') { int v = -1; bool r = A::find(*c, (int)a, v); auto it = m.find((int)a); if (r != (it != m.end()) || (r && v != it->second)) return fail(what + ": find(" + num(a) + ") differs from the model"); }
        else if (k == 'F') { for (long i = 0; i < a && i < 1200; i++) { int key = fillcur++, v = (int)vctr++; bool r = false, threw = false; g_alloc_armed = true; try { r = A::insert(*c, key, v); } catch (std::bad_alloc&) { threw = true; } g_alloc_armed = false;
                if (threw) { int got = -1; if (A::find(*c, key, got)) { if (got != v) return fail(what + ": after an insert that threw bad_alloc the key holds a value nobody gave it"); m.insert({ key, v }); } continue; }
                bool e = m.insert({ key, v }).second; if (r != e) return fail(what + ": insert(" + num(key) + ") during a fill returned " + num(r)); } check = true; }
        else if (k == 'r') { g_alloc_armed = true; try { A::rehash(*c, a); } catch (std::bad_alloc&) {} g_alloc_armed = false; check = true; }
        else if (k == 'c') { c->clear(); m.clear(); check = true; }
        else if (k == 'C') { std::unique_ptr<C> d(new C(*c)); c = std::move(d); check = true; }
        else if (k == 'A') { std::unique_ptr<C> d(new C()); A::insert(*d, 7777, 1); *d = *c; c = std::move(d); check = true; }
        else if (k == 'M') { std::unique_ptr<C> d(new C()); A::insert(*d, 7777, 1); *d = std::move(*c); c = std::move(d); check = true; }
        else if (k == 's') { c->swap(*side); std::swap(m, mside); check = true; }
        else if (k == 'm') { if (!A::has_merge()) continue; int v = (int)vctr++; bool moved = A::merge1(*c, (int)a, v); bool e = m.insert({ (int)a, v }).second; if (moved != e) return fail(what + ": merge of a one-key container {" + num(a) + "} " + (moved ? "moved the node" : "left the node") + ", the model says the key was " + (e ? "absent" : "present")); check = true; }
        else if (k == 'l') { if (!bounds(*c, m, (int)a)) return false; }
        else continue;
        if (check) { structural++; if (!full_check<A>(*c, m, what)) return false; }
    }
    if (!full_check<A>(*c, m, "the last operation")) return false;
    if (!full_check<A>(*side, mside, "the last operation (side container)")) return false;
    g_nontrivial = structural > 0 && m.size() + mside.size() > 0;
    return true;
}
static char g_cur[4000];
static bool run_case(const std::string& line) {
    snprintf(g_cur, sizeof g_cur, "%s", line.c_str());
    g_err.clear(); g_nontrivial = false; std::string kind = kv(line, "kind"); g_class = kind;
    g_alloc_calls = 0; g_alloc_refused = 0; g_alloc_armed = false; g_alloc_plan.clear(); for (auto& f : split(kv(line, "fail"), ',')) if (f != "-") g_alloc_plan.insert(atol(f.c_str()));
    if (kind == "chmf") return drive<AChmF>(line);
    if (kind == "chm") return drive<AChm>(line); if (kind == "cum") return drive<ACum>(line); if (kind == "cmap") return drive<ACmap>(line);
    return true;
}

static int pick(int lo, int hi) { return *rc::gen::resize(100, rc::gen::inRange(lo, hi + 1)); }
static int gen_key() { static const int OFF[] = { 0, 0, 256, 512, 768, 1024, 1280, 1536, 1792, 2048, 2304, 128, 64, 4, 260, 516, 772 }; return pick(0, 7) + OFF[pick(0, 16)] + (pick(0, 5) == 0 ? 2048 : 0); }
static std::string gen_case(const std::string& prop) {
    // kind chmf (hash map over an allocator that throws at planned calls) is understood by the interpreter but NOT generated: allocation failures are outside the
    // statement of C10, and with them the unchanged library shows a defect that is recorded as an observation only (DESIGN.md s.11.21: after an insert whose
    // growth allocation failed, a copy of the table holds elements that find() cannot reach).  `drive` of this file with VERIF_SEQMODEL_FAULTS=1 generates it.
    bool faults = getenv("VERIF_SEQMODEL_FAULTS") != nullptr;
    std::string kind = prop == "C10" ? ((faults && pick(0, 3) == 0) ? "chmf" : "chm") : (pick(0, 2) ? "cum" : "cmap");
    std::string fl = "-"; if (kind == "chmf") { fl = ""; int nf = pick(1, 3); std::set<int> ks; for (int i = 0; i < nf; i++) ks.insert(pick(0, 2) ? pick(1, 12) : pick(200, 1400)); for (int k2 : ks) fl += (fl.empty() ? "" : ",") + std::to_string(k2); }
    int nops = pick(1, 40); std::string ops;
    for (int i = 0; i < nops; i++) { int c = pick(0, 29); std::string o;
        if (c < 11) o = "i" + std::to_string(gen_key());
        else if (c < 15) o = "e" + std::to_string(gen_key());
        else if (c < 18) o = "f" + std::to_string(gen_key());
        else if (c < 20) { static const int FN[] = { 3, 40, 200, 250, 260, 300, 520, 1030 }; o = "F" + std::to_string(FN[pick(0, 7)]); }
        else if (c < 23) { static const int RN[] = { 0, 1, 2, 16, 256, 257, 512, 1024, 2048, 4096 }; o = "r" + std::to_string(RN[pick(0, 9)]); }
        else if (c == 23) o = "c"; else if (c == 24) o = "C"; else if (c == 25) o = "A"; else if (c == 26) o = "M"; else if (c == 27) o = "s";
        else if (c == 28) o = "m" + std::to_string(gen_key()); else o = "l" + std::to_string(gen_key());
        ops += (i ? "," : "") + o; }
    return "seq kind=" + kind + " fail=" + fl + " ops=" + ops;
}
static unsigned long long fnv(const std::string& s) { unsigned long long h = 1469598103934665603ull; for (unsigned char c : s) { h ^= c; h *= 1099511628211ull; } return h; }
static std::string jesc(const std::string& s) { std::string o = "\""; for (char c : s) { if (c == '"' || c == '\\') { o += '\\'; o += c; } else if (c == '\n') o += "\\n"; else o += c; } return o + "\""; }

static const char* g_rd2 = nullptr; static std::string g_prop2 = "C10"; static bool g_replaying = false;
static void on_crash(int sig) {
    if (g_replaying) { printf("VIOLATION CONTAINER-MODEL crash (signal %d) inside a container call\n", sig); fflush(stdout); _exit(1); }
    char name[600]; snprintf(name, sizeof name, "%s/%s-seqmodel-%016llx.case", g_rd2 ? g_rd2 : ".", g_prop2.c_str(), fnv(g_cur));
    FILE* f = fopen(name, "w"); if (f) { fprintf(f, "%s\n# verdict: VIOLATION CONTAINER-MODEL crash (signal %d) inside a container call\n", g_cur, sig); fclose(f); }
    printf("{\"evaluations\":1,\"nontrivial_hashes\":[],\"classes\":{},\"sums\":{},\"samples\":[],\"inconclusive\":0,\"wall_s\":0,\"violations\":[{\"kind\":\"CONTAINER-MODEL\",\"detail\":\"crash (signal %d) inside a container call (not shrunk)\",\"replay\":\"%s\",\"case\":\"see the replay file\"}]}\n", sig, name);
    fflush(stdout); _exit(1);
}
int main(int argc, char** argv) {
    { struct sigaction sa; memset(&sa, 0, sizeof sa); sa.sa_handler = on_crash; for (int sg : { SIGSEGV, SIGBUS, SIGABRT, SIGFPE, SIGILL }) sigaction(sg, &sa, nullptr); }
    if (argc >= 3 && std::string(argv[1]) == "replay") { g_replaying = true; std::ifstream f(argv[2]); std::string l; while (std::getline(f, l)) { if (l.empty() || l[0] == '#') continue; bool ok = run_case(l); printf("%s %s\n", ok ? "OK" : "VIOLATION CONTAINER-MODEL", g_err.c_str()); return ok ? 0 : 1; } return 2; }
    std::string prop = argc > 1 ? argv[1] : "C10"; long max_success = argc > 2 ? atol(argv[2]) : 2000; const char* sd = getenv("VERIF_LEG_SEED"); const char* rd = getenv("VERIF_REPLAY_DIR"); g_rd2 = rd; g_prop2 = prop;
    std::string params = "seed=" + std::string(sd ? sd : "1") + " max_success=" + std::to_string(max_success) + " max_size=100"; setenv("RC_PARAMS", params.c_str(), 1);
    auto t0 = std::chrono::steady_clock::now();
    unsigned long long evals = 0; std::set<unsigned long long> nt; std::vector<std::string> samples; std::string failing; std::map<std::string, long> cls;
    bool ok = rc::check(prop + " containers follow std::map", [&] {
        std::string c = gen_case(prop); evals++;
        bool good = run_case(c);
        if (good && g_nontrivial) { if (nt.insert(fnv(c)).second) cls["seqmodel_" + g_class]++; if (samples.size() < 4 && nt.size() % 97 == 1) samples.push_back(c.substr(0, 300)); }
        if (!good) failing = c;
        RC_ASSERT(good);
    });
    std::string viol;
    if (!ok && !failing.empty() && !run_case(failing)) {
        char name[600]; snprintf(name, sizeof name, "%s/%s-seqmodel-%016llx.case", rd ? rd : ".", prop.c_str(), fnv(failing));
        FILE* fp = fopen(name, "w"); if (fp) { fprintf(fp, "%s\n# verdict: VIOLATION CONTAINER-MODEL %s\n# replay: c1012_seqmodel_rc replay <this file>\n", failing.c_str(), g_err.c_str()); fclose(fp); }
        viol = "{\"kind\":\"CONTAINER-MODEL\",\"detail\":" + jesc(g_err) + ",\"replay\":" + jesc(name) + ",\"case\":" + jesc(failing.substr(0, 600)) + "}";
    }
    double wall = std::chrono::duration<double>(std::chrono::steady_clock::now() - t0).count();
    std::string j = "{\"evaluations\":" + std::to_string(evals) + ",\"nontrivial_hashes\":[";
    { bool f = true; int n = 0; for (auto h : nt) { if (n++ >= 6000) break; char b[40]; snprintf(b, sizeof b, "%s\"q%llx\"", f ? "" : ",", h); j += b; f = false; } }
    j += "],\"classes\":{"; { bool f = true; for (auto& kv2 : cls) { j += (f ? "" : ",") + jesc(kv2.first) + ":" + std::to_string(kv2.second); f = false; } }
    j += "},\"sums\":{},\"samples\":["; for (size_t i = 0; i < samples.size(); i++) j += (i ? "," : "") + jesc(samples[i]);
    char w[64]; snprintf(w, sizeof w, "%.2f", wall); j += "],\"inconclusive\":0,\"wall_s\":" + std::string(w) + ",\"violations\":[" + viol + "]}";
    fflush(stderr); puts(j.c_str());
    return viol.empty() ? 0 : 1;
}
