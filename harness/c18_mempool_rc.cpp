// C18 (sequential leg) -- the C++ pool templates tbb::memory_pool<Alloc> and tbb::fixed_pool over an allocator that refuses requests, rapidcheck.
// The underlying allocator counts its calls, refuses the planned ones by throwing (std::bad_alloc, or -- allocators are user code -- std::length_error
// or an int), keeps a ledger of the regions it handed out and poisons what it gets back.  Operations: malloc / free / realloc / recycle, then the pool
// is destroyed.  Oracles (C18 statement): a refused raw request makes the pool's entry point report failure (nullptr), no exception leaves a pool call,
// live blocks stay intact (fill pattern), every returned block lies inside a region obtained from this pool's own allocator and overlaps no other
// live block, a request succeeds again once the allocator stops refusing, and destruction gives every region back exactly once.
// usage: c18_mempool_rc <max_success>   (env VERIF_LEG_SEED, VERIF_REPLAY_DIR)   |   c18_mempool_rc replay <file>
// case (one line):  mp kind=<0 memory_pool|1 fixed_pool> buf=<bytes of the fixed buffer> fail=<k:type,...|-> ops=<m<size>,f<i>,r<i>:<size>,c,...>
#define TBB_PREVIEW_MEMORY_POOL 1
#include <rapidcheck.h>
#include "oneapi/tbb/memory_pool.h"
#include <cstdio>
#include <cstring>
#include <set>
#include <map>
#include <string>
#include <vector>
#include <chrono>
#include <fstream>
#include <stdexcept>
#include <signal.h>
#include <unistd.h>

static std::string g_err;
static bool fail(const std::string& s) { if (g_err.empty()) g_err = s; return false; }
static std::string num(long v) { return std::to_string(v); }
static std::vector<std::string> split(const std::string& s, char c) { std::vector<std::string> r; size_t p = 0; while (p <= s.size()) { size_t e = s.find(c, p); if (e == std::string::npos) e = s.size(); if (e > p) r.push_back(s.substr(p, e - p)); p = e + 1; } return r; }
static std::string kv(const std::string& l, const char* k) { std::string key = std::string(" ") + k + "=", s = " " + l; size_t p = s.find(key); if (p == std::string::npos) return ""; size_t e = s.find(' ', p + 1); return s.substr(p + key.size(), e == std::string::npos ? std::string::npos : e - p - key.size()); }

// ------------------------------------------------------------------ the refusing allocator (state is global: the pool copies its allocator)
struct Ledger { long calls = 0; std::map<long, int> plan; std::map<char*, size_t> regions; long refused = 0, doubly = 0, foreign = 0, got_back = 0; bool armed = true; };
static Ledger LG;
template <class T> struct FaultyAlloc {
    typedef T value_type;
    FaultyAlloc() {}
    template <class U> FaultyAlloc(const FaultyAlloc<U>&) {}
    T* allocate(size_t n) {
        long k = ++LG.calls; auto it = LG.plan.find(k);
        if (LG.armed && it != LG.plan.end()) { LG.refused++; if (it->second == 0) throw std::bad_alloc(); if (it->second == 1) throw std::length_error("arena exhausted"); throw 42; }
        size_t bytes = n * sizeof(T); char* p = (char*)malloc(bytes ? bytes : 1); if (!p) { LG.refused++; throw std::bad_alloc(); }      // the machine itself is out of memory: a refusal like any other
        memset(p, 0xEE, bytes); LG.regions[p] = bytes; return (T*)p;
    }
    void deallocate(T* p, size_t) {
        auto it = LG.regions.find((char*)p);
        if (it == LG.regions.end()) { LG.foreign++; return; }
        LG.got_back++; memset(it->first, 0xDD, it->second); free(it->first); LG.regions.erase(it);
    }
    template <class U> bool operator==(const FaultyAlloc<U>&) const { return true; }
    template <class U> bool operator!=(const FaultyAlloc<U>&) const { return false; }
};
static bool inside_regions(char* p, size_t n) { for (auto& r : LG.regions) if (p >= r.first && p + n <= r.first + r.second) return true; return false; }

struct Blk { char* p; size_t n; unsigned char fill; };
static bool g_nontrivial = false; static char g_cur[1200];
template <class Pool> static bool drive(Pool& pool, const std::string& line, char* fbuf, size_t fbytes) {
    std::vector<Blk> live; int opno = 0; long fails_seen = 0;
    auto check_live = [&](const std::string& when) -> bool {
        for (size_t i = 0; i < live.size(); i++) { for (size_t k = 0; k < live[i].n; k++) if ((unsigned char)live[i].p[k] != live[i].fill) return fail(when + ": live block " + num((long)i) + " (" + num((long)live[i].n) + " bytes) was overwritten at offset " + num((long)k)); }
        return true; };
    auto admit = [&](char* p, size_t n, const std::string& what) -> bool {
        if (!p) return true;
        if (fbuf ? !(p >= fbuf && p + n <= fbuf + fbytes) : !inside_regions(p, n)) return fail(what + " returned a block of " + num((long)n) + " bytes that does not lie inside memory obtained from this pool's own allocator");
        for (auto& b : live) if (p < b.p + b.n && b.p < p + n) return fail(what + " returned a block that overlaps a live block");
        return true; };
    for (auto& op : split(kv(line, "ops"), ',')) {
        opno++; char c = op[0]; long a = op.size() > 1 ? atol(op.c_str() + 1) : 0; size_t colon = op.find(':'); long b = colon == std::string::npos ? 0 : atol(op.c_str() + colon + 1);
        long refused_before = LG.refused; std::string what = "op " + num(opno) + " (" + op + ")";
        try {
            if (c == 'm') {
                char* p = (char*)pool.malloc((size_t)a);
                if (!p) { fails_seen++; if (!fbuf && LG.refused == refused_before && a < (1 << 26)) return fail(what + ": malloc(" + num(a) + ") failed although the allocator refused nothing"); }
                else { if (!admit(p, (size_t)a, what)) return false; unsigned char f = (unsigned char)(0x10 + opno % 200); memset(p, f, (size_t)a); live.push_back({ p, (size_t)a, f }); }
            } else if (c == 'f') {
                if (live.empty()) continue; size_t i = (size_t)a % live.size(); pool.free(live[i].p); live.erase(live.begin() + (long)i);
            } else if (c == 'r') {
                if (live.empty()) continue; size_t i = (size_t)a % live.size(); Blk old = live[i];
                char* p = (char*)pool.realloc(old.p, (size_t)b);
                if (b == 0) { live.erase(live.begin() + (long)i); if (p) return fail(what + ": realloc(p, 0) returned a block"); }
                else if (!p) { fails_seen++; if (!fbuf && LG.refused == refused_before && b < (1 << 26)) return fail(what + ": realloc failed although the allocator refused nothing"); }      // the old block stays valid
                else {
                    live.erase(live.begin() + (long)i); if (!admit(p, (size_t)b, what)) return false;
                    size_t keep = std::min(old.n, (size_t)b); for (size_t k = 0; k < keep; k++) if ((unsigned char)p[k] != old.fill) return fail(what + ": realloc lost the contents at offset " + num((long)k));
                    unsigned char f = (unsigned char)(0x10 + opno % 200); memset(p, f, (size_t)b); live.push_back({ p, (size_t)b, f });
                }
            } else if (c == 'c') { pool.recycle(); live.clear(); }
            else continue;
        } catch (std::exception& e) { return fail(what + ": the exception '" + e.what() + "' thrown by the underlying allocator left the pool call (a refused raw request must make the call report failure)"); }
        catch (...) { return fail(what + ": an exception thrown by the underlying allocator left the pool call"); }
        if (!check_live(what)) return false;
    }
    // once the allocator stops refusing, a request succeeds again
    LG.armed = false;
    if (!fbuf) { try { char* p = (char*)pool.malloc(100); if (!p) return fail("malloc(100) still fails after the allocator stopped refusing"); if (!admit(p, 100, "the final malloc")) return false; pool.free(p); } catch (...) { return fail("the final malloc threw"); } }
    if (!check_live("at the end")) return false;
    g_nontrivial = fails_seen > 0 || LG.refused > 0;
    return true;
}
static bool run_case(const std::string& line) {
    g_err.clear(); g_nontrivial = false; snprintf(g_cur, sizeof g_cur, "%s", line.c_str());
    LG = Ledger();
    for (auto& f : split(kv(line, "fail"), ',')) { if (f == "-") continue; size_t p = f.find(':'); LG.plan[atol(f.c_str())] = p == std::string::npos ? 0 : atoi(f.c_str() + p + 1); }
    int kind = atoi(kv(line, "kind").c_str()); bool ok;
    if (kind == 1) {
        size_t bytes = (size_t)std::max(64L, atol(kv(line, "buf").c_str())); std::vector<char> buf(bytes + 64, (char)0xEE);
        { tbb::fixed_pool pool(buf.data(), bytes); ok = drive(pool, line, buf.data(), bytes); }
        if (ok) for (size_t k = bytes; k < bytes + 64; k++) if ((unsigned char)buf[k] != 0xEE) return fail("fixed_pool wrote behind its buffer");
        return ok;
    }
    {
        tbb::memory_pool<FaultyAlloc<char>> pool; ok = drive(pool, line, nullptr, 0);
    }
    if (!ok) return false;
    if (!LG.regions.empty()) return fail(num((long)LG.regions.size()) + " raw regions were not given back when the pool was destroyed");
    if (LG.foreign) return fail(num(LG.foreign) + " deallocate calls for memory this allocator never handed out (or handed back twice)");
    return true;
}

static int pick(int lo, int hi) { return *rc::gen::resize(100, rc::gen::inRange(lo, hi + 1)); }
static std::string gen_case() {
    int kind = pick(0, 3) == 0 ? 1 : 0; static const int SZ[] = { 1, 8, 24, 64, 100, 256, 1000, 4000, 8128, 8200, 20000, 70000, 300000, 1200000, 5000000 };
    std::string fl; int nf = kind ? 0 : pick(0, 3); std::set<int> ks; for (int i = 0; i < nf; i++) ks.insert(pick(1, 6)); for (int k : ks) fl += (fl.empty() ? "" : ",") + std::to_string(k) + ":" + std::to_string(pick(0, 2)); if (fl.empty()) fl = "-";
    int nops = pick(1, 30); std::string ops;
    for (int i = 0; i < nops; i++) { int c = pick(0, 9); std::string o;
        if (c < 5) o = "m" + std::to_string(SZ[pick(0, kind ? 9 : 14)] + pick(-1, 1) * pick(0, 7));
        else if (c < 7) o = "f" + std::to_string(pick(0, 20));
        else if (c < 9) o = "r" + std::to_string(pick(0, 20)) + ":" + std::to_string(pick(0, 6) == 0 ? 0 : SZ[pick(0, kind ? 9 : 13)]);
        else o = "c";
        if (o[0] == 'm' && atol(o.c_str() + 1) < 1) o = "m1";
        ops += (i ? "," : "") + o; }
    static const int BUF[] = { 4096, 20000, 70000, 300000, 1100000 };
    return "mp kind=" + std::to_string(kind) + " buf=" + std::to_string(BUF[pick(0, 4)]) + " fail=" + fl + " ops=" + ops;
}
static unsigned long long fnv(const std::string& s) { unsigned long long h = 1469598103934665603ull; for (unsigned char c : s) { h ^= c; h *= 1099511628211ull; } return h; }
static std::string jesc(const std::string& s) { std::string o = "\""; for (char c : s) { if (c == '"' || c == '\\') { o += '\\'; o += c; } else if (c == '\n') o += "\\n"; else o += c; } return o + "\""; }
static const char* g_rd = nullptr; static bool g_replaying = false;
static void on_crash(int sig) {      // an exception that unwinds into the allocator's C frames ends in terminate(): the current case is the replay file
    if (g_replaying) { printf("VIOLATION POOL-CONTRACT crash (signal %d) inside a pool call\n", sig); fflush(stdout); _exit(1); }
    char name[600]; snprintf(name, sizeof name, "%s/C18-mempool-%016llx.case", g_rd ? g_rd : ".", fnv(g_cur));
    FILE* f = fopen(name, "w"); if (f) { fprintf(f, "%s\n# verdict: VIOLATION POOL-CONTRACT crash (signal %d) inside a pool call\n# replay: c18_mempool_rc replay <this file>\n", g_cur, sig); fclose(f); }
    printf("{\"evaluations\":1,\"nontrivial_hashes\":[],\"classes\":{},\"sums\":{},\"samples\":[],\"inconclusive\":0,\"wall_s\":0,\"violations\":[{\"kind\":\"POOL-CONTRACT\",\"detail\":\"crash (signal %d) inside a pool call (not shrunk)\",\"replay\":\"%s\",\"case\":\"%s\"}]}\n", sig, name, g_cur);
    fflush(stdout); _exit(1);
}

int main(int argc, char** argv) {
    { struct sigaction sa; memset(&sa, 0, sizeof sa); sa.sa_handler = on_crash; for (int sg : { SIGSEGV, SIGBUS, SIGABRT, SIGFPE, SIGILL }) sigaction(sg, &sa, nullptr); }
    if (argc >= 3 && std::string(argv[1]) == "replay") { g_replaying = true; std::ifstream f(argv[2]); std::string l; while (std::getline(f, l)) { if (l.empty() || l[0] == '#') continue; bool ok = run_case(l); printf("%s %s\n", ok ? "OK" : "VIOLATION POOL-CONTRACT", g_err.c_str()); return ok ? 0 : 1; } return 2; }
    long max_success = argc > 1 ? atol(argv[1]) : 2000; const char* sd = getenv("VERIF_LEG_SEED"); g_rd = getenv("VERIF_REPLAY_DIR");
    std::string params = "seed=" + std::string(sd ? sd : "1") + " max_success=" + std::to_string(max_success) + " max_size=100"; setenv("RC_PARAMS", params.c_str(), 1);
    auto t0 = std::chrono::steady_clock::now();
    unsigned long long evals = 0; std::set<unsigned long long> nt; std::vector<std::string> samples; std::string failing; std::map<std::string, long> cls;
    bool ok = rc::check("memory_pool<Alloc> / fixed_pool over a refusing allocator", [&] {
        std::string c = gen_case(); evals++;
        bool good = run_case(c);
        if (good && g_nontrivial) { if (nt.insert(fnv(c)).second) cls[c.find("kind=1") != std::string::npos ? "mempool_fixed_pool_exhausted" : "mempool_raw_request_refused"]++; if (samples.size() < 4 && nt.size() % 53 == 1) samples.push_back(c); }
        if (!good) failing = c;
        RC_ASSERT(good);
    });
    std::string viol;
    if (!ok && !failing.empty() && !run_case(failing)) {
        char name[600]; snprintf(name, sizeof name, "%s/C18-mempool-%016llx.case", g_rd ? g_rd : ".", fnv(failing));
        FILE* fp = fopen(name, "w"); if (fp) { fprintf(fp, "%s\n# verdict: VIOLATION POOL-CONTRACT %s\n# replay: c18_mempool_rc replay <this file>\n", failing.c_str(), g_err.c_str()); fclose(fp); }
        viol = "{\"kind\":\"POOL-CONTRACT\",\"detail\":" + jesc(g_err) + ",\"replay\":" + jesc(name) + ",\"case\":" + jesc(failing) + "}";
    }
    double wall = std::chrono::duration<double>(std::chrono::steady_clock::now() - t0).count();
    std::string j = "{\"evaluations\":" + std::to_string(evals) + ",\"nontrivial_hashes\":[";
    { bool f = true; int n = 0; for (auto h : nt) { if (n++ >= 6000) break; char b[40]; snprintf(b, sizeof b, "%s\"p%llx\"", f ? "" : ",", h); j += b; f = false; } }
    j += "],\"classes\":{"; { bool f = true; for (auto& kv2 : cls) { j += (f ? "" : ",") + jesc(kv2.first) + ":" + std::to_string(kv2.second); f = false; } }
    j += "},\"sums\":{},\"samples\":["; for (size_t i = 0; i < samples.size(); i++) j += (i ? "," : "") + jesc(samples[i]);
    char w[64]; snprintf(w, sizeof w, "%.2f", wall); j += "],\"inconclusive\":0,\"wall_s\":" + std::string(w) + ",\"violations\":[" + viol + "]}";
    fflush(stderr); puts(j.c_str());
    return viol.empty() ? 0 : 1;
}
