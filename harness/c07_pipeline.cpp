// C07 -- parallel_pipeline: every item passes every later filter exactly once, serial filters run one
// invocation at a time, all serial_in_order filters see one common order (that of the first
// serial_in_order filter), live tokens never exceed max_number_of_live_tokens, the call returns only
// after end of input was signalled and every emitted item left the last filter.  DESIGN.md s.6 C07.
//
// program text:
//   pipe par=<1..4, 10..12> ntok=<1..16> n=<0..40> nf=<1..6> split=<1..nf> form=<0..3> stopw=<k> rounds=<1|2> tokx=<0, 1..5 huge token limit> nest=<stage:item,...|->   (nest: that invocation runs a nested parallel_for)
//   f <stage> <mode p|i|o> <link 0|1|2> <ctor 0|1> w0 w1 ... w(n-1)
// mode  p parallel, i serial_in_order, o serial_out_of_order
// link  type of the value this filter hands to the next one: 0 int (passed inside the void*; id 0 is a
//       null object), 1 Item* (pointer), 2 Big (non-trivial: allocated token, moved); ignored for the last filter
// ctor  1 = the filter is built with filter<T,U>(mode, body) instead of make_filter<T,U>(mode, body)
// w     decision points of work the filter spends on item id (this is what makes items overtake)
// split filters [0,split) are composed left-associated, [split,nf) right-associated, both halves joined
//       by & (form 0/1) or by the variadic parallel_pipeline overload (form 2/3); form 1/3 pass an explicit context
// stopw work inside the input-filter invocation that signals flow_control::stop()
// rounds 2 = the same filter chain object is run a second time (same oracles, fresh logs)
#include "oneapi/tbb/parallel_pipeline.h"
#include "oneapi/tbb/parallel_for.h"
#include <set>
#include <regex>
#include "oneapi/tbb/global_control.h"
#include "../engine/drv/drv.h"

const char* H_PROP = "C07";
bool H_TSO = true;

// ------------------------------------------------------------------ generator
std::string h_gen(Src& s) {
    int par = 1 + (int)s.weighted({ 1, 4, 4, 3 });
    bool wide = s.coin(8);       // many threads, many tokens, early items slow: a late item reaches a serial stage first, more than twice the ring size ahead of the lowest token
    if (wide) par = 10 + (int)s.choose(3);
    int ntok = 1 + (int)s.weighted({ 1, 2, 3, 3, 2, 2, 1, 2, 1, 1, 0, 2, 0, 0, 0, 1 });      // up to 16: more than twice the initial ring of a serial stage
    if (wide) ntok = 10 + (int)s.choose(7);
    static const int ns[] = { 0, 1, 2, 3, 5, 6, 8, 9, 12, 16, 17, 24, 33, 40 };
    int n = ns[s.choose(14)]; if (wide && n < 12) n = 12 + (int)s.choose(12);
    int nf = 1 + (int)s.weighted({ 1, 4, 6, 5, 3, 2 });
    int split = nf > 1 ? s.range(1, nf) : 1; if (s.flip()) split = nf;
    int form = (int)s.choose(4); if (split == nf && form >= 2) form -= 2;
    int stopw = s.coin(3) ? s.range(0, 20) : 0;
    int rounds = s.coin(5) ? 2 : 1;
    int tokx = s.coin(12) ? s.range(1, 5) : 0;        // "unlimited": SIZE_MAX, 2^63, 2^63-1, 2^32+1, 2^31 live tokens
    // filter bodies that run a nested blocking loop: the waiting thread re-enters the pipeline's own tasks (also the one that signals stop())
    std::string nest = "-";
    if (n > 0 && s.coin(4)) { nest = ""; int k = s.range(1, 3); for (int i = 0; i < k; i++) nest += (i ? "," : "") + std::to_string(s.coin(2) ? 0 : s.range(0, nf - 1)) + ":" + std::to_string(s.range(0, n - 1)); }
    std::string o = "pipe par=" + std::to_string(par) + " ntok=" + std::to_string(ntok) + " n=" + std::to_string(n) + " nf=" + std::to_string(nf) +
                    " split=" + std::to_string(split) + " form=" + std::to_string(form) + " stopw=" + std::to_string(stopw) + " rounds=" + std::to_string(rounds) + " tokx=" + std::to_string(tokx) + " nest=" + nest + "\n";
    // work profile of the whole case: uniform small / mixed / a few very slow items (a slow item in a parallel stage lets many later ones park behind it)
    // profile 3: the earlier an item, the slower it is in every parallel stage, so late items reach the next serial stage first (far ahead of the lowest token)
    int prof = (int)s.weighted({ 1, 4, 4, 3 }); if (wide) prof = 3;
    for (int f = 0; f < nf; f++) {
        // serial_in_order filters after a parallel one are where tokens get parked; make them frequent
        uint32_t m = s.weighted({ 5, 4, 2 });
        const char* mc = m == 0 ? "p" : m == 1 ? "i" : "o";
        int link = (int)s.choose(3), ctor = s.coin(4) ? 1 : 0;
        o += "f " + std::to_string(f) + " " + mc + " " + std::to_string(link) + " " + std::to_string(ctor);
        for (int i = 0; i < n; i++) {
            int w;
            if (prof == 0) w = s.range(0, 2);
            else if (prof == 1) w = s.coin(3) ? s.range(0, 30) : s.range(0, 3);
            else if (prof == 2) w = s.coin(6) ? s.range(12, 30) : s.range(0, 1);
            else w = (m == 0) ? std::max(0, 48 - 4 * (i % 16)) + s.range(0, 2) : s.range(0, 1);
            o += " " + std::to_string(w);
        }
        o += "\n";
    }
    return o;
}

// ------------------------------------------------------------------ oracle state (plain memory: only the baton holder runs)
struct Inv { int id; uint64_t t_in, t_out; };
struct Stage { char mode = 'p'; int link = 0, ctor = 0; std::vector<int> w; std::vector<Inv> log; std::vector<int> count, done; int inside = 0; };
static std::vector<Stage> F; static int g_n, g_nf, g_ntok, g_split, g_form, g_stopw; static size_t g_ntok_arg = 1; static std::set<std::pair<int, int>> g_nest; static long g_nested_runs = 0, g_nested_reentry = 0; static int g_in_nested = 0;
static int g_next = 0, g_live = 0, g_max_live = 0, g_stops = 0; static bool g_returned = false; static uint64_t g_first_stop = 0; static long g_after_stop = 0;
static long g_big_live = 0, g_big_made = 0, g_other_thread = 0;

struct Item { int id; int stamp; };
static std::vector<Item> g_items;
struct Big {
    int id; unsigned char pad[28];
    explicit Big(int i) : id(i) { memset(pad, i & 0xff, sizeof pad); g_big_live++; g_big_made++; }
    Big(const Big& o) : id(o.id) { memcpy(pad, o.pad, sizeof pad); g_big_live++; g_big_made++; }
    Big(Big&& o) : id(o.id) { memcpy(pad, o.pad, sizeof pad); g_big_live++; g_big_made++; }
    Big& operator=(const Big& o) { id = o.id; memcpy(pad, o.pad, sizeof pad); return *this; }
    ~Big() { if (--g_big_live < 0) vs_violation("TOKEN-OBJECT", "more item objects destroyed than constructed"); }
    bool intact() const { for (unsigned char c : pad) if (c != (unsigned char)(id & 0xff)) return false; return true; }
};
template <class T> struct Val;
template <> struct Val<int> { static int make(int id) { return id; } static int id(const int& v) { return v; } };
template <> struct Val<Item*> { static Item* make(int id) { return &g_items[id]; }
    static int id(Item* const& v) { if (v < g_items.data() || v >= g_items.data() + g_items.size()) vs_violation("INVENTED-ITEM", "a filter received a pointer that no filter produced"); return v->id; } };
template <> struct Val<Big> { static Big make(int id) { return Big(id); } static int id(const Big& v) { if (!v.intact()) vs_violation("TORN-ITEM", "item %d arrived with a damaged payload", v.id); return v.id; } };

static void enter(int s, int id) {
    Stage& st = F[s];
    if (g_returned) vs_violation("BODY-AFTER-RETURN", "filter %d was invoked for item %d after parallel_pipeline returned", s, id);
    if (id < 0 || id >= g_n) vs_violation("INVENTED-ITEM", "filter %d received item id %d outside [0,%d)", s, id, g_n);
    if (++st.count[id] > 1) vs_violation("ITEM-TWICE", "item %d passed filter %d twice", id, s);
    if (s > 0 && F[s - 1].done[id] != 1) vs_violation("STAGE-SKIPPED", "item %d reached filter %d but has not left filter %d", id, s, s - 1);
    if (st.mode != 'p' && ++st.inside > 1) vs_violation("SERIAL-OVERLAP", "serial filter %d (mode %c) runs two invocations at once (item %d joined)", s, st.mode, id);
    if (s == 0) {
        if (++g_live > g_ntok) vs_violation("TOKEN-LIMIT", "%d items in flight with max_number_of_live_tokens=%d (item %d entered the input filter)", g_live, g_ntok, id);
        if (g_live > g_max_live) g_max_live = g_live;
        if (g_stops) g_after_stop++;   // cannot happen with this input filter; kept as a cross-check
    }
    if (vs_self() != 0) g_other_thread++;
    st.log.push_back({ id, vs_now(), 0 });
}
static void leave(int s, int id, size_t slot) {
    Stage& st = F[s];
    st.log[slot].t_out = vs_now(); st.done[id]++;
    if (st.mode != 'p') st.inside--;
    if (s == g_nf - 1) g_live--;
}
static void body(int s, int id) {
    enter(s, id); size_t slot = F[s].log.size() - 1; if (g_in_nested) g_nested_reentry++;
    vs_work(F[s].w[id]);
    if (g_nest.count({ s, id })) { g_nested_runs++; g_in_nested++; tbb::parallel_for(0, 3, [&](int) { vs_work(2 + F[s].w[id] / 4); }, tbb::simple_partitioner()); g_in_nested--; }
    leave(s, id, slot);
}
// the input-filter invocation that finds no more input
static void stop_invocation(tbb::flow_control& fc) {
    if (g_returned) vs_violation("BODY-AFTER-RETURN", "the input filter was invoked after parallel_pipeline returned");
    Stage& st = F[0];
    if (st.mode != 'p' && ++st.inside > 1) vs_violation("SERIAL-OVERLAP", "serial input filter runs two invocations at once (the stopping one joined)");
    if (++g_live > g_ntok) vs_violation("TOKEN-LIMIT", "%d items in flight with max_number_of_live_tokens=%d (end-of-input invocation)", g_live, g_ntok);
    vs_work(g_stopw);
    fc.stop(); if (!g_stops++) g_first_stop = vs_now();
    if (st.mode != 'p') st.inside--;
    g_live--;
}

template <class Out> struct SrcBody {
    Out operator()(tbb::flow_control& fc) const {
        if (g_next >= g_n) { stop_invocation(fc); return Val<Out>::make(0); }
        int id = g_next++; body(0, id); return Val<Out>::make(id);
    }
};
struct SingleBody { void operator()(tbb::flow_control& fc) const { if (g_next >= g_n) { stop_invocation(fc); return; } int id = g_next++; body(0, id); } };
template <class In, class Out> struct MidBody { int s; Out operator()(In x) const { int id = Val<In>::id(x); body(s, id); return Val<Out>::make(id); } };
template <class In> struct SinkBody { int s; void operator()(const In& x) const { int id = Val<In>::id(x); body(s, id); } };

static tbb::filter_mode fm(int s) { return F[s].mode == 'p' ? tbb::filter_mode::parallel : F[s].mode == 'i' ? tbb::filter_mode::serial_in_order : tbb::filter_mode::serial_out_of_order; }
template <class T, class U> static tbb::filter<T, U> mid(int s) {
    if (F[s].ctor) return tbb::filter<T, U>(fm(s), MidBody<T, U>{ s });
    return tbb::make_filter<T, U>(fm(s), MidBody<T, U>{ s });
}
template <class T> static tbb::filter<T, void> sink(int s) {
    if (F[s].ctor) return tbb::make_filter(fm(s), SinkBody<T>{ s });        // deduced filter<T,void>
    return tbb::make_filter<T, void>(fm(s), SinkBody<T>{ s });
}
template <class T> static tbb::filter<void, T> source() {
    if (F[0].ctor) return tbb::filter<void, T>(fm(0), SrcBody<T>{});
    return tbb::make_filter<void, T>(fm(0), SrcBody<T>{});
}
// filters [i, nf) with input type T, right-associated
template <class T> static tbb::filter<T, void> build_right(int i) {
    if (i == g_nf - 1) return sink<T>(i);
    switch (F[i].link) {
    case 0: return mid<T, int>(i) & build_right<int>(i + 1);
    case 1: return mid<T, Item*>(i) & build_right<Item*>(i + 1);
    default: return mid<T, Big>(i) & build_right<Big>(i + 1);
    }
}
static void reset_round();
static void judge_round(int rd);
static int g_rounds = 1;
static void run_chain(const tbb::filter<void, void>& chain) {
    for (int rd = 0; rd < g_rounds; rd++) {
        if (rd) reset_round();
        if (g_form & 1) { tbb::task_group_context ctx; tbb::parallel_pipeline(g_ntok_arg, chain, ctx); }
        else tbb::parallel_pipeline(g_ntok_arg, chain);
        g_returned = true; judge_round(rd);
    }
}
template <class T> static void run_two(const tbb::filter<void, T>& left, const tbb::filter<T, void>& right) {
    if (g_form < 2) { run_chain(left & right); return; }
    for (int rd = 0; rd < g_rounds; rd++) {
        if (rd) reset_round();
        if (g_form & 1) { tbb::task_group_context ctx; tbb::parallel_pipeline(g_ntok_arg, left, right, ctx); }
        else tbb::parallel_pipeline(g_ntok_arg, left, right);
        g_returned = true; judge_round(rd);
    }
}
// acc covers filters [0,i) and hands out T; left-associated up to g_split
template <class T> static void run_left(const tbb::filter<void, T>& acc, int i) {
    if (i == g_nf - 1 && g_split == g_nf) { run_chain(acc & sink<T>(i)); return; }
    if (i == g_split) { run_two<T>(acc, build_right<T>(i)); return; }
    switch (F[i].link) {
    case 0: run_left<int>(acc & mid<T, int>(i), i + 1); break;
    case 1: run_left<Item*>(acc & mid<T, Item*>(i), i + 1); break;
    default: run_left<Big>(acc & mid<T, Big>(i), i + 1); break;
    }
}

// ------------------------------------------------------------------ judging
static long n_overtake_in = 0, n_reorder_between = 0, n_parked = 0, n_grew = 0;
static std::vector<int> order_by(const std::vector<Inv>& log, bool by_out) {
    std::vector<std::pair<uint64_t, int>> v; for (auto& e : log) v.push_back({ by_out ? e.t_out : e.t_in, e.id });
    std::sort(v.begin(), v.end()); std::vector<int> r; for (auto& p : v) r.push_back(p.second); return r;
}
static void judge_round(int rd) {
    if (!g_stops) vs_violation("EARLY-RETURN", "parallel_pipeline returned (round %d) although the input filter never signalled end of input (%d of %d items emitted)", rd, g_next, g_n);
    if (g_next != g_n) vs_violation("EARLY-RETURN", "parallel_pipeline returned after %d of %d items", g_next, g_n);
    for (int s = 0; s < g_nf; s++) for (int id = 0; id < g_n; id++) {
        if (F[s].count[id] != 1) vs_violation("LOST-ITEM", "parallel_pipeline returned but item %d passed filter %d %d times", id, s, F[s].count[id]);
        if (F[s].done[id] != 1) vs_violation("EARLY-RETURN", "parallel_pipeline returned while item %d is still inside filter %d", id, s);
    }
    if (g_live != 0) vs_violation("EARLY-RETURN", "parallel_pipeline returned with %d items in flight", g_live);
    if (g_big_live != 0) vs_violation("TOKEN-OBJECT", "%ld item objects still alive after parallel_pipeline returned (%ld made)", g_big_live, g_big_made);
    // one common order for all serial_in_order filters = the order of the first of them
    int f0 = -1; std::vector<int> seq0;
    for (int s = 0; s < g_nf; s++) if (F[s].mode == 'i') {
        std::vector<int> seq = order_by(F[s].log, false);
        if (f0 < 0) { f0 = s; seq0 = seq; continue; }
        if (seq != seq0) {
            size_t k = 0; while (k < seq.size() && seq[k] == seq0[k]) k++;
            vs_violation("ORDER", "serial_in_order filter %d processed item %d at position %zu where the first serial_in_order filter %d processed item %d", s, seq[k], k, f0, seq0[k]);
        }
    }
    // non-triviality, measured: did an item overtake another one
    for (int s = 0; s < g_nf; s++) {
        std::vector<int> in = order_by(F[s].log, false), out = order_by(F[s].log, true);
        if (in != out) n_overtake_in++;
        if (s + 1 < g_nf) {
            std::vector<int> nin = order_by(F[s + 1].log, false);
            if (nin != out) { n_reorder_between++; if (F[s + 1].mode == 'i') n_parked++; }
            if (F[s + 1].mode != 'p') {
                // an item that left filter s while >= 4 items that the serial filter s+1 takes before it had not yet left s+1: the ring (initial size 4) had to grow
                std::vector<int> pos(g_n, 0); for (size_t k = 0; k < nin.size(); k++) pos[nin[k]] = (int)k;
                for (auto& e : F[s].log) { int before = 0; for (auto& d : F[s + 1].log) if (d.t_out && d.t_out < e.t_out) before++; if (pos[e.id] - before >= 4) { n_grew++; break; } }
            }
        }
    }
}
static void reset_round() {
    for (auto& st : F) { st.log.clear(); st.count.assign(g_n, 0); st.done.assign(g_n, 0); st.inside = 0; }
    g_next = 0; g_live = 0; g_stops = 0; g_returned = false; g_first_stop = 0;
}

void h_run(Case& c) {
    int par = 2;
    for (auto& l : c.lines) {
        auto w = split_ws(l);
        if (w[0] == "pipe") {
            par = (int)kvl(l, "par", 2); g_ntok = (int)kvl(l, "ntok", 1); g_n = (int)kvl(l, "n", 0); g_nf = (int)kvl(l, "nf", 1); g_split = (int)kvl(l, "split", 1);
            g_form = (int)kvl(l, "form", 0); g_stopw = (int)kvl(l, "stopw", 0); g_rounds = (int)kvl(l, "rounds", 1);
            g_ntok_arg = (size_t)g_ntok; static const size_t HUGE_TOK[] = { ~(size_t)0, (size_t)1 << 63, ((size_t)1 << 63) - 1, ((size_t)1 << 32) + 1, (size_t)1 << 31 };
            int tokx = (int)kvl(l, "tokx", 0); if (tokx >= 1 && tokx <= 5) { g_ntok_arg = HUGE_TOK[tokx - 1]; g_ntok = 0x7fffffff; }
            std::string ns = kvs(l, "nest", "-"); if (ns != "-") for (auto& e : split_ws(std::regex_replace(ns, std::regex(","), " "))) { size_t p = e.find(':'); if (p != std::string::npos) g_nest.insert({ atoi(e.c_str()), atoi(e.c_str() + p + 1) }); }
        } else if (w[0] == "f" && w.size() >= 5) {
            int s = atoi(w[1].c_str()); if ((int)F.size() <= s) F.resize(s + 1);
            F[s].mode = w[2][0]; F[s].link = atoi(w[3].c_str()); F[s].ctor = atoi(w[4].c_str());
            for (size_t i = 5; i < w.size(); i++) F[s].w.push_back(atoi(w[i].c_str()));
        }
    }
    if ((int)F.size() != g_nf || g_nf < 1 || g_ntok < 1) vs_inconclusive("BAD-CASE", "filter lines do not match nf");
    for (auto& st : F) { st.w.resize(g_n, 0); }
    if (g_split < 1 || g_split > g_nf) g_split = g_nf;
    if (g_split == g_nf && g_form >= 2) g_form -= 2;
    g_items.resize(g_n); for (int i = 0; i < g_n; i++) g_items[i] = { i, 0 };
    reset_round();
    vs_begin(c.sched.c_str());
    {
        tbb::global_control gc(tbb::global_control::max_allowed_parallelism, (size_t)par);
        if (g_nf == 1) run_chain(F[0].ctor ? tbb::filter<void, void>(fm(0), SingleBody{}) : tbb::make_filter<void, void>(fm(0), SingleBody{}));
        else switch (F[0].link) {
        case 0: run_left<int>(source<int>(), 1); break;
        case 1: run_left<Item*>(source<Item*>(), 1); break;
        default: run_left<Big>(source<Big>(), 1); break;
        }
        // nothing of the pipeline may run after the call returned
        vs_wait_quiescent();
    }
    vs_end();
    vs_stat_add("n_items", g_n); vs_stat_add("n_body_on_worker", g_other_thread); if (g_other_thread) vs_stat_flag("worker_ran_filter"); vs_stat_add("n_overtake_in_stage", n_overtake_in); vs_stat_add("n_reorder_between", n_reorder_between);
    vs_stat_add("n_parked_inorder", n_parked); vs_stat_add("n_ring_grew", n_grew); vs_stat_add("n_after_stop", g_after_stop); vs_stat_max("max_live", g_max_live);
    if (n_overtake_in) vs_stat_flag("overtake_inside_stage"); if (n_reorder_between) vs_stat_flag("reordered_between_stages"); if (n_parked) vs_stat_flag("parked_for_inorder");
    if (g_nested_runs) vs_stat_flag("nested_loop_in_filter_body"); if (g_nested_reentry) vs_stat_flag("filter_invoked_inside_nested_wait"); if (g_ntok_arg > 0x7fffffff) vs_stat_flag("huge_token_limit"); if (n_grew) vs_stat_flag("ring_grew_while_parked"); if (g_after_stop) vs_stat_flag("input_after_stop"); if (g_max_live == g_ntok && g_n > 0) vs_stat_flag("token_limit_reached"); if (g_stops > 1) vs_stat_flag("several_stop_invocations");
    if (g_n == 0) vs_stat_flag("empty_input"); if (g_rounds > 1) vs_stat_flag("chain_reused");
    vs_stat_add("nt", (n_overtake_in + n_reorder_between) > 0 ? 1 : 0);
    vs_ok();
}

int main(int argc, char** argv) { return drv_main(argc, argv); }
