// C10 -- concurrent_hash_map: key-wise linearizable map, element reader/writer locks (accessors),
// no key lost / duplicated / resurrected through growth and lazy bucket rehashing.  DESIGN.md s.6 C10.
//
// program:  chm hash=<id|const|low|mul> threads=<n> fill=<nf> r=<r> pre=<k,k,..|-> mid=<none|rehash|rehash2|clear|swap>
//           t <i> <op> <op> ... [ | <op> ... ]          ('|' = quiescent point: all threads meet, thread 0 audits + runs `mid`)
// ops:  ia<k> insert(accessor,key)      ic<k> insert(const_accessor,key)   iv<k> insert(value)
//       va<k> insert(accessor,value)    vc<k> insert(const_accessor,value) mv<k> insert(value&&)
//       ea<k> emplace(accessor,..)      ec<k> emplace(const_accessor,..)   en<k> emplace(..)
//       fa<k> find(accessor)  fc<k> find(const_accessor)  ct<k> count  xk<k> erase(key)  W<n> work
//       accessor ops may carry  /w<n> (hold the accessor for n points)  and  /x (finish with erase(accessor) instead of release)
// Table growth of this implementation: 2 buckets -> 256 at the 1st element, -> 512 at the 255th, -> 1024 at the 511th;
// `fill` + `pre` put the table just below (or just past) such a threshold before the threads start.
// Domain (user-level deadlocks are not the library's): a thread holds at most one accessor and only works while holding
// it; rehash / clear / swap / iteration only at quiescent points.
#include "oneapi/tbb/concurrent_hash_map.h"
#include "../engine/drv/drv.h"
#include "../engine/lin/lin.h"

const char* H_PROP = "C10";
bool H_TSO = true;

enum { IA, IC, IV, VA, VC, MV, EA, EC, EN, FA, FC, CT, XK, WK, XA, NCODE };
static const char* CODE[NCODE] = { "ia", "ic", "iv", "va", "vc", "mv", "ea", "ec", "en", "fa", "fc", "ct", "xk", "W", "xa" };
static bool is_ins(int c) { return c <= EN; }
static bool acc_write(int c) { return c == IA || c == VA || c == EA || c == FA; }
static bool acc_const(int c) { return c == IC || c == VC || c == EC || c == FC; }
static const char* HMODE[4] = { "id", "const", "low", "mul" };
static const char* MID[5] = { "none", "rehash", "rehash2", "clear", "swap" };
static const int KOFF[8] = { 0, 256, 512, 4, 260, 128, 768, 20 };   // collide in the low hash bits / are parent+child of a split

// ------------------------------------------------------------------ generator
std::string h_gen(Src& s) {
    int hm = (int)s.weighted({ 6, 2, 2, 1 });
    int cls = (int)s.weighted({ 6, 2, 6, 3, 3, 1 });  // target element count class (just below / just past a growth threshold)
    int target = cls == 0 ? 0 : cls == 1 ? s.range(1, 3) : cls == 2 ? 254 - s.range(0, 2) : cls == 3 ? 255 + s.range(0, 3) : cls == 4 ? 510 - s.range(0, 2) : 511 + s.range(0, 2);
    int nt = s.range(2, 4), nk = s.range(1, 6), r = s.range(0, 3);
    std::vector<int> keys;
    for (int i = 0; i < nk; i++) { int k = r + KOFF[s.choose(8)]; if (std::find(keys.begin(), keys.end(), k) == keys.end()) keys.push_back(k); }
    std::string pre; int npre = 0;
    for (int k : keys) if (target > npre && s.flip()) { pre += (npre ? "," : "") + std::to_string(k); npre++; }
    int mid = (int)s.weighted({ 7, 2, 1, 2, 1 });
    std::string o = std::string("chm hash=") + HMODE[hm] + " threads=" + std::to_string(nt) + " fill=" + std::to_string(target - npre) + " r=" + std::to_string(r) +
                    " pre=" + (npre ? pre : "-") + " mid=" + MID[mid] + "\n";
    for (int t = 0; t < nt; t++) {
        o += "t " + std::to_string(t);
        int nops = s.range(1, 8), cut = mid ? s.range(0, nops) : -1;
        for (int i = 0; i < nops; i++) {
            if (i == cut) o += " |";
            int c = (int)s.weighted({ 4, 3, 3, 1, 1, 1, 2, 1, 1, 4, 4, 3, 6, 1 });
            if (c == WK) { o += " W" + std::to_string(s.range(1, 6)); continue; }
            o += std::string(" ") + CODE[c] + std::to_string(keys[s.choose((uint32_t)keys.size())]);
            if (acc_write(c) || acc_const(c)) {
                int w = s.range(0, 4); if (w) o += "/w" + std::to_string(w);
                if (s.coin(4)) o += "/x";
            }
        }
        if (cut == nops) o += " |";
        o += "\n";
    }
    return o;
}

// ------------------------------------------------------------------ instrumented mapped value
static thread_local int tl_cur_op = -1000000;     // creator id given to values constructed now (op index, or a prefill id < 0)
struct Val;
static std::set<const Val*> g_live;
static long n_constructed = 0, n_destroyed = 0;
struct Val {
    int creator, payload; mutable int writers = 0, readers = 0;
    void reg() { n_constructed++; if (!g_live.insert(this).second) vs_violation("VALUE-LIFETIME", "a value was constructed at %p on top of a live value", (void*)this); }
    Val() : creator(tl_cur_op), payload(0) { reg(); }
    explicit Val(int p) : creator(tl_cur_op), payload(p) { reg(); }
    Val(const Val& o) : creator(tl_cur_op), payload(o.payload) { reg(); }
    Val(Val&& o) : creator(tl_cur_op), payload(o.payload) { reg(); }
    Val& operator=(const Val&) = delete;
    ~Val() {
        n_destroyed++;
        if (!g_live.erase(this)) vs_violation("VALUE-LIFETIME", "value at %p destroyed twice / never constructed", (void*)this);
        if (writers || readers) vs_violation("DESTROYED-WHILE-HELD", "element (creator op %d) destroyed while %d writer / %d reader accessor(s) point to it", creator, writers, readers);
    }
};

static int g_hmode = 0;
struct HC {
    std::size_t hash(int k) const {
        std::size_t u = (std::size_t)(unsigned)k;
        switch (g_hmode) { case 0: return u; case 1: return 0; case 2: return (u << 8) | 0x2B; default: return u * 0x9E3779B97F4A7C15ull; }
    }
    bool equal(int a, int b) const { return a == b; }
};
struct Map : tbb::concurrent_hash_map<int, Val, HC> {
    // statistics only: look at the table without creating decision points
    std::size_t peek_mask() const { return this->my_mask.a.load(std::memory_order_relaxed); }
    std::size_t peek_flagged() const {
        std::size_t m = peek_mask(), n = 0;
        for (std::size_t i = 2; i <= m; i++) {
            auto sg = this->segment_index_of(i); auto* p = this->my_table[sg].a.load(std::memory_order_relaxed);
            if (!this->is_valid(p)) continue;
            if ((void*)p[i - this->segment_base(sg)].node_list.a.load(std::memory_order_relaxed) == tbb::detail::d2::rehash_req_flag) n++;
        }
        return n;
    }
};

// ------------------------------------------------------------------ program, history, model
struct Op { int code = WK, key = 0, hold = 0; bool xacc = false; };
struct Rec { int tid, code, key, phase; bool ret = false; int ver = -1; uint64_t inv = 0, resp = 0; std::size_t m0 = 0, m1 = 0; };
static std::vector<std::vector<std::vector<Op>>> g_prog;    // [thread][phase][op]
static std::vector<Rec> g_recs;
static std::map<int, int> g_model, g_model_other;           // key -> creator id of the element that must be present
static std::vector<int> g_universe;                         // every key that ever was in the table or is used by an op
static std::map<int, int> g_holders;
static int g_nt = 2, g_mid = 0, g_nphase = 1, g_arrived = 0, g_go = 0;
static Map* g_map; static Map* g_other;
static long n_overlap = 0, n_acc_wait = 0, n_grow_phase = 0, n_rehash_phase = 0, n_grow_op = 0, n_xa_lost = 0, n_held = 0;

static void tso_settle() { if (vs_tso_on) std::atomic_thread_fence(std::memory_order_seq_cst); }

static void hold_checks(const Val& v, bool write, int creator, int key) {
    if (!g_live.count(&v)) vs_violation("DESTROYED-WHILE-HELD", "element of key %d is no longer alive while an accessor points to it", key);
    if (v.creator != creator) vs_violation("DESTROYED-WHILE-HELD", "element of key %d was replaced under a held accessor (creator %d -> %d)", key, creator, v.creator);
    if (write ? (v.writers != 1 || v.readers != 0) : (v.writers != 0 || v.readers < 1))
        vs_violation("ACCESSOR-EXCLUSION", "while holding %s on key %d: writers=%d readers=%d", write ? "accessor" : "const_accessor", key, v.writers, v.readers);
}

template <class Acc> static void after_acquire(Map& m, Acc& acc, bool write, const Op& op, int id) {
    const Map::value_type& e = *acc; const Val& v = e.second; int key = op.key;
    if (!g_live.count(&v)) vs_violation("DESTROYED-WHILE-HELD", "%s%d returned an accessor to a destroyed element", CODE[op.code], key);
    if (e.first != key) vs_violation("WRONG-ELEMENT", "%s%d returned an accessor to key %d", CODE[op.code], key, e.first);
    if (is_ins(op.code) && g_recs[id].ret != (v.creator == id))
        vs_violation("WRONG-ELEMENT", "%s%d returned %d but the accessor points to an element created by op %d (this op is %d)", CODE[op.code], key, (int)g_recs[id].ret, v.creator, id);
    g_recs[id].ver = v.creator; int creator = v.creator;
    if (write) { if (v.writers || v.readers) vs_violation("ACCESSOR-EXCLUSION", "accessor on key %d granted while writers=%d readers=%d", key, v.writers, v.readers); v.writers = 1; }
    else { if (v.writers) vs_violation("ACCESSOR-EXCLUSION", "const_accessor on key %d granted while a writer accessor is held", key); v.readers++; }
    g_holders[key]++; n_held++;
    for (int i = 0; i < op.hold; i++) { vs_work(1); hold_checks(v, write, creator, key); }
    hold_checks(v, write, creator, key);
    if (write) v.writers = 0; else v.readers--;       // from here on the lock may legally be lost (release / upgrade inside erase)
    g_holders[key]--;
    if (!op.xacc) { acc.release(); return; }
    g_recs.push_back(Rec{ g_recs[id].tid, XA, key, g_recs[id].phase }); std::size_t x = g_recs.size() - 1;
    g_recs[x].ver = creator; g_recs[x].m0 = m.peek_mask(); g_recs[x].inv = vs_now();
    bool ret = m.erase(acc);
    tso_settle(); g_recs[x].resp = vs_now(); g_recs[x].m1 = m.peek_mask(); g_recs[x].ret = ret;
    if (!ret) n_xa_lost++;
    if (!acc.empty()) vs_violation("ACCESSOR-EMPTY", "erase(accessor) on key %d left the accessor non-empty", key);
}

static void do_op(Map& m, int tid, int phase, const Op& op, Map::accessor& wa, Map::const_accessor& ca) {
    if (op.code == WK) { vs_work(op.key); return; }
    g_recs.push_back(Rec{ tid, op.code, op.key, phase }); int id = (int)g_recs.size() - 1; int k = op.key;
    if (g_holders[k] > 0) n_acc_wait++;
    tl_cur_op = id; bool ret = false;
    g_recs[id].m0 = m.peek_mask(); g_recs[id].inv = vs_now();
    switch (op.code) {
    case IA: ret = m.insert(wa, k); break;
    case IC: ret = m.insert(ca, k); break;
    case IV: { Map::value_type v(k, Val(id)); ret = m.insert(v); break; }
    case VA: { Map::value_type v(k, Val(id)); ret = m.insert(wa, v); break; }
    case VC: { Map::value_type v(k, Val(id)); ret = m.insert(ca, v); break; }
    case MV: ret = m.insert(Map::value_type(k, Val(id))); break;
    case EA: ret = m.emplace(wa, k, Val(id)); break;
    case EC: ret = m.emplace(ca, k, Val(id)); break;
    case EN: ret = m.emplace(k, Val(id)); break;
    case FA: ret = m.find(wa, k); break;
    case FC: ret = m.find(ca, k); break;
    case CT: ret = m.count(k) != 0; break;
    case XK: ret = m.erase(k); break;
    }
    tso_settle();
    g_recs[id].resp = vs_now(); g_recs[id].m1 = m.peek_mask(); g_recs[id].ret = ret; tl_cur_op = -1000000;
    if (acc_write(op.code)) {
        if (wa.empty() != (op.code == FA && !ret)) vs_violation("ACCESSOR-EMPTY", "%s%d returned %d with %s accessor", CODE[op.code], k, (int)ret, wa.empty() ? "an empty" : "a non-empty");
        if (!wa.empty()) after_acquire(m, wa, true, op, id);
    } else if (acc_const(op.code)) {
        if (ca.empty() != (op.code == FC && !ret)) vs_violation("ACCESSOR-EMPTY", "%s%d returned %d with %s const_accessor", CODE[op.code], k, (int)ret, ca.empty() ? "an empty" : "a non-empty");
        if (!ca.empty()) after_acquire(m, ca, false, op, id);
    }
}

// per-key register model: absent / present(version = creator op of the element)
struct KeyModel {
    bool present = false; long ver = 0;
    std::string key() const { return (present ? "P" : "A") + std::to_string(present ? ver : 0); }
    bool apply(const LinOp& o) {
        bool ret = o.ret != 0;
        switch (o.kind) {
        case XK: if (ret != present) return false; present = false; return true;
        case XA: if (ret != (present && ver == o.a)) return false; if (ret) present = false; return true;
        case FA: case FC: case CT: if (ret != present) return false; return o.a == -1 || o.a == ver;
        default:  // inserts
            if (ret) { if (present) return false; present = true; ver = o.b; return true; }
            if (!present) return false; return o.a == -1 || o.a == ver;
        }
    }
};

static std::string dump_key_history(const std::vector<int>& idx) {
    std::string s; char b[200];
    for (int i : idx) { Rec& r = g_recs[i]; snprintf(b, sizeof b, "[#%d t%d %s%d->%d v%d @%lu-%lu] ", i, r.tid, CODE[r.code], r.key, (int)r.ret, r.ver, (unsigned long)r.inv, (unsigned long)r.resp); s += b; }
    return s;
}

// judge the history of one phase key by key, update g_model to the state at the end of the phase
static void judge_phase(int phase) {
    std::map<int, std::vector<int>> by_key;
    for (std::size_t i = 0; i < g_recs.size(); i++) if (g_recs[i].phase == phase) by_key[g_recs[i].key].push_back((int)i);
    for (auto& kv : by_key) {
        int key = kv.first; auto& idx = kv.second;
        bool init = g_model.count(key) != 0; int ins = 0, era = 0, last_ins = -1;
        for (int i : idx) { Rec& r = g_recs[i]; if (is_ins(r.code) && r.ret) { ins++; last_ins = i; } if ((r.code == XK || r.code == XA) && r.ret) era++; }
        for (std::size_t a = 0; a < idx.size(); a++) for (std::size_t b = a + 1; b < idx.size(); b++) {
            Rec &x = g_recs[idx[a]], &y = g_recs[idx[b]];
            if (x.tid != y.tid && x.inv < y.resp && y.inv < x.resp) n_overlap++;
        }
        std::vector<LinOp> h;
        for (int i : idx) { Rec& r = g_recs[i]; LinOp o; o.thread = r.tid; o.kind = r.code; o.a = r.ver; o.b = i; o.ret = r.ret; o.inv = r.inv; o.resp = r.resp; if (is_ins(r.code) && r.ret) o.a = -1; h.push_back(o); }
        KeyModel m0; m0.present = init; m0.ver = init ? g_model[key] : 0;
        LinChecker<KeyModel> lc(h); int res = lc.run(m0);
        if (res < 0) vs_inconclusive("LIN-BUDGET", "history of key %d too long for the checker", key);
        if (res == 0) {
            int fin = (init ? 1 : 0) + ins - era; const char* kind = "NOT-LINEARIZABLE";
            if (fin < 0 || fin > 1) kind = "DUP-WINNER";        // more successful inserts (erases) than absences (presences) of the key
            else if (era == 0) kind = "LOST-KEY";                // nothing was erased, yet some result says absent / inserted again
            vs_violation(kind, "key %d (initially %s, phase %d): no sequential map explains %s", key, init ? "present" : "absent", phase, dump_key_history(idx).c_str());
        }
        int fin = (init ? 1 : 0) + ins - era;
        if (fin == 1) { if (ins == 1) g_model[key] = last_ins; else if (ins > 1) g_model[key] = -1; /* several inserts: any of them may be the survivor */ }
        else g_model.erase(key);
    }
}

// quiescent audit: traversal == model, size, every key reachable by lookup, value ledger
static void audit(Map& m, std::map<int, int>& model, const char* where) {
    std::map<int, int> seen;
    for (auto it = m.begin(); it != m.end(); ++it) {
        const Val& v = it->second; int k = it->first;
        if (!g_live.count(&v)) vs_violation("TRAVERSAL-MISMATCH", "%s: traversal reached a destroyed element (key %d)", where, k);
        if (seen.count(k)) vs_violation("TRAVERSAL-MISMATCH", "%s: key %d appears twice in a traversal (duplicated)", where, k);
        seen[k] = v.creator;
        auto f = model.find(k);
        if (f == model.end()) vs_violation("TRAVERSAL-MISMATCH", "%s: key %d is in the table but absent in the model (resurrected / not erased)", where, k);
        if (f->second != -1 && f->second != v.creator) vs_violation("TRAVERSAL-MISMATCH", "%s: key %d holds the element created by op %d, model says op %d", where, k, v.creator, f->second);
        if (f->second == -1 && !(v.creator >= 0 && v.creator < (int)g_recs.size() && is_ins(g_recs[v.creator].code) && g_recs[v.creator].ret && g_recs[v.creator].key == k))
            vs_violation("TRAVERSAL-MISMATCH", "%s: key %d holds an element created by op %d which is not a successful insert of it", where, k, v.creator);
        f->second = v.creator;     // survivor among several successful inserts now known exactly
    }
    for (auto& kv : model) if (!seen.count(kv.first)) vs_violation("TRAVERSAL-MISMATCH", "%s: key %d is in the model but missing from the traversal (lost)", where, kv.first);
    if (m.size() != model.size()) vs_violation("SIZE-MISMATCH", "%s: size()=%zu, model has %zu keys", where, m.size(), model.size());
    for (int k : g_universe) {
        bool c = m.count(k) != 0, want = model.count(k) != 0;
        if (c != want) vs_violation(want ? "LOST-KEY" : "GHOST-KEY", "%s: count(%d)=%d at quiescence but the model says %s (traversal %s it)", where, k, (int)c, want ? "present" : "absent", seen.count(k) ? "contains" : "does not contain");
    }
}
static void ledger(const char* where) {
    if (g_live.size() != g_model.size() + g_model_other.size())
        vs_violation("VALUE-LEAK", "%s: %zu values alive (constructed %ld, destroyed %ld) but the tables hold %zu elements", where, g_live.size(), n_constructed, n_destroyed, g_model.size() + g_model_other.size());
}

static void run_phase(int tid, int phase) {
    Map::accessor wa; Map::const_accessor ca;
    for (auto& op : g_prog[tid][phase]) do_op(*g_map, tid, phase, op, wa, ca);
}
static std::size_t g_m0, g_f0;
static void phase_begin() { g_m0 = g_map->peek_mask(); g_f0 = g_map->peek_flagged(); }
static void phase_end() {
    if (g_map->peek_mask() != g_m0) n_grow_phase++;
    else if (g_map->peek_flagged() < g_f0) n_rehash_phase++;
}
static void thread_body(void* p) {
    int tid = (int)(intptr_t)p;
    run_phase(tid, 0);
    if (g_nphase == 2) { g_arrived++; vs_block_until([] { return g_go != 0; }); run_phase(tid, 1); }
}

void h_run(Case& c) {
    int fill = 0, r = 0; std::string pre;
    for (auto& l : c.lines) {
        auto w = split_ws(l);
        if (w[0] == "chm") {
            std::string hm = kvs(l, "hash", "id"); for (int i = 0; i < 4; i++) if (hm == HMODE[i]) g_hmode = i;
            std::string md = kvs(l, "mid", "none"); for (int i = 0; i < 5; i++) if (md == MID[i]) g_mid = i;
            g_nt = (int)kvl(l, "threads", 2); fill = (int)kvl(l, "fill", 0); r = (int)kvl(l, "r", 0); pre = kvs(l, "pre", "-");
        } else if (w[0] == "t") {
            int t = atoi(w[1].c_str()); if ((int)g_prog.size() <= t) g_prog.resize(t + 1);
            g_prog[t].assign(2, {}); int ph = 0;
            for (std::size_t i = 2; i < w.size(); i++) {
                const std::string& tk = w[i];
                if (tk == "|") { ph = 1; continue; }
                Op op;
                if (tk[0] == 'W') { op.code = WK; op.key = atoi(tk.c_str() + 1); }
                else {
                    op.code = -1; for (int k = 0; k < WK; k++) if (tk.compare(0, 2, CODE[k]) == 0) op.code = k;
                    if (op.code < 0) vs_inconclusive("BAD-CASE", "unknown op %s", tk.c_str());
                    op.key = atoi(tk.c_str() + 2);
                    std::size_t p = tk.find("/w"); if (p != std::string::npos) op.hold = atoi(tk.c_str() + p + 2);
                    op.xacc = tk.find("/x") != std::string::npos;
                }
                g_prog[t][ph].push_back(op);
            }
        }
    }
    if (g_nt < 1 || g_nt > 8 || fill < 0 || fill > 5000) vs_inconclusive("BAD-CASE", "bad header");
    g_prog.resize(g_nt); for (auto& t : g_prog) t.resize(2);
    g_nphase = g_mid ? 2 : 1;

    vs_begin(c.sched.c_str());
    static Map map, other; g_map = &map; g_other = &other;
    // ---- prefill (single-threaded): op keys listed in pre=, then fillers: 16 keys that share bucket r below 512 buckets and split over
    // r, r+256, r+512, r+768 later (identity hash), the rest spread out
    std::vector<int> pk;
    if (pre != "-") { std::string t = pre; for (auto& ch : t) if (ch == ',') ch = ' '; for (auto& x : split_ws(t)) pk.push_back(atoi(x.c_str())); }
    for (int i = 0; i < fill; i++) pk.push_back(i < 16 ? r + 2048 * (i / 4 + 1) + 256 * (i % 4) : 100000 + i * 7);
    for (std::size_t i = 0; i < pk.size(); i++) {
        tl_cur_op = -2 - (int)i;
        bool ok = (i & 1) ? map.insert(Map::value_type(pk[i], Val(0))) : map.emplace(pk[i], Val(0));
        if (!ok) vs_inconclusive("BAD-CASE", "prefill key %d twice", pk[i]);
        g_model[pk[i]] = -2 - (int)i;
    }
    tl_cur_op = -1000000;
    g_universe = pk;
    for (auto& t : g_prog) for (auto& ph : t) for (auto& op : ph) if (op.code != WK && std::find(g_universe.begin(), g_universe.end(), op.key) == g_universe.end()) g_universe.push_back(op.key);

    phase_begin();
    std::vector<int> ids;
    for (int t = 1; t < g_nt; t++) ids.push_back(vs_thread_start(thread_body, (void*)(intptr_t)t));
    run_phase(0, 0);
    if (g_nphase == 2) {
        vs_block_until([] { return g_arrived == g_nt - 1; });
        phase_end(); judge_phase(0); audit(map, g_model, "quiescent point"); ledger("quiescent point");
        switch (g_mid) {
        case 1: map.rehash(); break;
        case 2: map.rehash(2 * map.bucket_count()); break;
        case 3: map.clear(); g_model.clear(); break;
        case 4: map.swap(other); g_model_other.swap(g_model); break;
        }
        audit(map, g_model, "after the quiescent operation"); ledger("after the quiescent operation");
        if (g_mid == 4) audit(other, g_model_other, "swapped-out table");
        phase_begin();
        g_go = 1;
        run_phase(0, 1);
    }
    for (int id : ids) vs_thread_join(id);
    phase_end(); judge_phase(g_nphase - 1);
    audit(map, g_model, "end"); ledger("end");
    map.rehash(); audit(map, g_model, "end, after rehash()");
    if (g_mid == 4) audit(other, g_model_other, "swapped-out table at end");
    map.clear(); other.clear();
    if (!g_live.empty() || n_constructed != n_destroyed) vs_violation("VALUE-LEAK", "after clear(): %zu values alive, constructed %ld destroyed %ld", g_live.size(), n_constructed, n_destroyed);
    if (map.size() != 0 || map.begin() != map.end()) vs_violation("SIZE-MISMATCH", "table not empty after clear()");
    vs_end();

    for (auto& rc : g_recs) if (rc.m0 != rc.m1) n_grow_op++;
    vs_stat_add("n_ops", (long)g_recs.size()); vs_stat_add("n_overlap", n_overlap); vs_stat_add("n_acc_wait", n_acc_wait); vs_stat_add("n_grow_phase", n_grow_phase);
    vs_stat_add("n_rehash_phase", n_rehash_phase); vs_stat_add("n_grow_op", n_grow_op); vs_stat_add("n_xa_lost", n_xa_lost); vs_stat_add("n_held", n_held);
    vs_stat_flag((std::string("hash_") + HMODE[g_hmode]).c_str()); vs_stat_flag((std::string("mid_") + MID[g_mid]).c_str());
    if (n_grow_phase) vs_stat_flag("grew"); if (n_rehash_phase) vs_stat_flag("lazy_rehash_only"); if (n_grow_op) vs_stat_flag("op_spans_growth");
    if (n_overlap) vs_stat_flag("key_overlap"); if (n_acc_wait) vs_stat_flag("accessor_contended"); if (n_xa_lost) vs_stat_flag("erase_by_accessor_lost");
    vs_stat_add("nt", (n_overlap > 0 && (n_grow_phase > 0 || n_rehash_phase > 0)) ? 1 : 0);
    vs_ok();
}

int main(int argc, char** argv) { return drv_main(argc, argv); }
