// C01 -- every submitted unit of work runs exactly once (or is skipped once if cancelled); a wait
// covers everything submitted before and (transitively) during it.   DESIGN.md s.6 C01.
//
// program text:
//   cfg par=<1..4> ext=<1..3> arenas=<mc>:<res>,<mc>:<res>
//   u <id> <op> <op> ...          one line per unit; units 0..ext-1 are the external threads' scripts
// ops:  W<k>            k decision points of work
//       G<g>            create task_group g (owned by this unit; waited + destroyed at unit end)
//       R<g>:<u>        g.run(unit u)              H<g>:<u>   g.run(g.defer(unit u))
//       Q<g>:<u>        g.run_and_wait(unit u)     T<g>       g.wait()        C<g>   g.cancel()
//       P<n>:<grain>:<part>:<k>:<ctx>   parallel_for over [0,n) (part 0 simple 1 auto 2 static 3 affinity), k work per index;
//                       ctx=1: with its own ISOLATED task_group_context (a cancelled enclosing group must not touch it: every index runs)
//       K<n>            try_put n messages to a flow-graph function_node that has a node priority (critical tasks in the dispatch loop)
//       E<a>:<u>        arena a enqueue(unit u)    X<a>:<u>   arena a execute(inline unit u)
//       I<u>            this_task_arena::isolate(inline unit u)
//       S               idle: wait until every other thread is blocked (workers asleep)
#include "oneapi/tbb/task_group.h"
#include "oneapi/tbb/task_arena.h"
#include "oneapi/tbb/parallel_for.h"
#include "oneapi/tbb/global_control.h"
#include "oneapi/tbb/partitioner.h"
#include "oneapi/tbb/flow_graph.h"
#include "../engine/drv/drv.h"

const char* H_PROP = "C01";
bool H_TSO = true;

// ------------------------------------------------------------------ generator
struct GenSt { Src& s; int next_unit; int next_group; int narenas; std::vector<std::string> lines; int budget; };
// chain = arenas the executing thread already occupies at outer nesting levels: execute() back into one of them can wait for a
// slot the caller itself holds (user-level deadlock, outside the property), so it is never generated
static void gen_unit(GenSt& g, int uid, int depth, int own_group /* group this unit runs in, -1 none */, bool inline_unit, std::vector<int> chain = {}) {
    std::string o = "u " + std::to_string(uid);
    std::vector<int> mine;           // groups created by this unit
    std::vector<std::pair<int, int>> todo;   // (unit, kind) bodies to generate after this line
    std::map<int, int> todo_arena;
    int nops = g.s.range(1, depth == 0 ? 6 : 3);
    for (int k = 0; k < nops; k++) {
        bool can_sub = g.budget > 0 && depth < 3;
        uint32_t c = g.s.weighted({ 3, can_sub ? 5u : 0u, can_sub ? 2u : 0u, (g.budget > 0) ? 2u : 0u, (can_sub && g.narenas) ? 2u : 0u, (can_sub && g.narenas) ? 1u : 0u, can_sub ? 1u : 0u, depth == 0 ? 1u : 0u, mine.empty() ? 0u : 2u, 1u });
        if (c == 0) o += " W" + std::to_string(g.s.range(1, 8));
        else if (c == 1 || c == 2) {      // run / defer / run_and_wait into an owned group or the own group
            int grp;
            if (!mine.empty() && (own_group < 0 || g.s.flip())) grp = mine[g.s.choose((uint32_t)mine.size())];
            else if (own_group >= 0 && g.s.flip()) grp = own_group;
            else { grp = g.next_group++; mine.push_back(grp); o += " G" + std::to_string(grp); }
            int u = g.next_unit++; g.budget--;
            bool owned = std::find(mine.begin(), mine.end(), grp) != mine.end();
            const char* opc = (c == 2 && owned) ? "Q" : (g.s.choose(4) == 3 ? "H" : "R");
            o += std::string(" ") + opc + std::to_string(grp) + ":" + std::to_string(u);
            todo.push_back({ u, grp });
        } else if (c == 3) {
            g.budget -= 1;
            static const int ns[] = { 4, 1, 2, 7, 16, 33, 64 };
            int n = ns[g.s.choose(7)]; int grain = g.s.range(1, 4);
            if (g.s.coin(3)) o += " K" + std::to_string(g.s.range(1, 2));       // a critical (priority) task is pending when the loop's root task enters the dispatcher
            o += " P" + std::to_string(n) + ":" + std::to_string(grain) + ":" + std::to_string(g.s.choose(4)) + ":" + std::to_string(g.s.range(0, 4)) + ":" + std::to_string((int)g.s.coin(3));
        } else if (c == 4) { int u = g.next_unit++; g.budget--; int a = (int)g.s.choose((uint32_t)g.narenas); o += " E" + std::to_string(a) + ":" + std::to_string(u); todo.push_back({ u, -2 }); todo_arena[u] = a; }
        else if (c == 5) {
            std::vector<int> ok; for (int a = 0; a < g.narenas; a++) if (std::find(chain.begin(), chain.end(), a) == chain.end()) ok.push_back(a);
            if (ok.empty()) { o += " W" + std::to_string(g.s.range(1, 3)); continue; }
            int u = g.next_unit++; g.budget--; int a = ok[g.s.choose((uint32_t)ok.size())]; o += " X" + std::to_string(a) + ":" + std::to_string(u); todo.push_back({ u, -3 }); todo_arena[u] = a; }
        else if (c == 6) { int u = g.next_unit++; g.budget--; o += " I" + std::to_string(u); todo.push_back({ u, -4 }); }
        else if (c == 7) o += " S";
        else if (c == 8) { int grp = mine[g.s.choose((uint32_t)mine.size())]; o += (g.s.choose(6) == 5 ? " C" : " T") + std::to_string(grp); }
        else if (g.s.coin(2)) o += " K" + std::to_string(g.s.range(1, 3));
        else if (own_group >= 0 && !inline_unit && g.s.coin(2)) o += " C" + std::to_string(own_group);      // a task cancels the group it runs in (its siblings may be skipped, it goes on)
        else o += " W" + std::to_string(g.s.range(1, 3));
    }
    (void)inline_unit;
    g.lines.push_back(o);
    for (auto& t : todo) {
        if (t.second >= 0) gen_unit(g, t.first, depth + 1, t.second, false, chain);
        else if (t.second == -2) gen_unit(g, t.first, depth + 1, -1, false, { todo_arena[t.first] });   // enqueued: runs on a thread whose outermost arena is that one
        else if (t.second == -4) gen_unit(g, t.first, depth + 1, own_group, true, chain);      // isolate: same arena, outer group usable
        else { std::vector<int> c2 = chain; c2.push_back(todo_arena[t.first]); gen_unit(g, t.first, depth + 1, -1, true, c2); }   // execute: work run into an outer group from another arena may legitimately never be taken (no worker there), so outer groups are out of the domain
    }
}
std::string h_gen(Src& s) {
    int par = s.range(1, 4) ; if (par < 2 && s.flip()) par = 2;
    if (par == 1 && drv_flag("--no-soft0")) par = 2;   // assertion flavour: known finding C01-update-allotment-assert (debug assert with soft limit 0)
    int ext = 1 + (int)s.weighted({ 5, 3, 1 });
    int na = (int)s.weighted({ 3, 4, 2 });
    std::string cfg = "cfg par=" + std::to_string(par) + " ext=" + std::to_string(ext) + " arenas=";
    for (int i = 0; i < na; i++) { int mc = s.range(1, 4); int res = s.choose(3) == 2 ? 0 : 1; if (res > mc) res = mc; cfg += (i ? "," : "") + std::to_string(mc) + ":" + std::to_string(res); }
    if (!na) cfg += "-";
    GenSt g{ s, ext, 0, na, {}, 20 };
    for (int e = 0; e < ext; e++) gen_unit(g, e, 0, -1, false);
    std::string o = cfg + "\n"; for (auto& l : g.lines) o += l + "\n";
    return o;
}

// ------------------------------------------------------------------ interpreter
struct Op { char c; int a = 0, b = 0, d = 0, e = 0, f = 0; };
struct Unit {
    std::vector<Op> ops; int group = -1, parent = -1; bool submitted = false, is_task = false, enq = false;
    uint64_t sub_inv = 0, sub_ret = 0, t_start = 0, t_fin = 0; int started = 0, finished = 0, live = 0, made = 0, submit_thread = -1, exec_thread = -1;
    bool tainted = false;
};
struct Group { tbb::task_group* tg = nullptr; int owner = -1; bool cancel_in_text = false; std::vector<int> units; };
static std::vector<Unit> U; static std::vector<Group> G; static std::vector<tbb::task_arena*> A;
static thread_local int cur_unit = -1;
static long n_stolen = 0, n_enq_other = 0, n_nested_wait_exec = 0, n_pfor_other = 0, n_wait_checks = 0, n_affinity_other = 0, n_after_idle = 0;
static bool idle_seen = false;
static std::vector<std::vector<int>> pf_counts; static std::vector<char> pf_tainted;

static tbb::flow::graph* FG = nullptr; static tbb::flow::function_node<int, int>* PN = nullptr; static std::vector<int> k_ran; static long n_crit_other = 0;
static void exec_unit(int uid);
struct Fn {
    int uid;
    explicit Fn(int u) : uid(u) { U[u].live++; U[u].made++; }
    Fn(const Fn& o) : uid(o.uid) { U[uid].live++; U[uid].made++; }
    ~Fn() { if (vs_active()) vs_work(1);      // destroying the user's functor takes time: a wait must not return before it is over
            if (--U[uid].live < 0) vs_violation("DOUBLE-DESTROY", "functor of unit %d destroyed more often than constructed", uid); }
    void operator()() const { exec_unit(uid); }
};
static bool tainted_chain(int uid) {   // some ancestor group has a cancel somewhere in the program text
    for (int u = uid; u >= 0; u = U[u].parent) if (U[u].group >= 0 && G[U[u].group].cancel_in_text) return true;
    return false;
}
static void check_wait(int g, uint64_t winv, const char* how) {
    // covered set: units of g whose submitting call returned before the wait was invoked, plus,
    // transitively, units of g submitted by covered units while they ran
    n_wait_checks++;
    std::vector<char> cov(U.size(), 0); bool grew = true;
    while (grew) {
        grew = false;
        for (int u : G[g].units) {
            if (cov[u] || !U[u].submitted) continue;
            bool c = (U[u].sub_ret && U[u].sub_ret < winv) || (U[u].parent >= 0 && cov[U[u].parent]);
            if (c) { cov[u] = 1; grew = true; }
        }
    }
    for (int u : G[g].units) if (cov[u]) {
        if (U[u].started > 1 || U[u].finished > 1) vs_violation("RAN-TWICE", "unit %d started=%d finished=%d", u, U[u].started, U[u].finished);
        if (U[u].started != U[u].finished) vs_violation("WAIT-TOO-EARLY", "%s of group %d returned while covered unit %d is still running", how, g, u);
        if (U[u].finished == 0 && !U[u].tainted) vs_violation("WAIT-TOO-EARLY", "%s of group %d returned although covered unit %d (submit returned at %lu < wait invoked at %lu) has not run", how, g, u, (unsigned long)U[u].sub_ret, (unsigned long)winv);
        if (U[u].live != 0) vs_violation("WAIT-TOO-EARLY", "%s of group %d returned while %d copies of the functor of covered unit %d are still alive (the library has not finished destroying the task)", how, g, U[u].live, u);
    }
}
static void submit_prep(int u, int g, bool task) {
    if (U[u].submitted) vs_inconclusive("BAD-CASE", "unit %d submitted twice", u);
    U[u].submitted = true; U[u].group = g; U[u].parent = cur_unit; U[u].is_task = task; U[u].submit_thread = vs_self(); U[u].tainted = tainted_chain(u);
    if (g >= 0) G[g].units.push_back(u);
    U[u].sub_inv = vs_now();
}
static void run_ops(int uid) {
    std::vector<int> mine;
    for (auto& op : U[uid].ops) {
        switch (op.c) {
        case 'W': vs_work(op.a); break;
        case 'S': vs_wait_quiescent(); idle_seen = true; break;
        case 'G': G[op.a].tg = new tbb::task_group; G[op.a].owner = uid; mine.push_back(op.a); break;
        case 'R': case 'H': {
            if (!G[op.a].tg) vs_inconclusive("BAD-CASE", "group %d not alive", op.a);
            submit_prep(op.b, op.a, true);
            if (op.c == 'R') G[op.a].tg->run(Fn(op.b)); else { tbb::task_handle h = G[op.a].tg->defer(Fn(op.b)); G[op.a].tg->run(std::move(h)); }
            U[op.b].sub_ret = vs_now(); break; }
        case 'Q': {
            submit_prep(op.b, op.a, true); U[op.b].sub_ret = U[op.b].sub_inv;   // covered by its own wait
            uint64_t winv = vs_now(); G[op.a].tg->run_and_wait(Fn(op.b)); check_wait(op.a, winv + 1, "run_and_wait"); break; }
        case 'T': { uint64_t winv = vs_now(); G[op.a].tg->wait(); check_wait(op.a, winv, "wait"); break; }
        case 'C': G[op.a].tg->cancel(); break;
        case 'P': {
            int id = op.e; int n = op.a; bool own_ctx = op.f != 0; bool taint = !own_ctx && tainted_chain(uid); pf_tainted[id] = taint;
            tbb::task_group_context ictx(tbb::task_group_context::isolated);
            int me_t = vs_self(); int wk = op.d >> 8; int part = op.d & 255; int rounds = part == 3 ? 2 : 1;
            tbb::affinity_partitioner ap;      // second round replays the recorded affinity: chunks are mailed to the slots that ran them
            for (int rd = 0; rd < rounds; rd++) {
                int off = rd * n;
                auto body2 = [id, n, wk, part, off, me_t](const tbb::blocked_range<int>& r) {
                    if (r.empty()) vs_violation("EMPTY-CHUNK", "parallel_for body got an empty range");
                    for (int i = r.begin(); i < r.end(); i++) { if (i < 0 || i >= n) vs_violation("OUT-OF-RANGE", "parallel_for body got index %d outside [0,%d)", i, n); if (++pf_counts[id][off + i] > 1) vs_violation("RAN-TWICE", "parallel_for index %d executed twice", i); vs_work(wk); }
                    if (vs_self() != me_t) { n_pfor_other++; if (part >= 2) n_affinity_other++; if (idle_seen) n_after_idle++; } };
                tbb::blocked_range<int> rg(0, n, (size_t)op.b);
                if (own_ctx) {
                    if (part == 0) tbb::parallel_for(rg, body2, tbb::simple_partitioner(), ictx);
                    else if (part == 1) tbb::parallel_for(rg, body2, tbb::auto_partitioner(), ictx);
                    else if (part == 2) tbb::parallel_for(rg, body2, tbb::static_partitioner(), ictx);
                    else tbb::parallel_for(rg, body2, ap, ictx);
                }
                else if (part == 0) tbb::parallel_for(rg, body2, tbb::simple_partitioner());
                else if (part == 1) tbb::parallel_for(rg, body2, tbb::auto_partitioner());
                else if (part == 2) tbb::parallel_for(rg, body2, tbb::static_partitioner());
                else tbb::parallel_for(rg, body2, ap);
                if (!taint) for (int i = 0; i < n; i++) if (pf_counts[id][off + i] != 1) vs_violation("WAIT-TOO-EARLY", "parallel_for returned but index %d ran %d times", i, pf_counts[id][off + i]);
            }
            break; }
        case 'K': for (int i = 0; i < op.a; i++) { int id = (int)k_ran.size(); k_ran.push_back(0); if (!PN->try_put(id)) vs_violation("LOST-TASK", "unlimited function_node rejected message %d", id); } break;
        case 'E': submit_prep(op.b, -1, true); U[op.b].enq = true; A[op.a]->enqueue(Fn(op.b)); U[op.b].sub_ret = vs_now(); break;
        case 'X': { submit_prep(op.b, -1, false); int u = op.b; A[op.a]->execute([u] { exec_unit(u); }); U[u].sub_ret = vs_now();
            if (U[u].finished != 1) vs_violation("WAIT-TOO-EARLY", "task_arena::execute returned but its functor (unit %d) finished %d times", u, U[u].finished); break; }
        case 'I': { submit_prep(op.b, -1, false); int u = op.b; tbb::this_task_arena::isolate([u] { exec_unit(u); });
            if (U[u].finished != 1) vs_violation("WAIT-TOO-EARLY", "isolate returned but its functor (unit %d) finished %d times", u, U[u].finished); break; }
        }
    }
    for (int g : mine) { uint64_t winv = vs_now(); G[g].tg->wait(); check_wait(g, winv, "final wait"); delete G[g].tg; G[g].tg = nullptr; }
}
static void exec_unit(int uid) {
    Unit& u = U[uid];
    if (++u.started > 1) vs_violation("RAN-TWICE", "unit %d started %d times", uid, u.started);
    u.t_start = vs_now(); u.exec_thread = vs_self();
    if (u.is_task && u.exec_thread != u.submit_thread) { if (u.enq) n_enq_other++; else n_stolen++; if (idle_seen) n_after_idle++; }
    int saved = cur_unit; if (saved >= 0 && u.is_task) n_nested_wait_exec++;
    cur_unit = uid;
    run_ops(uid);
    cur_unit = saved;
    u.t_fin = vs_now(); u.finished++;
}
static void ext_thread(void* p) { int uid = (int)(intptr_t)p; U[uid].submitted = true; U[uid].submit_thread = vs_self(); exec_unit(uid); }

void h_run(Case& c) {
    int par = 2, ext = 1; std::vector<std::pair<int, int>> arenas; int npf = 0;
    for (auto& l : c.lines) {
        auto w = split_ws(l);
        if (w[0] == "cfg") {
            par = (int)kvl(l, "par", 2); ext = (int)kvl(l, "ext", 1); std::string as = kvs(l, "arenas", "-");
            for (size_t p = 0; as != "-" && p < as.size();) { size_t e = as.find(',', p); std::string it = as.substr(p, e == std::string::npos ? std::string::npos : e - p); int mc = 1, rs = 1; sscanf(it.c_str(), "%d:%d", &mc, &rs); arenas.push_back({ mc, rs }); if (e == std::string::npos) break; p = e + 1; }
        } else if (w[0] == "u") {
            int id = atoi(w[1].c_str()); if ((int)U.size() <= id) U.resize(id + 1);
            for (size_t i = 2; i < w.size(); i++) {
                Op op; op.c = w[i][0]; int v[5] = { 0, 0, 0, 0, 0 }; sscanf(w[i].c_str() + 1, "%d:%d:%d:%d:%d", &v[0], &v[1], &v[2], &v[3], &v[4]); op.f = v[4];
                op.a = v[0]; op.b = v[1]; if (op.c == 'I') op.b = v[0];
                if (op.c == 'P') { op.d = v[2] | (v[3] << 8); op.e = npf++; }
                if (op.c == 'G' || op.c == 'R' || op.c == 'H' || op.c == 'Q' || op.c == 'T' || op.c == 'C') { if ((int)G.size() <= op.a) G.resize(op.a + 1); if (op.c == 'C') G[op.a].cancel_in_text = true; }
                if (op.c == 'R' || op.c == 'H' || op.c == 'Q' || op.c == 'E' || op.c == 'X' || op.c == 'I') if ((int)U.size() <= op.b) { U.resize(op.b + 1); }
                U[id].ops.push_back(op);
            }
        }
    }
    pf_counts.resize(npf); pf_tainted.assign(npf, 0);
    for (auto& u : U) for (auto& op : u.ops) if (op.c == 'P') pf_counts[op.e].assign(2 * op.a + 1, 0);
    vs_begin(c.sched.c_str());
    {
        tbb::global_control gc(tbb::global_control::max_allowed_parallelism, (size_t)par);
        for (auto& a : arenas) A.push_back(new tbb::task_arena(a.first, (unsigned)a.second));
        bool use_fg = false; for (auto& u : U) for (auto& op : u.ops) if (op.c == 'K') use_fg = true;
        // the graph gets an ISOLATED context: a bound one is attached, at its first use, beneath the group of whichever task happens to put first,
        // and a cancel of that group would then legitimately cancel the graph
        if (use_fg) { tbb::parallel_for(0, 1, [](int) {});      // the main thread has its implicit arena now: the graph attaches to it instead of creating one of its own
            static tbb::task_group_context fgctx(tbb::task_group_context::isolated); FG = new tbb::flow::graph(fgctx); int main_t = vs_self();
            PN = new tbb::flow::function_node<int, int>(*FG, tbb::flow::unlimited, [main_t](int id) { if (++k_ran[(size_t)id] > 1) vs_violation("RAN-TWICE", "priority node body ran twice for message %d", id); vs_work(1); if (vs_self() != main_t) n_crit_other++; return id; }, tbb::flow::node_priority_t(1)); }
        std::vector<int> tids;
        for (int e = 1; e < ext; e++) tids.push_back(vs_thread_start(ext_thread, (void*)(intptr_t)e));
        ext_thread((void*)(intptr_t)0);
        for (int t : tids) vs_thread_join(t);
        // enqueued work has no waiter: it must still run (DEADLOCK here = lost task)
        vs_block_until([] { for (auto& u : U) if (u.submitted && u.started != u.finished) return false; for (auto& u : U) if (u.enq && u.submitted && !u.finished) return false; return true; });
        // every unit has finished, so every try_put has returned: wait_for_all must now cover all accepted messages
        if (FG) { FG->wait_for_all(); for (size_t i = 0; i < k_ran.size(); i++) if (k_ran[i] != 1) vs_violation("WAIT-TOO-EARLY", "graph::wait_for_all returned but the body for accepted message %zu ran %d times", i, k_ran[i]); }
        if (kvl(c.lines[0], "quiesce", 1)) { vs_wait_quiescent(); for (size_t i = 0; i < U.size(); i++) if (U[i].submitted && U[i].live != 0) vs_violation("FUNCTOR-LEAK", "unit %zu: %d functor copies still alive at quiescence (made %d)", i, U[i].live, U[i].made); }
    }
    vs_end();
    long nsub = 0;
    for (size_t i = 0; i < U.size(); i++) {
        Unit& u = U[i]; if (!u.submitted) continue; nsub++;
        if (u.started != u.finished || u.started > 1) vs_violation("LEDGER", "unit %zu started=%d finished=%d", i, u.started, u.finished);
        if (u.started == 0 && !u.tainted) vs_violation("LOST-TASK", "unit %zu (group %d) was submitted but never ran and its group was never cancelled", i, u.group);
    }
    vs_stat_add("n_units", nsub); vs_stat_add("n_stolen", n_stolen); vs_stat_add("n_enq_other", n_enq_other); vs_stat_add("n_pfor_other", n_pfor_other);
    vs_stat_add("n_nested_exec", n_nested_wait_exec); vs_stat_add("n_waitchecks", n_wait_checks); vs_stat_add("n_affinity_other", n_affinity_other); vs_stat_add("n_after_idle", n_after_idle);
    if (!k_ran.empty()) vs_stat_flag("critical_tasks"); vs_stat_add("n_critical", (long)k_ran.size());
    if (n_stolen) vs_stat_flag("stolen"); if (n_enq_other) vs_stat_flag("enqueue_other_thread"); if (n_pfor_other) vs_stat_flag("pfor_chunk_other_thread");
    if (n_affinity_other) vs_stat_flag("affinity_other_thread"); if (n_nested_wait_exec) vs_stat_flag("ran_inside_nested_wait"); if (n_after_idle) vs_stat_flag("after_worker_sleep");
    vs_stat_add("nt", (n_stolen + n_enq_other + n_pfor_other) > 0 ? 1 : 0);
    vs_ok();
}

int main(int argc, char** argv) { return drv_main(argc, argv); }
