// C11 -- concurrent_vector growth: disjoint ranges that tile [0,size()), each element constructed once
// with the requested value, addresses stable, grow_to_at_least complete, sane after an injected throw.
//
// program:  vec threads=<k> reserve=<n> prefill=<n> throw=<0|k-th element construction throws> athrow=<0|k-th allocation throws>
//           t <i> <op> ...
// ops: P<v> push_back   E<v> emplace_back   G<d> grow_by(d)   V<d>:<v> grow_by(d,value)   A<n> grow_to_at_least(n)
//      B<n>:<v> grow_to_at_least(n,value)   R<i> read element i (only if i is inside a range whose call has returned)   W<k> work
// big:      vecbig n=<size> op=<A|G>      single call on an empty vector of 1-byte elements with a lazily committed allocator
#include "oneapi/tbb/concurrent_vector.h"
#include <sys/mman.h>
#include "../engine/drv/drv.h"

const char* H_PROP = "C11";
bool H_TSO = true;

// ------------------------------------------------------------------ generator
static int pick_size(Src& s) { static const int v[] = { 1, 2, 3, 4, 7, 8, 9, 15, 16, 17, 31, 32, 33, 63, 64, 65, 100 }; return v[s.choose(17)]; }
std::string h_gen(Src& s) {
    if (drv_flag("--witness")) return "vec threads=2 reserve=40 prefill=0 throw=1 athrow=0 witness=1\nt 0 A65 W" + std::to_string(s.range(0, 3)) + "\nt 1 P1001\n";
    if (drv_flag("--big")) {
        static const char* ns[] = { "2147483648", "4294967296", "2147483647", "2147483649", "4294967295", "4294967297", "3000000000", "6442450944" };
        if (drv_flag("--big31")) return std::string("vecbig n=2147483648 op=A pre=") + std::to_string(s.choose(3) == 2 ? 5 : 0) + "\n";
        if (drv_flag("--big32")) return std::string("vecbig n=4294967296 op=A pre=") + std::to_string(s.choose(3) == 2 ? 5 : 0) + "\n";
        std::string n = ns[s.choose(8)]; return "vecbig n=" + n + " op=" + (s.choose(4) == 3 ? "G" : "A") + " pre=" + std::to_string(s.choose(3) == 2 ? 5 : 0) + "\n";
    }
    int nt = s.range(2, 4); static const int rs[] = { 0, 0, 2, 8, 9, 40 }; int reserve = rs[s.choose(6)];
    static const int pf[] = { 0, 0, 1, 2, 7, 8, 15, 16 }; int prefill = pf[s.choose(8)];
    int thr = s.coin(6) ? s.range(1, 12) : 0; int athr = (!thr && s.coin(8)) ? s.range(1, 4) : 0;
    if (drv_flag("--nofault")) thr = athr = 0;   // assertion flavour: oneTBB's internal assertions describe the fault-free protocol only
    std::string o = "vec threads=" + std::to_string(nt) + " reserve=" + std::to_string(reserve) + " prefill=" + std::to_string(prefill) + " throw=" + std::to_string(thr) + " athrow=" + std::to_string(athr) + "\n";
    for (int t = 0; t < nt; t++) {
        o += "t " + std::to_string(t); int nops = s.range(1, 6);
        for (int k = 0; k < nops; k++) {
            int v = t * 1000 + k + 1;
            switch (s.weighted({ 5, 2, 3, 2, 3, 1, 2, 1 })) {
            case 0: o += " P" + std::to_string(v); break;
            case 1: o += " E" + std::to_string(v); break;
            case 2: o += " G" + std::to_string(s.choose(8) == 7 ? 0 : pick_size(s)); break;
            case 3: o += " V" + std::to_string(pick_size(s)) + ":" + std::to_string(v); break;
            case 4: o += " A" + std::to_string(pick_size(s) + (int)s.choose(40)); break;
            case 5: o += " B" + std::to_string(pick_size(s) + (int)s.choose(40)) + ":" + std::to_string(v); break;
            case 6: o += " R" + std::to_string(s.choose(60)); break;
            default: o += " W" + std::to_string(s.range(1, 5));
            }
        }
        o += "\n";
    }
    return o;
}

// ------------------------------------------------------------------ element type and allocator
static const unsigned MAGIC = 0xC0FFEE11u, LOCAL = 0x10CA1u; static bool g_skip = false;   // g_skip: harness-local temporaries, no bookkeeping
static long g_ctor = 0, g_throw_at = 0, g_alloc = 0, g_athrow_at = 0; static bool g_armed = false, g_fault_fired = false, g_witness = false; static int g_fault_kind = 0;   // 1 element ctor, 2 segment allocation, 3 segment-table allocation
static std::map<const void*, int> g_constructed;     // address -> number of constructions (never erased: addresses must be stable)
static std::map<const void*, int> g_destroyed; static long n_ghost_dtor = 0;
struct Boom { int v; };
struct Elem {
    int v; unsigned magic;
    void born() { if (g_skip) { magic = LOCAL; return; } if (g_armed && ++g_ctor == g_throw_at) { g_fault_fired = true; g_fault_kind = 1; throw Boom{ v }; } magic = MAGIC; g_constructed[this]++; }
    Elem() : v(-1) { born(); }
    explicit Elem(int x) : v(x) { born(); }
    Elem(const Elem& o) : v(o.v) { born(); }
    Elem(Elem&& o) : v(o.v) { born(); }
    Elem& operator=(const Elem&) = default;
    ~Elem() { if (magic == LOCAL) return; if (magic == MAGIC) { g_destroyed[this]++; magic = 0xDEAD; } else if (magic == 0 && v == 0) n_ghost_dtor++; /* zero-filled after a failed construction: documented */ else if (magic == 0xDEAD) g_destroyed[this]++; }
};
template <class T> struct ThrowAlloc {
    using value_type = T; using is_always_equal = std::true_type;
    ThrowAlloc() = default; template <class U> ThrowAlloc(const ThrowAlloc<U>&) {}
    T* allocate(size_t n) { if (g_armed && ++g_alloc == g_athrow_at) { g_fault_fired = true; g_fault_kind = std::is_same<T, Elem>::value ? 2 : 3; throw std::bad_alloc(); } return (T*)std::malloc(n * sizeof(T)); }
    void deallocate(T* p, size_t) { std::free(p); }
    template <class U> bool operator==(const ThrowAlloc<U>&) const { return true; }
    template <class U> bool operator!=(const ThrowAlloc<U>&) const { return false; }
};
using Vec = tbb::concurrent_vector<Elem, ThrowAlloc<Elem>>;

struct Call { int thread; char op; long d, val; long start = -1, len = 0; bool ok = false, threw = false; uint64_t inv = 0, resp = 0; const Elem* addr0 = nullptr; };
static std::vector<Call> C; static std::vector<std::vector<std::string>> g_ops; static Vec* V; static int g_nt; static long g_prefill;
static long n_overlap = 0, n_inflight = 0, n_threw = 0, n_reads = 0, n_foreign_seg = 0;
static bool g_faulted = false; static long n_at_ok = 0, n_at_threw = 0, n_ambiguous_after_fault = 0;

static void thread_fn(void* p) {
    int t = (int)(intptr_t)p;
    for (auto& op : g_ops[t]) {
        char c = op[0]; long a = 0, b = 0; sscanf(op.c_str() + 1, "%ld:%ld", &a, &b);
        if (c == 'W') { vs_work((int)a); continue; }
        if (c == 'R') {
            // read an index that lies in a range whose growing call has already returned normally
            const Call* owner = nullptr; for (auto& k : C) if (k.ok && k.resp && a >= k.start && a < k.start + k.len) owner = &k;
            if (a < g_prefill || owner) { if (g_fault_fired) continue; const Elem& e = (*V)[(size_t)a]; n_reads++;
                if (e.magic != MAGIC) vs_violation("UNCONSTRUCTED-READ", "element %ld read after its growing call returned is not constructed", a);
                long want = a < g_prefill ? 500000 + a : (owner->op == 'P' || owner->op == 'E' || owner->op == 'V' || owner->op == 'B') ? owner->val : -1;
                if (e.v != (int)want) vs_violation("WRONG-VALUE", "element %ld holds %d, expected %ld", a, e.v, want); }
            continue;
        }
        Call k; k.thread = t; k.op = c; k.d = a; k.val = (c == 'P' || c == 'E') ? a : b;
        if (n_inflight > 0) n_overlap++; n_inflight++;
        size_t idx = C.size(); k.inv = vs_now(); C.push_back(k);
        long start = -1, len = 0; bool ok = false, threw = false; const Elem* a0 = nullptr; size_t size_before = V->size();
        try {
            Vec::iterator it;
            if (c == 'P') { g_skip = true; Elem e((int)a); g_skip = false; it = V->push_back(e); len = 1; }
            else if (c == 'E') { it = V->emplace_back((int)a); len = 1; }
            else if (c == 'G') { it = V->grow_by((size_t)a); len = a; }
            else if (c == 'V') { g_skip = true; Elem e((int)b); g_skip = false; it = V->grow_by((size_t)a, e); len = a; }
            else if (c == 'A') { it = V->grow_to_at_least((size_t)a); }
            else if (c == 'B') { g_skip = true; Elem e((int)b); g_skip = false; it = V->grow_to_at_least((size_t)a, e); }
            start = it - V->begin(); ok = true;
            if (c == 'A' || c == 'B') { len = start < a ? a - start : 0;
                // A call that appended nothing returns begin() + size(); once a fault has fired size() is capped by the allocated prefix and can lie below n,
                // so from then on "start < n" no longer tells that this call appended [start, n): no range is attributed to it
                if (g_fault_fired && len > 0) { len = 0; n_ambiguous_after_fault++; } if (!g_fault_fired && V->size() < (size_t)a) vs_violation("GROW-TO-AT-LEAST", "grow_to_at_least(%ld) returned with size()=%zu: some element below n has no storage yet", a, V->size()); }
            if (len > 0) a0 = &*it;
        } catch (Boom&) { threw = true; } catch (std::bad_alloc&) { threw = true; } catch (std::exception&) { threw = true; }
        (void)size_before;
        // TSO runs: the harness publishes "this call has returned" through plain memory, which the store-buffer model does not delay, while the
        // library's release stores of this call may still sit in the thread's buffer; real TSO keeps the two in order, so drain first
        if (vs_tso_on) std::atomic_thread_fence(std::memory_order_seq_cst);
        Call& r = C[idx]; r.resp = vs_now(); r.start = start; r.len = len; r.ok = ok; r.threw = threw; r.addr0 = a0; n_inflight--;
        if (threw) { n_threw++; g_faulted = true; }
        if (ok && !g_fault_fired && (c == 'A' || c == 'B')) {
            // everything below n that belongs to this call, or to a call that had returned before this one was invoked, is constructed
            for (long i = 0; i < a; i++) {
                bool mine = i >= start && i < start + len; bool earlier = i < g_prefill;
                for (auto& o : C) if (&o != &r && o.ok && o.resp && o.resp < r.inv && i >= o.start && i < o.start + o.len) earlier = true;
                if (mine || earlier) { const Elem& e = (*V)[(size_t)i]; if (e.magic != MAGIC) vs_violation("GROW-TO-AT-LEAST", "grow_to_at_least(%ld) returned but element %ld (%s) is not constructed", a, i, mine ? "its own" : "grown by a call that had returned earlier"); }
            }
        }
    }
}

static void judge() {
    // ranges pairwise disjoint and tiling [prefill, size)
    size_t sz = V->size();
    g_faulted = g_faulted || g_fault_fired;
    if (!g_faulted) {
        std::vector<int> cover(sz, 0); for (long i = 0; i < g_prefill && (size_t)i < sz; i++) cover[i]++;
        for (auto& k : C) { if (!k.ok) vs_violation("CALL-FAILED", "growth call %c threw although no fault was injected", k.op);
            for (long i = k.start; i < k.start + k.len; i++) { if (i < 0 || (size_t)i >= sz) vs_violation("RANGE-OUTSIDE", "call %c of t%d got range [%ld,%ld) outside [0,%zu)", k.op, k.thread, k.start, k.start + k.len, sz); cover[i]++; } }
        for (size_t i = 0; i < sz; i++) if (cover[i] != 1) vs_violation(cover[i] ? "RANGES-OVERLAP" : "RANGE-GAP", "index %zu is covered by %d returned ranges (size()=%zu)", i, cover[i], sz);
        for (auto& k : C) {
            if (k.len > 0 && &(*V)[(size_t)k.start] != k.addr0) vs_violation("ELEMENT-MOVED", "address of element %ld changed during growth", k.start);
            for (long i = k.start; i < k.start + k.len; i++) {
                const Elem& e = (*V)[(size_t)i]; if (e.magic != MAGIC) vs_violation("UNCONSTRUCTED", "element %ld of a returned range is not constructed", i);
                long want = (k.op == 'P' || k.op == 'E' || k.op == 'V' || k.op == 'B') ? k.val : -1;
                if (e.v != (int)want) vs_violation("WRONG-VALUE", "element %ld holds %d, expected %ld (call %c of t%d)", i, e.v, want, k.op, k.thread);
                auto it = g_constructed.find(&e); if (it == g_constructed.end() || it->second != 1) vs_violation("CONSTRUCTED-TWICE", "element %ld constructed %d times", i, it == g_constructed.end() ? 0 : it->second);
            }
        }
    } else {
        // after an injected fault: size() sane, at(i) either works or throws, iteration is possible
        size_t grown = (size_t)g_prefill; for (auto& k : C) grown += (size_t)std::max(k.len, k.d) + 64;
        if (sz > grown + 200) vs_violation("SIZE-INSANE", "size()=%zu after a fault, at most %zu elements were ever requested", sz, grown);
        // calls that RETURNED normally keep their elements, whatever happened to the failing call (it must not wipe its neighbours)
        for (auto& k : C) if (k.ok && k.len > 0 && (size_t)(k.start + k.len) <= sz) for (long i = k.start; i < k.start + k.len; i++) {
            const Elem* e = nullptr; try { e = &V->at((size_t)i); } catch (std::exception&) { continue; }
            long want = (k.op == 'P' || k.op == 'E' || k.op == 'V' || k.op == 'B') ? k.val : -1;
            if (e->magic != MAGIC || e->v != (int)want) vs_violation("NEIGHBOUR-WIPED", "after a fault in another call, element %ld of a call that had returned normally (call %c of t%d) holds magic=%x v=%d, expected v=%ld", i, k.op, k.thread, e->magic, e->v, want); }
        // at() beyond size() (size() is capped by the allocated prefix after a failure): must throw or work, never touch foreign memory
        for (size_t i = sz; i < grown && i < sz + 300; i++) { try { const Elem& e = V->at(i); n_at_ok += (e.magic == MAGIC || e.magic == 0) ? 1 : 0; } catch (std::exception&) { n_at_threw++; } }
        for (size_t i = 0; i < sz; i++) { try { const Elem& e = V->at(i); n_at_ok += (e.magic == MAGIC || e.magic == 0) ? 1 : 0; /* must not crash; content of a failed range is unspecified */ } catch (std::exception&) { n_at_threw++; } }
    }
    g_armed = false;
    delete V;
    for (auto& kv : g_destroyed) { if (kv.second > 1) vs_violation("DESTROYED-TWICE", "an element was destroyed %d times", kv.second); if (!g_constructed.count(kv.first)) vs_violation("DESTROYED-UNBORN", "destructor ran on an address never constructed"); }
    if (!g_faulted) for (auto& kv : g_constructed) if (!g_destroyed.count(kv.first)) vs_violation("ELEMENT-LEAK", "an element was never destroyed");
}

// ------------------------------------------------------------------ big sizes (32-bit truncation corner)
struct Tiny { char c; Tiny() {} Tiny(const Tiny&) {} };     // no-op construction: nothing is touched
template <class T> struct LazyAlloc {
    using value_type = T; using is_always_equal = std::true_type;
    LazyAlloc() = default; template <class U> LazyAlloc(const LazyAlloc<U>&) {}
    T* allocate(size_t n) { void* p = mmap(nullptr, n * sizeof(T) + 4096, PROT_READ | PROT_WRITE, MAP_PRIVATE | MAP_ANONYMOUS | MAP_NORESERVE, -1, 0); if (p == MAP_FAILED) throw std::bad_alloc(); *(size_t*)p = n * sizeof(T) + 4096; return (T*)((char*)p + 4096); }
    void deallocate(T* p, size_t) { char* b = (char*)p - 4096; munmap(b, *(size_t*)b); }
    template <class U> bool operator==(const LazyAlloc<U>&) const { return true; }
    template <class U> bool operator!=(const LazyAlloc<U>&) const { return false; }
};
static void run_big(Case& c) {
    unsigned long long n = strtoull(kvs(c.lines[0], "n", "0").c_str(), nullptr, 10); std::string op = kvs(c.lines[0], "op", "A"); long pre = kvl(c.lines[0], "pre", 0);
    vs_begin((c.sched + " wall=120").c_str());
    vs_on_fixpoint([](const char* d) { vs_violation("GROW-HANG", "growth call on a vector of >= 2^31 elements never returns: %s", d); });
    auto* v = new tbb::concurrent_vector<Tiny, LazyAlloc<Tiny>>();
    if (pre) v->grow_by((size_t)pre);
    vs_end(); vs_inactive_spin_limit(2000000);     // single thread from here on: billions of points must be cheap; a 2M-yield spin without a write is a hang
    size_t got;
    if (op == "A") { auto it = v->grow_to_at_least((size_t)n); got = (size_t)(it - v->begin()); if (got != (size_t)pre && got != v->size()) vs_violation("GROW-TO-AT-LEAST", "grow_to_at_least(%llu) returned index %zu", n, got); }
    else { auto it = v->grow_by((size_t)(n - pre)); got = (size_t)(it - v->begin()); if (got != (size_t)pre) vs_violation("RANGE-OUTSIDE", "grow_by returned index %zu, expected %ld", got, pre); }
    if (v->size() != (size_t)n) vs_violation("GROW-TO-AT-LEAST", "size()=%zu after growing to %llu", v->size(), n);
    // every segment below n is allocated: touch first, last and 2^k boundaries
    for (unsigned long long i : { 0ull, 1ull, n / 2, n - 1, (1ull << 31) - 1, 1ull << 31, (1ull << 32) - 1, 1ull << 32 }) if (i < n) { (*v)[(size_t)i].c = 7; if (&(*v)[(size_t)i] == nullptr) vs_violation("UNALLOCATED", "element %llu has no storage", i); }
    vs_end();
    vs_stat_flag("big"); vs_stat_flag(op == "A" ? "big_grow_to_at_least" : "big_grow_by"); vs_stat_add("nt", 1);
    vs_ok();
}

void h_run(Case& c) {
    if (c.lines[0].rfind("vecbig", 0) == 0) { run_big(c); return; }
    long reserve = 0;
    for (auto& l : c.lines) {
        auto w = split_ws(l);
        if (w[0] == "vec") { g_nt = (int)kvl(l, "threads", 2); reserve = kvl(l, "reserve", 0); g_prefill = kvl(l, "prefill", 0); g_throw_at = kvl(l, "throw", 0); g_athrow_at = kvl(l, "athrow", 0); }
        else if (w[0] == "t") { int t = atoi(w[1].c_str()); if ((int)g_ops.size() <= t) g_ops.resize(t + 1); g_ops[t].assign(w.begin() + 2, w.end()); }
    }
    g_ops.resize(g_nt); C.reserve(128); g_witness = kvl(c.lines[0], "witness", 0) != 0;
    vs_begin(c.sched.c_str());
    // a growth call that never returns: after an injected fault the other calls must still return or throw (the former known finding
    // C11-fault-orphans-segments was repaired in /repo; nothing is excluded any more)
    auto hang = [](const char* d) { vs_violation(g_fault_fired ? "HANG-AFTER-FAULT" : "GROW-HANG", "%s", d); };
    vs_on_fixpoint(hang); vs_on_deadlock(hang);
    V = new Vec;
    if (reserve) V->reserve((size_t)reserve);
    for (long i = 0; i < g_prefill; i++) { g_skip = true; Elem e(500000 + (int)i); g_skip = false; V->push_back(e); }
    g_constructed.clear(); g_destroyed.clear();
    for (long i = 0; i < g_prefill; i++) g_constructed[&(*V)[(size_t)i]] = 1;
    g_armed = true;
    std::vector<int> ids; for (int t = 1; t < g_nt; t++) ids.push_back(vs_thread_start(thread_fn, (void*)(intptr_t)t));
    thread_fn((void*)(intptr_t)0);
    for (int id : ids) vs_thread_join(id);
    judge();
    vs_end();
    vs_stat_add("n_calls", (long)C.size()); vs_stat_add("n_overlap", n_overlap); vs_stat_add("n_threw", n_threw); vs_stat_add("n_reads", n_reads); vs_stat_add("n_ghost_dtor", n_ghost_dtor); vs_stat_add("n_at_threw", n_at_threw);
    if (g_faulted) vs_stat_flag("fault_fired"); if (n_reads) vs_stat_flag("read_during_growth");
    vs_stat_add("nt", (n_overlap > 0 || g_faulted) ? 1 : 0);
    vs_ok();
}
int main(int argc, char** argv) { return drv_main(argc, argv); }
