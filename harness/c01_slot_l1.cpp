// C01 (whitebox L1) -- arena_slot: the per-thread ready deque.  Owner spawn / get_task against one or two thieves' steal_task,
// with isolation tags (tasks are skipped, holes are made and later compacted) and enough spawns to relocate / grow the deque.
// Invariant: every spawned task is handed out exactly once (by get_task or steal_task), a task handed out under an isolation
// tag carries that tag, and a task pool that the owner has drained and left holds nothing.
// Optional leg: includes the internal headers src/tbb/arena_slot.h, thread_data.h, governor.h.
//
// program:  slot thieves=<n>
//           o S<k>:<iso> G<iso> W<w> ...     owner: spawn k tasks tagged iso (0 = no isolation); get_task(iso); work
//           t<i> T<iso> W<w> ...             thief i: one steal attempt under isolation iso; work
// After its program the owner drains the pool with no_isolation; thieves stop when their program ends.
#include "oneapi/tbb/task_arena.h"
#include "oneapi/tbb/global_control.h"
#include "scheduler_common.h"
#include "governor.h"
#include "thread_data.h"
#include "task_dispatcher.h"
#include "arena.h"
#include "arena_slot.h"
#include "../engine/drv/drv.h"

const char* H_PROP = "C01";
bool H_TSO = true;
using namespace tbb::detail;

std::string h_gen(Src& s) {
    int nt = s.range(1, 2); bool iso = s.coin(2); bool big = s.coin(6);
    std::string o = "slot thieves=" + std::to_string(nt) + "\n";
    o += "o S" + std::to_string(s.range(1, 3)) + ":" + std::to_string(iso ? s.range(0, 2) : 0); int n = s.range(1, 8);
    for (int k = 0; k < n; k++) {
        switch (s.weighted({3, 5, 2})) {
        case 0: { int cnt = big && s.coin(3) ? s.range(30, 70) : s.range(1, 4); o += " S" + std::to_string(cnt) + ":" + std::to_string(iso ? s.range(0, 2) : 0); break; }
        case 1: o += " G" + std::to_string(iso ? s.range(0, 2) : 0); break;
        default: o += " W" + std::to_string(s.range(0, 6));
        }
    }
    o += "\n";
    for (int i = 0; i < nt; i++) {
        o += "t" + std::to_string(i); int m = s.range(1, 6);
        for (int k = 0; k < m; k++) { if (s.coin(3)) o += " W" + std::to_string(s.range(0, 8)); else o += " T" + std::to_string(iso ? s.range(0, 2) : 0); }
        o += "\n";
    }
    return o;
}

struct FakeTask : d1::task { int id; d1::task* execute(d1::execution_data&) override { return nullptr; } d1::task* cancel(d1::execution_data&) override { return nullptr; } };
static r1::arena_slot* slot; static r1::arena* g_arena; static r1::execution_data_ext g_ed;
static std::vector<FakeTask*> tasks; static std::vector<int> taken, tag_of; static std::vector<int> taken_by;
static std::vector<std::string> o_ops; static std::vector<std::vector<std::string>> t_ops;
static long n_steal_ok = 0, n_steal_null = 0, n_get_ok = 0, n_get_null = 0, n_overlap = 0, n_iso_skips = 0, n_relocs = 0; static int in_get = 0, in_steal = 0;

static void account(d1::task* t, int iso, int who) {
    FakeTask* f = static_cast<FakeTask*>(t); int id = -1;
    for (size_t i = 0; i < tasks.size(); i++) if (tasks[i] == f) { id = (int)i; break; }
    if (id < 0) vs_violation("TASK-INVENTED", "%s returned a pointer that was never spawned", who ? "steal_task" : "get_task");
    if (++taken[(size_t)id] > 1) vs_violation("TASK-TWICE", "task %d handed out twice (first by %s, now by %s)", id, taken_by[(size_t)id] ? "a thief" : "the owner", who ? "a thief" : "the owner");
    taken_by[(size_t)id] = who;
    if (iso != 0 && tag_of[(size_t)id] != iso) vs_violation("ISOLATION-BREACH", "%s under isolation %d returned task %d tagged %d", who ? "steal_task" : "get_task", iso, id, tag_of[(size_t)id]);
}
static void thief(void* a) {
    int i = (int)(intptr_t)a;
    vs_block_until([] { return !tasks.empty(); });      // nothing to steal before the first spawn
    for (auto& op : t_ops[(size_t)i]) {
        int v = atoi(op.c_str() + 1);
        if (op[0] == 'W') { vs_work(v); continue; }
        in_steal++; if (in_get) n_overlap++;
        d1::task* t = slot->steal_task(*g_arena, (r1::isolation_type)v, 0);
        in_steal--;
        if (t) { n_steal_ok++; account(t, v, 1); } else n_steal_null++;
    }
}
static d1::task* owner_get(int iso) {
    if (!slot->is_task_pool_published()) return nullptr;    // the dispatcher's own precondition for get_task
    in_get++; if (in_steal) n_overlap++;
    d1::task* t = slot->get_task(g_ed, (r1::isolation_type)iso);
    in_get--;
    if (t) { n_get_ok++; account(t, iso, 0); } else n_get_null++;
    return t;
}

void h_run(Case& c) {
    int nth = 1;
    for (auto& l : c.lines) {
        auto w = split_ws(l);
        if (w[0] == "slot") nth = (int)kvl(l, "thieves", 1);
        else if (w[0] == "o") o_ops.assign(w.begin() + 1, w.end());
        else if (w[0][0] == 't') t_ops.push_back(std::vector<std::string>(w.begin() + 1, w.end()));
    }
    while ((int)t_ops.size() < nth) t_ops.push_back({});
    vs_begin(c.sched.c_str());
    vs_on_deadlock([](const char* d) { vs_violation("SLOT-DEADLOCK", "%s", d); });
    vs_on_fixpoint([](const char* d) { vs_violation("SLOT-SPIN", "a thread spins for ever on the task pool lock: %s", d); });
    tbb::global_control gc(tbb::global_control::max_allowed_parallelism, 1);     // no workers: nobody but this harness touches anything
    r1::thread_data* td = r1::governor::get_thread_data();
    g_arena = td->my_arena; g_ed.task_disp = td->my_task_dispatcher;
    void* mem = std::calloc(1, sizeof(r1::arena_slot) + 256); slot = reinterpret_cast<r1::arena_slot*>(((uintptr_t)mem + 255) & ~(uintptr_t)255);
    slot->init_task_streams(0);
    size_t prev_pool_size = 0;
    std::vector<int> ids; for (int i = 0; i < nth; i++) ids.push_back(vs_thread_start(thief, (void*)(intptr_t)i));
    for (auto& op : o_ops) {
        if (op[0] == 'W') { vs_work(atoi(op.c_str() + 1)); continue; }
        if (op[0] == 'G') { owner_get(atoi(op.c_str() + 1)); continue; }
        int cnt = atoi(op.c_str() + 1); int iso = atoi(op.c_str() + op.find(':') + 1);
        for (int k = 0; k < cnt; k++) {
            FakeTask* t = new FakeTask; t->id = (int)tasks.size(); r1::task_accessor::isolation(*t) = (r1::isolation_type)iso;
            tasks.push_back(t); taken.push_back(0); taken_by.push_back(-1); tag_of.push_back(iso);
            in_get++; if (in_steal) n_overlap++;
            slot->spawn(*t);
            in_get--;
        }
        (void)prev_pool_size;
    }
    // drain: everything still in the deque must come out, exactly once
    for (int guard = 0; slot->is_task_pool_published(); guard++) {
        if (guard > 100000) vs_violation("SLOT-NEVER-EMPTY", "the owner cannot drain its pool");
        owner_get(0);
    }
    for (int id : ids) vs_thread_join(id);
    // a thief that locked the pool while the owner left it may still have returned tasks; after the join the books must balance
    if (slot->is_task_pool_published()) { for (int guard = 0; slot->is_task_pool_published() && guard < 100000; guard++) owner_get(0); }
    vs_end();
    for (size_t i = 0; i < tasks.size(); i++)
        if (taken[i] != 1) vs_violation(taken[i] ? "TASK-TWICE" : "TASK-LOST", "task %zu (tag %d) handed out %d times after the owner drained and left its pool", i, tag_of[i], taken[i]);
    vs_stat_add("n_slot_tasks", (long)tasks.size()); vs_stat_add("n_steal_ok", n_steal_ok); vs_stat_add("n_steal_null", n_steal_null);
    vs_stat_add("n_get_ok", n_get_ok); vs_stat_add("n_get_null", n_get_null); vs_stat_add("n_slot_overlap", n_overlap);
    vs_stat_flag("slot_l1"); if (tasks.size() > 64) vs_stat_flag("slot_l1_relocated");
    vs_stat_add("nt", (n_overlap > 0 && n_steal_ok > 0) ? 1 : 0);
    vs_ok();
}
int main(int argc, char** argv) { return drv_main(argc, argv); }
