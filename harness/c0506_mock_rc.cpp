// C05 / C06, sequential leg on a MOCK RUNTIME (rapidcheck, header-only, no libtbb): the real algorithm templates of /repo (start_for, start_reduce,
// start_deterministic_reduce, start_scan, all partitioner logic incl. the range pool and the demand / depth bookkeeping) are compiled against
// fifteen small functions that replace oneTBB's runtime (tbb::detail::r1::spawn, execute_and_wait, allocate, execution_slot, max_concurrency ...).
// The mock owns P virtual threads with one deque each; which thread acts next, whether it takes its own newest task or steals the oldest one of a
// victim, and where a body is interrupted so that other virtual threads run in the middle of it, are all drawn from a PRNG seeded by the case.
// So the pattern of steals -- which drives the adaptive partitioners -- is a generated, replayable value, and a case costs microseconds.
// Oracles: parallel_for: chunks non-empty, inside, pairwise disjoint, covering; no split of a non-divisible range; simple_partitioner chunk bounds.
//          parallel_reduce (free monoid): the result is the sequence begin..end-1.  deterministic_reduce: the parenthesisation string is the same under
//          two different schedules and thread counts (simple) / the same thread count (static).  parallel_scan: every final pass sees exactly the prefix.
//          every task object and every tree node allocated through the mock allocator is freed, the wait context reaches zero.
// usage: c0506_mock_rc <C05|C06> <max_success>   (env VERIF_LEG_SEED, VERIF_REPLAY_DIR)  |  c0506_mock_rc replay <file>
// case:  mock alg=<for|for2d|red|dred|scan> part=<simple|auto|static|affinity> b=<begin> n=<n> g=<grain> n2=<n> g2=<g> P=<threads> seed=<s> y=<yield 1/k> P2=<threads> seed2=<s>
#include <rapidcheck.h>
#include <bits/stdc++.h>
#include <signal.h>
#include <unistd.h>
#include "oneapi/tbb/parallel_for.h"
#include "oneapi/tbb/parallel_reduce.h"
#include "oneapi/tbb/parallel_scan.h"
#include "oneapi/tbb/blocked_range.h"
#include "oneapi/tbb/blocked_range2d.h"

// ------------------------------------------------------------------ the mock runtime
namespace mock {
using namespace tbb::detail;
struct Item { d1::task* t; d1::task_group_context* ctx; d1::slot_id origin, affinity; };
static int P = 1, cur = 0, depth = 0; static std::vector<std::deque<Item>> dq; static uint64_t rng = 1; static long yield_k = 0;
static long live_allocs = 0, n_tasks = 0, n_steals = 0, n_mailed = 0, n_nested = 0, steps = 0, step_limit = 300000; static bool active = false;
static std::string err; struct Runaway {};
static uint64_t rnd() { rng ^= rng << 13; rng ^= rng >> 7; rng ^= rng << 17; return rng >> 11; }
static void fail(const std::string& s) { if (err.empty()) err = s; }
static void run_item(Item it, int thr) {
    int saved = cur; cur = thr; depth++;
    d1::execution_data ed; ed.context = it.ctx; ed.original_slot = it.origin; ed.affinity_slot = it.affinity;
    d1::task* t = it.t;
    while (t) { n_tasks++; if (++steps > step_limit) throw Runaway(); t = t->execute(ed); ed.original_slot = (d1::slot_id)thr; ed.affinity_slot = d1::no_slot; }   // a returned task is bypassed to the same thread
    depth--; cur = saved;
}
// one scheduling step of virtual thread thr: own newest task, else a mailed task addressed to it, else the oldest task of a random victim
static bool step(int thr) {
    if (!dq[(size_t)thr].empty()) { Item it = dq[(size_t)thr].back(); dq[(size_t)thr].pop_back(); run_item(it, thr); return true; }
    for (int v = 0; v < P; v++) for (size_t i = 0; i < dq[(size_t)v].size(); i++) if (v != thr && dq[(size_t)v][i].affinity == (d1::slot_id)thr && (rnd() & 1)) { Item it = dq[(size_t)v][i]; dq[(size_t)v].erase(dq[(size_t)v].begin() + (long)i); n_mailed++; run_item(it, thr); return true; }
    int start = (int)(rnd() % (uint64_t)P);
    for (int k = 0; k < P; k++) { int v = (start + k) % P; if (v != thr && !dq[(size_t)v].empty()) { Item it = dq[(size_t)v].front(); dq[(size_t)v].pop_front(); n_steals++; run_item(it, thr); return true; } }
    return false;
}
static bool any_work() { for (auto& d : dq) if (!d.empty()) return true; return false; }
// called from user bodies: other virtual threads may run now, in the middle of this body (nested on the C++ stack)
static long ticks = 0;
static void tick() { if (++ticks > 3 * step_limit) throw Runaway(); }      // a loop that never ends inside the library (no task boundary in it) is cut here
static void yield_point() {
    tick();
    if (!active || P < 2 || !yield_k || depth > 40 || (rnd() % (uint64_t)yield_k) != 0) return;
    int k = 1 + (int)(rnd() % 3);
    for (int i = 0; i < k; i++) { int thr = (int)(rnd() % (uint64_t)P); if (thr == cur) continue; n_nested++; step(thr); }
}
static void reset(int threads, uint64_t seed, long yk) { P = threads; cur = 0; depth = 0; dq.assign((size_t)P, {}); rng = seed * 0x9E3779B97F4A7C15ull + 0xD1B54A32D192ED03ull; if (!rng) rng = 1; for (int i = 0; i < 4; i++) rnd(); yield_k = yk; err.clear(); steps = 0; ticks = 0; }
}
namespace tbb { namespace detail { namespace r1 {
void* allocate(d1::small_object_pool*& pool, std::size_t n) { mock::tick(); pool = (d1::small_object_pool*)(uintptr_t)16; mock::live_allocs++; return std::malloc(n); }
void* allocate(d1::small_object_pool*& pool, std::size_t n, const d1::execution_data&) { return allocate(pool, n); }
void deallocate(d1::small_object_pool&, void* p, std::size_t) { mock::live_allocs--; std::free(p); }
void deallocate(d1::small_object_pool& pool, void* p, std::size_t n, const d1::execution_data&) { deallocate(pool, p, n); }
void* cache_aligned_allocate(std::size_t n) { void* p = nullptr; if (posix_memalign(&p, 128, n ? n : 1)) throw std::bad_alloc(); return p; }
void cache_aligned_deallocate(void* p) { std::free(p); }
void initialize(d1::task_group_context&) {}
void destroy(d1::task_group_context&) {}
bool is_group_execution_cancelled(d1::task_group_context&) { return false; }
int max_concurrency(const d1::task_arena_base*) { return mock::P; }
void notify_waiters(std::uintptr_t) {}
d1::slot_id execution_slot(const d1::execution_data*) { return (d1::slot_id)mock::cur; }
void spawn(d1::task& t, d1::task_group_context& ctx) { mock::dq[(size_t)mock::cur].push_back({ &t, &ctx, (d1::slot_id)mock::cur, d1::no_slot }); }
void spawn(d1::task& t, d1::task_group_context& ctx, d1::slot_id id) { mock::dq[(size_t)mock::cur].push_back({ &t, &ctx, (d1::slot_id)mock::cur, (id != d1::no_slot && (int)id < mock::P) ? id : d1::no_slot }); }
void execute_and_wait(d1::task& t, d1::task_group_context& t_ctx, d1::wait_context&, d1::task_group_context&) {
    mock::active = true;
    mock::run_item({ &t, &t_ctx, (d1::slot_id)0, d1::no_slot }, 0);
    while (mock::any_work()) { int thr = (int)(mock::rnd() % (uint64_t)mock::P); mock::step(thr); }      // every runnable thread eventually runs; the caller's wait ends when nothing is left
    mock::active = false;
}
} } }

// ------------------------------------------------------------------ cases and oracles
struct MCase { std::string alg = "for", part = "auto"; long b = 0, n = 10, g = 1, n2 = 1, g2 = 1; int P = 2, P2 = 1; uint64_t seed = 1, seed2 = 2; long y = 4; };
static std::string text(const MCase& c) { char b[400]; snprintf(b, sizeof b, "mock alg=%s part=%s b=%ld n=%ld g=%ld n2=%ld g2=%ld P=%d seed=%llu y=%ld P2=%d seed2=%llu", c.alg.c_str(), c.part.c_str(), c.b, c.n, c.g, c.n2, c.g2, c.P, (unsigned long long)c.seed, c.y, c.P2, (unsigned long long)c.seed2); return b; }
static std::string kv(const std::string& l, const char* k) { std::string key = std::string(" ") + k + "=", s = " " + l; size_t p = s.find(key); if (p == std::string::npos) return ""; size_t e = s.find(' ', p + 1); return s.substr(p + key.size(), e == std::string::npos ? std::string::npos : e - p - key.size()); }
static bool parse(const std::string& l, MCase& c) { if (l.compare(0, 5, "mock ")) return false; c.alg = kv(l, "alg"); c.part = kv(l, "part"); c.b = atol(kv(l, "b").c_str()); c.n = atol(kv(l, "n").c_str()); c.g = atol(kv(l, "g").c_str()); c.n2 = atol(kv(l, "n2").c_str()); c.g2 = atol(kv(l, "g2").c_str());
    c.P = atoi(kv(l, "P").c_str()); c.P2 = atoi(kv(l, "P2").c_str()); c.seed = strtoull(kv(l, "seed").c_str(), nullptr, 10); c.seed2 = strtoull(kv(l, "seed2").c_str(), nullptr, 10); c.y = atol(kv(l, "y").c_str()); return c.P >= 1 && c.P <= 16 && c.P2 >= 1 && c.P2 <= 16 && c.g >= 1 && c.g2 >= 1 && c.n >= 0 && c.n2 >= 0; }
typedef tbb::blocked_range<long> BR;
static bool g_nontrivial = false; static long g_bad_splits = 0;
// Range wrapper that records a split of a range that said it is not divisible
struct WR : BR { WR(long b, long e, size_t g) : BR(b, e, g) {} WR(WR& r, tbb::split s) : BR((check(r), r), s) {} WR(WR& r, tbb::proportional_split& s) : BR((check(r), r), s) {} static void check(const WR& r) { mock::tick(); if (!r.is_divisible()) g_bad_splits++; } };
template <class F> static void with_part(const std::string& p, tbb::affinity_partitioner& ap, const F& f) { if (p == "simple") f(tbb::simple_partitioner()); else if (p == "static") f(tbb::static_partitioner()); else if (p == "affinity") f(ap); else f(tbb::auto_partitioner()); }
static std::string fmt(const char* f, ...) { char b[500]; va_list a; va_start(a, f); vsnprintf(b, sizeof b, f, a); va_end(a); return b; }
static std::string finish(const char* what) {
    if (!mock::err.empty()) return mock::err;
    if (mock::live_allocs != 0) { long l = mock::live_allocs; mock::live_allocs = 0; return fmt("%s: %ld task / tree-node objects were never freed", what, l); }
    if (g_bad_splits) { long k = g_bad_splits; g_bad_splits = 0; return fmt("%s: %ld splits of a range whose is_divisible() was false", what, k); }
    if (mock::n_steals + mock::n_nested > 0) g_nontrivial = true;
    return "";
}
static std::string run_for(const MCase& c) {
    std::vector<std::pair<long, long>> chunks; tbb::affinity_partitioner ap; int rounds = c.part == "affinity" ? 2 : 1; std::string e;
    for (int rd = 0; rd < rounds && e.empty(); rd++) {
        chunks.clear(); mock::reset(c.P, c.seed + (uint64_t)rd, c.y);
        WR range(c.b, c.b + c.n, (size_t)c.g);
        with_part(c.part, ap, [&](auto&& p) { tbb::parallel_for(range, [&](const WR& r) { chunks.push_back({ r.begin(), r.end() }); mock::yield_point(); }, p); });
        e = finish("parallel_for"); if (!e.empty()) break;
        std::sort(chunks.begin(), chunks.end()); long pos = c.b;
        for (auto& ch : chunks) {
            if (ch.first >= ch.second) return fmt("parallel_for body got the empty chunk [%ld,%ld)", ch.first, ch.second);
            if (ch.first != pos) return fmt("chunks do not tile the range: [%ld,%ld) follows position %ld", ch.first, ch.second, pos);
            pos = ch.second;
            if (c.part == "simple") { long sz = ch.second - ch.first; if (c.n <= c.g ? sz != c.n : (sz > c.g || sz < c.g - c.g / 2)) return fmt("simple_partitioner chunk [%ld,%ld) of size %ld, grain %ld, n %ld", ch.first, ch.second, sz, c.g, c.n); }
        }
        if (pos != c.b + c.n) return fmt("chunks cover [%ld,%ld) of [%ld,%ld)", c.b, pos, c.b, c.b + c.n);
    }
    return e;
}
static std::string run_for2d(const MCase& c) {
    typedef tbb::blocked_range2d<long, long> R2; std::vector<std::array<long, 4>> ch; tbb::affinity_partitioner ap; mock::reset(c.P, c.seed, c.y);
    R2 range(c.b, c.b + c.n, (size_t)c.g, 0, c.n2, (size_t)c.g2);
    with_part(c.part, ap, [&](auto&& p) { tbb::parallel_for(range, [&](const R2& r) { ch.push_back({ r.rows().begin(), r.rows().end(), r.cols().begin(), r.cols().end() }); mock::yield_point(); }, p); });
    std::string e = finish("parallel_for(2d)"); if (!e.empty()) return e;
    long cells = 0; std::vector<char> seen((size_t)(c.n * c.n2), 0);
    for (auto& q : ch) { if (q[0] >= q[1] || q[2] >= q[3]) return fmt("2d body got an empty chunk rows [%ld,%ld) cols [%ld,%ld)", q[0], q[1], q[2], q[3]);
        for (long i = q[0]; i < q[1]; i++) for (long j = q[2]; j < q[3]; j++) { if (i < c.b || i >= c.b + c.n || j < 0 || j >= c.n2) return "2d chunk outside the range"; char& s = seen[(size_t)((i - c.b) * c.n2 + j)]; if (s++) return fmt("cell (%ld,%ld) visited twice", i, j); cells++; }
        if (c.part == "simple" && ((q[1] - q[0]) > c.g || (q[3] - q[2]) > c.g2)) return fmt("simple_partitioner left a divisible 2d chunk rows %ld (grain %ld) cols %ld (grain %ld)", q[1] - q[0], c.g, q[3] - q[2], c.g2); }
    if (cells != c.n * c.n2) return fmt("2d chunks cover %ld of %ld cells", cells, c.n * c.n2);
    return "";
}
typedef std::vector<long> Seq;
static std::string run_red(const MCase& c) {
    tbb::affinity_partitioner ap; mock::reset(c.P, c.seed, c.y); Seq res; BR range(c.b, c.b + c.n, (size_t)c.g);
    auto body = [&](const BR& r, Seq acc) { if (r.empty()) mock::fail("parallel_reduce body got an empty range"); for (long i = r.begin(); i < r.end(); i++) acc.push_back(i); mock::yield_point(); return acc; };
    auto join = [](Seq a, const Seq& b) { a.insert(a.end(), b.begin(), b.end()); return a; };
    with_part(c.part, ap, [&](auto&& p) { res = tbb::parallel_reduce(range, Seq(), body, join, p); });
    std::string e = finish("parallel_reduce"); if (!e.empty()) return e;
    if ((long)res.size() != c.n) return fmt("parallel_reduce result has %zu elements, the range has %ld", res.size(), c.n);
    for (long i = 0; i < c.n; i++) if (res[(size_t)i] != c.b + i) return fmt("parallel_reduce result differs from the left-to-right fold at position %ld: %ld", i, res[(size_t)i]);
    return "";
}
// interval monoid: (first, last) of a contiguous run, empty = identity; a join of two runs that do not touch, or in the wrong order, is an error.
// Same law as the free monoid above (associative, not commutative) but O(1) per value, so ranges of millions of elements are affordable.
struct Iv { long f = 0, l = 0; bool bad = false; };
static std::string run_redi(const MCase& c) {
    tbb::affinity_partitioner ap; mock::reset(c.P, c.seed, c.y); Iv res; BR range(c.b, c.b + c.n, (size_t)c.g);
    auto join = [](Iv a, const Iv& b) { if (a.f == a.l) return b; if (b.f == b.l) return a; if (a.l != b.f) a.bad = true; a.l = b.l; a.bad |= b.bad; return a; };
    auto body = [&](const BR& r, Iv acc) { if (r.empty()) mock::fail("parallel_reduce body got an empty range"); Iv me; me.f = r.begin(); me.l = r.end(); mock::yield_point(); return join(acc, me); };
    with_part(c.part, ap, [&](auto&& p) { res = tbb::parallel_reduce(range, Iv(), body, join, p); });
    std::string e = finish("parallel_reduce"); if (!e.empty()) return e;
    if (res.bad) return "parallel_reduce joined two partial results that are not adjacent in left-to-right order";
    if (res.f != c.b || res.l != c.b + c.n) return fmt("parallel_reduce folded [%ld,%ld), the range is [%ld,%ld)", res.f, res.l, c.b, c.b + c.n);
    return "";
}
static std::string dred_once(const MCase& c, int P, uint64_t seed, std::string& out) {
    mock::reset(P, seed, c.y); BR range(c.b, c.b + c.n, (size_t)c.g);
    auto body = [&](const BR& r, std::string acc) { std::string lf = std::to_string(r.begin()) + ":" + std::to_string(r.end()); mock::yield_point(); return acc.empty() ? lf : "(" + acc + " " + lf + ")"; };
    auto join = [](const std::string& a, const std::string& b) { return "(" + a + " " + b + ")"; };
    if (c.part == "static") out = tbb::parallel_deterministic_reduce(range, std::string(), body, join, tbb::static_partitioner());
    else out = tbb::parallel_deterministic_reduce(range, std::string(), body, join, tbb::simple_partitioner());
    return finish("parallel_deterministic_reduce");
}
static std::string run_dred(const MCase& c) {
    std::string a, b2; std::string e = dred_once(c, c.P, c.seed, a); if (!e.empty()) return e;
    int P2 = c.part == "static" ? c.P : c.P2;            // static_partitioner: the tree depends on max_concurrency(), so only the schedule varies
    e = dred_once(c, P2, c.seed2, b2); if (!e.empty()) return e;
    if (a != b2) return fmt("parallel_deterministic_reduce(%s) gives different split/join trees for two schedules (threads %d / %d): %s  vs  %s", c.part.c_str(), c.P, P2, a.substr(0, 160).c_str(), b2.substr(0, 160).c_str());
    return "";
}
static std::string run_scan(const MCase& c) {
    mock::reset(c.P, c.seed, c.y); BR range(c.b, c.b + c.n, (size_t)c.g); std::vector<int> fin((size_t)c.n, 0); std::string bad;
    auto scan = [&](const BR& r, const Seq& sum, bool is_final) { Seq t(sum);
        if (is_final) { if ((long)sum.size() != r.begin() - c.b) bad = fmt("final pass over [%ld,%ld): incoming prefix has %zu elements, expected %ld", r.begin(), r.end(), sum.size(), r.begin() - c.b);
            for (size_t i = 0; i < sum.size() && bad.empty(); i++) if (sum[i] != c.b + (long)i) bad = fmt("final pass over [%ld,%ld): prefix wrong at position %zu", r.begin(), r.end(), i);
            for (long i = r.begin(); i < r.end(); i++) if (++fin[(size_t)(i - c.b)] > 1 && bad.empty()) bad = fmt("index %ld got a second final pass", i); }
        for (long i = r.begin(); i < r.end(); i++) t.push_back(i); mock::yield_point(); return t; };
    auto rj = [](const Seq& a, const Seq& b) { Seq t(a); t.insert(t.end(), b.begin(), b.end()); return t; };
    Seq res = c.part == "simple" ? tbb::parallel_scan(range, Seq(), scan, rj, tbb::simple_partitioner()) : tbb::parallel_scan(range, Seq(), scan, rj, tbb::auto_partitioner());
    std::string e = finish("parallel_scan"); if (!e.empty()) return e; if (!bad.empty()) return bad;
    for (long i = 0; i < c.n; i++) if (fin[(size_t)i] != 1) return fmt("parallel_scan returned but index %ld had %d final passes", c.b + i, fin[(size_t)i]);
    if ((long)res.size() != c.n) return fmt("parallel_scan returned %zu elements, the range has %ld", res.size(), c.n);
    for (long i = 0; i < c.n; i++) if (res[(size_t)i] != c.b + i) return "parallel_scan return value differs from the full reduction";
    return "";
}
static std::string judge2(const MCase& c);
static char g_cur_case[500]; static const char* g_rd = nullptr; static std::string g_prop = "C05"; static bool g_replaying = false;
static void on_crash(int sig) {       // a seeded change may index outside an array: the crash is the verdict, the current case is the replay file
    char name[600]; unsigned long long h = 1469598103934665603ull; for (const char* p = g_cur_case; *p; p++) { h ^= (unsigned char)*p; h *= 1099511628211ull; }
    if (g_replaying) { printf("VIOLATION MOCK-RUNTIME crash (signal %d) inside the algorithm templates\n", sig); fflush(stdout); _exit(1); }
    snprintf(name, sizeof name, "%s/%s-mock-%016llx.case", g_rd ? g_rd : ".", g_prop.c_str(), h);
    FILE* f = fopen(name, "w"); if (f) { fprintf(f, "%s\n# verdict: VIOLATION MOCK-RUNTIME crash (signal %d) inside the algorithm templates\n# replay: c0506_mock_rc replay <this file>\n", g_cur_case, sig); fclose(f); }
    printf("{\"property\":\"%s\",\"evaluations\":1,\"nontrivial_hashes\":[],\"classes\":{},\"sums\":{},\"samples\":[],\"inconclusive\":0,\"wall_s\":0,\"violations\":[{\"kind\":\"MOCK-RUNTIME\",\"detail\":\"crash (signal %d) inside the algorithm templates (not shrunk)\",\"replay\":\"%s\",\"case\":\"%s\"}]}\n", g_prop.c_str(), sig, name, g_cur_case);
    fflush(stdout); _exit(1);
}
static std::string judge(const MCase& c) {
    snprintf(g_cur_case, sizeof g_cur_case, "%s", text(c).c_str());
    mock::step_limit = 300000 + 4 * (c.n / c.g) * (c.alg == "for2d" ? (c.n2 / c.g2 + 1) : 1);      // no algorithm needs more tasks than ~2 per grain-sized piece
    try { return judge2(c); } catch (mock::Runaway&) { mock::active = false; return "runaway: many more task executions / body calls / splits / allocations than twice the number of grain-sized pieces (a loop in the library does not end)"; }
}
static std::string judge2(const MCase& c) {
    g_nontrivial = false; g_bad_splits = 0; mock::live_allocs = 0; mock::n_steals = mock::n_nested = mock::n_mailed = 0;
    if (c.alg == "for") return run_for(c); if (c.alg == "for2d") return run_for2d(c); if (c.alg == "red") return run_red(c); if (c.alg == "redi") return run_redi(c); if (c.alg == "dred") return run_dred(c); if (c.alg == "scan") return run_scan(c);
    return "";
}
static long pick(long lo, long hi) { return *rc::gen::resize(100, rc::gen::inRange<long>(lo, hi + 1)); }
static MCase gen_case(const std::string& prop) {
    MCase c; static const char* A5[] = { "for", "for", "for2d" }; static const char* A6[] = { "red", "dred", "scan", "red" };
    c.alg = prop == "C05" ? A5[pick(0, 2)] : A6[pick(0, 3)];
    static const char* PT[] = { "auto", "simple", "static", "affinity" }; c.part = PT[pick(0, 3)];
    if (c.alg == "dred") c.part = pick(0, 1) ? "simple" : "static"; if (c.alg == "scan") c.part = pick(0, 1) ? "simple" : "auto"; if (c.alg == "for2d" && c.part == "affinity") c.part = "auto";
    c.g = pick(0, 3) ? pick(1, 5) : pick(1, 40);
    switch (pick(0, 4)) { case 0: c.n = pick(0, 12); break; case 1: c.n = c.g * pick(1, 16) + pick(-1, 1); break; case 2: c.n = pick(50, 400); break; case 3: c.n = (1L << pick(1, 9)) + pick(-1, 1); break; default: c.n = pick(1, 2000); }
    if (c.n < 0) c.n = 0; if (c.part == "simple" && c.n > 64 * c.g) c.n = 64 * c.g;
    // deep range pools: a huge range, a steal-happy schedule, adaptive partitioner -- many demand-driven offers from one task (the pool's ring wraps)
    if (c.alg == "for2d") { c.n = std::min<long>(c.n, 40); c.n2 = pick(1, 40); c.g2 = pick(1, 6); }
    c.b = pick(0, 2) ? 0 : pick(-100, 100);
    c.P = (int)pick(1, 8); c.P2 = (int)pick(1, 8); c.seed = (uint64_t)pick(1, 1000000); c.seed2 = (uint64_t)pick(1, 1000000); static const long YK[] = { 0, 1, 2, 4, 8 }; c.y = YK[pick(0, 4)];
    if ((c.alg == "for" || c.alg == "red") && pick(0, 39) == 0) { if (c.alg == "red") c.alg = "redi"; c.part = pick(0, 1) ? "auto" : "affinity"; c.n = pick(1L << 16, 1L << 22); c.g = 1; c.P = (int)pick(2, 8); c.y = pick(1, 3); }
    return c;
}
static uint64_t fnv(const std::string& s) { uint64_t h = 1469598103934665603ull; for (unsigned char ch : s) { h ^= ch; h *= 1099511628211ull; } return h; }
static std::string jesc(const std::string& s) { std::string o = "\""; for (unsigned char ch : s) { if (ch == '"' || ch == '\\') { o += '\\'; o += (char)ch; } else if (ch < 0x20) o += ' '; else o += (char)ch; } return o + "\""; }

int main(int argc, char** argv) {
    { static char alt[1 << 16]; stack_t ss; ss.ss_sp = alt; ss.ss_size = sizeof alt; ss.ss_flags = 0; sigaltstack(&ss, nullptr); struct sigaction sa; memset(&sa, 0, sizeof sa); sa.sa_handler = on_crash; sa.sa_flags = SA_ONSTACK; for (int sg : { SIGSEGV, SIGBUS, SIGABRT, SIGFPE, SIGILL }) sigaction(sg, &sa, nullptr); }
    if (argc >= 3 && !strcmp(argv[1], "replay")) { g_replaying = true; std::ifstream f(argv[2]); std::string l; while (std::getline(f, l)) { if (l.empty() || l[0] == '#') continue; MCase c; if (!parse(l, c)) { puts("BAD-CASE"); return 2; } std::string e = judge(c); printf("%s %s\n", e.empty() ? "OK" : "VIOLATION MOCK-RUNTIME", e.c_str()); return e.empty() ? 0 : 1; } return 2; }
    std::string prop = argc > 1 ? argv[1] : "C05"; long max_success = argc > 2 ? atol(argv[2]) : 2000; const char* sd = getenv("VERIF_LEG_SEED"); const char* rd = getenv("VERIF_REPLAY_DIR"); g_rd = rd; g_prop = prop;
    std::string params = "seed=" + std::string(sd ? sd : "1") + " max_success=" + std::to_string(max_success) + " max_size=100"; setenv("RC_PARAMS", params.c_str(), 1);
    auto t0 = std::chrono::steady_clock::now(); long evals = 0; std::set<uint64_t> nt; std::vector<std::string> samples; std::string failing, detail; std::map<std::string, long> cls;
    bool ok = rc::check(prop + " algorithms on the mock runtime", [&] {
        MCase c = gen_case(prop); std::string t = text(c); evals++;
        std::string e = judge(c);
        if (e.empty() && g_nontrivial) { nt.insert(fnv(t)); cls[c.alg + "_" + c.part]++; if (samples.size() < 4 && nt.size() % 211 == 1) samples.push_back(t); }
        if (!e.empty()) { failing = t; detail = e; }
        RC_ASSERT(e.empty());
    });
    std::string viol;
    if (!ok && !failing.empty()) { MCase c; std::string e; if (parse(failing, c)) e = judge(c);
        if (!e.empty()) { char name[400]; snprintf(name, sizeof name, "%s/%s-mock-%016llx.case", rd ? rd : ".", prop.c_str(), (unsigned long long)fnv(failing)); FILE* f = fopen(name, "w"); if (f) { fprintf(f, "%s\n# verdict: VIOLATION MOCK-RUNTIME %s\n# replay: c0506_mock_rc replay <this file>\n", failing.c_str(), e.c_str()); fclose(f); }
            viol = "{\"kind\":\"MOCK-RUNTIME\",\"detail\":" + jesc(e) + ",\"replay\":" + jesc(name) + ",\"case\":" + jesc(failing) + "}"; } }
    double wall = std::chrono::duration<double>(std::chrono::steady_clock::now() - t0).count();
    std::string j = "{\"property\":\"" + prop + "\",\"evaluations\":" + std::to_string(evals) + ",\"nontrivial_hashes\":[";
    { bool f = true; int n = 0; char b[40]; for (auto h : nt) { if (n++ >= 6000) break; snprintf(b, sizeof b, "%s\"m%015llx\"", f ? "" : ",", (unsigned long long)(h >> 4)); j += b; f = false; } }
    j += "],\"classes\":{"; { bool f = true; for (auto& kv2 : cls) { j += (f ? "" : ",") + jesc("mock_" + kv2.first) + ":" + std::to_string(kv2.second); f = false; } }
    j += "},\"sums\":{},\"samples\":["; for (size_t i = 0; i < samples.size(); i++) j += (i ? "," : "") + jesc(samples[i]);
    char w[64]; snprintf(w, sizeof w, "%.2f", wall); j += "],\"inconclusive\":0,\"wall_s\":" + std::string(w) + ",\"violations\":[" + viol + "]}";
    fflush(stderr); puts(j.c_str());
    return viol.empty() ? 0 : 1;
}
