// C17 (detsched leg) -- cross-thread free under generated schedules.
// tbbmalloc is compiled with the prelude (with_malloc=True), so the public-free-list CAS push, the privatising exchange,
// the mailbox lock and the backend locks are decision points of the baton scheduler.  2-3 threads work on a small array
// of shared slots: a block allocated by one thread into a slot is freed / reallocated by whichever thread gets there.
//
// program:  xfree pool=<0|1> threads=<n> slots=<m> prefill=<k> psize=<bytes>
//           t <i> <op> ...
// thread 0 first fills the slots 0..k-1 with blocks of psize bytes (so that the other threads find blocks of a foreign thread at once), then all threads run.
// ops:  a<slot>:<size>   allocate into the slot if it is empty        A<slot>:<size>:<lg>  aligned_malloc, alignment 2^lg
//       f<slot>          free the slot's block if there is one        r<slot>:<size>      realloc the slot's block if there is one
//       w<k>             k decision points of work
// pool=0: scalable_* (default pool), pool=1: one rml::MemoryPool (malloc-backed raw callbacks).
// Oracle (plain memory, only the baton holder runs): a returned block must not overlap any block that is in a slot at
// that moment (a block handed to free/realloc stops being live when the call starts), must be aligned and msize >= size;
// the pattern of a block is verified when it is taken out of its slot and at the end; realloc keeps min(old,new) bytes.
#include "oneapi/tbb/scalable_allocator.h"
#include "../engine/drv/drv.h"
#include <map>
#include <cstring>

const char* H_PROP = "C17";
bool H_TSO = false;      // SC only: a store still sitting in a simulated store buffer when tbbmalloc unmaps the region would be an artefact

static const int SIZES[] = {8, 16, 24, 64, 100, 128, 1000, 1792, 2000, 4032, 8128, 8200, 20000};
static const int NSIZES = sizeof(SIZES) / sizeof(SIZES[0]);

// ------------------------------------------------------------------ generator
std::string h_gen(Src& s) {
    int pool = (int)s.choose(2); int nt = s.range(2, 3); int ns = s.range(2, 4);
    // value 0 = simplest: few size classes, so that the threads meet in the same slabs
    int c0 = (int)s.choose(NSIZES), c1 = (int)s.choose(NSIZES);
    int pre = s.range(0, ns);
    std::string o = "xfree pool=" + std::to_string(pool) + " threads=" + std::to_string(nt) + " slots=" + std::to_string(ns) + " prefill=" + std::to_string(pre) + " psize=" + std::to_string(SIZES[c0]) + "\n";
    for (int t = 0; t < nt; t++) {
        o += "t " + std::to_string(t);
        int nops = s.range(2, 8);
        bool producer = t == 0 || s.coin(3);              // the owner keeps allocating (privatises what the others free), the others mostly free
        for (int k = 0; k < nops; k++) {
            uint32_t c = producer ? s.weighted({8, 3, 2, 1, 1}) : s.weighted({3, 8, 2, 1, 1});
            int slot = (int)s.choose((uint32_t)ns);
            int size = SIZES[s.coin(4) ? c1 : c0] - (s.coin(5) ? 1 : 0);
            if (c == 0) o += " a" + std::to_string(slot) + ":" + std::to_string(size);
            else if (c == 1) o += " f" + std::to_string(slot);
            else if (c == 2) o += " r" + std::to_string(slot) + ":" + std::to_string(SIZES[s.choose(NSIZES)]);
            else if (c == 3) o += " A" + std::to_string(slot) + ":" + std::to_string(size) + ":" + std::to_string(s.range(4, 12));
            else o += " w" + std::to_string(s.range(1, 6));
        }
        o += "\n";
    }
    return o;
}

// ------------------------------------------------------------------ interpreter + oracle
struct Blk { char* p; size_t size; unsigned seed; int owner; };
enum { EMPTY = 0, FULL = 1, BUSY = 2 };
struct Slot { int state = EMPTY; Blk b; };
static std::vector<Slot> g_slots;
static std::vector<std::vector<std::string>> g_ops;
static int g_pool = 0; static rml::MemoryPool* g_mp = nullptr;
static long n_alloc = 0, n_free_own = 0, n_free_foreign = 0, n_realloc_moved = 0, n_skipped = 0, n_alloc_after_foreign = 0; static unsigned g_next = 1;

static void* raw_get(intptr_t, size_t& bytes) { return malloc(bytes); }
static int raw_put(intptr_t, void* p, size_t) { free(p); return 0; }

static inline unsigned char pat(unsigned seed, size_t i) { return (unsigned char)(seed * 131u + i * 7u + (i >> 8) + 1u); }
static void fill(const Blk& b) { for (size_t i = 0; i < b.size; i++) b.p[i] = (char)pat(b.seed, i); }
static void verify(const Blk& b, size_t upto, const char* p, const char* when) {
    for (size_t i = 0; i < upto; i++)
        if ((unsigned char)p[i] != pat(b.seed, i))
            vs_violation("CONTENT", "block of %zu bytes (allocated by t%d) changed at offset %zu (%s)", b.size, b.owner, i, when);
}
static void check_new(char* p, size_t size, size_t align, const char* what) {
    if ((uintptr_t)p & (align - 1)) vs_violation("ALIGN", "%s(%zu) returned %p, not aligned to %zu", what, size, (void*)p, align);
    size_t ms = g_pool ? rml::pool_msize(g_mp, p) : scalable_msize(p);
    if (ms < size) vs_violation("MSIZE", "%s(%zu): msize %zu", what, size, ms);
    for (auto& s : g_slots)
        if (s.state == FULL && p < s.b.p + (s.b.size ? s.b.size : 1) && s.b.p < p + (size ? size : 1))
            vs_violation("OVERLAP", "%s(%zu) returned %p, which overlaps the live block %p (%zu bytes, allocated by t%d)", what, size, (void*)p, (void*)s.b.p, s.b.size, s.b.owner);
}

static void run_thread(int tid) {
    for (auto& op : g_ops[tid]) {
        char c = op[0];
        if (c == 'w') { vs_work(atoi(op.c_str() + 1)); continue; }
        int slot = atoi(op.c_str() + 1); size_t colon = op.find(':');
        size_t size = colon == std::string::npos ? 0 : (size_t)atol(op.c_str() + colon + 1);
        if (slot < 0 || slot >= (int)g_slots.size()) continue;
        Slot& s = g_slots[slot];
        if (c == 'a' || c == 'A') {
            if (s.state != EMPTY) { n_skipped++; continue; }
            s.state = BUSY;
            size_t align = size <= 8 ? 8 : 16; char* p;
            if (c == 'A') {
                size_t c2 = op.find(':', colon + 1); align = (size_t)1 << atoi(op.c_str() + c2 + 1);
                p = (char*)(g_pool ? rml::pool_aligned_malloc(g_mp, size, align) : scalable_aligned_malloc(size, align));
            } else p = (char*)(g_pool ? rml::pool_malloc(g_mp, size) : scalable_malloc(size));
            if (!p) vs_inconclusive("NO-MEMORY", "allocation of %zu bytes failed", size);
            check_new(p, size, align, c == 'A' ? "aligned_malloc" : "malloc");
            Blk b{p, size, g_next++, tid}; fill(b);
            s.b = b; s.state = FULL; n_alloc++;
            if (n_free_foreign) n_alloc_after_foreign++;
        } else if (c == 'f') {
            if (s.state != FULL) { n_skipped++; continue; }
            Blk b = s.b; s.state = BUSY;                    // from here on the allocator may reuse the memory
            verify(b, b.size, b.p, "before free");
            if (g_pool) rml::pool_free(g_mp, b.p); else scalable_free(b.p);
            s.state = EMPTY;
            if (b.owner == tid) n_free_own++; else n_free_foreign++;
        } else if (c == 'r') {
            if (s.state != FULL) { n_skipped++; continue; }
            Blk b = s.b; s.state = BUSY;
            verify(b, b.size, b.p, "before realloc");
            if (size == 0) size = 1;
            char* q = (char*)(g_pool ? rml::pool_realloc(g_mp, b.p, size) : scalable_realloc(b.p, size));
            if (!q) vs_inconclusive("NO-MEMORY", "realloc to %zu bytes failed", size);
            check_new(q, size, size <= 8 ? 8 : 16, "realloc");
            verify(b, b.size < size ? b.size : size, q, "after realloc");
            if (q != b.p) n_realloc_moved++;
            if (b.owner != tid && q != b.p) n_free_foreign++;
            Blk nb{q, size, g_next++, tid}; fill(nb);
            s.b = nb; s.state = FULL;
        }
    }
}
static void thread_body(void* p) { run_thread((int)(intptr_t)p); }
static void alloc_into(int slot, size_t size, int tid) {
    Slot& s = g_slots[slot];
    char* p = (char*)(g_pool ? rml::pool_malloc(g_mp, size) : scalable_malloc(size));
    if (!p) vs_inconclusive("NO-MEMORY", "allocation of %zu bytes failed", size);
    check_new(p, size, size <= 8 ? 8 : 16, "malloc");
    Blk b{p, size, g_next++, tid}; fill(b);
    s.b = b; s.state = FULL; n_alloc++;
}

void h_run(Case& c) {
    int nt = 2, ns = 2, pre = 0; size_t psize = 8;
    for (auto& l : c.lines) {
        auto w = split_ws(l);
        if (w.empty()) continue;
        if (w[0] == "xfree") { g_pool = (int)kvl(l, "pool", 0); nt = (int)kvl(l, "threads", 2); ns = (int)kvl(l, "slots", 2); pre = (int)kvl(l, "prefill", 0); psize = (size_t)kvl(l, "psize", 8); }
        else if (w[0] == "t") { int t = atoi(w[1].c_str()); if ((int)g_ops.size() <= t) g_ops.resize(t + 1); g_ops[t].assign(w.begin() + 2, w.end()); }
    }
    if (nt < 1 || nt > 4 || ns < 1 || ns > 8) vs_inconclusive("BAD-CASE", "threads/slots out of range");
    g_ops.resize(nt); g_slots.resize(ns);
    vs_begin(c.sched.c_str());
    if (g_pool) {
        rml::MemPoolPolicy pol(raw_get, raw_put);
        if (rml::pool_create_v1(1, &pol, &g_mp) != rml::POOL_OK) vs_inconclusive("NO-MEMORY", "pool_create_v1 failed");
    }
    for (int i = 0; i < pre && i < ns; i++) alloc_into(i, psize, 0);
    std::vector<int> ids;
    for (int t = 1; t < nt; t++) ids.push_back(vs_thread_start(thread_body, (void*)(intptr_t)t));
    run_thread(0);
    for (int id : ids) vs_thread_join(id);
    vs_end();
    for (auto& s : g_slots) {
        if (s.state == BUSY) vs_violation("HARNESS", "slot still busy at the end");
        if (s.state == FULL) verify(s.b, s.b.size, s.b.p, "at the end");
    }
    // every block left is freed by the main thread (foreign for the blocks of the other threads) and the memory must be usable again
    for (auto& s : g_slots) if (s.state == FULL) { if (g_pool) rml::pool_free(g_mp, s.b.p); else scalable_free(s.b.p); s.state = EMPTY; }
    vs_stat_add("n_alloc", n_alloc); vs_stat_add("n_free_own", n_free_own); vs_stat_add("n_free_foreign", n_free_foreign);
    vs_stat_add("n_realloc_moved", n_realloc_moved); vs_stat_add("n_skipped", n_skipped); vs_stat_add("n_alloc_after_foreign_free", n_alloc_after_foreign);
    vs_stat_flag(g_pool ? "memory_pool" : "default_pool");
    if (n_free_foreign) vs_stat_flag("foreign_free");
    if (n_realloc_moved) vs_stat_flag("realloc_moved");
    vs_stat_add("nt", (n_free_foreign > 0 && n_alloc_after_foreign > 0) ? 1 : 0);
    vs_ok();
}

int main(int argc, char** argv) { return drv_main(argc, argv); }
