// C19 -- collaborative_call_once (one winner; exception -> exactly one caller, flag callable again) and
// enumerable_thread_specific / combinable (one element per thread, stable address, exact combine).   DESIGN.md s.6 C19.
//
// program text, variant 1:
//   once par=<1..4> arena=<mc 0..3, 0 = no explicit arena>[:<reserved, default 1>] flags=<1..2> [witness=<1|2>]
//   f <flag> work=<k> pf=<n>:<wk> tp=<0|1> throws=<a,b,...|->     the once-function of the flag: k work, nested parallel_for over n indices
//                                                                 (wk work each, 0 = none), attempts a,b,.. throw (tp 0: before the loop, 1: after it)
//   t <i> <op> ...      scenario threads (external threads); ops:
//       W<k>  work      O<f>  collaborative_call_once(flag f)      A<f>  the same inside arena.execute
//       T<f>:<m>  task_group with m tasks each calling once(f), then wait      P<f>:<m>  parallel_for over m indices each calling once(f)
// variant 2:
//   ets kind=<0 ets_no_key|1 ets_key_per_instance|2 combinable> init=<0 default|1 finit|2 exemplar> threads=<n> pre=<m> par=<p>
//   t <i> <op> ...      L local()   E local(exists)   W<k> work   P<m>:<wk> parallel_for over m indices, every index calls local() (worker threads join)
//                       the first op of threads 0..pre-1 runs sequentially before the others start (table pre-sized)
//   at quiescence the main thread runs combine_each / iteration / range / size / combine.
// variant 3 (life cycle):
//   ets2 kind=<0|1|2> init=<0 default|1 finit> threads=<n> par=<p> throwat=<k|-1> clear=<0|1>
//   every scenario thread: phase A = 1-2 local()/local(exists) calls (concurrently); the k-th initialiser call of the whole case throws, its caller
//   must get that exception and its NEXT local() must run the initialiser again and return a valid element (exists=false);
//   barrier; thread 0 checks size()/combine_each and, with clear=1, calls clear(); phase B = the same threads call local(exists) again:
//   after clear() every thread gets a NEW element from a new initialiser call and exists=false.
//   move=<1 move construction|2 move assignment into a fresh container> late=<k>: at the barrier thread 0 moves the container instead; phase B is then run by k NEW
//   threads on the moved-to container (first access: fresh element, exists=false, one initialiser call; then a repeated call), the values of phase A must all be in it.
#include "oneapi/tbb/collaborative_call_once.h"
#include "oneapi/tbb/enumerable_thread_specific.h"
#include "oneapi/tbb/combinable.h"
#include "oneapi/tbb/task_group.h"
#include "oneapi/tbb/task_arena.h"
#include "oneapi/tbb/parallel_for.h"
#include "oneapi/tbb/global_control.h"
#include <set>
#include "../engine/drv/drv.h"

const char* H_PROP = "C19";
bool H_TSO = true;

// ------------------------------------------------------------------ generator
static std::string gen_once(Src& s) {
    int nt = 2 + (int)s.weighted({ 5, 4, 2, 1, 1 });
    int par = 1 + (int)s.weighted({ 4, 2, 3, 1 }); par = par == 1 ? 2 : par == 2 ? 1 : par;      // 0 -> 2
    int mc = (int)s.weighted({ 3, 1, 2, 2 });                                                      // 0 = no explicit arena
    int nf = 1 + (int)s.coin(4);
    // witnesses of the two known findings that the default domain excludes (see run_once): aim at them instead
    int witness = drv_flag("--witness") ? 1 : drv_flag("--witness-allot") ? 2 : 0;
    if (witness == 2) { par = 1; mc = 1; if (nt < 4) nt = 4; }
    if (witness == 1)      // smallest shape of the known deadlock: the winner calls from inside a one-slot arena, one late caller from outside
        return "once par=2 arena=1:0 flags=1 witness=1\nf 0 work=" + std::to_string(s.range(4000, 6000)) + " pf=0:0 tp=0 throws=-\nt 0 A0\nt 1 W" + std::to_string(s.range(2500, 3500)) + " O0\n";
    std::vector<int> calls(nf, 0); std::vector<std::string> tl;
    for (int t = 0; t < nt; t++) {
        std::string o = "t " + std::to_string(t); int nops = s.range(1, 3); bool called = false;
        for (int k = 0; k < nops; k++) {
            uint32_t c = s.weighted({ 6, 2, mc ? 3u : 0u, 2, 1 });
            if (k == nops - 1 && !called && c == 1) c = 0;
            int f = nf > 1 ? (int)s.choose((uint32_t)nf) : 0;
            if (c == 0) { o += " O" + std::to_string(f); calls[f]++; called = true; }
            else if (c == 1) o += " W" + std::to_string(s.range(1, 6));
            else if (c == 2) { o += " A" + std::to_string(f); calls[f]++; called = true; }
            else { int m = s.range(2, 3); o += std::string(c == 3 ? " T" : " P") + std::to_string(f) + ":" + std::to_string(m); calls[f] += m; called = true; }
        }
        tl.push_back(o);
    }
    std::string o = "once par=" + std::to_string(par) + " arena=" + std::to_string(mc) + " flags=" + std::to_string(nf) + (witness ? " witness=" + std::to_string(witness) : std::string()) + "\n";
    for (int f = 0; f < nf; f++) {
        static const int pfn[] = { 0, 3, 2, 5, 8 };
        int n = pfn[s.weighted({ 3, 3, 2, 2, 1 })];
        o += "f " + std::to_string(f) + " work=" + std::to_string(s.range(0, 5)) + " pf=" + std::to_string(n) + ":" + std::to_string(n ? s.range(1, 4) : 0) + " tp=" + std::to_string(s.choose(2)) + " throws=";
        std::string th; for (int a = 0; a < 3 && a < calls[f]; a++) if (s.coin(3)) th += (th.empty() ? "" : ",") + std::to_string(a);
        o += (th.empty() ? "-" : th) + "\n";
    }
    for (auto& l : tl) o += l + "\n";
    return o;
}
static std::string gen_ets(Src& s) {
    int nt = 2 + (int)s.weighted({ 3, 4, 3, 3, 2, 2, 2 });
    int kind = (int)s.weighted({ 3, 3, 2 }); int init = (int)s.choose(kind == 2 ? 2 : 3);
    int pre = (int)s.weighted({ 4, 1, 2, 1, 1 }); if (pre > nt - 2) pre = nt - 2; if (pre < 0) pre = 0;
    int par = 1 + (int)s.weighted({ 3, 2, 2, 1 }); par = par == 1 ? 2 : par == 2 ? 1 : par;
    std::string o = "ets kind=" + std::to_string(kind) + " init=" + std::to_string(init) + " threads=" + std::to_string(nt) + " pre=" + std::to_string(pre) + " par=" + std::to_string(par) + "\n";
    bool pf_used = false;
    for (int t = 0; t < nt; t++) {
        o += "t " + std::to_string(t); int nops = s.range(1, 4);
        for (int k = 0; k < nops; k++) {
            uint32_t c = (k == 0) ? s.weighted({ 5, 3, 2, 0 }) : s.weighted({ 4, 3, 2, (!pf_used && par > 1) ? 1u : 0u });
            if (k == 0 && t < pre && c == 2) c = 0;
            if (c == 0) o += " L"; else if (c == 1) o += " E"; else if (c == 2) o += " W" + std::to_string(s.range(1, 5));
            else { pf_used = true; o += " P" + std::to_string(s.range(2, 6)) + ":" + std::to_string(s.range(1, 3)); }
        }
        o += "\n";
    }
    return o;
}
std::string h_gen(Src& s) {
    if (drv_flag("--witness-phantom")) return "ets2 kind=" + std::to_string(s.choose(3)) + " init=0 threads=2 par=1 throwat=0 clear=0 w=0 witness=3\n";
    if (drv_flag("--witness") || drv_flag("--witness-allot")) return gen_once(s);
    uint32_t v = s.weighted({ 4, 3, 2 });
    if (v == 2) {
        int nt = 2 + (int)s.choose(4); int kind = (int)s.choose(3); int init = (int)s.choose(2);
        int par = 1 + (int)s.choose(3);
        int throwat = s.coin(2) ? (int)s.choose((uint32_t)nt + 1) : -1;
        return "ets2 kind=" + std::to_string(kind) + " init=" + std::to_string(init) + " threads=" + std::to_string(nt) + " par=" + std::to_string(par) + " throwat=" + std::to_string(throwat) +
               " clear=" + std::to_string((int)!s.coin(3)) + " w=" + std::to_string(s.range(0, 4)) + (s.coin(3) ? " move=" + std::to_string(s.range(1, 2)) + " late=" + std::to_string(s.range(2, 4)) : std::string()) + "\n";
    }
    return v == 0 ? gen_once(s) : gen_ets(s);
}

// ================================================================== variant 1: collaborative_call_once
struct OnceEx { int flag, attempt; };
struct FlagSt {
    tbb::collaborative_once_flag* flag = nullptr;
    int work = 0, pfn = 0, pfw = 0, tp = 0; std::set<int> throws;
    int attempts = 0, in_f = 0, completed = 0, in_call = 0, runner = -1; uint64_t done_stamp = 0;
    std::map<int, int> thrown, caught; long normal = 0, calls = 0; bool overlap = false, retried_after_throw = false;
    std::map<int, int> in_call_thread;
};
static std::vector<FlagSt> FL; static tbb::task_arena* g_arena = nullptr;
static long n_helped = 0, n_chunks = 0, n_throw = 0, n_fast = 0, n_calls = 0, n_overlap_calls = 0;

static void once_fn(int f) {
    FlagSt& s = FL[f]; int a = s.attempts++; int me = vs_self();
    if (s.in_f++ > 0) vs_violation("ONCE-TWO-RUNNERS", "flag %d: attempt %d started on thread %d while thread %d is still running the function", f, a, me, s.runner);
    if (s.completed) vs_violation("ONCE-RAN-AGAIN", "flag %d: attempt %d started on thread %d after the function had completed successfully", f, a, me);
    s.runner = me; if (s.in_call >= 2) s.overlap = true;
    if (a > 0 && s.thrown.count(a - 1)) s.retried_after_throw = true;
    bool thr = s.throws.count(a) != 0;
    vs_work(s.work);
    if (thr && s.tp == 0) { n_throw++; FL[f].thrown[a] = 1; FL[f].in_f--; throw OnceEx{ f, a }; }
    if (s.pfn) {
        int wk = s.pfw;
        tbb::parallel_for(tbb::blocked_range<int>(0, s.pfn, 1), [f, wk, me](const tbb::blocked_range<int>& r) {
            for (int i = r.begin(); i < r.end(); i++) { n_chunks++; int t = vs_self(); if (t != me && FL[f].in_call_thread[t] > 0) n_helped++; vs_work(wk); }
        }, tbb::simple_partitioner());
    }
    if (thr) { n_throw++; FL[f].thrown[a] = 1; FL[f].in_f--; throw OnceEx{ f, a }; }
    vs_work(1);
    FlagSt& s2 = FL[f];
    if (s2.completed) vs_violation("ONCE-RAN-AGAIN", "flag %d completed twice", f);
    s2.completed++; s2.done_stamp = vs_now(); s2.in_f--;
}
static void do_call(int f) {
    int me = vs_self();
    { FlagSt& s = FL[f]; s.calls++; n_calls++; s.in_call++; s.in_call_thread[me]++; if (s.in_f > 0) { s.overlap = true; n_overlap_calls++; } if (s.completed) n_fast++; }
    uint64_t inv = vs_now(); int caught = -1;
    try { tbb::collaborative_call_once(*FL[f].flag, once_fn, f); }
    catch (OnceEx& e) { caught = e.attempt; if (e.flag != f) vs_violation("ONCE-WRONG-EXCEPTION", "call on flag %d received the exception of flag %d", f, e.flag); }
    uint64_t ret = vs_now();
    FlagSt& s = FL[f]; s.in_call--; s.in_call_thread[me]--;
    if (caught >= 0) {
        if (!s.thrown.count(caught)) vs_violation("ONCE-WRONG-EXCEPTION", "flag %d: caller received an exception of attempt %d which did not throw", f, caught);
        if (++s.caught[caught] > 1) vs_violation("ONCE-EXCEPTION-TWICE", "flag %d: the exception of attempt %d reached %d callers", f, caught, s.caught[caught]);
    } else {
        s.normal++;
        if (s.completed != 1 || !(s.done_stamp < ret)) vs_violation("ONCE-RETURN-EARLY", "flag %d: a call (thread %d, invoked %lu) returned normally at %lu but successful completions=%d (function running=%d, attempts=%d)", f, me, (unsigned long)inv, (unsigned long)ret, s.completed, s.in_f, s.attempts);
    }
}
struct OOp { char c; int f = 0, m = 0; };
static std::vector<std::vector<OOp>> OT;
static void once_thread(void* p) {
    int t = (int)(intptr_t)p;
    for (auto& op : OT[t]) {
        switch (op.c) {
        case 'W': vs_work(op.f); break;
        case 'O': do_call(op.f); break;
        case 'A': { int f = op.f; if (g_arena) g_arena->execute([f] { do_call(f); }); else do_call(f); break; }
        case 'T': { tbb::task_group tg; int f = op.f; for (int i = 0; i < op.m; i++) tg.run([f, i] { vs_work(i); do_call(f); }); tg.wait(); break; }
        case 'P': { int f = op.f; tbb::parallel_for(tbb::blocked_range<int>(0, op.m, 1), [f](const tbb::blocked_range<int>& r) { for (int i = r.begin(); i < r.end(); i++) do_call(f); }, tbb::simple_partitioner()); break; }
        }
    }
}
static void run_once(Case& c) {
    int par = 2, mc = 0, res = 1, nf = 1, witness = 0; bool excluded = false, excluded_sat = false;
    for (auto& l : c.lines) {
        auto w = split_ws(l);
        if (w[0] == "once") { par = (int)kvl(l, "par", 2); mc = (int)kvl(l, "arena", 0); { std::string a = kvs(l, "arena", "0"); size_t c = a.find(':'); if (c != std::string::npos) res = atoi(a.c_str() + c + 1); } nf = (int)kvl(l, "flags", 1); witness = (int)kvl(l, "witness", 0); FL.resize((size_t)nf); }
        else if (w[0] == "f") {
            int f = atoi(w[1].c_str()); if (f < 0 || f >= (int)FL.size()) vs_inconclusive("BAD-CASE", "flag");
            FlagSt& s = FL[f]; s.work = (int)kvl(l, "work", 0); s.tp = (int)kvl(l, "tp", 0); std::string pf = kvs(l, "pf", "0:0"); sscanf(pf.c_str(), "%d:%d", &s.pfn, &s.pfw);
            std::string th = kvs(l, "throws", "-"); if (th != "-") for (const char* q = th.c_str(); *q;) { s.throws.insert(atoi(q)); while (*q && *q != ',') q++; if (*q == ',') q++; }
        } else if (w[0] == "t") {
            int t = atoi(w[1].c_str()); if ((int)OT.size() <= t) OT.resize(t + 1);
            for (size_t i = 2; i < w.size(); i++) { OOp op; op.c = w[i][0]; sscanf(w[i].c_str() + 1, "%d:%d", &op.f, &op.m); if (op.c != 'W' && (op.f < 0 || op.f >= (int)FL.size())) vs_inconclusive("BAD-CASE", "flag"); OT[t].push_back(op); }
        }
    }
    if (OT.empty() || FL.empty()) vs_inconclusive("BAD-CASE", "empty");
    // Known finding outside this property (worker budget, C16/C02 territory), kept out of the default domain and counted; witness=2 keeps it in:
    // with max_allowed_parallelism=1 (soft limit 0) a task_arena(1,1) has two slots, a second external thread entering it takes the slot meant for
    // the mandatory-concurrency worker and lowers the arena's worker request to -1; a third caller's execute() is enqueued, enables mandatory
    // concurrency (+1 -> request 0, min_workers 1, max_workers 0) and market::update_allotment asserts `assigned == max_workers` (cs-dbg) as soon
    // as another arena has demand.  Explicit arenas are therefore not combined with par=1 here: the A ops call directly.
    if (par == 1 && mc > 0 && witness != 2) { mc = 0; excluded = true; }
    // Known finding of THIS property (genuine deadlock), kept out of the default domain and counted; witness=1 keeps it in:
    // a winner that called collaborative_call_once from inside arena.execute() keeps its arena slot while ~collaborative_once_runner spins
    // until m_ref_count == 0; a helper that already holds a lifetime_guard on that runner then calls m_arena.execute() in assist() and, when the
    // arena has no free slot, blocks there for a slot.  If every slot of the arena is held by such a winner (two attempts after an exception,
    // or two flags) nobody ever leaves: the winners spin for ever, the helpers sleep for ever.  So at most slots-1 scenario threads get to
    // call from inside the explicit arena (slots = max(2, max_concurrency) with a reserved slot, max_concurrency without); the A ops of the others call directly.
    if (mc > 0 && witness != 1) {
        int slots = res == 0 ? mc : (mc < 2 ? 2 : mc), granted = 0;
        for (auto& t : OT) { bool has = false; for (auto& op : t) if (op.c == 'A') has = true; if (!has) continue; if (granted < slots - 1) { granted++; continue; } for (auto& op : t) if (op.c == 'A') op.c = 'O'; excluded_sat = true; }
    }
    vs_begin(c.sched.c_str());
    {
        tbb::global_control gc(tbb::global_control::max_allowed_parallelism, (size_t)par);
        if (mc > 0) g_arena = new tbb::task_arena(mc, (unsigned)(res > mc ? mc : res));
        for (auto& s : FL) s.flag = new tbb::collaborative_once_flag;
        std::vector<int> ids;
        for (size_t t = 1; t < OT.size(); t++) ids.push_back(vs_thread_start(once_thread, (void*)(intptr_t)t));
        once_thread((void*)(intptr_t)0);
        for (int id : ids) vs_thread_join(id);
    }
    vs_end();
    bool nt = false; long thrown = 0, retried = 0;
    for (size_t f = 0; f < FL.size(); f++) {
        FlagSt& s = FL[f];
        if (s.completed > 1) vs_violation("ONCE-RAN-AGAIN", "flag %zu: %d successful completions", f, s.completed);
        if (s.in_f || s.in_call) vs_violation("ONCE-LEDGER", "flag %zu: bookkeeping not balanced (in_f=%d in_call=%d)", f, s.in_f, s.in_call);
        for (auto& kv : s.thrown) { thrown++; if (s.caught[kv.first] != 1) vs_violation("ONCE-EXCEPTION-LOST", "flag %zu: the exception of attempt %d reached %d callers", f, kv.first, s.caught[kv.first]); }
        if (s.normal > 0 && s.completed != 1) vs_violation("ONCE-RETURN-EARLY", "flag %zu: %ld calls returned normally but completions=%d", f, s.normal, s.completed);
        if ((long)s.thrown.size() + s.normal != s.calls) vs_violation("ONCE-LEDGER", "flag %zu: %ld calls, %ld normal returns, %zu exceptions", f, s.calls, s.normal, s.thrown.size());
        if (s.overlap) nt = true; if (s.retried_after_throw) retried++;
    }
    vs_stat_add("n_calls", n_calls); vs_stat_add("n_overlap_calls", n_overlap_calls); vs_stat_add("n_throw", n_throw); vs_stat_add("n_helped", n_helped); vs_stat_add("n_chunks", n_chunks); vs_stat_add("n_fastpath", n_fast);
    if (excluded) { vs_stat_add("n_excluded", 1); vs_stat_flag("excluded_par1_explicit_arena"); }
    if (excluded_sat) { vs_stat_add("n_excluded", 1); vs_stat_flag("excluded_arena_saturated_by_once_callers"); }
    vs_stat_flag("once"); if (nt) vs_stat_flag("once_callers_overlap_function"); if (n_helped) vs_stat_flag("once_moonlighter_ran_chunk"); if (thrown) vs_stat_flag("once_exception"); if (retried) vs_stat_flag("once_retry_after_exception");
    if (thrown && nt) vs_stat_flag("once_exception_with_overlap");
    vs_stat_add("nt", nt ? 1 : 0);
    vs_ok();
}

// ================================================================== variant 2: enumerable_thread_specific / combinable
static bool g_count_on = false, g_copy_is_init = false; static int g_next_serial = 0; static long g_init_total = 0, g_init_outside = 0;
static std::map<int, int> g_init_by, g_in_local;
struct InitTag {};
struct Elem {
    int serial = -1, owner = -1; long count = 0; uint64_t digit = 0;
    void fresh() { int me = vs_self(); g_init_total++; g_init_by[me]++; if (!g_in_local[me]) g_init_outside++; serial = g_next_serial++; owner = -1; count = 0; digit = serial < 16 ? (uint64_t)1 << (4 * serial) : 0; }
    Elem() { if (g_count_on) fresh(); }
    explicit Elem(InitTag) { if (g_count_on) fresh(); }
    Elem(const Elem& o) : serial(o.serial), owner(o.owner), count(o.count), digit(o.digit) { if (g_count_on && g_copy_is_init) fresh(); }
    Elem& operator=(const Elem&) = default;
};
struct TSt { Elem* addr = nullptr; long calls = 0; uint64_t f_inv = 0, f_ret = 0; };
struct RootSample { uint64_t t; uintptr_t root; };
static std::vector<RootSample> g_samples;        // (stamp, raw my_root) at the invocation and the response of every local() call
static std::map<int, TSt> TS; static long n_doubling_shared = 0, n_first = 0, n_first_grew = 0, n_lookups = 0, n_roots = 0, n_worker_first = 0; static std::set<uintptr_t> g_roots;
static int g_nscen = 0;
struct EOp { char c; int a = 0, b = 0; };
static std::vector<std::vector<EOp>> ET; static int g_pre = 0, g_pre_done = 0;

template <class C> struct EtsRun {
    C& c; explicit EtsRun(C& cc) : c(cc) {}
    uintptr_t root() const { uintptr_t r; memcpy(&r, (const char*)&c + sizeof(void*), sizeof r); return r; }    // ets_base: vptr, my_root, my_count (statistics only)
    void access(bool want_exists) {
        int me = vs_self(); bool first = TS[me].addr == nullptr; n_lookups++;
        bool ex = first;                       // preset to the wrong answer
        uint64_t inv = vs_now(); g_samples.push_back({ inv, root() }); g_in_local[me]++;
        Elem* p = want_exists ? &c.local(ex) : &c.local();
        g_in_local[me]--; uint64_t ret = vs_now(); uintptr_t r1 = root(); g_samples.push_back({ ret, r1 }); g_roots.insert(r1);
        TSt& t = TS[me]; t.calls++;
        if (want_exists && ex != !first) vs_violation("ETS-EXISTS", "thread %d: local(exists) reported exists=%d on its %s access", me, (int)ex, first ? "first" : "repeated");
        if (g_init_by[me] != 1) vs_violation("ETS-INIT-COUNT", "thread %d: %d initialiser calls on this thread after %ld calls of local() (must be exactly 1)", me, g_init_by[me], t.calls);
        if (first) {
            for (auto& kv : TS) if (kv.first != me && kv.second.addr == p) vs_violation("ETS-SHARED", "threads %d and %d got the same element %p", kv.first, me, (void*)p);
            if (p->owner != -1) vs_violation("ETS-SHARED", "thread %d: first access returned an element already owned by thread %d", me, p->owner);
            p->owner = me; t.addr = p; n_first++; if (me >= g_nscen) n_worker_first++;
            t.f_inv = inv; t.f_ret = ret;
        } else {
            if (p != t.addr) vs_violation("ETS-ADDRESS-CHANGED", "thread %d: local() returned %p, earlier %p", me, (void*)p, (void*)t.addr);
            if (p->owner != me) vs_violation("ETS-SHARED", "thread %d: its element is now owned by thread %d", me, p->owner);
        }
        if (p->count != t.calls - 1) vs_violation("ETS-SHARED", "thread %d: element counter %ld after %ld own accesses", me, p->count, t.calls - 1);
        p->count++;
    }
    void thread(int t) {
        size_t k0 = 0;
        if (t < g_pre) { vs_block_until([t] { return g_pre_done == t; }); if (!ET[t].empty()) { run_op(ET[t][0]); k0 = 1; } g_pre_done++; }
        vs_block_until([] { return g_pre_done >= g_pre; });
        for (size_t k = k0; k < ET[t].size(); k++) run_op(ET[t][k]);
    }
    void run_op(const EOp& op) {
        switch (op.c) {
        case 'L': access(false); break;
        case 'E': access(true); break;
        case 'W': vs_work(op.a); break;
        case 'P': { int wk = op.b; EtsRun* self = this; tbb::parallel_for(tbb::blocked_range<int>(0, op.a, 1), [self, wk](const tbb::blocked_range<int>& r) { for (int i = r.begin(); i < r.end(); i++) { self->access((i & 1) != 0); vs_work(wk); } }, tbb::simple_partitioner()); break; }
        }
    }
    static void tramp(void* p) { auto* a = (std::pair<EtsRun*, int>*)p; a->first->thread(a->second); }
    void check_visit(const char* how, std::map<const Elem*, int>& seen) {
        for (auto& kv : TS) if (kv.second.addr) { auto it = seen.find(kv.second.addr); int n = it == seen.end() ? 0 : it->second; if (n != 1) vs_violation("ETS-VISIT", "%s visited the element of thread %d %d times", how, kv.first, n); }
        size_t owners = 0; for (auto& kv : TS) if (kv.second.addr) owners++;
        if (seen.size() != owners) vs_violation("ETS-VISIT", "%s visited %zu elements, %zu threads own one", how, seen.size(), owners);
    }
    template <class X = C> auto iterate(int) -> decltype(std::declval<X&>().begin(), void()) {
        std::map<const Elem*, int> seen; for (auto it = c.begin(); it != c.end(); ++it) seen[&*it]++; check_visit("iteration", seen);
        std::map<const Elem*, int> seen2; auto rg = c.range(); for (auto it = rg.begin(); it != rg.end(); ++it) seen2[&*it]++; check_visit("range()", seen2);
        // the iterators are random access: walk backwards and jump around, dereferencing after every move (an iterator caches the element it last pointed to)
        { std::vector<const Elem*> fwd; for (auto it = c.begin(); it != c.end(); ++it) fwd.push_back(&*it); long n = (long)fwd.size();
          auto bad = [&](const char* how, long i) { vs_violation("ETS-ITERATOR", "%s: the iterator should point to element %ld of %ld, it points elsewhere", how, i, n); };
          if (n > 0) {
              auto it = c.end(); for (long k = n; k-- > 0;) { --it; if (&*it != fwd[(size_t)k]) bad("--it from end()", k); }
              auto jt = c.end(); jt--; for (long k = n - 1; k >= 0; k--) { if (&*jt != fwd[(size_t)k]) bad("it-- from end()", k); if (k) jt--; }
              auto kt = c.begin(); long pos = 0; (void)*kt;
              for (long step = 0; step < 2 * n; step++) { long to = (pos * 7 + 3 + step) % n; kt += (to - pos); pos = to; if (&*kt != fwd[(size_t)pos]) bad("it += d", pos); if (&c.begin()[pos] != fwd[(size_t)pos]) bad("begin()[i]", pos); if (&*(c.end() - (n - pos)) != fwd[(size_t)pos]) bad("end() - d", pos); if ((kt - c.begin()) != pos) bad("it - begin()", pos); }
              auto lt = c.begin(); (void)*lt; for (long k = 1; k < n; k++) { auto old = lt++; if (&*old != fwd[(size_t)k - 1] || &*lt != fwd[(size_t)k]) bad("it++", k); }
          } }
        const X& cc = c; std::map<const Elem*, int> seen3; for (auto it = cc.begin(); it != cc.end(); ++it) seen3[&*it]++; check_visit("const iteration", seen3);
        size_t owners = 0; for (auto& kv : TS) if (kv.second.addr) owners++;
        if (c.size() != owners) vs_violation("ETS-VISIT", "size()=%zu but %zu threads own an element", (size_t)c.size(), owners);
        if (c.empty() != (owners == 0)) vs_violation("ETS-VISIT", "empty() wrong");
    }
    template <class X = C> void iterate(long) {}
    void finale() {
        size_t owners = 0; uint64_t want = 0; for (auto& kv : TS) if (kv.second.addr) { owners++; want += kv.second.addr->digit; if (kv.second.addr->count != kv.second.calls) vs_violation("ETS-SHARED", "thread %d: element counter %ld, own accesses %ld", kv.first, kv.second.addr->count, kv.second.calls); }
        if ((size_t)g_init_total != owners) vs_violation("ETS-INIT-COUNT", "%ld initialiser calls for %zu distinct threads that called local()", g_init_total, owners);
        if (g_init_outside) vs_violation("ETS-INIT-COUNT", "%ld initialiser calls outside any local() call", g_init_outside);
        g_count_on = false;
        std::map<const Elem*, int> seen; c.combine_each([&seen](const Elem& e) { seen[&e]++; }); check_visit("combine_each", seen);
        iterate(0);
        Elem r = c.combine([](const Elem& a, const Elem& b) { Elem x(a); x.digit = a.digit + b.digit; return x; });
        if (owners && r.digit != want) vs_violation("ETS-VISIT", "combine() folded digits %016lx, elements hold %016lx (one hex digit per element = number of visits)", (unsigned long)r.digit, (unsigned long)want);
    }
    void run(int nt) {
        uintptr_t r_begin = root();
        g_count_on = true;
        std::vector<std::pair<EtsRun*, int>> args; args.reserve(16); std::vector<int> ids;
        for (int t = 0; t < nt; t++) args.push_back({ this, t });
        for (int t = 1; t < nt; t++) ids.push_back(vs_thread_start(tramp, &args[t]));
        thread(0);
        for (int id : ids) vs_thread_join(id);
        vs_wait_quiescent();
        uintptr_t r_end = root(); bool peek_ok = r_begin == 0 && r_end != 0;
        finale();
        // a growth (my_root replaced) happened between two consecutive samples; a first access overlaps it iff it was in progress over
        // that whole window (it has no sample of its own inside).  Non-trivial: some growth was overlapped by >= 2 first accesses.
        long best = 0;
        for (size_t i = 1; i < g_samples.size(); i++) if (g_samples[i].root != g_samples[i - 1].root) {
            long k = 0; for (auto& kv : TS) if (kv.second.addr && kv.second.f_inv <= g_samples[i - 1].t && kv.second.f_ret >= g_samples[i].t) k++;
            n_first_grew += k; if (k > best) best = k; if (k >= 2 && g_samples[i - 1].root != 0) n_doubling_shared++;
        }
        if (!peek_ok) vs_stat_flag("ets_root_peek_unreliable");
        vs_stat_add("nt", (peek_ok && best >= 2) ? 1 : 0);
        if (peek_ok && best >= 2) vs_stat_flag("ets_first_accesses_overlap_growth");
        if (peek_ok && best >= 3) vs_stat_flag("ets_3_first_accesses_overlap_growth");
        if (peek_ok && n_doubling_shared) vs_stat_flag("ets_first_accesses_overlap_doubling");
    }
};
static void run_ets(Case& c) {
    int kind = 0, init = 0, nt = 2, par = 2;
    for (auto& l : c.lines) {
        auto w = split_ws(l);
        if (w[0] == "ets") { kind = (int)kvl(l, "kind", 0); init = (int)kvl(l, "init", 0); nt = (int)kvl(l, "threads", 2); g_pre = (int)kvl(l, "pre", 0); par = (int)kvl(l, "par", 2); }
        else if (w[0] == "t") { int t = atoi(w[1].c_str()); if ((int)ET.size() <= t) ET.resize(t + 1); for (size_t i = 2; i < w.size(); i++) { EOp op; op.c = w[i][0]; sscanf(w[i].c_str() + 1, "%d:%d", &op.a, &op.b); ET[t].push_back(op); } }
    }
    if (nt < 1 || nt > 12) vs_inconclusive("BAD-CASE", "threads"); ET.resize((size_t)nt); if (g_pre > nt) g_pre = nt; g_nscen = nt;
    if (kind == 2 && init == 2) init = 1;
    vs_begin(c.sched.c_str());
    tbb::global_control gc(tbb::global_control::max_allowed_parallelism, (size_t)par);
    g_copy_is_init = (init == 2);
    auto finit = [] { return Elem(InitTag{}); };
    typedef tbb::enumerable_thread_specific<Elem, tbb::cache_aligned_allocator<Elem>, tbb::ets_no_key> E0;
    typedef tbb::enumerable_thread_specific<Elem, tbb::cache_aligned_allocator<Elem>, tbb::ets_key_per_instance> E1;
    typedef tbb::combinable<Elem> E2;
    Elem exemplar;
    if (kind == 0) { E0* e = init == 0 ? new E0() : init == 1 ? new E0(finit) : new E0(exemplar); EtsRun<E0> r(*e); r.run(nt); }
    else if (kind == 1) { E1* e = init == 0 ? new E1() : init == 1 ? new E1(finit) : new E1(exemplar); EtsRun<E1> r(*e); r.run(nt); }
    else { E2* e = init == 0 ? new E2() : new E2(finit); EtsRun<E2> r(*e); r.run(nt); }
    vs_end();
    vs_stat_add("n_first", n_first); vs_stat_add("n_first_grew", n_first_grew); vs_stat_add("n_lookups", n_lookups); vs_stat_add("n_tables", (long)g_roots.size()); vs_stat_add("n_worker_first", n_worker_first);
    static const char* kn[] = { "ets_no_key", "ets_key_per_instance", "combinable" }; static const char* in[] = { "init_default", "init_finit", "init_exemplar" };
    vs_stat_flag(kn[kind]); vs_stat_flag(in[init]); if (n_worker_first) vs_stat_flag("ets_worker_thread_element"); if (g_roots.size() >= 3) vs_stat_flag("ets_two_doublings");
    vs_ok();
}

// ================================================================== variant 3: element life cycle (throwing initialiser, clear())
struct InitThrow { int n; };
static long l_inits = 0, l_throwat = -1, l_live = 0, l_excluded = 0; static bool l_witness = false; static std::map<int, int> l_init_by;
struct LElem {
    int serial, owner = -1;
    LElem() : serial((int)l_inits) { long k = l_inits++; l_init_by[vs_self()]++; if (k == l_throwat) throw InitThrow{ (int)k }; l_live++; }
    LElem(const LElem&) = delete;
    ~LElem() { l_live--; }
};
template <class C> struct LifeRun {
    C* cp; int nt, w; bool do_clear; int mv = 0, late = 0; bool use_finit = false; bool moved = false; int phase = 0, arrived = 0; std::map<int, LElem*> mine; long n_threw = 0, n_retry = 0;
    void first_access(int me, const char* when) {
        for (int attempt = 0; attempt < 3; attempt++) {
            int before = l_init_by[me]; bool ex = true; LElem* p = nullptr;
            try { p = &cp->local(ex); }
            catch (InitThrow&) {
                n_threw++;
                if (l_init_by[me] != before + 1) vs_violation("ETS-INIT-COUNT", "thread %d (%s): the throwing local() made %d initialiser calls", me, when, l_init_by[me] - before);
                continue;       // the element was never created: the next local() must try again
            }
            if (attempt) n_retry++;
            if (!p) vs_violation("ETS-NULL", "thread %d (%s): local() returned a null element%s", me, when, attempt ? " on the call after its initialiser had thrown" : "");
            if (ex) vs_violation("ETS-EXISTS", "thread %d (%s): local(exists) reported exists=true on the thread's first successful access%s", me, when, attempt ? " after its initialiser had thrown" : "");
            if (l_init_by[me] != before + 1) vs_violation("ETS-INIT-COUNT", "thread %d (%s): first successful local() made %d initialiser calls, must be exactly 1", me, when, l_init_by[me] - before);
            for (auto& kv : mine) if (kv.second == p) vs_violation("ETS-SHARED", "threads %d and %d got the same element (%s)", kv.first, me, when);
            if (p->owner != -1) vs_violation("ETS-SHARED", "thread %d (%s): first access returned an element already owned by thread %d", me, when, p->owner);
            p->owner = me; mine[me] = p; return;
        }
        vs_violation("ETS-INIT-COUNT", "thread %d (%s): local() threw three times, only one initialiser call is planned to throw", me, when);
    }
    void again(int me, const char* when) {
        int before = l_init_by[me]; bool ex = false; LElem* p = &cp->local(ex);
        if (!ex || p != mine[me] || l_init_by[me] != before) vs_violation("ETS-ADDRESS-CHANGED", "thread %d (%s): repeated local() gave exists=%d element %p (first %p) and %d more initialiser calls", me, when, (int)ex, (void*)p, (void*)mine[me], l_init_by[me] - before);
    }
    void check(const char* when) {
        std::map<const LElem*, int> seen; cp->combine_each([&seen](const LElem& e) { seen[&e]++; });
        // known finding C19-ets-throwing-initialiser-phantom-element: the slot of an element whose initialiser threw stays in the container, so size(),
        // iteration and combine_each include an object that was never constructed.  Outside the witness leg the surplus (at most one per throw) is counted as excluded.
        if (n_threw && !l_witness && seen.size() > mine.size() && seen.size() <= mine.size() + (size_t)n_threw) { l_excluded++; }
        else
        if (seen.size() != mine.size()) vs_violation(n_threw ? "ETS-PHANTOM-ELEMENT" : "ETS-VISIT", "%s: combine_each visited %zu elements, %zu threads own one%s", when, seen.size(), mine.size(), n_threw ? " (an initialiser threw earlier: its never-constructed element is still in the container)" : "");
        if (!moved) for (auto& kv : mine) if (seen[kv.second] != 1) vs_violation("ETS-VISIT", "%s: the element of thread %d was visited %d times", when, kv.first, seen[kv.second]);
        if (moved) {      // the values of phase A are in the moved-to container (identified by their owner field, not by address)
            std::set<int> owners; cp->combine_each([&owners](const LElem& e) { owners.insert(e.owner); });
            for (auto& kv : mine) if (!owners.count(kv.first)) vs_violation("ETS-VISIT", "%s: the value of thread %d is not in the moved-to container", when, kv.first);
            return; }
        if ((long)mine.size() != l_live) vs_violation("ETS-INIT-COUNT", "%s: %ld elements alive, %zu threads own one", when, l_live, mine.size());
    }
    void thread(int t) {
        int me = vs_self(); vs_work(w ? (t * 7) % (w + 1) : 0);
        first_access(me, "phase A"); if (t & 1) { vs_work(1); again(me, "phase A"); }
        arrived++;
        if (t == 0) {
            vs_block_until([this] { return arrived == nt; });
            check("after phase A");
            if (mv) {
                auto finit = [] { return LElem(); };
                C* c2 = nullptr;
                if (mv == 1) c2 = new C(std::move(*cp));
                else { c2 = use_finit ? new C(finit) : new C(); *c2 = std::move(*cp); }
                cp = c2; moved = true; check("after the move");
            } else
            if (do_clear) { cp->clear(); mine.clear(); if (l_live != 0) vs_violation("ETS-INIT-COUNT", "clear() left %ld elements alive", l_live); }
            phase = 1;
        } else vs_block_until([this] { return phase == 1; });
        vs_work(w ? (t * 3) % (w + 1) : 0);
        if (mv) return;      // phase B on a moved-to container is run by new threads only
        if (do_clear) first_access(me, "after clear()"); else again(me, "phase B");
        again(me, "phase B, second call");
    }
    void late_thread(int t) {
        int me = vs_self(); vs_block_until([this] { return phase == 1; });
        vs_work(w ? (t * 5) % (w + 1) : 0);
        first_access(me, "new thread on the moved-to container"); vs_work(1); again(me, "new thread on the moved-to container, second call");
    }
    static void late_tramp(void* p) { auto* a = (std::pair<LifeRun*, int>*)p; a->first->late_thread(a->second); }
    static void tramp(void* p) { auto* a = (std::pair<LifeRun*, int>*)p; a->first->thread(a->second); }
    void run() {
        std::vector<std::pair<LifeRun*, int>> args; args.reserve(16); std::vector<int> ids;
        for (int t = 0; t < nt; t++) args.push_back({ this, t });
        for (int t = 1; t < nt; t++) ids.push_back(vs_thread_start(tramp, &args[(size_t)t]));
        if (mv) for (int t = 0; t < late; t++) { args.push_back({ this, nt + t }); ids.push_back(vs_thread_start(late_tramp, &args.back())); }
        thread(0);
        for (int id : ids) vs_thread_join(id);
        vs_wait_quiescent();
        check("at the end");
    }
};
static void run_ets2(Case& c) {
    const std::string& l = c.lines[0];
    int kind = (int)kvl(l, "kind", 0), init = (int)kvl(l, "init", 0), nt = (int)kvl(l, "threads", 2), par = (int)kvl(l, "par", 2); l_throwat = kvl(l, "throwat", -1);
    bool clr = kvl(l, "clear", 0) != 0; int w = (int)kvl(l, "w", 0); int mv = (int)kvl(l, "move", 0), late = (int)kvl(l, "late", 0); if (late < 0 || late > 6) late = 0; l_witness = kvl(l, "witness", 0) != 0;
    if (nt < 1 || nt > 8) vs_inconclusive("BAD-CASE", "threads");
    vs_begin(c.sched.c_str());
    tbb::global_control gc(tbb::global_control::max_allowed_parallelism, (size_t)par);
    typedef tbb::enumerable_thread_specific<LElem, tbb::cache_aligned_allocator<LElem>, tbb::ets_no_key> E0;
    typedef tbb::enumerable_thread_specific<LElem, tbb::cache_aligned_allocator<LElem>, tbb::ets_key_per_instance> E1;
    typedef tbb::combinable<LElem> E2;
    long threw = 0, retried = 0; if (mv) vs_stat_flag("ets_moved_then_new_threads");
    // finit constructs the element in place (guaranteed elision): no copy of LElem is needed
    auto finit = [] { return LElem(); };
    if (kind == 0) { E0* e = init ? new E0(finit) : new E0(); LifeRun<E0> r{ e, nt, w, clr }; r.mv = mv; r.late = late; r.use_finit = init != 0; r.run(); threw = r.n_threw; retried = r.n_retry; }
    else if (kind == 1) { E1* e = init ? new E1(finit) : new E1(); LifeRun<E1> r{ e, nt, w, clr }; r.mv = mv; r.late = late; r.use_finit = init != 0; r.run(); threw = r.n_threw; retried = r.n_retry; }
    else { E2* e = init ? new E2(finit) : new E2(); LifeRun<E2> r{ e, nt, w, clr }; r.mv = mv; r.late = late; r.use_finit = init != 0; r.run(); threw = r.n_threw; retried = r.n_retry; }
    vs_end();
    static const char* kn[] = { "ets_no_key", "ets_key_per_instance", "combinable" };
    vs_stat_flag(kn[kind]); vs_stat_flag("ets_life_cycle"); if (clr) vs_stat_flag("ets_clear_then_local"); if (threw) vs_stat_flag("ets_initialiser_threw"); if (retried) vs_stat_flag("ets_retry_after_throw");
    if (l_excluded) { vs_stat_add("n_excluded", l_excluded); vs_stat_flag("excluded_phantom_element_after_throwing_initialiser"); }
    vs_stat_add("n_init_throws", threw); vs_stat_add("nt", (clr || threw) ? 1 : 0);
    vs_ok();
}

void h_run(Case& c) {
    if (c.lines.empty()) vs_inconclusive("BAD-CASE", "empty case");
    if (c.lines[0].rfind("ets2", 0) == 0) { run_ets2(c); return; }
    if (c.lines[0].rfind("once", 0) == 0) run_once(c); else run_ets(c);
}

int main(int argc, char** argv) { return drv_main(argc, argv); }
