// C02 -- no lost wake-up: a thread that sleeps inside the library is woken once its condition holds;
// enqueued work runs even if nobody waits in that arena.   DESIGN.md s.6 C02.
//
// program:  cfg par=<1..4> fin=<0|1> arenas=<mc>:<res>,... queues=<cap>,... mutexes=<n> rwmutexes=<n>
//           t <i> <op> ...
// ops: E<a>:<n>:<k>  enqueue n tasks of k work into arena a        B   block (harness level) until this thread's enqueued tasks ran
//      G<n>:<k>      task_group: run n tasks of k work, wait        S   idle until every other thread is blocked (workers fall asleep)
//      P<q>:<v> / O<q>  blocking push / pop on bounded queue q      M<m>:<k>  tbb::mutex lock, work, unlock
//      R<m>:<k> / X<m>:<k>  tbb::rw_mutex read / write section      A<a>:<k>  arena a execute(k work)       W<k> work
//      M/R/X<m>:<k>:99  the section keeps the lock until every other thread is blocked or finished (waiters are then asleep when it is released)
//      M/R/X<m>:<k>:<j+1>  the section additionally waits (harness level) until thread j has finished its program: at most one such
//                    wait per program, j has no queue role and never touches that lock, so the program still cannot deadlock
//      F<q>          blocking push of an element whose copy constructor throws (the slot it drew stays behind as an invalid entry)
//      D<a>:<n>:<k>  only with par=1: enqueue one task into arena a, then run a task_group of n tasks whose bodies block until that
//                    enqueued task has run (the single mandatory worker must go to the arena with the enqueued task), wait
// cfg collide=1: every tbb::mutex / rw_mutex object is placed at an address that maps to the same entry of the library's address-waiter
//                table (index formula of src/tbb/address_waiter.cpp replicated; if it changes the objects merely stop colliding).
// The generator only produces programs that cannot deadlock at user level: pushes and pops of a queue are balanced and a
// thread has at most one queue role; locks are never nested.  So "no runnable thread" / "spin fix-point" = lost wake-up.
#include "oneapi/tbb/task_group.h"
#include "oneapi/tbb/task_arena.h"
#include "oneapi/tbb/global_control.h"
#include "oneapi/tbb/concurrent_queue.h"
#include "oneapi/tbb/mutex.h"
#include "oneapi/tbb/rw_mutex.h"
#include "oneapi/tbb/parallel_for.h"
#include "../engine/drv/drv.h"

const char* H_PROP = "C02";
bool H_TSO = true;

std::string h_gen(Src& s) {
    int par = s.range(1, 4); if (par == 1 && drv_flag("--no-soft0")) par = 2;   // assertion flavour: known finding C02-update-allotment-assert
    int nt = s.range(1, 4); if (nt == 1 && s.flip()) nt = 2;
    bool locks = drv_flag("--locks");      // focused leg: sleeping locks at colliding addresses, hold-and-wait sections
    if (locks && nt < 3) nt = 3 + (int)s.choose(2);
    int na = 1 + (int)s.weighted({ 4, 3, 1 }); int nq = nt >= 2 ? (int)s.weighted({ 3, 4, 1 }) : 0; int nm = (int)s.choose(3), nrw = (int)s.choose(2);
    if (locks) { nq = (int)s.choose(2); nm = 1 + (int)s.choose(2); nrw = (int)s.choose(2); if (nm + nrw < 2) nm = 2; }
    bool fin = s.coin(4);
    std::string cfg = "cfg par=" + std::to_string(par) + " fin=" + std::to_string(fin) + " arenas=";
    for (int i = 0; i < na; i++) { int mc = s.range(1, 3); int res = (int)s.choose(2); if (res > mc) res = mc; cfg += (i ? "," : "") + std::to_string(mc) + ":" + std::to_string(res); }
    cfg += " queues="; for (int i = 0; i < nq; i++) cfg += (i ? "," : "") + std::to_string(s.range(1, 2)); if (!nq) cfg += "-";
    cfg += " mutexes=" + std::to_string(nm) + " rwmutexes=" + std::to_string(nrw) + " collide=" + std::to_string((nm + nrw >= 2) ? (locks ? 1 : (int)s.coin(2)) : 0);
    std::vector<std::vector<std::string>> ops(nt);
    auto rnd_ops = [&](int t, int n) {
        for (int k = 0; k < n; k++) {
            switch (s.weighted({ locks ? 1u : 5u, locks ? 1u : 3u, locks ? 1u : 3u, locks ? 0u : 2u, nm ? (locks ? 8u : 2u) : 0u, nrw ? (locks ? 5u : 2u) : 0u, locks ? 0u : 3u, 1, (par == 1 && !locks) ? 3u : 0u })) {
            case 0: ops[t].push_back("E" + std::to_string(s.choose((uint32_t)na)) + ":" + std::to_string(s.range(1, 3)) + ":" + std::to_string(s.range(0, 6))); if (s.flip()) ops[t].push_back("B"); break;
            case 1: ops[t].push_back("G" + std::to_string(s.range(1, 4)) + ":" + std::to_string(s.range(0, 8))); break;
            case 2: ops[t].push_back("S"); break;
            case 3: ops[t].push_back("A" + std::to_string(s.choose((uint32_t)na)) + ":" + std::to_string(s.range(0, 8))); break;
            // in the focused leg some sections are long enough (in decision points) for a waiter to use up its bounded spin (5 pauses + 32 yields) and go to sleep
            // ":99" = the section keeps the lock until every other thread is blocked or finished (so whoever wants this lock is asleep when it is released)
            case 4: ops[t].push_back("M" + std::to_string(s.choose((uint32_t)nm)) + ":" + std::to_string(s.range(0, 6)) + (s.coin(locks ? 2 : 4) ? ":99" : "")); break;
            case 5: ops[t].push_back(std::string(s.flip() ? "X" : "R") + std::to_string(s.choose((uint32_t)nrw)) + ":" + std::to_string(s.range(0, 6)) + (s.coin(locks ? 2 : 4) ? ":99" : "")); break;
            case 6: ops[t].push_back("B"); break;
            case 8: ops[t].push_back("D" + std::to_string(s.choose((uint32_t)na)) + ":" + std::to_string(s.range(1, 3)) + ":" + std::to_string(s.range(0, 4))); break;
            default: ops[t].push_back("W" + std::to_string(s.range(1, 8)));
            }
        }
    };
    for (int t = 0; t < nt; t++) rnd_ops(t, s.range(1, 4));
    // queue roles: producer / consumer pairs with equal counts, at most one role per thread
    std::vector<int> role(nt, 0);
    for (int q = 0; q < nq; q++) {
        std::vector<int> freeT; for (int t = 0; t < nt; t++) if (!role[t]) freeT.push_back(t);
        if (freeT.size() < 2) break;
        uint32_t ia = s.choose((uint32_t)freeT.size()), ib = s.choose((uint32_t)freeT.size() - 1); if (ib >= ia) ib++; int a = freeT[ia], b = freeT[ib];
        role[a] = role[b] = 1; int m = s.range(1, 4);
        for (int i = 0; i < m; i++) { ops[a].insert(ops[a].begin() + (long)s.choose((uint32_t)ops[a].size() + 1), "P" + std::to_string(q) + ":" + std::to_string(a * 100 + i)); }
        for (int i = 0; i < m; i++) { ops[b].insert(ops[b].begin() + (long)s.choose((uint32_t)ops[b].size() + 1), "O" + std::to_string(q)); }
        // at most ONE failing push per queue: it draws a ticket, throws, and leaves an invalid entry for the consumers to skip.  The entry keeps
        // occupying capacity until a pop passes it (known finding C09-dead-slot-capacity), so a second failing push behind it could block for ever
        // on an empty queue once the balanced pops are used up; with one, every later push is passed by the pop that takes its item.
        int nf = (int)s.weighted({ 3, 2 });
        for (int i = 0; i < nf; i++) { ops[a].insert(ops[a].begin() + (long)s.choose((uint32_t)ops[a].size() + 1), "F" + std::to_string(q)); }
    }
    // at most one hold-and-wait: a lock section of thread i that waits for thread j, where j has no queue role and never touches that lock
    if (nt >= 2 && (nm || nrw) && (locks ? !s.coin(4) : s.coin(2))) {
        std::vector<std::pair<int, int>> secs;
        for (int t = 0; t < nt; t++) for (int k = 0; k < (int)ops[t].size(); k++) if ((ops[t][k][0] == 'M' || ops[t][k][0] == 'X' || ops[t][k][0] == 'R') && std::count(ops[t][k].begin(), ops[t][k].end(), ':') == 1) secs.push_back({ t, k });
        if (!secs.empty()) {
            auto pr = secs[s.choose((uint32_t)secs.size())]; std::string& op = ops[pr.first][pr.second];
            bool rw = op[0] != 'M'; int m = atoi(op.c_str() + 1);
            std::vector<int> cand;
            for (int j = 0; j < nt; j++) {
                if (j == pr.first || role[j]) continue; bool uses = false;
                for (auto& o2 : ops[j]) { bool rw2 = o2[0] == 'X' || o2[0] == 'R'; if ((o2[0] == 'M' || rw2) && rw2 == rw && atoi(o2.c_str() + 1) == m) uses = true; }
                if (!uses) cand.push_back(j);
            }
            if (!cand.empty()) op += ":" + std::to_string(cand[s.choose((uint32_t)cand.size())] + 1);
        }
    }
    std::string o = cfg + "\n";
    for (int t = 0; t < nt; t++) { o += "t " + std::to_string(t); for (auto& x : ops[t]) o += " " + x; o += "\n"; }
    return o;
}

// ------------------------------------------------------------------ interpreter
struct QE; static std::vector<tbb::task_arena*> A; static std::vector<tbb::concurrent_bounded_queue<QE>*> Q; static std::vector<tbb::mutex*> M; static std::vector<tbb::rw_mutex*> RW;
static std::vector<std::vector<std::string>> g_ops; static int g_nt;
static std::vector<long> enq_submitted, enq_done;           // per thread
static long n_tasks_run = 0, n_other_thread = 0, n_pushed = 0, n_popped = 0, n_lock_waits = 0; static int holders_m[8], writers_rw[8], readers_rw[8];
static const char* g_phase = "run";
static std::vector<char> g_finished; static long n_hold_waits = 0, n_failed_pushes = 0, n_dep_groups = 0;
struct QE { int v; QE(int x = 0) : v(x) {} QE(const QE& o) : v(o.v) { if (o.v == -12345) throw std::runtime_error("element copy failed"); } QE& operator=(const QE& o) { v = o.v; return *this; } };
static void hold_wait(int d) { if (d == 99) { vs_wait_quiescent(); return; } if (d > 0) { n_hold_waits++; vs_block_until([d] { return g_finished[(size_t)(d - 1)] != 0; }); } }

static void thread_fn(void* p) {
    int t = (int)(intptr_t)p; int me_id = vs_self();
    for (auto& op : g_ops[t]) {
        char c = op[0]; int a = 0, b = 0, d = 0; sscanf(op.c_str() + 1, "%d:%d:%d", &a, &b, &d);
        switch (c) {
        case 'W': vs_work(a); break;
        case 'S': vs_wait_quiescent(); break;
        case 'E': for (int i = 0; i < b; i++) { enq_submitted[t]++; int k = d; A[a]->enqueue([t, k, me_id] { vs_work(k); n_tasks_run++; if (vs_self() != me_id) n_other_thread++; enq_done[t]++; }); } break;
        case 'B': vs_block_until([t] { return enq_done[t] == enq_submitted[t]; }); break;
        case 'G': { tbb::task_group g; int done = 0; for (int i = 0; i < a; i++) g.run([&done, b, me_id] { vs_work(b); done++; n_tasks_run++; if (vs_self() != me_id) n_other_thread++; }); g.wait(); if (done != a) vs_violation("WAIT-TOO-EARLY", "task_group::wait returned after %d of %d tasks", done, a); break; }
        case 'A': { int ran = 0; A[a]->execute([&ran, b] { vs_work(b); ran++; }); if (ran != 1) vs_violation("WAIT-TOO-EARLY", "execute returned but its functor ran %d times", ran); break; }
        case 'P': Q[a]->push(QE(b)); n_pushed++; break;
        case 'F': { bool threw = false; try { Q[a]->push(QE(-12345)); } catch (std::runtime_error&) { threw = true; } if (!threw) vs_violation("EXCEPTION-LOST", "push of an element whose copy throws returned normally"); n_failed_pushes++; break; }
        case 'O': { QE v(-1); Q[a]->pop(v); n_popped++; break; }
        case 'M': { M[a]->lock(); if (holders_m[a]++) vs_violation("MUTEX-EXCLUSION", "two holders of tbb::mutex %d", a); vs_work(b); hold_wait(d); holders_m[a]--; M[a]->unlock(); break; }
        case 'X': { RW[a]->lock(); if (writers_rw[a]++ || readers_rw[a]) vs_violation("MUTEX-EXCLUSION", "writer of rw_mutex %d not alone", a); vs_work(b); hold_wait(d); writers_rw[a]--; RW[a]->unlock(); break; }
        case 'R': { RW[a]->lock_shared(); if (writers_rw[a]) vs_violation("MUTEX-EXCLUSION", "reader of rw_mutex %d with a writer", a); readers_rw[a]++; vs_work(b); hold_wait(d); readers_rw[a]--; RW[a]->unlock_shared(); break; }
        case 'D': { n_dep_groups++; bool ran = false; enq_submitted[t]++; A[a]->enqueue([t, &ran] { n_tasks_run++; ran = true; enq_done[t]++; });
                    tbb::task_group g; int done = 0; for (int i = 0; i < b; i++) g.run([&done, &ran, d] { vs_work(d); vs_block_until([&ran] { return ran; }); done++; n_tasks_run++; });
                    g.wait(); if (done != b) vs_violation("WAIT-TOO-EARLY", "task_group::wait returned after %d of %d tasks", done, b); break; }
        }
    }
    g_finished[(size_t)t] = 1;
}
static std::string progress() { char b[200]; snprintf(b, sizeof b, "phase=%s tasks_run=%ld pushed=%ld popped=%ld", g_phase, n_tasks_run, n_pushed, n_popped); return b; }

void h_run(Case& c) {
    int par = 2, fin = 0, nm = 0, nrw = 0, collide = 0; std::vector<std::pair<int, int>> arenas; std::vector<int> caps;
    for (auto& l : c.lines) {
        auto w = split_ws(l);
        if (w[0] == "cfg") {
            par = (int)kvl(l, "par", 2); fin = (int)kvl(l, "fin", 0); nm = (int)kvl(l, "mutexes", 0); nrw = (int)kvl(l, "rwmutexes", 0); collide = (int)kvl(l, "collide", 0);
            std::string as = kvs(l, "arenas", "1:0"); for (size_t p = 0; p < as.size();) { size_t e = as.find(',', p); std::string it = as.substr(p, e == std::string::npos ? std::string::npos : e - p); int mc = 1, rs = 0; sscanf(it.c_str(), "%d:%d", &mc, &rs); arenas.push_back({ mc, rs }); if (e == std::string::npos) break; p = e + 1; }
            std::string qs = kvs(l, "queues", "-"); for (size_t p = 0; qs != "-" && p < qs.size();) { size_t e = qs.find(',', p); caps.push_back(atoi(qs.substr(p, e == std::string::npos ? std::string::npos : e - p).c_str())); if (e == std::string::npos) break; p = e + 1; }
        } else if (w[0] == "t") { int t = atoi(w[1].c_str()); if ((int)g_ops.size() <= t) g_ops.resize(t + 1); g_ops[t].assign(w.begin() + 2, w.end()); }
    }
    g_nt = (int)g_ops.size(); enq_submitted.assign(g_nt, 0); enq_done.assign(g_nt, 0); g_finished.assign((size_t)g_nt, 0);
    vs_begin(c.sched.c_str());
    vs_on_deadlock([](const char* d) { vs_violation("LOST-WAKEUP", "%s; %s", d, progress().c_str()); });
    vs_on_fixpoint([](const char* d) { vs_violation("LOST-WAKEUP-SPIN", "%s; %s", d, progress().c_str()); });
    {
        tbb::task_scheduler_handle handle{ tbb::attach{} };
        {
            tbb::global_control gc(tbb::global_control::max_allowed_parallelism, (size_t)par);
            for (auto& a : arenas) A.push_back(new tbb::task_arena(a.first, (unsigned)a.second));
            for (int cap : caps) { auto* q = new tbb::concurrent_bounded_queue<QE>; q->set_capacity(cap); Q.push_back(q); }
            if (collide) {     // addresses with one common index ((a >> 5) ^ a) % 2048 into the address-waiter table
                static char pool[1 << 20]; std::vector<void*> slots; uintptr_t want = ~(uintptr_t)0;
                for (uintptr_t p = ((uintptr_t)pool + 63) & ~(uintptr_t)63; p + 64 < (uintptr_t)pool + sizeof pool && (int)slots.size() < nm + nrw; p += 8) {
                    uintptr_t idx = ((p >> 5) ^ p) % 2048; if (want == ~(uintptr_t)0) want = idx;
                    if (idx == want && (slots.empty() || p >= (uintptr_t)slots.back() + 64)) slots.push_back((void*)p);
                }
                if ((int)slots.size() < nm + nrw) vs_inconclusive("BAD-CASE", "no colliding addresses found");
                for (int i = 0; i < nm; i++) M.push_back(new (slots[(size_t)i]) tbb::mutex); for (int i = 0; i < nrw; i++) RW.push_back(new (slots[(size_t)(nm + i)]) tbb::rw_mutex);
                vs_stat_flag("colliding_lock_addresses");
            } else { for (int i = 0; i < nm; i++) M.push_back(new tbb::mutex); for (int i = 0; i < nrw; i++) RW.push_back(new tbb::rw_mutex); }
            std::vector<int> ids; for (int t = 1; t < g_nt; t++) ids.push_back(vs_thread_start(thread_fn, (void*)(intptr_t)t));
            thread_fn((void*)(intptr_t)0);
            g_phase = "join"; for (int id : ids) vs_thread_join(id);
            g_phase = "drain-enqueued";      // nobody waits in those arenas: the tasks must still run
            vs_block_until([] { for (int t = 0; t < g_nt; t++) if (enq_done[t] != enq_submitted[t]) return false; return true; });
            g_phase = "teardown";
            for (auto* a : A) delete a;
        }
        if (fin) { g_phase = "finalize"; bool ok = tbb::finalize(handle, std::nothrow); if (!ok) vs_stat_flag("finalize_refused"); else vs_stat_flag("finalize_done"); }
    }
    long fb = vs_futex_blocked_total(), fw = vs_futex_woken_total();
    vs_end();
    if (n_pushed != n_popped) vs_violation("QUEUE-BALANCE", "pushed %ld popped %ld", n_pushed, n_popped);
    if (n_hold_waits) vs_stat_flag("hold_and_wait"); if (n_failed_pushes) vs_stat_flag("failed_push"); if (n_dep_groups) vs_stat_flag("tasks_blocked_on_enqueued");
    vs_stat_add("n_hold_waits", n_hold_waits); vs_stat_add("n_failed_pushes", n_failed_pushes); vs_stat_add("n_dep_groups", n_dep_groups);
    vs_stat_add("n_tasks", n_tasks_run); vs_stat_add("n_other_thread", n_other_thread); vs_stat_add("n_futex_blocked", fb); vs_stat_add("n_futex_woken", fw); vs_stat_add("n_queue_ops", n_pushed + n_popped);
    if (n_other_thread) vs_stat_flag("ran_on_other_thread"); if (fb) vs_stat_flag("slept"); if (fw) vs_stat_flag("woken"); if (n_pushed) vs_stat_flag("bounded_queue");
    vs_stat_add("nt", (fb > 0 && fw > 0) ? 1 : 0);
    vs_ok();
}
int main(int argc, char** argv) { return drv_main(argc, argv); }
