// Shared core of the two libFuzzer targets fz_c17_malloc.cpp (C17) and fz_c18_faults.cpp (C18).
//
// tbbmalloc is compiled from the repository sources into the target (flavour `fuzz`), with
// mmap/munmap/mremap renamed by macro to fz_mmap/fz_munmap/fz_mremap below.  All raw memory (the
// default pool's mappings and the raw callbacks of the rml::MemoryPool objects under test) comes
// from one bump arena, so that
//   * every raw region is logged (owner, size, returned or not) -> "inside own raw memory",
//     "returned exactly once", "never returned while a block in it is live";
//   * the k-th raw request can be refused (fault index) for pools and for the default pool;
//   * addresses inside the arena are the same in every process (replay), nothing survives an
//     iteration: pools are created and destroyed inside the iteration and the default pool is
//     shut down (__TBB_mallocProcessShutdownNotification) and re-initialised every iteration;
//   * ASan poisons the gaps between regions and regions given back, so a stray write of the
//     allocator outside its raw memory is a crash.
// The semantic oracle is the shadow interval map `live` (one entry per live block, each block
// filled with a per-block byte pattern).
#pragma once
#define TBB_PREVIEW_MEMORY_POOL 1
#include "oneapi/tbb/scalable_allocator.h"
#include "oneapi/tbb/memory_pool.h"
#include <fuzzer/FuzzedDataProvider.h>
#include <sanitizer/asan_interface.h>
#include <sys/mman.h>
#include <pthread.h>
#include <unistd.h>
#include <errno.h>
#include <stdarg.h>
#include <cstdint>
#include <cstdio>
#include <cstdlib>
#include <cstring>
#include <string>
#include <vector>
#include <map>
#include <unordered_set>
#include <algorithm>
#include <functional>
#include <new>
#include <stdexcept>

extern "C" void __TBB_mallocProcessShutdownNotification(bool);

namespace fz {

// ------------------------------------------------------------------------------------------
// statistics / evidence
// ------------------------------------------------------------------------------------------
struct Stats {
    uint64_t inputs = 0;        // libFuzzer inputs executed
    uint64_t evals = 0;         // cases executed (C17: = inputs with >= 1 op; C18: trace x fault plan)
    uint64_t ops = 0;
    std::map<std::string, uint64_t> classes, sums;
    std::unordered_set<uint64_t> nt;
    std::vector<std::string> samples;
    std::string vkind, vdetail, vcase;
};
static Stats S;
static const char* PROP = "C??";
static std::string g_case;          // text of the case being executed (for samples / violation)
static const size_t NT_CAP = 400000;

static std::string jesc(const std::string& s) {
    std::string o;
    for (unsigned char c : s) {
        if (c == '"' || c == '\\') { o += '\\'; o += (char)c; }
        else if (c == '\n') o += "\\n";
        else if (c < 32) { char b[8]; snprintf(b, sizeof b, "\\u%04x", c); o += b; }
        else o += (char)c;
    }
    return o;
}

static void flush_stats() {
    const char* path = getenv("VERIF_FZ_STATS");
    if (!path || !*path) return;
    std::string tmp = std::string(path) + ".tmp";
    FILE* f = fopen(tmp.c_str(), "w");
    if (!f) return;
    fprintf(f, "{\"property\":\"%s\",\"inputs\":%llu,\"evaluations\":%llu,\"nontrivial_hashes\":[", PROP,
            (unsigned long long)S.inputs, (unsigned long long)S.evals);
    bool first = true;
    for (uint64_t h : S.nt) { fprintf(f, "%s\"%016llx\"", first ? "" : ",", (unsigned long long)h); first = false; }
    fprintf(f, "],\"classes\":{");
    first = true;
    for (auto& kv : S.classes) { fprintf(f, "%s\"%s\":%llu", first ? "" : ",", kv.first.c_str(), (unsigned long long)kv.second); first = false; }
    fprintf(f, "},\"sums\":{\"n_ops\":%llu", (unsigned long long)S.ops);
    for (auto& kv : S.sums) fprintf(f, ",\"%s\":%llu", kv.first.c_str(), (unsigned long long)kv.second);
    fprintf(f, "},\"samples\":[");
    for (size_t i = 0; i < S.samples.size(); i++) fprintf(f, "%s\"%s\"", i ? "," : "", jesc(S.samples[i]).c_str());
    fprintf(f, "]");
    if (!S.vkind.empty())
        fprintf(f, ",\"violation\":{\"kind\":\"%s\",\"detail\":\"%s\",\"case\":\"%s\"}", jesc(S.vkind).c_str(), jesc(S.vdetail).c_str(), jesc(S.vcase).c_str());
    fprintf(f, "}\n");
    fclose(f);
    rename(tmp.c_str(), path);
}

[[noreturn]] static void violation(const char* kind, const char* fmt, ...) {
    char buf[1024];
    va_list ap; va_start(ap, fmt); vsnprintf(buf, sizeof buf, fmt, ap); va_end(ap);
    fprintf(stderr, "\nFZ-VIOLATION property=%s kind=%s detail=%s\n---- case ----\n%s\n--------------\n", PROP, kind, buf, g_case.c_str());
    S.vkind = kind; S.vdetail = buf; S.vcase = g_case;
    flush_stats();
    __builtin_trap();
}

static void cls(const char* k, uint64_t n = 1) { S.classes[k] += n; }

// development aid: VERIF_FZ_PROF=1 prints where the time goes
#include <time.h>
static double T_sec[12]; static const char* T_name[12] = {"begin_run", "ops", "end:free+check", "end:pool_destroy", "end:shutdown", "end:arena_reset", "helper", "fill/check", "alloc calls", "pool create", "free calls", "thread start/stop"};
static inline double now_s() { timespec t; clock_gettime(CLOCK_MONOTONIC, &t); return t.tv_sec + 1e-9 * t.tv_nsec; }
#include <sys/resource.h>
static long T_flt[12]; static bool T_on = getenv("VERIF_FZ_PROF") != nullptr;
static inline long minflt() { if (!T_on) return 0; rusage u; getrusage(RUSAGE_SELF, &u); return u.ru_minflt; }
struct Tm { int i; double t0; long f0; Tm(int i_) : i(i_), t0(now_s()), f0(minflt()) {} ~Tm() { T_sec[i] += now_s() - t0; T_flt[i] += minflt() - f0; } };
static void prof_print() { if (T_on) for (int i = 0; i < 12; i++) fprintf(stderr, "PROF %-18s %.3f s  %ld minor faults\n", T_name[i], T_sec[i], T_flt[i]); }

static inline uint64_t hmix(uint64_t h, uint64_t v) {
    h ^= v + 0x9e3779b97f4a7c15ull + (h << 6) + (h >> 2);
    h *= 0xff51afd7ed558ccdull; h ^= h >> 29;
    return h;
}

// ------------------------------------------------------------------------------------------
// arena: the only source of raw memory
// ------------------------------------------------------------------------------------------
static const size_t ARENA_SZ = 12ull << 30;        // virtual, MAP_NORESERVE
static const size_t GUARD = 4096;
static const size_t RAW_REQ_MAX = 1ull << 30;      // a single raw request above this is refused ("OS has no memory")
static uintptr_t A_base = 0, A_top = 0;
static bool A_exhausted = false;              // the arena refused a request for lack of space in this run (then any failure is legitimate)

enum { OWNER_MMAP = -1 };
struct Region { uintptr_t p; size_t sz; int owner; bool live; unsigned op; };
static std::vector<Region> regions;                // address-ordered (bump allocation)

static void arena_init() {
    if (A_base) return;
    void* m = mmap(nullptr, ARENA_SZ + (1ull << 30), PROT_READ | PROT_WRITE, MAP_PRIVATE | MAP_ANONYMOUS | MAP_NORESERVE, -1, 0);
    if (m == MAP_FAILED) { perror("arena mmap"); abort(); }
    A_base = ((uintptr_t)m + (1ull << 30) - 1) & ~((1ull << 30) - 1);
    A_top = A_base;
}

static void* arena_take(size_t sz, size_t align, size_t off, int owner, unsigned op) {
    if (sz == 0 || sz > RAW_REQ_MAX) return nullptr;
    uintptr_t p = ((A_top + GUARD + align - 1) & ~(uintptr_t)(align - 1)) + off;
    if (p + sz + GUARD > A_base + ARENA_SZ) { A_exhausted = true; return nullptr; }
    // the arena is unpoisoned after arena_reset(); only gaps, guards and returned regions get poisoned (shadow of huge regions is never touched)
    ASAN_POISON_MEMORY_REGION((void*)A_top, p - A_top);
    ASAN_POISON_MEMORY_REGION((void*)((p + sz + 7) & ~(uintptr_t)7), GUARD);
    A_top = p + sz;
    regions.push_back(Region{p, sz, owner, true, op});
    return (void*)p;
}

static Region* region_of(uintptr_t p) {
    size_t lo = 0, hi = regions.size();
    while (lo < hi) { size_t mid = (lo + hi) / 2; if (regions[mid].p <= p) lo = mid + 1; else hi = mid; }
    if (!lo) return nullptr;
    Region* r = &regions[lo - 1];
    return (p < r->p + r->sz) ? r : nullptr;
}

static const size_t POISON_MAX = 2u << 20;           // at most this much of a returned region is poisoned
static void arena_reset() {
    size_t used = A_top + GUARD + 8 - A_base;
    uintptr_t prev = A_base;
    for (const Region& r : regions) {
        ASAN_UNPOISON_MEMORY_REGION((void*)prev, r.p - prev);
        if (!r.live) ASAN_UNPOISON_MEMORY_REGION((void*)r.p, std::min(r.sz, POISON_MAX));
        prev = r.p + r.sz;
    }
    ASAN_UNPOISON_MEMORY_REGION((void*)prev, GUARD + 8);
    if (A_top > A_base) madvise((void*)A_base, (used + 4095) & ~(size_t)4095, MADV_DONTNEED);   // pages read as zero again (mmap semantics)
    A_top = A_base;
    A_exhausted = false;
    regions.clear();
}

// ------------------------------------------------------------------------------------------
// fault plan over the sequence of raw requests (pool callbacks + mmap/mremap of the default pool)
// ------------------------------------------------------------------------------------------
struct Faults {
    bool armed = false;             // raw requests are counted and may be refused
    int mode = 0;                   // 0 none, 1 single(k), 2 burst(k: k and every later request of the same operation), 3 mask
    unsigned k = 0;
    std::vector<uint8_t> mask;      // mode 3: bit per raw index (wraps around)
    unsigned calls = 0;             // raw requests seen while armed
    unsigned injected = 0;          // refused requests in total
    unsigned injected_in_op = 0;    // refused requests during the current operation
    bool burst_on = false;
    // log of (source, size) of the armed requests of this run
    std::vector<std::pair<int, size_t>> log;
    bool decide(int source, size_t size) {
        if (!armed) return false;
        unsigned idx = calls++;
        log.emplace_back(source, size);
        bool f = false;
        if (mode == 1) f = idx == k;
        else if (mode == 2) { if (idx == k) burst_on = true; f = burst_on; }
        else if (mode == 3) f = !mask.empty() && ((mask[(idx / 8) % mask.size()] >> (idx % 8)) & 1);
        if (f) { injected++; injected_in_op++; }
        return f;
    }
    void op_begin() { injected_in_op = 0; }
    void op_end() { if (mode == 2 && burst_on) { burst_on = false; mode = 0; } }
};
static Faults F;
static unsigned g_opno = 0;        // index of the operation in progress

// ------------------------------------------------------------------------------------------
// shadow interval map
// ------------------------------------------------------------------------------------------
enum { SP_P0 = 0, SP_P1 = 1, SP_D = 2, NSPACES = 3 };
struct Blk { uintptr_t p; size_t req; size_t fill; uint32_t seed; int space; int thr; unsigned id; };
static std::map<uintptr_t, Blk> live;
static std::vector<uintptr_t> slots;
static size_t live_bytes = 0;
static unsigned next_id = 0;

// pattern: 64-bit word k of a block is seed64 + k * odd constant; byte i of the block is byte (i & 7) of word (i >> 3)
#define FZ_NOSAN __attribute__((no_sanitize("address", "undefined", "coverage")))
static inline uint64_t pat_word(uint32_t seed, size_t k) { return ((uint64_t)seed << 32 | (seed ^ 0x5bd1e995u)) + (uint64_t)(k + 1) * 0x9E3779B97F4A7C15ull; }
static inline uint8_t pat(uint32_t seed, size_t i) { return (uint8_t)(pat_word(seed, i >> 3) >> ((i & 7) * 8)); }
FZ_NOSAN static void pat_fill(uint8_t* q, uint32_t seed, size_t o, size_t l) {      // bytes [o, o+l) of the block at q
    size_t i = o, e = o + l;
    for (; i < e && (i & 7); i++) q[i] = pat(seed, i);
    for (; i + 8 <= e; i += 8) { uint64_t w = pat_word(seed, i >> 3); memcpy(q + i, &w, 8); }
    for (; i < e; i++) q[i] = pat(seed, i);
}
FZ_NOSAN static long long pat_check(const uint8_t* q, uint32_t seed, size_t o, size_t l) {   // first mismatching offset in [o, o+l) or -1
    size_t i = o, e = o + l;
    for (; i < e && (i & 7); i++) if (q[i] != pat(seed, i)) return (long long)i;
    for (; i + 8 <= e; i += 8) { uint64_t w = pat_word(seed, i >> 3), v; memcpy(&v, q + i, 8); if (v != w) { for (size_t j = i; j < i + 8; j++) if (q[j] != pat(seed, j)) return (long long)j; } }
    for (; i < e; i++) if (q[i] != pat(seed, i)) return (long long)i;
    return -1;
}
FZ_NOSAN static long long zero_check(const uint8_t* q, size_t o, size_t l) {
    for (size_t i = o; i < o + l; i++) if (q[i]) return (long long)i;
    return -1;
}

// byte ranges of a block that are written / verified (whole block up to 64 KB, samples beyond)
template <class Fn> static void for_ranges(size_t n, Fn fn) {
    if (n <= (64u << 10)) { if (n) fn((size_t)0, n); return; }
    const size_t edge = 16u << 10;
    fn((size_t)0, edge);
    for (int k = 1; k < 16; k++) { size_t o = (n / 16) * k; if (o >= edge && o + 64 <= n - edge) fn(o, (size_t)64); }
    fn(n - edge, edge);
}
static void fill_block(const Blk& b) {
    Tm tm(7);
    uint8_t* q = (uint8_t*)b.p; uint32_t s = b.seed;
    for_ranges(b.fill, [&](size_t o, size_t l) { pat_fill(q, s, o, l); });
}
// first offset < upto that does not carry the pattern, or -1
static long long check_pattern(uintptr_t p, size_t upto, size_t filled, uint32_t seed) {
    const uint8_t* q = (const uint8_t*)p; long long bad = -1;
    for_ranges(filled, [&](size_t o, size_t l) {
        if (bad >= 0 || o >= upto) return;
        bad = pat_check(q, seed, o, std::min(l, upto - o));
    });
    return bad;
}
static void check_block(const Blk& b, const char* when) {
    long long bad = check_pattern(b.p, b.fill, b.fill, b.seed);
    if (bad >= 0)
        violation("CONTENT", "live block #%u (space %d, %zu bytes at arena+0x%llx) changed at offset %lld (%s): found 0x%02x expected 0x%02x",
                  b.id, b.space, b.req, (unsigned long long)(b.p - A_base), bad, when, ((uint8_t*)b.p)[bad], pat(b.seed, (size_t)bad));
}
static void check_all(const char* when) { Tm tm(7); for (auto& kv : live) check_block(kv.second, when); }

static void forget(uintptr_t p) {
    auto it = live.find(p);
    live_bytes -= it->second.req;
    live.erase(it);
    for (size_t i = 0; i < slots.size(); i++) if (slots[i] == p) { slots[i] = slots.back(); slots.pop_back(); break; }
}
static uintptr_t g_dying = 0;      // the block handed to the free/realloc call in progress: the allocator owns it again from the moment of the call
static bool any_live_in(uintptr_t lo, uintptr_t hi, Blk* out) {
    auto it = live.lower_bound(lo);
    if (it != live.begin()) { auto pr = std::prev(it); if (pr->first != g_dying && pr->second.p + std::max<size_t>(pr->second.fill, 1) > lo) { *out = pr->second; return true; } }
    for (; it != live.end() && it->first < hi; ++it) if (it->first != g_dying) { *out = it->second; return true; }
    return false;
}

// ------------------------------------------------------------------------------------------
// pools under test and their raw callbacks
// ------------------------------------------------------------------------------------------
struct PoolCtx {
    rml::MemoryPool* pool = nullptr;
    bool created = false, fixed = false, has_free = true, keep_all = false;
    size_t gran = 0, fixed_size = 0;
    unsigned raw_off = 0, over = 0;       // misalignment of raw regions (multiple of 16) and over-allocation choice
    unsigned raw_allocs = 0, raw_ok = 0, raw_frees = 0;
    bool in_reset = false;
};
static PoolCtx pools[2];
static const size_t RAW_OFFS[4] = {0, 16, 64, 4096 - 16};

static void* raw_alloc(intptr_t id, size_t& bytes) {
    if (id < 100 || id > 101) violation("RAW-ID", "raw allocation callback called with pool id %lld", (long long)id);
    PoolCtx& pc = pools[id - 100];
    pc.raw_allocs++;
    if (pc.fixed && pc.raw_allocs > 1)
        violation("FIXED-RAW-TWICE", "fixed pool called its raw allocator %u times (op %u, request %zu bytes)", pc.raw_allocs, g_opno, bytes);
    if (F.decide((int)id, bytes)) return nullptr;
    size_t give = bytes;
    if (pc.fixed) give = pc.fixed_size;                      // like tbb::fixed_pool: the whole buffer, whatever was asked
    else if (pc.over == 1) give = bytes + 4096;
    else if (pc.over == 2) give = (bytes + 65535) & ~(size_t)65535;
    void* p = arena_take(give, 4096, RAW_OFFS[pc.raw_off & 3], (int)(id - 100), g_opno);
    if (!p) return nullptr;
    // raw memory of a pool is not zeroed: make the edges (where the backend keeps its headers) dirty
    size_t e = std::min<size_t>(give, 8192);
    memset(p, 0xA5, e); memset((char*)p + give - e, 0x5A, e);
    bytes = give;
    pc.raw_ok++;
    return p;
}

static int raw_free(intptr_t id, void* ptr, size_t bytes) {
    if (id < 100 || id > 101) violation("RAW-ID", "raw free callback called with pool id %lld", (long long)id);
    PoolCtx& pc = pools[id - 100];
    pc.raw_frees++;
    Region* r = region_of((uintptr_t)ptr);
    if (!r || r->p != (uintptr_t)ptr || r->owner != (int)(id - 100))
        violation("RAW-FREE-UNKNOWN", "pool %d gave back %p (%zu bytes), which its raw allocator never handed out", (int)(id - 100), ptr, bytes);
    if (!r->live) violation("RAW-FREE-TWICE", "pool %d gave back the raw region arena+0x%llx twice", (int)(id - 100), (unsigned long long)(r->p - A_base));
    if (r->sz != bytes) violation("RAW-FREE-SIZE", "pool %d gave back region arena+0x%llx with size %zu, it was handed out with %zu", (int)(id - 100), (unsigned long long)(r->p - A_base), bytes, r->sz);
    Blk b;
    if (any_live_in(r->p, r->p + r->sz, &b))
        violation("RAW-FREE-LIVE", "pool %d gave back region arena+0x%llx (%zu bytes) while block #%u (%zu bytes) in it is live (op %u)", (int)(id - 100), (unsigned long long)(r->p - A_base), r->sz, b.id, b.req, g_opno);
    r->live = false;
    ASAN_POISON_MEMORY_REGION((void*)r->p, std::min(r->sz, POISON_MAX));
    return 0;
}

}  // namespace fz

// ---- default pool: tbbmalloc's mmap/munmap/mremap are these (macro redirection at compile time)
extern "C" void* fz_mmap(void* addr, size_t len, int prot, int flags, int fd, off_t off) {
    using namespace fz;
    (void)addr; (void)prot; (void)flags; (void)fd; (void)off;
    arena_init();
    if (F.decide(OWNER_MMAP, len)) { errno = ENOMEM; return MAP_FAILED; }
    void* p = arena_take((len + 4095) & ~(size_t)4095, 4096, 0, OWNER_MMAP, g_opno);
    if (!p) { errno = ENOMEM; return MAP_FAILED; }
    return p;
}
extern "C" int fz_munmap(void* addr, size_t len) {
    using namespace fz;
    Region* r = region_of((uintptr_t)addr);
    if (!r || r->owner != OWNER_MMAP) violation("UNMAP-UNKNOWN", "munmap(%p, %zu) of memory that was not mapped by the default pool", addr, len);
    Blk b;
    if (any_live_in((uintptr_t)addr, (uintptr_t)addr + len, &b))
        violation("UNMAP-LIVE", "default pool unmapped arena+0x%llx (%zu bytes) while block #%u (%zu bytes) in it is live (op %u)", (unsigned long long)((uintptr_t)addr - A_base), len, b.id, b.req, g_opno);
    if (r->p == (uintptr_t)addr && ((len + 4095) & ~(size_t)4095) == r->sz) {
        if (!r->live) violation("UNMAP-TWICE", "default pool unmapped arena+0x%llx twice", (unsigned long long)(r->p - A_base));
        r->live = false;
        ASAN_POISON_MEMORY_REGION((void*)r->p, std::min(r->sz, POISON_MAX));
    }
    return 0;
}
extern "C" void* fz_mremap(void* old, size_t oldsz, size_t newsz, int flags, ...) {
    using namespace fz;
    (void)flags;
    Region* r = region_of((uintptr_t)old);
    if (!r || r->owner != OWNER_MMAP || r->p != (uintptr_t)old || !r->live) violation("UNMAP-UNKNOWN", "mremap(%p) of memory that is not a live mapping of the default pool", old);
    if (F.decide(OWNER_MMAP, newsz)) { errno = ENOMEM; return MAP_FAILED; }
    size_t osz = r->sz;
    void* p = arena_take((newsz + 4095) & ~(size_t)4095, 4096, 0, OWNER_MMAP, g_opno);
    if (!p) { errno = ENOMEM; return MAP_FAILED; }
    r = region_of((uintptr_t)old);                       // vector may have grown
    memcpy(p, old, std::min(std::min(oldsz, osz), newsz));
    r->live = false;                                     // the old pages are gone (blocks in it move with the mapping; the caller re-registers)
    ASAN_POISON_MEMORY_REGION((void*)r->p, std::min(r->sz, POISON_MAX));
    return p;
}

namespace fz {

// ------------------------------------------------------------------------------------------
// helper thread (operations are handed over one at a time: deterministic, no real concurrency)
// ------------------------------------------------------------------------------------------
struct Helper {
    pthread_t th; bool alive = false;
    pthread_mutex_t m = PTHREAD_MUTEX_INITIALIZER; pthread_cond_t cv = PTHREAD_COND_INITIALIZER;
    std::function<void()>* job = nullptr; bool done = false, quit = false;
    static void* main(void* a) {
        Helper* h = (Helper*)a;
        pthread_mutex_lock(&h->m);
        for (;;) {
            while (!h->job && !h->quit) pthread_cond_wait(&h->cv, &h->m);
            if (h->job) { (*h->job)(); h->job = nullptr; h->done = true; pthread_cond_broadcast(&h->cv); continue; }
            break;
        }
        pthread_mutex_unlock(&h->m);
        return nullptr;                                  // thread exit: tbbmalloc's TLS destructors run here
    }
    void run(std::function<void()> fn) {
        if (!alive) {
            Tm tm(11);
            quit = false; job = nullptr; done = false;
            pthread_attr_t at; pthread_attr_init(&at); pthread_attr_setstacksize(&at, 256u << 10);     // small stack: ASan clears the shadow of the whole stack
            if (pthread_create(&th, &at, main, this)) abort();
            pthread_attr_destroy(&at);
            alive = true; S.sums["n_helper_threads"]++;
        }
        pthread_mutex_lock(&m);
        job = &fn; done = false; pthread_cond_broadcast(&cv);
        while (!done) pthread_cond_wait(&cv, &m);
        pthread_mutex_unlock(&m);
    }
    void stop() {
        if (!alive) return;
        Tm tm(11);
        pthread_mutex_lock(&m); quit = true; pthread_cond_broadcast(&cv); pthread_mutex_unlock(&m);
        pthread_join(th, nullptr); alive = false;
    }
};
static Helper H;
static int cur_thr = 0;           // the thread the harness code is running on right now (0 main, 1 helper)
static void on_thread(int thr, std::function<void()> fn) { if (thr == cur_thr || thr == 0) fn(); else { Tm tm(6); H.run(fn); } }

// ------------------------------------------------------------------------------------------
// operations
// ------------------------------------------------------------------------------------------
enum Kind : uint8_t { K_MALLOC, K_CALLOC, K_REALLOC, K_AMALLOC, K_AREALLOC, K_PMEMALIGN, K_FREE, K_MSIZE, K_CHECK, K_CLEAN_THR, K_CLEAN_ALL,
                      K_THR_EXIT, K_RESET, K_IDENTIFY, K_CXX, K_FILL /* macro: malloc(size) again and again until the space refuses (at most 48 times) */, K_NKINDS };
static const char* KNAME[] = {"malloc", "calloc", "realloc", "aligned_malloc", "aligned_realloc", "posix_memalign", "free", "msize", "check", "clean_thread",
                              "clean_all", "thread_exit", "pool_reset", "pool_identify", "cxx_allocate", "fill"};
struct Op { Kind kind; uint8_t space, thr, fill_msize; size_t size, nobj, align; unsigned slot; };

// size-class borders taken from the sources (frontend.cpp: 8..64 step 8 with the 16-byte rule, 80..1024 segregated, fitting sizes, large objects from
// 8129, backend bins 8 KB steps, 1 MB binned limit, 4 MB local-cache limit, 8 MB large/huge cache border, 64 MB default huge threshold)
static const size_t BORDERS[] = {0, 1, 8, 16, 24, 32, 40, 48, 56, 64, 80, 96, 112, 128, 160, 192, 224, 256, 320, 384, 448, 512, 640, 768, 896, 1024,
                                 1792, 2688, 4032, 5376, 8128, 8192, 12288, 16384, 24576, 32768, 65536, 131072, 262144, 524288, 1u << 20, 2u << 20, 4u << 20,
                                 8u << 20, 16u << 20, 64u << 20,
                                 // again the small ones, so that small sizes stay the most frequent choice
                                 8, 16, 32, 48, 64, 128, 256, 512, 1024, 1792, 2688, 4032, 5376, 8128, 8192, 16384, 65536, 24};
static const int NBORDERS = sizeof(BORDERS) / sizeof(BORDERS[0]);
static const long DELTAS[] = {0, 1, -1, 0, 8, -8, 16, -16, 0, 64, -64, -104, -128, 128, 1, -1, 2, -2, 0, 7, -7, -232, 4096, -4096};
static const int NDELTAS = sizeof(DELTAS) / sizeof(DELTAS[0]);

static size_t gen_size(uint8_t b2, uint8_t b3) {
    if (b3 >= 200) {                                       // free-form sizes
        static const size_t mult[4] = {1, 8, 97, 1031};
        return (size_t)(b2 | ((b3 - 200) & 31) << 8) * mult[(b3 >> 3) & 3];
    }
    size_t s = BORDERS[b2 % NBORDERS]; long d = DELTAS[b3 % NDELTAS];
    if (d < 0 && (size_t)(-d) > s) return s;
    return s + d;
}

static int size_class(size_t s) {
    if (s <= 8) return 0; if (s <= 64) return 1; if (s <= 128) return 2; if (s <= 256) return 3; if (s <= 512) return 4; if (s <= 1024) return 5;
    if (s <= 1792) return 6; if (s <= 2688) return 7; if (s <= 4032) return 8; if (s <= 5376) return 9; if (s <= 8128) return 10;
    if (s < (64u << 10)) return 11; if (s < (1u << 20)) return 12; if (s < (8u << 20)) return 13; return 14;
}
static const char* CLSNAME[] = {"size<=8", "size<=64", "size<=128", "size<=256", "size<=512", "size<=1024", "fit1792", "fit2688", "fit4032", "fit5376", "fit8128",
                                "large<64K", "large<1M", "large<8M", "huge>=8M"};

// per-run record of what happened (non-triviality is measured, not intended)
struct RunInfo {
    unsigned xthread_free = 0, realloc_moved = 0, realloc_inplace = 0, allocs = 0, alloc_failed = 0, orphan_exit = 0, resets = 0;
    unsigned class_mask = 0;
    uint64_t hash = 0;
    bool faulted_op = false;       // an injected failure was reached
    std::string fault_classes;
};
static RunInfo RI;

struct Limits { size_t live_budget = 96u << 20; size_t big_cap = 4; };
static Limits L;
static unsigned big_allocs = 0;

static const char* spname(int sp) { return sp == SP_P0 ? "P0" : sp == SP_P1 ? "P1" : "D"; }

static void log_op(const Op& o, const char* extra = "") {
    char b[200];
    snprintf(b, sizeof b, "%u: T%d %s %s size=%zu nobj=%zu align=%zu slot=%u%s%s\n", g_opno, o.thr, spname(o.space), KNAME[o.kind], o.size, o.nobj, o.align, o.slot,
             o.fill_msize ? " fill=msize" : "", extra);
    g_case += b;
    RI.hash = hmix(RI.hash, ((uint64_t)o.kind << 56) ^ ((uint64_t)o.space << 52) ^ ((uint64_t)o.thr << 48) ^ ((uint64_t)o.fill_msize << 47) ^ ((uint64_t)o.slot << 32) ^ o.size);
    RI.hash = hmix(RI.hash, o.align ^ (o.nobj << 20));
}

// ---- pool creation (lazy, part of the operation that first touches the space)
struct PoolCfg { uint8_t gran_sel, over, raw_off, keep_all, fixed, has_free; size_t fixed_size; };
static PoolCfg pool_cfg[2];
static const size_t GRANS[8] = {0, 0, 1, 8, 24, 4096, 65536, 1000};

static bool ensure_pool(int sp) {
    if (sp == SP_D) return true;
    PoolCtx& pc = pools[sp];
    if (pc.created) return pc.pool != nullptr;
    Tm tm(9);
    const PoolCfg& c = pool_cfg[sp];
    pc = PoolCtx();
    // fixed pools are created without pFree, as tbb::fixed_pool and the test suite do: the policy documents "never returned" for them, and the combination
    // fixedPool + pFree is contradictory inside the library (release build calls pFree at pool_destroy, debug build asserts "No free for fixed-size pools")
    pc.fixed = c.fixed; pc.has_free = !c.fixed; pc.keep_all = c.keep_all;
    pc.gran = GRANS[c.gran_sel & 7]; pc.raw_off = c.raw_off; pc.over = c.over; pc.fixed_size = c.fixed_size;
    rml::MemPoolPolicy pol(raw_alloc, pc.has_free ? raw_free : nullptr, pc.gran, pc.fixed, pc.keep_all);
    rml::MemoryPool* p = (rml::MemoryPool*)(uintptr_t)0x1;
    F.op_begin();
    rml::MemPoolError e = rml::pool_create_v1(100 + sp, &pol, &p);
    if (e != rml::POOL_OK) {
        if (p != nullptr) violation("CREATE-FAIL", "pool_create_v1 returned error %d but stored a non-null pool pointer", (int)e);
        if (e != rml::NO_MEMORY) violation("CREATE-FAIL", "pool_create_v1 refused a valid policy with error %d", (int)e);
        if (!F.injected_in_op) violation("NO-RECOVERY", "pool_create_v1 reported NO_MEMORY although no raw request was refused");
        RI.faulted_op = true; RI.fault_classes += "pool_create;";
        bool was = F.armed; F.armed = false;
        e = rml::pool_create_v1(100 + sp, &pol, &p);
        F.armed = was;
        if (e != rml::POOL_OK || !p) violation("NO-RECOVERY", "pool_create_v1 still fails (%d) after the raw requests succeed again", (int)e);
    }
    if (!p || p == (rml::MemoryPool*)(uintptr_t)0x1) violation("CREATE-FAIL", "pool_create_v1 returned POOL_OK without a pool");
    pc.pool = p; pc.created = true;
    char b[160];
    snprintf(b, sizeof b, "   pool %s: granularity=%zu fixed=%d(%zu) pFree=%d keepAll=%d raw_misalign=%zu over=%u\n", spname(sp), pc.gran, pc.fixed, pc.fixed_size, pc.has_free, pc.keep_all,
             RAW_OFFS[pc.raw_off & 3], pc.over);
    g_case += b;
    return true;
}

// ---- what an allocation call reports
struct Res { void* p = nullptr; int err = 0; int rc = 0; bool threw = false; size_t ms = 0; };

static size_t api_msize(int sp, void* p) { return sp == SP_D ? scalable_msize(p) : rml::pool_msize(pools[sp].pool, p); }

// register a successful allocation: all the checks of C17 on a fresh block
static void on_alloc(const Op& o, void* vp, size_t ms, size_t req, size_t need_align, bool zeroed, const char* what) {
    uintptr_t p = (uintptr_t)vp;
    if (need_align > 1 && (p & (need_align - 1)))
        violation("ALIGN", "%s(size=%zu) returned arena+0x%llx, not aligned to %zu", what, req, (unsigned long long)(p - A_base), need_align);
    size_t span = std::max<size_t>(req, 1);
    Region* r = region_of(p);
    int owner = o.space == SP_D ? OWNER_MMAP : o.space;
    if (!r || !r->live || span > r->p + r->sz - p || r->owner != owner)      // (no p + span: the request may be close to SIZE_MAX)
        violation("OUTSIDE-RAW", "%s(size=%zu) in space %s returned %p, which is not inside a live raw region of that space (region owner %d, live %d)", what, req,
                  spname(o.space), vp, r ? r->owner : -99, r ? (int)r->live : -1);
    Blk other;
    if (any_live_in(p, p + span, &other))
        violation("OVERLAP", "%s(size=%zu) returned arena+0x%llx which overlaps live block #%u (arena+0x%llx, %zu bytes)", what, req, (unsigned long long)(p - A_base), other.id,
                  (unsigned long long)(other.p - A_base), other.req);
    if (ms < req) violation("MSIZE", "%s(size=%zu): msize of the new block is %zu", what, req, ms);
    if (zeroed) {
        const uint8_t* q = (const uint8_t*)p; long long bad = -1;
        for_ranges(req, [&](size_t off, size_t l) { if (bad < 0) bad = zero_check(q, off, l); });
        if (bad >= 0) violation("CALLOC-NONZERO", "calloc block of %zu bytes has byte 0x%02x at offset %lld", req, q[bad], bad);
    }
    Blk b{p, req, req, (uint32_t)(next_id * 2654435761u + 17), o.space, o.thr, next_id};
    next_id++;
    if (o.fill_msize && ms > req && ms - req <= (1u << 20)) b.fill = ms;      // the usable size may be used by the caller
    if (any_live_in(p, p + std::max<size_t>(b.fill, 1), &other))
        violation("OVERLAP", "usable size %zu of the block returned by %s(size=%zu) at arena+0x%llx reaches into live block #%u", ms, what, req, (unsigned long long)(p - A_base), other.id);
    if (p + b.fill > r->p + r->sz) violation("OUTSIDE-RAW", "usable size %zu of block at %p leaves its raw region", ms, vp);
    fill_block(b);
    live[p] = b; slots.push_back(p); live_bytes += req;
    RI.allocs++; RI.class_mask |= 1u << size_class(req);
    cls(CLSNAME[size_class(req)]);
}

static size_t default_align(size_t req) { return req <= 8 ? 8 : 16; }
static bool pow2(size_t a) { return a && !(a & (a - 1)); }


// ------------------------------------------------------------------------------------------
// execution of one operation with all checks
// ------------------------------------------------------------------------------------------
struct ExecCfg {
    bool c18 = false;              // failure reporting / recovery checks, extreme arguments allowed
    const std::vector<uint8_t>* baseline_ok = nullptr;   // C18: per op, did the allocation succeed in the fault-free run
    std::vector<uint8_t>* record_ok = nullptr;            // C18 fault-free run: record it
};
static ExecCfg X;

// is a failure of this request legitimate without any refused raw request?  (extreme or undocumented arguments, exhausted fixed pool, request above what the arena
// gives in one piece)
static bool may_fail_without_fault(const Op& o, size_t bytes, size_t align) {
    if (A_exhausted) return true;
    if (o.space != SP_D && pools[o.space].fixed) return true;
    if (bytes > (256u << 20) || align > (1u << 24)) return true;
    return false;
}

static void note_class(const char* k) { cls(k); }

struct T24 { char c[24]; };
// lets tbb::memory_pool_allocator work on a pool created through the rml interface (pool_base only forwards to rml::pool_malloc / pool_free)
struct PoolShim : tbb::detail::d1::pool_base { explicit PoolShim(rml::MemoryPool* p) { my_pool = p; } };
// one allocation-type call on the right thread and API; fills Res
static Res call_alloc(const Op& o, void* old) {
    Tm tm(8);
    Res r;
    on_thread(o.thr, [&] {
        errno = 0;
        if (o.space == SP_D) {
            switch (o.kind) {
            case K_MALLOC: r.p = scalable_malloc(o.size); break;
            case K_CALLOC: r.p = scalable_calloc(o.nobj, o.size); break;
            case K_REALLOC: r.p = scalable_realloc(old, o.size); break;
            case K_AMALLOC: r.p = scalable_aligned_malloc(o.size, o.align); break;
            case K_AREALLOC: r.p = scalable_aligned_realloc(old, o.size, o.align); break;
            case K_CXX:
                try {
                    if (o.nobj == 1) r.p = tbb::scalable_allocator<char>().allocate(o.size);
                    else if (o.nobj == 8) r.p = tbb::scalable_allocator<uint64_t>().allocate(o.size);
                    else r.p = tbb::scalable_allocator<T24>().allocate(o.size);
                } catch (const std::bad_alloc&) { r.threw = true; r.p = nullptr; }
                break;
            case K_PMEMALIGN: { void* q = (void*)(uintptr_t)0x5; r.rc = scalable_posix_memalign(&q, o.align, o.size); r.p = r.rc == 0 ? q : nullptr;
                                if (r.rc != 0 && q != (void*)(uintptr_t)0x5) r.rc = -1000 - r.rc; break; }
            default: break;
            }
        } else {
            rml::MemoryPool* mp = pools[o.space].pool;
            switch (o.kind) {
            case K_MALLOC: r.p = rml::pool_malloc(mp, o.size); break;
            case K_REALLOC: r.p = rml::pool_realloc(mp, old, o.size); break;
            case K_AMALLOC: r.p = rml::pool_aligned_malloc(mp, o.size, o.align); break;
            case K_AREALLOC: r.p = rml::pool_aligned_realloc(mp, old, o.size, o.align); break;
            case K_CXX: {
                PoolShim shim(mp);                        // tbb::memory_pool_allocator over the pool under test
                try {
                    if (o.nobj == 1) r.p = tbb::memory_pool_allocator<char, PoolShim>(shim).allocate(o.size);
                    else if (o.nobj == 8) r.p = tbb::memory_pool_allocator<uint64_t, PoolShim>(shim).allocate(o.size);
                    else r.p = tbb::memory_pool_allocator<T24, PoolShim>(shim).allocate(o.size);
                } catch (const std::bad_alloc&) { r.threw = true; r.p = nullptr; }
                break;
            }
            default: break;
            }
        }
        r.err = errno;
        if (r.p) r.ms = api_msize(o.space, r.p);
    });
    return r;
}

// C18: the failure must be reported the documented way
static void check_failure_report(const Op& o, const Res& r, bool bad_args) {
    if (o.kind == K_CXX) {
        if (!r.threw) violation("FAIL-REPORT", "%s<T>::allocate(%zu) (sizeof(T)=%zu) returned null instead of throwing std::bad_alloc", o.space == SP_D ? "scalable_allocator" : "memory_pool_allocator", o.size, o.nobj);
        return;
    }
    if (o.space != SP_D) return;                         // pool_*: a null pointer is the whole report
    if (o.kind == K_PMEMALIGN) {
        if (r.rc <= -1000) violation("FAIL-REPORT", "scalable_posix_memalign failed with %d but wrote to *memptr", -(r.rc + 1000));
        int want = bad_args ? EINVAL : ENOMEM;
        if (r.rc != want) violation("FAIL-REPORT", "scalable_posix_memalign(align=%zu,size=%zu) returned %d, documented is %d", o.align, o.size, r.rc, want);
        return;
    }
    int want = bad_args ? EINVAL : ENOMEM;
    if (r.err != want) violation("FAIL-REPORT", "%s(size=%zu,nobj=%zu,align=%zu) returned null with errno=%d, documented is %d", KNAME[o.kind], o.size, o.nobj, o.align, r.err, want);
}

static void exec_op(Op o) {
    Tm tm(1);
    F.op_begin();
    // ---- normalise (deterministic function of the state, identical in the fault-free and the faulted runs of a trace)
    if (o.space != SP_D && (o.kind == K_CALLOC || o.kind == K_PMEMALIGN || o.kind == K_CLEAN_THR || o.kind == K_CLEAN_ALL)) o.space = SP_D;  // default-pool-only API
    if (o.space == SP_D && (o.kind == K_RESET || o.kind == K_IDENTIFY)) o.space = SP_P0;
    bool is_alloc = o.kind <= K_PMEMALIGN || o.kind == K_CXX;
    bool two_factors = o.kind == K_CALLOC || o.kind == K_CXX;
    if (o.kind == K_CXX) o.nobj = o.nobj % 3 == 0 ? 1 : o.nobj % 3 == 1 ? 8 : 24;     // sizeof(T)
    size_t bytes = two_factors ? o.size * o.nobj : o.size;
    bool extreme = false;
    if (is_alloc) {
        bool ovf = two_factors && o.nobj && o.size > SIZE_MAX / o.nobj;
        // calloc really writes every byte: keep the product small (7 of 8 times <= 256 KB, never above 4 MB) unless it overflows
        if (o.kind == K_CALLOC && !ovf && o.nobj && (bytes > (4u << 20) || (bytes > (256u << 10) && (o.slot & 7)))) {
            if (o.size >= o.nobj) o.size = (o.size % 8191) / o.nobj + 1; else o.nobj = (o.nobj % 8191) / o.size + 1;
            bytes = o.size * o.nobj;
        }
        extreme = ovf || bytes > (64u << 20) || (o.align > (1u << 20));
        if (!X.c18 && extreme) {                      // C17: stay inside what can really be allocated and touched
            o.size %= 65537; if (o.kind == K_CALLOC) o.nobj %= 17; if (o.align > (1u << 20)) o.align = 1u << 20;
            bytes = two_factors ? o.size * o.nobj : o.size; extreme = false;
        }
        if (!extreme && (live_bytes + bytes > L.live_budget || (bytes > (1u << 20) && big_allocs >= L.big_cap))) {
            o.size %= 4099; if (o.kind == K_CALLOC) o.nobj %= 5; bytes = two_factors ? o.size * o.nobj : o.size;
        }
        if (bytes > (1u << 20) && !extreme) big_allocs++;
    }
    if (o.space != SP_D) ensure_pool(o.space);

    // ---- pick the block for the operations that take one (only blocks of the same space: a pool must get its own pointers)
    Blk* blk = nullptr;
    if (o.kind == K_REALLOC || o.kind == K_AREALLOC || o.kind == K_FREE || o.kind == K_MSIZE || o.kind == K_IDENTIFY) {
        size_t n = slots.size();
        for (size_t i = 0; i < n; i++) {
            Blk& c = live[slots[(o.slot + i) % n]];
            if (c.space == o.space) { blk = &c; o.slot = (unsigned)((o.slot + i) % n); break; }
        }
        if (!blk && (o.kind == K_FREE || o.kind == K_MSIZE || o.kind == K_IDENTIFY)) { log_op(o, " (no block: skipped)"); return; }
        if (!blk) o.slot = ~0u;                            // realloc(nullptr, ...) acts as an allocation
    }
    log_op(o);
    S.ops++;
    cls((std::string("op:") + KNAME[o.kind]).c_str());

    switch (o.kind) {
    case K_MALLOC: case K_CALLOC: case K_AMALLOC: case K_PMEMALIGN: case K_REALLOC: case K_AREALLOC: case K_CXX: {
        bool aligned_api = o.kind == K_AMALLOC || o.kind == K_AREALLOC || o.kind == K_PMEMALIGN;
        // arguments the interface rejects (documented: EINVAL / null)
        bool bad_args = false;
        if (o.kind == K_AMALLOC) bad_args = !pow2(o.align) || o.size == 0;
        if (o.kind == K_AREALLOC) bad_args = !pow2(o.align);
        if (o.kind == K_PMEMALIGN) bad_args = !pow2(o.align) || o.align < sizeof(void*);
        bool ovf = two_factors && o.nobj && o.size > SIZE_MAX / o.nobj;
        Blk oldb; bool had = false; void* oldp = nullptr;
        if (blk) { check_block(*blk, "before realloc"); oldb = *blk; had = true; oldp = (void*)blk->p; }
        g_dying = had ? oldb.p : 0;
        Res r = call_alloc(o, oldp);
        g_dying = 0;
        bool is_free_form = had && o.size == 0 && !bad_args;          // realloc(p, 0) frees and returns null
        if (is_free_form) {
            if (r.p) violation("REALLOC-ZERO", "%s(p, 0) returned a non-null pointer", KNAME[o.kind]);
            forget(oldb.p);
            if (oldb.thr != o.thr) RI.xthread_free++;
            break;
        }
        if (!r.p) {
            // ---- failure
            RI.alloc_failed++; note_class("alloc_failed");
            if (had) { Blk& still = live[oldb.p]; check_block(still, "after failed realloc"); }
            if (bad_args || ovf) {
                if (X.c18) { check_failure_report(o, r, bad_args); note_class(bad_args ? "reject:bad_alignment_or_zero" : "reject:nobj*size_overflow"); RI.fault_classes += bad_args ? "badarg;" : "overflow;"; }
                break;
            }
            if (!X.c18) break;                           // C17 says nothing about requests that fail
            check_failure_report(o, r, false);
            check_all("after a failed allocation");
            bool injected = F.injected_in_op > 0;
            bool legit = injected || extreme || may_fail_without_fault(o, bytes, aligned_api ? o.align : 0);
            bool base_ok = X.baseline_ok && g_opno < X.baseline_ok->size() && (*X.baseline_ok)[g_opno];
            if (!legit && X.baseline_ok && base_ok)
                violation("NO-RECOVERY", "%s(size=%zu,align=%zu) in space %s failed although no raw request was refused during it (%u refused earlier in this run)", KNAME[o.kind], bytes,
                          o.align, spname(o.space), F.injected);
            if (injected) {
                RI.faulted_op = true;
                char b[64]; snprintf(b, sizeof b, "%s/%s;", o.space == SP_D ? "D" : "pool", CLSNAME[size_class(bytes)]); RI.fault_classes += b;
                if (extreme) note_class("extreme_size_failed"); 
                // the same request must succeed once the raw requests succeed again
                bool can_demand = !extreme && !may_fail_without_fault(o, bytes, aligned_api ? o.align : 0) && X.baseline_ok && base_ok;
                bool was = F.armed; F.armed = false;
                g_dying = had ? oldb.p : 0;
                Res r2 = call_alloc(o, oldp);
                g_dying = 0;
                F.armed = was;
                if (!r2.p) {
                    if (can_demand) violation("NO-RECOVERY", "%s(size=%zu,align=%zu) in space %s still fails after the raw requests succeed again", KNAME[o.kind], bytes, o.align, spname(o.space));
                    break;
                }
                note_class("recovered_after_fault");
                r = r2;
            } else {
                if (extreme) note_class("extreme_size_failed");
                break;
            }
        }
        // ---- success
        if (X.record_ok) { if (X.record_ok->size() <= g_opno) X.record_ok->resize(g_opno + 1, 0); (*X.record_ok)[g_opno] = 1; }
        if (bad_args && X.c18) violation("BAD-ARGS-ACCEPTED", "%s(size=%zu,align=%zu) succeeded although the interface documents EINVAL for these arguments", KNAME[o.kind], o.size, o.align);
        if (ovf && X.c18) violation("OVERFLOW-ACCEPTED", "%s %s(%zu x %zu bytes) succeeded although the product overflows size_t", spname(o.space), KNAME[o.kind], o.size, o.nobj);
        if (extreme) note_class("extreme_size_succeeded");
        size_t need = aligned_api ? o.align : default_align(bytes);
        if (had) {
            size_t keep = std::min(oldb.req, bytes);
            long long bad = check_pattern((uintptr_t)r.p, keep, oldb.fill, oldb.seed);
            if (bad >= 0)
                violation("REALLOC-CONTENT", "%s from %zu to %zu bytes (%s) lost the old contents at offset %lld", KNAME[o.kind], oldb.req, bytes, (uintptr_t)r.p == oldb.p ? "in place" : "moved", bad);
            if ((uintptr_t)r.p != oldb.p) { RI.realloc_moved++; note_class("realloc_moved"); } else { RI.realloc_inplace++; note_class("realloc_inplace"); }
            forget(oldb.p);
        }
        on_alloc(o, r.p, r.ms, bytes, need, o.kind == K_CALLOC, KNAME[o.kind]);
        if (aligned_api && o.align >= 4096) note_class("align>=4096");
        break;
    }
    case K_FREE: {
        check_block(*blk, "before free");
        Blk b = *blk; bool ok = true;
        g_dying = b.p;
        Tm tm(10);
        on_thread(o.thr, [&] { if (o.space == SP_D) scalable_free((void*)b.p); else ok = rml::pool_free(pools[o.space].pool, (void*)b.p); });
        g_dying = 0;
        if (!ok) violation("FREE-FAILED", "pool_free of a live block returned false");
        forget(b.p);                                    // the memory may reappear only from here on
        if (b.thr != o.thr) { RI.xthread_free++; note_class("free_by_other_thread"); }
        break;
    }
    case K_MSIZE: {
        size_t ms = 0; Blk b = *blk;
        on_thread(o.thr, [&] { ms = api_msize(o.space, (void*)b.p); });
        if (ms < b.req) violation("MSIZE", "msize of live block #%u (%zu bytes requested) is %zu", b.id, b.req, ms);
        break;
    }
    case K_IDENTIFY: {
        rml::MemoryPool* got = nullptr; Blk b = *blk;
        on_thread(o.thr, [&] { got = rml::pool_identify((void*)b.p); });
        if (got != pools[o.space].pool) violation("IDENTIFY", "pool_identify of block #%u (%zu bytes, space %s) returned %p, owner is %p", b.id, b.req, spname(o.space), (void*)got, (void*)pools[o.space].pool);
        break;
    }
    case K_CHECK: check_all("check point"); break;
    case K_CLEAN_THR: on_thread(o.thr, [&] { scalable_allocation_command(TBBMALLOC_CLEAN_THREAD_BUFFERS, nullptr); }); check_all("after clean_thread"); break;
    case K_CLEAN_ALL: on_thread(o.thr, [&] { scalable_allocation_command(TBBMALLOC_CLEAN_ALL_BUFFERS, nullptr); }); check_all("after clean_all"); break;
    case K_THR_EXIT:
        if (H.alive) {
            bool owns = false; for (auto& kv : live) if (kv.second.thr == 1) owns = true;
            H.stop();
            if (owns) { RI.orphan_exit++; note_class("thread_exit_with_live_blocks"); }
            for (auto& kv : live) if (kv.second.thr == 1) kv.second.thr = 2;     // owner is gone: any later free is a foreign free
            check_all("after thread exit");
        }
        break;
    case K_RESET: {
        PoolCtx& pc = pools[o.space];
        if (H.alive) H.stop();                            // no thread may be inside the pool during reset
        for (auto& kv : live) if (kv.second.thr == 1) kv.second.thr = 2;
        std::vector<uintptr_t> mine; for (auto& kv : live) if (kv.second.space == o.space) { check_block(kv.second, "before pool_reset"); mine.push_back(kv.first); }
        for (uintptr_t p : mine) forget(p);               // reset frees all objects at once
        bool ok = rml::pool_reset(pc.pool);
        if (!ok) violation("RESET-FAILED", "pool_reset returned false");
        RI.resets++; note_class("pool_reset");
        check_all("after pool_reset");
        break;
    }
    default: break;
    }
    F.op_end();
}

// runs the operations; a stretch of consecutive helper-thread operations is handed over as one batch (the oracle code then runs on the helper too: all
// bookkeeping is touched by one thread at a time)
static void run_ops(const std::vector<Op>& ops, unsigned check_every) {
    size_t i = 0, n = ops.size();
    auto one = [&](size_t j) {
        g_opno = (unsigned)j;
        if (ops[j].kind == K_FILL) {        // fill the space up (a fixed pool gets completely full), so that later frees open holes between live neighbours
            Op m = ops[j]; m.kind = K_MALLOC; unsigned f0 = RI.alloc_failed; cls("op:fill");
            for (int k = 0; k < 48 && RI.alloc_failed == f0; k++) exec_op(m);
            if (RI.alloc_failed != f0) cls("fill_reached_refusal");
        } else
        exec_op(ops[j]);
        if ((j + 1) % check_every == 0) check_all("periodic check point");
    };
    while (i < n) {
        if (ops[i].thr == 0) { one(i++); continue; }
        size_t e = i; while (e < n && ops[e].thr == 1) e++;
        { Tm tm(6); H.run([&] { cur_thr = 1; for (size_t j = i; j < e; j++) one(j); cur_thr = 0; }); }
        i = e;
    }
}

// ------------------------------------------------------------------------------------------
// pristine default pool per run.  __TBB_mallocProcessShutdownNotification() unmaps everything and allows a new initialisation, but the static storage
// of the default pool keeps history (largest request seen, bootstrap done, cache clock, ...), which would make a failure depend on earlier inputs.  The
// storage is the file-static array `defaultMemPool_space` in frontend.cpp; it is zero at process start, so it is located through the symbol table of
// the executable and zeroed again after every shutdown.  If the symbol cannot be found (renamed in a changed tree) the runs still work, only replay of
// default-pool-dependent failures gets weaker (counted as class default_pool_state_kept).
// ------------------------------------------------------------------------------------------
}  // namespace fz
#include <elf.h>
#include <link.h>
#include <fcntl.h>
#include <sys/stat.h>
namespace fz {
static void* g_dp_space = nullptr; static size_t g_dp_size = 0; static bool g_dp_looked = false;
static int phdr_cb(dl_phdr_info* info, size_t, void* out) { *(uintptr_t*)out = info->dlpi_addr; return 1; }   // first entry = the executable
static void locate_default_pool_storage() {
    g_dp_looked = true;
    int fd = open("/proc/self/exe", O_RDONLY);
    if (fd < 0) return;
    struct stat st;
    if (fstat(fd, &st) != 0) { close(fd); return; }
    void* m = mmap(nullptr, st.st_size, PROT_READ, MAP_PRIVATE, fd, 0);
    close(fd);
    if (m == MAP_FAILED) return;
    const char* base = (const char*)m;
    const Elf64_Ehdr* eh = (const Elf64_Ehdr*)base;
    if (memcmp(eh->e_ident, ELFMAG, SELFMAG) == 0 && eh->e_ident[EI_CLASS] == ELFCLASS64 && eh->e_shoff && eh->e_shoff + (size_t)eh->e_shnum * sizeof(Elf64_Shdr) <= (size_t)st.st_size) {
        const Elf64_Shdr* sh = (const Elf64_Shdr*)(base + eh->e_shoff);
        for (int i = 0; i < eh->e_shnum; i++) {
            if (sh[i].sh_type != SHT_SYMTAB || sh[i].sh_link >= eh->e_shnum) continue;
            const Elf64_Sym* sym = (const Elf64_Sym*)(base + sh[i].sh_offset);
            size_t n = sh[i].sh_size / sizeof(Elf64_Sym);
            const char* str = base + sh[sh[i].sh_link].sh_offset;
            for (size_t k = 0; k < n; k++) {
                if (ELF64_ST_TYPE(sym[k].st_info) != STT_OBJECT) continue;
                const char* name = str + sym[k].st_name;
                if (strstr(name, "defaultMemPool_space") && sym[k].st_size >= 4096 && sym[k].st_size <= (64u << 20)) {
                    uintptr_t bias = 0;
                    dl_iterate_phdr(phdr_cb, &bias);
                    g_dp_space = (void*)(bias + sym[k].st_value); g_dp_size = sym[k].st_size;
                    // with ASan the symbol covers the global's redzone as well: keep the addressable prefix
                    if (void* bad = __asan_region_is_poisoned(g_dp_space, g_dp_size)) g_dp_size = (uintptr_t)bad - (uintptr_t)g_dp_space;
                }
            }
        }
    }
    munmap(m, st.st_size);
}
static void wipe_default_pool_storage() {
    if (!g_dp_looked) locate_default_pool_storage();
    if (g_dp_space) memset(g_dp_space, 0, g_dp_size); else cls("default_pool_state_kept");
}

// ------------------------------------------------------------------------------------------
// one run of a trace: fresh pools, fresh default pool, everything torn down at the end
// ------------------------------------------------------------------------------------------
static bool g_leave_live = false;    // destroy the pools with live blocks in them

static void begin_run() {
    Tm tm(0);
    arena_init();
    live.clear(); slots.clear(); live_bytes = 0; next_id = 0; big_allocs = 0; g_opno = 0;
    pools[0] = PoolCtx(); pools[1] = PoolCtx();
    RI = RunInfo();
    F.calls = F.injected = F.injected_in_op = 0; F.burst_on = false; F.log.clear();
    // the default pool is initialised before any fault is armed (see the plan's assumptions)
    bool was = F.armed; F.armed = false;
    void* w = scalable_malloc(24); if (!w) violation("INIT", "scalable_malloc failed during warm-up"); scalable_free(w);
    F.armed = was;
}

static void end_run() {
    double t0 = now_s();
    F.armed = false;
    g_opno = 100000;
    if (H.alive) {
        bool owns = false; for (auto& kv : live) if (kv.second.thr == 1) owns = true;
        H.stop();
        if (owns) { RI.orphan_exit++; cls("thread_exit_with_live_blocks"); }
    }
    check_all("at the end");
    // free what is left (from the main thread: blocks of the exited helper are foreign frees into orphaned slabs)
    std::vector<Blk> rest; for (auto& kv : live) rest.push_back(kv.second);
    for (const Blk& b : rest) {
        if (b.space != SP_D && g_leave_live) continue;
        g_dying = b.p;
        if (b.space == SP_D) scalable_free((void*)b.p); else if (!rml::pool_free(pools[b.space].pool, (void*)b.p)) violation("FREE-FAILED", "pool_free of a live block returned false");
        g_dying = 0;
        forget(b.p);
        if (b.thr != 0) RI.xthread_free++;
    }
    check_all("after freeing");
    double t1 = now_s(); T_sec[2] += t1 - t0;
    for (int sp = 0; sp < 2; sp++) {
        PoolCtx& pc = pools[sp];
        if (!pc.created) continue;
        std::vector<uintptr_t> mine; for (auto& kv : live) if (kv.second.space == sp) mine.push_back(kv.first);
        for (uintptr_t p : mine) forget(p);               // destroying the pool ends the life of its blocks
        bool ok = rml::pool_destroy(pc.pool);
        if (!ok) violation("DESTROY-FAILED", "pool_destroy returned false");
        // MemPoolPolicy documents for fixedPool: "all memory consumed at 1st pAlloc call and never returned" -> giving back is demanded from growable pools only
        if (pc.has_free && !pc.fixed)
            for (const Region& r : regions)
                if (r.owner == sp && r.live)
                    violation("RAW-LEAK", "pool %s was destroyed but its raw region arena+0x%llx (%zu bytes, obtained in op %u) was never given back", spname(sp),
                              (unsigned long long)(r.p - A_base), r.sz, r.op);
        if (pc.fixed && pc.raw_allocs > 1) violation("FIXED-RAW-TWICE", "fixed pool called its raw allocator %u times", pc.raw_allocs);
        pc.created = false; pc.pool = nullptr;
    }
    if (!live.empty()) violation("HARNESS", "live map not empty at the end");
    double t2 = now_s(); T_sec[3] += t2 - t1;
    __TBB_mallocProcessShutdownNotification(false);      // default pool gone; the next run initialises a fresh one
    wipe_default_pool_storage();
    double t3 = now_s(); T_sec[4] += t3 - t2;
    arena_reset();
    T_sec[5] += now_s() - t3;
}

}  // namespace fz
