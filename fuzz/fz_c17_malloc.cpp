// libFuzzer target for C17: tbbmalloc blocks are disjoint, aligned, big enough, and keep their contents.
// One input = one operation sequence (<= 200 ops) over a fresh rml::MemoryPool (P0) and the freshly initialised
// default pool (D, scalable_* entry points), main thread T0 and a helper thread T1 that takes single operations.
// See fz_tbbmalloc.h for the arena, the shadow interval map and the checks.
#include "fz_tbbmalloc.h"
using namespace fz;

static const int MAX_OPS = 200;

// weighted choice of the operation kind
static const Kind KIND_TAB[32] = {K_MALLOC, K_MALLOC, K_MALLOC, K_MALLOC, K_MALLOC, K_MALLOC, K_CALLOC, K_CALLOC, K_REALLOC, K_REALLOC, K_REALLOC, K_REALLOC,
                                  K_AMALLOC, K_AMALLOC, K_AMALLOC, K_AREALLOC, K_AREALLOC, K_PMEMALIGN, K_PMEMALIGN, K_FREE, K_FREE, K_FREE, K_FREE, K_FREE,
                                  K_FREE, K_MSIZE, K_CHECK, K_CLEAN_THR, K_CLEAN_ALL, K_THR_EXIT, K_RESET, K_FILL};

static void at_exit_flush() { flush_stats(); prof_print(); }

extern "C" int LLVMFuzzerInitialize(int*, char***) {
    PROP = "C17";
    arena_init();
    atexit(at_exit_flush);
    return 0;
}

extern "C" int LLVMFuzzerTestOneInput(const uint8_t* data, size_t size) {
    S.inputs++;
    if (size < 8) return 0;
    FuzzedDataProvider fdp(data, size);
    // ---- header: configuration of the pool under test
    std::vector<uint8_t> hdr = fdp.ConsumeBytes<uint8_t>(2);
    uint8_t h0 = hdr[0], h1 = hdr[1];
    pool_cfg[0] = PoolCfg{(uint8_t)(h0 & 7), (uint8_t)((h0 >> 3) & 3) == 3 ? (uint8_t)0 : (uint8_t)((h0 >> 3) & 3), (uint8_t)((h0 >> 5) & 3), (uint8_t)(h0 >> 7), 0, 1, 0};
    // a quarter of the inputs run P0 as a fixed pool (one buffer, handed over whole, never grown): K_FILL then really fills it up
    static const size_t FIXED_SIZES[8] = {24u << 10, 100u << 10, 256u << 10, 1u << 20, (2u << 20) + 4096, 4u << 20, 160u << 10, 512u << 10};
    if ((h1 & 6) == 6) { pool_cfg[0].fixed = 1; pool_cfg[0].has_free = 0; pool_cfg[0].fixed_size = FIXED_SIZES[(h1 >> 3) & 7]; }
    pool_cfg[1] = pool_cfg[0];
    g_leave_live = h1 & 1;
    X = ExecCfg();
    g_case.clear();
    { char b[96]; snprintf(b, sizeof b, "C17 trace: leave_live_at_destroy=%d fixed_pool=%zu\n", (int)g_leave_live, pool_cfg[0].fixed ? pool_cfg[0].fixed_size : (size_t)0); g_case += b; }
    begin_run();
    std::vector<Op> ops;
    while (fdp.remaining_bytes() >= 6 && ops.size() < (size_t)MAX_OPS) {
        std::vector<uint8_t> rec = fdp.ConsumeBytes<uint8_t>(6);
        const uint8_t* q = rec.data();
        Op o{};
        o.kind = KIND_TAB[q[0] & 31];
        o.thr = (q[1] & 3) == 3;                       // a quarter of the operations run on the helper thread
        o.space = (q[1] & 4) ? SP_D : SP_P0;
        o.fill_msize = (q[1] >> 3) & 1;
        o.size = gen_size(q[2], q[3]);
        o.nobj = 1;
        if (o.kind == K_CALLOC) { o.nobj = 1 + (q[4] >> 5); if (q[1] & 16) { size_t t = o.size; o.size = o.nobj; o.nobj = t; } }
        unsigned lg = (q[4] & 31) % 21;                // alignments 2^0 .. 2^20
        if (o.kind == K_PMEMALIGN && lg < 3) lg += 3;  // posix_memalign documents alignment >= sizeof(void*)
        o.align = (size_t)1 << lg;
        if (o.kind == K_AMALLOC && o.size == 0) o.size = 1;   // aligned_malloc documents size > 0
        o.slot = q[5];
        if (o.kind == K_THR_EXIT || o.kind == K_RESET) o.thr = 0;      // these stop the helper thread: issued by the main thread
        ops.push_back(o);
    }
    run_ops(ops, 16);
    end_run();
    S.evals++;
    // ---- non-triviality, measured
    int nclasses = __builtin_popcount(RI.class_mask);
    bool nt = RI.xthread_free > 0 || RI.realloc_moved > 0 || nclasses >= 3;
    if (RI.xthread_free) cls("nt:cross_thread_free");
    if (RI.realloc_moved) cls("nt:realloc_moved");
    if (nclasses >= 3) cls("nt:>=3_size_classes");
    if (RI.orphan_exit) cls("nt:orphaned_slabs");
    if (nt) {
        if (S.nt.size() < NT_CAP) S.nt.insert(RI.hash);
        uint64_t k = S.nt.size();
        if (S.samples.size() < 4 && (k == 1 || k == 50 || k == 1000 || k == 10000) && g_case.size() < 6000) S.samples.push_back(g_case);
    }
    if ((S.inputs & 4095) == 0) flush_stats();
    return 0;
}
