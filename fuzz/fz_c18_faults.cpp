// libFuzzer target for C18: tbbmalloc fails cleanly; memory pools stay inside and give back their raw memory.
// One input = one trace (<= 40 ops) over up to two rml::MemoryPool objects (growable or fixed, generated policy) and the
// default pool.  The trace is run once without faults (raw requests are counted: N) and then once for EVERY failure
// index k < N in two shapes: `single` (only request k is refused) and `burst` (request k and every later raw request of
// the same operation are refused); optionally once more with a generated subset of refused indices.
// Raw requests = raw-allocation callbacks of the pools + mmap/mremap of the default pool (macro redirection).
// See fz_tbbmalloc.h for the arena, the shadow interval map and the checks.
#include "fz_tbbmalloc.h"
using namespace fz;

static const int MAX_OPS = 40;
static const unsigned MAX_K = 64;

static const Kind KIND_TAB[32] = {K_MALLOC, K_MALLOC, K_MALLOC, K_MALLOC, K_MALLOC, K_CALLOC, K_CALLOC, K_REALLOC, K_REALLOC, K_REALLOC, K_AMALLOC, K_AMALLOC,
                                  K_AMALLOC, K_AREALLOC, K_AREALLOC, K_PMEMALIGN, K_PMEMALIGN, K_FREE, K_FREE, K_FREE, K_FREE, K_MSIZE, K_CHECK, K_CLEAN_ALL,
                                  K_THR_EXIT, K_RESET, K_IDENTIFY, K_FILL, K_CXX, K_CXX, K_MALLOC, K_FREE};

static const size_t SMAX = SIZE_MAX;
static const size_t EXT_SIZES[] = {SMAX, SMAX - 1, SMAX - 7, SMAX - 64, SMAX - 103, SMAX - 104, SMAX - 167, SMAX - 168, SMAX - 4096, SMAX - 8192, SMAX - 16384, SMAX - 65536,
                                   SMAX / 2, SMAX / 2 + 1, SMAX / 2 + 2, (size_t)1 << 63, ((size_t)1 << 63) - 104, (size_t)1 << 62, (size_t)1 << 60, ((size_t)1 << 60) + 1,
                                   (size_t)1 << 48, (size_t)1 << 40, (size_t)1 << 32, ((size_t)1 << 32) - 1, ((size_t)1 << 32) + 1, (size_t)1 << 31, (size_t)1 << 30,
                                   ((size_t)1 << 30) + 1, (size_t)1 << 30, (size_t)300 << 20, (size_t)65 << 20, ((size_t)64 << 20) + 1};
static const int NEXT_SIZES = sizeof(EXT_SIZES) / sizeof(EXT_SIZES[0]);
// (nobj, size) pairs whose product overflows or nearly does
static const size_t EXT_PAIRS[][2] = {{(size_t)1 << 32, (size_t)1 << 32}, {(size_t)1 << 33, (size_t)1 << 31}, {SMAX / 3 + 1, 3}, {((size_t)1 << 32) + 1, ((size_t)1 << 32) - 1},
                                      {SMAX, 2}, {2, SMAX}, {SMAX, SMAX}, {(size_t)1 << 63, 2}, {((size_t)1 << 32) - 1, ((size_t)1 << 32) - 1}, {(size_t)1 << 31, (size_t)1 << 32},
                                      {SMAX / 24 + 1, 24}, {SMAX / 8 + 1, 8}, {3, SMAX / 2}, {0, SMAX}, {SMAX, 0}, {(size_t)1 << 16, (size_t)1 << 48}};
static const int NEXT_PAIRS = sizeof(EXT_PAIRS) / sizeof(EXT_PAIRS[0]);
static const size_t EXT_ALIGNS[] = {0, 3, 5, 6, 12, 24, 100, 4095, 4097, ((size_t)1 << 40) + 1, SMAX, SMAX - 1, (size_t)1 << 21, (size_t)1 << 22, (size_t)1 << 24, (size_t)1 << 28,
                                    (size_t)1 << 30, (size_t)1 << 31, (size_t)1 << 32, (size_t)1 << 40, (size_t)1 << 48, (size_t)1 << 62, (size_t)1 << 63, ((size_t)1 << 63) + 1};
static const int NEXT_ALIGNS = sizeof(EXT_ALIGNS) / sizeof(EXT_ALIGNS[0]);
static const size_t FIXED_SIZES[8] = {24u << 10, 100u << 10, 256u << 10, 1u << 20, (2u << 20) + 4096, 4u << 20, (8u << 20) + 12345 * 8, 32u << 20};

static std::vector<Op> decode(FuzzedDataProvider& fdp, size_t body_len) {
    std::vector<Op> ops;
    size_t n = body_len / 6;
    if (n > (size_t)MAX_OPS) n = MAX_OPS;
    for (size_t i = 0; i < n; i++) {
        std::vector<uint8_t> rec = fdp.ConsumeBytes<uint8_t>(6);
        const uint8_t* q = rec.data();
        Op o{};
        o.kind = KIND_TAB[q[0] & 31];
        o.thr = (q[1] & 7) == 7;
        unsigned spsel = (q[1] >> 3) & 3;
        o.space = spsel == 0 ? SP_D : spsel == 3 ? SP_P1 : SP_P0;
        o.fill_msize = (q[1] >> 5) & 1;
        bool ext = (q[0] >> 5) == 7;                   // 1/8 of the operations take an extreme argument
        o.size = gen_size(q[2], q[3]);
        o.nobj = 1;
        unsigned lg = (q[4] & 31) % 21;
        o.align = (size_t)1 << lg;
        if (o.kind == K_CALLOC) { o.nobj = 1 + (q[4] >> 5); if (q[1] & 64) std::swap(o.nobj, o.size); }
        if (o.kind == K_CXX) o.nobj = q[4];
        if (ext) {
            if (o.kind == K_CALLOC) { o.nobj = EXT_PAIRS[q[2] % NEXT_PAIRS][0]; o.size = EXT_PAIRS[q[2] % NEXT_PAIRS][1]; }
            else if (o.kind == K_CXX) { size_t esz = o.nobj % 3 == 0 ? 1 : o.nobj % 3 == 1 ? 8 : 24; o.size = (q[3] & 1) ? SMAX / esz + 1 + (q[2] & 3) : EXT_SIZES[q[2] % NEXT_SIZES] / esz; }
            else if ((q[3] & 1) && (o.kind == K_AMALLOC || o.kind == K_AREALLOC || o.kind == K_PMEMALIGN)) o.align = EXT_ALIGNS[q[2] % NEXT_ALIGNS];
            else o.size = EXT_SIZES[q[2] % NEXT_SIZES];
        }
        o.slot = q[5];
        if (o.kind == K_THR_EXIT || o.kind == K_RESET) o.thr = 0;      // these stop the helper thread: issued by the main thread
        ops.push_back(o);
    }
    return ops;
}

static std::string g_hdr;

// one execution of the trace under the fault plan that is set up in F
static void run_trace(const std::vector<Op>& ops, const char* plan) {
    g_case = g_hdr; g_case += "fault plan: "; g_case += plan; g_case += "\n";
    begin_run();
    run_ops(ops, 8);
    end_run();
    S.evals++;
}

static void at_exit_flush() { flush_stats(); prof_print(); }

extern "C" int LLVMFuzzerInitialize(int*, char***) {
    PROP = "C18";
    arena_init();
    atexit(at_exit_flush);
    return 0;
}

extern "C" int LLVMFuzzerTestOneInput(const uint8_t* data, size_t size) {
    S.inputs++;
    if (size < 4 + 6) return 0;
    // ---- header (4 bytes): the two pool policies and the shape of the extra fault plan; then 6 bytes per operation; the last mask_len bytes are the subset mask
    FuzzedDataProvider fdp(data, size);
    std::vector<uint8_t> hdr = fdp.ConsumeBytes<uint8_t>(4);
    for (int i = 0; i < 2; i++) {
        uint8_t h = hdr[i];
        PoolCfg c{};
        c.gran_sel = h & 7; c.over = ((h >> 3) & 3) == 3 ? 0 : (h >> 3) & 3; c.raw_off = (h >> 5) & 3; c.keep_all = 0;
        pool_cfg[i] = c;
    }
    uint8_t h2 = hdr[2], h3 = hdr[3];
    pool_cfg[0].keep_all = h2 & 1;
    pool_cfg[1].fixed = (h2 >> 1) & 1;                   // P1 may be a fixed pool
    pool_cfg[1].has_free = (h2 >> 2) & 1;
    pool_cfg[1].fixed_size = FIXED_SIZES[(h2 >> 3) & 7];
    pool_cfg[0].fixed = (h2 >> 6) == 3;                  // sometimes P0 too
    pool_cfg[0].has_free = 1; pool_cfg[0].fixed_size = FIXED_SIZES[(h3 >> 5) & 7];
    g_leave_live = h3 & 1;
    unsigned mask_len = (h3 >> 1) & 7;                   // 0: no subset run
    size_t blen = fdp.remaining_bytes();
    bool with_mask = mask_len && blen > mask_len + 6;
    if (with_mask) blen -= mask_len;
    std::vector<Op> ops = decode(fdp, blen);
    std::vector<uint8_t> mask;
    if (with_mask) { std::vector<uint8_t> rest = fdp.ConsumeRemainingBytes<uint8_t>(); mask.assign(rest.end() - mask_len, rest.end()); }
    if (ops.empty()) return 0;
    X = ExecCfg(); X.c18 = true;
    { char b[128]; snprintf(b, sizeof b, "C18 trace: %zu ops, leave_live_at_destroy=%d\n", ops.size(), (int)g_leave_live); g_hdr = b; }

    // ---- 1. fault-free run: counts the raw requests, records which requests succeed
    std::vector<uint8_t> ok;
    F = Faults(); F.armed = true; F.mode = 0;
    X.record_ok = &ok; X.baseline_ok = nullptr;
    run_trace(ops, "none (baseline)");
    unsigned N = F.calls;
    uint64_t trace_hash = RI.hash;
    std::vector<std::pair<int, size_t>> base_log = F.log;
    bool base_nt = RI.fault_classes.find("badarg") != std::string::npos || RI.fault_classes.find("overflow") != std::string::npos;
    if (base_nt) { if (S.nt.size() < NT_CAP) S.nt.insert(hmix(trace_hash, 0xbadULL)); cls("nt:argument_rejected"); }
    S.sums["n_raw_requests_baseline"] += N;
    cls(N == 0 ? "rawcalls:0" : N <= 4 ? "rawcalls:1-4" : N <= 8 ? "rawcalls:5-8" : N <= 16 ? "rawcalls:9-16" : "rawcalls:>16");
    X.record_ok = nullptr; X.baseline_ok = &ok;

    // ---- 2. every failure index k, single and burst
    unsigned kmax = N < MAX_K ? N : MAX_K;
    if (N > MAX_K) cls("enumeration_capped");
    for (unsigned k = 0; k < kmax; k++)
        for (int mode = 1; mode <= 2; mode++) {
            F = Faults(); F.armed = true; F.mode = mode; F.k = k;
            char plan[64]; snprintf(plan, sizeof plan, "%s k=%u of %u", mode == 1 ? "single" : "burst", k, N);
            run_trace(ops, plan);
            if (F.injected) {
                cls(base_log[k].first == OWNER_MMAP ? "fault_at:mmap" : "fault_at:pool_raw");
                size_t sz = base_log[k].second;
                cls(sz >= (2u << 20) && k == 0 ? "fault_size:bootstrap/>=2M" : sz >= (1u << 20) ? "fault_size:>=1M" : "fault_size:<1M");
            }
            if (RI.faulted_op) {
                cls(mode == 1 ? "nt:single_fault_failed_an_op" : "nt:burst_fault_failed_an_op");
                if (S.nt.size() < NT_CAP) S.nt.insert(hmix(hmix(trace_hash, mode), k));
                uint64_t c = S.nt.size();
                if (S.samples.size() < 4 && (c == 1 || c == 100 || c == 2000 || c == 20000) && g_case.size() < 6000) S.samples.push_back(g_case);
            } else if (F.injected) cls("fault_absorbed_without_failure");
        }
    // ---- 3. a generated subset of refused requests
    if (!mask.empty() && N > 0) {
        F = Faults(); F.armed = true; F.mode = 3; F.mask = mask;
        run_trace(ops, "subset mask");
        if (RI.faulted_op) { cls("nt:subset_fault_failed_an_op"); if (S.nt.size() < NT_CAP) S.nt.insert(hmix(hmix(trace_hash, 3), hmix(mask.size(), mask[0]))); }
    }
    F = Faults();
    if ((S.inputs & 255) == 0) flush_stats();
    return 0;
}
