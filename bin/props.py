"""Per-property check plans: which harness, which flavours, how many generated cases per tier.
Budgets are case counts; time_cap is only a safety net (hitting it means fewer cases, never a verdict)."""

SC_TSO = ["x86-TSO store-buffer sub-model for atomics only (non-atomic stores are not delayed); nothing weaker than TSO",
          "schedules are sampled at atomic-operation granularity, not enumerated; switches between two non-atomic accesses are not explored",
          "liveness = no DEADLOCK / SPIN-FIXPOINT under a scheduler that eventually runs every runnable thread; step-budget overruns are inconclusive"]


def det(name, harness, flavour, procs, programs, scheds=4, tso=False, time_cap=60, **kw):
    d = dict(kind="detsched", name=name, harness=harness, flavour=flavour, procs=procs, programs=programs, scheds=scheds, tso=tso, time_cap=time_cap)
    d.update(kw)
    return d


PROPS = {
    "C08": dict(
        level="exploration",
        rule="case = generated lock program (type, 2-4 threads x 1-6 ops incl. try/upgrade/downgrade) x generated schedule "
             "(walk/pct/pos/directed stall, SC or TSO); non-trivial = at least one acquire was invoked while the lock was held AND at least "
             "one blocking acquire had to wait (reached a pause/yield inside acquire); distinct = hash of program text + schedule descriptor",
        assumptions=SC_TSO + ["RTM transactions abort at every baton hand-over, so speculative mutexes mostly run their fallback path here"],
        floor=dict(quick=50, thorough=200),
        tiers=dict(
            quick=[det("rel", "harness/c08_mutex.cpp", "cs-rel", 16, 120, 5, tso=True, time_cap=30),
                   det("dbg", "harness/c08_mutex.cpp", "cs-dbg", 16, 60, 5, tso=True, time_cap=20)],
            thorough=[det("rel", "harness/c08_mutex.cpp", "cs-rel", 16, 3000, 6, tso=True, time_cap=240),
                      det("dbg", "harness/c08_mutex.cpp", "cs-dbg", 16, 1200, 6, tso=True, time_cap=150),
                      det("enum-wake", "harness/c08_mutex.cpp", "cs-rel", 16, 150, 2, tso=True, time_cap=90, enum="wake", enum_cap=200),
                      det("enum-sbload", "harness/c08_mutex.cpp", "cs-rel", 16, 150, 2, tso=True, time_cap=90, enum="sbload", enum_cap=200)],
        ),
    ),
}
