"""Loads the per-property check plans from bin/plans/CXX.py.
Each plan module defines PLAN (level, rule, assumptions, floor, tiers) and TEXT (technique, level_text, level_note[, engine])."""
import os, importlib.util, glob
from plans.common import *   # noqa

PROPS, TEXTS = {}, {}
for f in sorted(glob.glob(os.path.join(os.path.dirname(os.path.abspath(__file__)), "plans", "C[0-9]*.py"))):
    pid = os.path.basename(f)[:-3]
    spec = importlib.util.spec_from_file_location("plan_" + pid, f)
    m = importlib.util.module_from_spec(spec); spec.loader.exec_module(m)
    PROPS[pid] = m.PLAN; TEXTS[pid] = m.TEXT
