#!/usr/bin/env python3
"""Flavour builder with a content-hash object cache.  Everything is compiled from the *current
working tree* of the repository (VERIF_REPO, default /repo); nothing from /repo/_build is used.

flavours
  cs-rel  g++ -O2 -DNDEBUG, prelude force-included, ONETBB_VERIF=1      (controlled schedule)
  cs-dbg  g++ -O1 -DTBB_USE_ASSERT=1, prelude, ONETBB_VERIF=1           (same, oneTBB assertions on)
  plain   g++ -O2 -DNDEBUG, no prelude                                  (seqpbt / freerun)
  tsan    g++ -O1 -g -fsanitize=thread, no prelude                      (freerun, happens-before oracle)
"""
import hashlib, os, subprocess, sys, glob, shutil, time, fcntl, concurrent.futures as cf

VERIF = os.path.dirname(os.path.dirname(os.path.abspath(__file__)))
REPO = os.environ.get("VERIF_REPO", "/repo")
CACHE = os.environ.get("VERIF_CACHE", os.path.join(VERIF, ".cache"))
PRELUDE = os.path.join(VERIF, "engine/vs/vs_prelude.h")
VS_RT = os.path.join(VERIF, "engine/vs/vs_rt.cpp")
JOBS = int(os.environ.get("VERIF_JOBS", "16"))

COMMON = ["-std=c++17", "-fPIC", "-pthread", "-mrtm", "-w", "-fno-strict-overflow", "-fno-delete-null-pointer-checks", "-fwrapv"]
FLAV = {
    "cs-rel": dict(cxx="g++", flags=["-O2", "-DNDEBUG", "-DONETBB_VERIF=1", "-DVS_TSO_DTOR=1", "-include", PRELUDE, "-flifetime-dse=1"], prelude=True),
    "cs-dbg": dict(cxx="g++", flags=["-O1", "-g1", "-DTBB_USE_ASSERT=1", "-DONETBB_VERIF=1", "-DVS_TSO_DTOR=1", "-include", PRELUDE, "-flifetime-dse=1"], prelude=True),
    "plain":  dict(cxx="g++", flags=["-O2", "-DNDEBUG"], prelude=False),
    "tsan":   dict(cxx="g++", flags=["-O1", "-g", "-fsanitize=thread", "-DNDEBUG"], prelude=False),
    # libFuzzer targets: the harness TU gets -fsanitize=fuzzer,...; library/extra sources get fuzzer-no-link (see compile_obj)
    "fuzz":   dict(cxx="clang++", flags=["-g", "-O1", "-fsanitize=fuzzer-no-link,address,undefined", "-fno-sanitize-recover=undefined"], prelude=False,
                   link=["-fsanitize=fuzzer,address,undefined"]),
    # plain ASan+UBSan build with g++ (rapidcheck / sequential legs that want memory errors visible)
    "asan":   dict(cxx="g++", flags=["-g", "-O1", "-fsanitize=address,undefined", "-fno-sanitize-recover=undefined", "-fno-omit-frame-pointer"], prelude=False,
                   link=["-fsanitize=address,undefined"]),
}
TBB_DEFS = ["-D__TBB_BUILD", "-D__TBB_DYNAMIC_LOAD_ENABLED=0", "-D__TBB_SOURCE_DIRECTLY_INCLUDED=1"]
MALLOC_DEFS = ["-D__TBBMALLOC_BUILD", "-D__TBB_DYNAMIC_LOAD_ENABLED=0", "-D__TBB_SOURCE_DIRECTLY_INCLUDED=1", "-fno-rtti", "-fno-exceptions"]


def sha(*parts):
    h = hashlib.sha256()
    for p in parts:
        h.update(p if isinstance(p, bytes) else str(p).encode())
        h.update(b"\0")
    return h.hexdigest()[:24]


def file_bytes(p):
    with open(p, "rb") as f:
        return f.read()


_hdr_hash = {}


def headers_hash(repo):
    """one hash over every header of the repository a TU could include"""
    if repo in _hdr_hash:
        return _hdr_hash[repo]
    h = hashlib.sha256()
    files = []
    for root in ("include", "src/tbb", "src/tbbmalloc", "src/tbbmalloc_proxy"):
        for dp, dn, fn in os.walk(os.path.join(repo, root)):
            for f in fn:
                if f.endswith((".h", ".hpp", ".inc")) or "." not in f:
                    files.append(os.path.join(dp, f))
    for f in sorted(files):
        h.update(f[len(repo):].encode()); h.update(file_bytes(f))
    _hdr_hash[repo] = h.hexdigest()[:24]
    return _hdr_hash[repo]


def engine_hash():
    h = hashlib.sha256()
    for f in sorted(glob.glob(os.path.join(VERIF, "engine/*/*"))):
        if os.path.isfile(f):
            h.update(file_bytes(f))
    return h.hexdigest()[:24]


def run(cmd, **kw):
    r = subprocess.run(cmd, stdout=subprocess.PIPE, stderr=subprocess.STDOUT, text=True, **kw)
    return r.returncode, r.stdout


def compile_obj(flavour, src, extra, tag):
    """compile one TU into the cache, return (obj path or None, log)"""
    fl = FLAV[flavour]
    cmd_flags = COMMON + fl["flags"] + extra
    key = sha(fl["cxx"], " ".join(cmd_flags), file_bytes(src), headers_hash(REPO), engine_hash() if (fl["prelude"] or tag == "harness") else "")
    d = os.path.join(CACHE, flavour)
    os.makedirs(d, exist_ok=True)
    obj = os.path.join(d, "%s-%s-%s.o" % (tag, os.path.basename(src).replace(".cpp", ""), key))
    if os.path.exists(obj):
        os.utime(obj, None)
        return obj, ""
    tmp = obj + ".tmp%d" % os.getpid()
    rc, log = run([fl["cxx"]] + cmd_flags + ["-c", src, "-o", tmp])
    if rc != 0:
        return None, "COMPILE FAILED: %s\n%s" % (src, log[-4000:])
    os.replace(tmp, obj)
    return obj, ""


def tbb_objects(flavour, with_malloc=False):
    srcs = sorted(glob.glob(os.path.join(REPO, "src/tbb/*.cpp")))
    inc = ["-I", os.path.join(REPO, "include"), "-iquote", os.path.join(REPO, "src/tbb")]
    jobs = [(flavour, s, TBB_DEFS + inc, "tbb") for s in srcs]
    if with_malloc:
        msrcs = [os.path.join(REPO, "src/tbbmalloc", f) for f in ("backend.cpp", "backref.cpp", "frontend.cpp", "large_objects.cpp", "tbbmalloc.cpp")]
        minc = ["-I", os.path.join(REPO, "include"), "-iquote", os.path.join(REPO, "src/tbbmalloc"), "-I", os.path.join(REPO, "src")]
        jobs += [(flavour, s, MALLOC_DEFS + minc, "malloc") for s in msrcs]
    objs, logs = [], []
    with cf.ThreadPoolExecutor(JOBS) as ex:
        for o, l in ex.map(lambda a: compile_obj(*a), jobs):
            if o is None:
                logs.append(l)
            else:
                objs.append(o)
    return (None if logs else objs), "\n".join(logs)


def rt_object(flavour):
    fl = FLAV[flavour]
    key = sha(file_bytes(VS_RT), file_bytes(os.path.join(VERIF, "engine/vs/vs_api.h")), flavour)
    d = os.path.join(CACHE, flavour); os.makedirs(d, exist_ok=True)
    obj = os.path.join(d, "vs_rt-%s.o" % key)
    if os.path.exists(obj):
        return obj, ""
    tmp = obj + ".tmp%d" % os.getpid()
    rc, log = run(["g++", "-std=c++17", "-O2", "-g1", "-fPIC", "-pthread", "-c", VS_RT, "-o", tmp])
    if rc != 0:
        return None, log
    os.replace(tmp, obj)
    return obj, ""


def prune(flavour, keep_s=6 * 3600, max_files=1200):
    d = os.path.join(CACHE, flavour)
    try:
        fs = [os.path.join(d, f) for f in os.listdir(d)]
    except FileNotFoundError:
        return
    def mt(f):
        try:
            return os.path.getmtime(f)
        except OSError:          # a temporary of a concurrent build vanished
            return 0
    fs.sort(key=mt, reverse=True)
    now = time.time()
    for i, f in enumerate(fs):
        if ".tmp" in os.path.basename(f) and now - mt(f) < 3600:
            continue
        if i >= max_files or (now - mt(f) > keep_s and i > 200):
            try:
                os.remove(f)
            except OSError:
                pass


def build_harness(flavour, harness_src, name=None, with_malloc=False, extra_flags=(), link_tbb=True, extra_link=(), extra_srcs=()):
    """extra_srcs: [(repo-relative or absolute source, [extra flags])] compiled with the flavour's flags and linked in"""
    """returns (binary path or None, log).  The binary lives in the cache, keyed by all its inputs."""
    os.makedirs(CACHE, exist_ok=True)
    fl = FLAV[flavour]
    name = name or os.path.basename(harness_src).replace(".cpp", "")
    objs = []
    # the lock only serialises the library build of a flavour (32 TUs on 16 cores); harness TUs and links
    # write to unique temporary names and may run concurrently
    lock = open(os.path.join(CACHE, ".lock-" + flavour), "w")
    fcntl.flock(lock, fcntl.LOCK_EX)
    try:
        if link_tbb:
            objs, log = tbb_objects(flavour, with_malloc)
            if objs is None:
                return None, log
        rt = None
        if fl["prelude"]:
            rt, log = rt_object(flavour)
            if rt is None:
                return None, log
    finally:
        fcntl.flock(lock, fcntl.LOCK_UN)
        lock.close()
    inc = ["-I", os.path.join(REPO, "include"), "-iquote", os.path.join(REPO, "src/tbb"), "-I", os.path.join(VERIF, "engine"),
           "-DVERIF_REPO=\"%s\"" % REPO] + list(extra_flags)
    hobj, log = compile_obj(flavour, harness_src, inc, "harness")
    if hobj is None:
        return None, log
    link = list(objs) + [hobj]
    for es, ef in extra_srcs:
        esp = es if os.path.isabs(es) else os.path.join(REPO, es)
        eo, log = compile_obj(flavour, esp, ["-I", os.path.join(REPO, "include"), "-I", os.path.join(VERIF, "engine")] + list(ef), "extra")
        if eo is None:
            return None, log
        link.append(eo)
    ldflags = ["-pthread", "-ldl", "-rdynamic"] + list(fl.get("link", []))
    if rt:
        link.append(rt)
        ldflags += ["-Wl,--wrap=free", "-Wl,--wrap=__cxa_guard_acquire", "-Wl,--wrap=__cxa_guard_release", "-Wl,--wrap=__cxa_guard_abort"]
    if flavour == "tsan":
        ldflags += ["-fsanitize=thread"]
    key = sha(*sorted(link), " ".join(ldflags), " ".join(extra_link))
    binp = os.path.join(CACHE, flavour, "%s-%s.bin" % (name, key))
    if not os.path.exists(binp):
        tmpb = binp + ".tmp%d" % os.getpid()
        rc, log = run([fl["cxx"], "-o", tmpb] + link + ldflags + list(extra_link))
        if rc != 0:
            return None, "LINK FAILED\n" + log[-4000:]
        os.replace(tmpb, binp)
    else:
        os.utime(binp, None)
    prune(flavour)
    return binp, ""


if __name__ == "__main__":
    import argparse
    ap = argparse.ArgumentParser()
    ap.add_argument("--flavour", default="cs-rel")
    ap.add_argument("--harness")
    ap.add_argument("--malloc", action="store_true")
    ap.add_argument("--all", action="store_true", help="warm the library objects of cs-rel")
    a = ap.parse_args()
    t = time.time()
    if a.all:
        for f in ("cs-rel",):
            o, log = tbb_objects(f)
            print(f, "ok" if o else "FAILED\n" + log)
            if not o:
                sys.exit(1)
    if a.harness:
        b, log = build_harness(a.flavour, a.harness, with_malloc=a.malloc)
        print(b or log)
        if not b:
            sys.exit(1)
    print("%.1fs" % (time.time() - t), file=sys.stderr)
