#!/usr/bin/env python3
"""Warm the build cache for every leg of every registered check (quick tier, and thorough if --all)."""
import sys, os
HERE = os.path.dirname(os.path.abspath(__file__)); sys.path.insert(0, HERE)
import vbuild
from props import PROPS
import manifest_texts
tiers = ("quick", "thorough") if "--all" in sys.argv else ("quick",)
seen = set(); bad = 0
for pid, P in PROPS.items():
    if pid not in manifest_texts.CLAIMED and "--all-plans" not in sys.argv:
        continue
    for t in tiers:
        for leg in P["tiers"][t]:
            if "harness" not in leg or leg.get("no_warm"):
                continue
            if leg["kind"] not in ("detsched", "cmd", "tsan"):
                # other leg kinds build through their own runner module (bin/leg_<kind>.py: build(leg, ctx))
                try:
                    import importlib
                    m = importlib.import_module("leg_" + leg["kind"])
                    key = (leg["kind"], leg["harness"], tuple(leg.get("cxxflags", ())), leg.get("dbg", False))
                    if key in seen:
                        continue
                    seen.add(key)
                    b, log = m.build(leg, dict(VERIF=vbuild.VERIF, vbuild=vbuild))
                    print(pid, leg["kind"], leg["harness"], "ok" if b else "FAILED")
                    if not b and not leg.get("optional"):
                        print(log[-3000:]); bad += 1
                except Exception as e:
                    print(pid, leg["kind"], leg["harness"], "warm-up skipped:", e)
                continue
            key = (leg["flavour"], leg["harness"], tuple(leg.get("cxxflags", ())))
            if key in seen:
                continue
            seen.add(key)
            b, log = vbuild.build_harness(leg["flavour"], os.path.join(vbuild.VERIF, leg["harness"]), with_malloc=leg.get("with_malloc", False),
                                          extra_flags=leg.get("cxxflags", ()), link_tbb=leg.get("link_tbb", True), extra_link=leg.get("ldflags", ()), extra_srcs=leg.get("extra_srcs", ()))
            print(pid, leg["flavour"], leg["harness"], "ok" if b else "FAILED")
            if not b and not leg.get("optional"):
                print(log[-3000:]); bad += 1
sys.exit(1 if bad else 0)
