from plans.common import *

H = "harness/c10_hashmap.cpp"
PLAN = dict(
    level="exploration",
    rule="case = generated program on ONE concurrent_hash_map (2-4 threads x 1-8 ops: insert by key/value/rvalue with accessor|const_accessor|none, emplace, "
         "find with accessor|const_accessor, count, erase(key), erase(accessor), accessor held for k points; 1-6 keys colliding in the low hash bits "
         "(parent/child buckets of a split); hash = identity|constant|low-8-bits-equal|multiplicative; table pre-filled to 0, 1-3, 252-254, 255-258, "
         "508-510 or 511-513 elements, i.e. just below / just past the growth steps 2->256->512->1024 buckets of this implementation; optional quiescent "
         "point with rehash()/rehash(2n)/clear()/swap) x generated schedule (walk/pct/pos/directed stall, SC or TSO); "
         "non-trivial = at least two operations of different threads on the same key overlapped in time AND the table grew (bucket mask changed) or "
         "lazily rehashed buckets during a concurrent phase of the case, both measured; distinct = hash of program text + schedule descriptor",
    assumptions=SC_TSO + ["domain: a thread holds at most one accessor at a time and only works while holding it; rehash/clear/swap/iteration only at quiescent points (user-level deadlocks and unsafe calls are outside the property)",
                          "under TSO the harness drains the caller's store buffer before it stamps an operation as returned (real-time order is only observable through a fence anyway)",
                          "table sizes up to 1024 buckets; larger growth steps repeat the same code path with a different segment index"],
    floor=dict(quick=800, thorough=12000),
    tiers=dict(
        quick=[det("rel", H, "cs-rel", 16, 300, 5, tso=True, time_cap=40),
               det("dbg", H, "cs-dbg", 16, 120, 5, tso=True, time_cap=30),
               cmd("sequential-model", "harness/c1012_seqmodel_rc.cpp", "plain", 2, ["C10", "12000"], link_tbb=True, ldflags=["-lrapidcheck"], replay_tag="seqmodel-"),
               tsan("C10", 8, 240)],
        thorough=[det("rel", H, "cs-rel", 16, 1800, 6, tso=True, time_cap=280),
                  det("dbg", H, "cs-dbg", 16, 600, 6, tso=True, time_cap=160),
                  det("enum-conflict", H, "cs-rel", 16, 60, 2, tso=True, time_cap=90, enum="conflict", enum_cap=150),
                  det("enum-firstpc", H, "cs-rel", 16, 60, 2, tso=True, time_cap=90, enum="firstpc", enum_cap=150),
                  cmd("sequential-model", "harness/c1012_seqmodel_rc.cpp", "plain", 8, ["C10", "400000"], link_tbb=True, ldflags=["-lrapidcheck"], replay_tag="seqmodel-"),
               tsan("C10", 16, 600)],
    ),
)
TEXT = dict(
    technique="property-based testing: generated map programs x generated schedules over the real concurrent_hash_map (controlled scheduler, SC+TSO) against a key-wise "
              "linearizability checker (per-key register with element versions), accessor holder bookkeeping stored in the mapped value, an instrumented value type and quiescent audits; plus rapidcheck model-based testing of long single-threaded operation sequences (structured key sets over an identity hash, fills across the growth thresholds, rehash, clear, copy, assignment, swap) against std::map",
    level_text="Exploration: thousands of small generated programs on one table that is pre-filled to just below a growth threshold, so that segment allocation, mask publication, "
               "recursive lazy bucket rehashing and the mask-race re-checks happen while 2-4 threads insert/find/erase a handful of colliding keys under a generated interleaving of "
               "every atomic operation. Every call is logged with invocation/response stamps and checked key by key against a sequential map by a Wing-Gong search (exactly one winner "
               "of concurrent inserts/erases, find after insert, erase by accessor removes exactly the element held); accessor exclusivity and 'not destroyed while held' are checked by "
               "counters inside the mapped value and its destructor; at every quiescent point traversal, size(), count() of every key ever used and the construction/destruction ledger must "
               "equal the model, again after rehash() and clear(). Sampling cannot prove absence; scenarios are a few hundred decision points long after the pre-fill.",
    level_note=DET_NOTE,
)
