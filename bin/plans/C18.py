from plans.common import *

T = "fuzz/fz_c18_faults.cpp"


def fz(name, procs, runs, time_cap, **kw):
    """a libFuzzer leg (bin/leg_fuzz.py): `procs` processes x `runs` inputs each; every input is executed 1 + 2N (+1) times (N = raw requests of its fault-free run)"""
    d = dict(kind="fuzz", name=name, harness=T, tbbmalloc=True, procs=procs, runs=runs, max_len=4 + 6 * 40 + 7, time_cap=time_cap, unit=(4, 6))
    d.update(kw)
    return d


PLAN = dict(
    level="fault_enumeration",
    rule="trace = decoded operation sequence (<= 40 ops, as C17 plus pool_identify, tbb::scalable_allocator / tbb::memory_pool_allocator allocate(n), extreme sizes near "
         "SIZE_MAX, overflowing nobj*size, alignments up to 2^63 / not a power of two / zero) over up to two rml::MemoryPool objects (growable or fixed, generated "
         "granularity / keepAllMemory / pFree / misaligned and over-sized raw regions) and the default pool; case = (trace, fault plan): the fault-free run counts the "
         "raw requests N (raw-allocation callbacks + mmap/mremap of the default pool), then EVERY k < min(N,64) is run as `single` (request k refused) and `burst` "
         "(k and all later requests of the same operation refused), plus a generated subset mask; non-trivial = the refused request made an allocation entry point "
         "report failure (measured), or the fault-free run rejected an invalid / overflowing argument; distinct = hash(trace) + plan",
    assumptions=["fixed pools are created without pFree (as tbb::fixed_pool and the test suite do); fixedPool together with pFree is not generated: the policy documents "
                 "'never returned' while the release build does call pFree at pool_destroy and the debug build asserts 'No free for fixed-size pools'",
                 "leg dbg: the same target with -DTBB_USE_DEBUG=1 (tbbmalloc_debug configuration): a failed MALLOC_ASSERT is reported as a violation",
                 "the default pool is initialised before faults are armed: a refused mapping during the very first initialisation is not explored (a failed "
                 "initMemoryManager leaks one pthread key per attempt, which would exhaust the 1024 keys of a long-running fuzz process)",
                 "MemPoolPolicy documents for fixedPool 'all memory consumed at 1st pAlloc call and never returned': giving back every raw region exactly once is "
                 "demanded from growable pools; fixed pools are checked for at most one raw request and for never giving back a region twice or with live blocks",
                 "'the same request succeeds once failures stop' is demanded for growable pools and the default pool, for requests up to 64 MB / alignment up to 2^20 "
                 "that succeeded in the fault-free run of the same trace",
                 "operations of the two threads alternate; no two allocator calls overlap in time",
                 "raw requests above 1 GB are refused by the arena (plays the role of the OS)",
                 "huge pages off; x86-64 Linux only"],
    floor=dict(quick=900, thorough=35000),
    tiers=dict(
        quick=[fz("fz", 16, 700, 18),
               fz("dbg", 16, 200, 8, cxxflags=["-DTBB_USE_DEBUG=1"]),
               cmd("cxx-pool-templates", "harness/c18_mempool_rc.cpp", "plain", 2, ["1500"], link_tbb=True, with_malloc=True, ldflags=["-lrapidcheck"], replay_tag="mempool-")],
        thorough=[fz("fz", 16, 13000, 320),
                  fz("dbg", 16, 3500, 125, cxxflags=["-DTBB_USE_DEBUG=1"]),
                  fz("fz-empty", 16, 2500, 75, seeds=False),
                  cmd("cxx-pool-templates", "harness/c18_mempool_rc.cpp", "plain", 8, ["20000"], link_tbb=True, with_malloc=True, ldflags=["-lrapidcheck"], replay_tag="mempool-")],
    ),
)
TEXT = dict(
    technique="fault-index enumeration inside a coverage-guided fuzz target (libFuzzer + ASan + UBSan): tbbmalloc compiled from the working tree, raw-memory callbacks and "
              "mmap instrumented, every generated trace re-executed with the k-th raw request refused for every k; plus rapidcheck over the C++ pool templates "
              "(tbb::memory_pool<Alloc> over an allocator that throws at planned calls, tbb::fixed_pool) with a region ledger",
    level_text="Fault enumeration: for every generated trace, every raw-request index k of its fault-free run is refused once alone and once as a burst to the end of the "
               "operation (plus generated subsets). After each refused request the entry point must report failure the documented way (null / errno ENOMEM or EINVAL / "
               "posix_memalign code / std::bad_alloc / pool_create_v1 NO_MEMORY with null pool), all live patterns and the interval map must be intact, and the same "
               "request must succeed once requests are granted again. Every pool block must lie inside a live raw region of its own pool, pool_identify must name the "
               "owner, a fixed pool may ask for raw memory once, a raw region may be given back once, with its exact size, never with a live block inside, and a "
               "destroyed growable pool must have given back everything. The traces are sampled, the failure indices per trace are exhaustive up to 64.",
    level_note="trusted: the harness (fuzz/fz_tbbmalloc.h), clang/libFuzzer/ASan; initialisation of the default pool is never faulted; enumeration capped at 64 raw requests "
               "per trace (counted in evidence as enumeration_capped); a crash artefact counts only if it fails again 3 of 3 times in fresh processes",
)
