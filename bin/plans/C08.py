from plans.common import *

H = "harness/c08_mutex.cpp"
PLAN = dict(
    level="exploration",
    rule="case = generated lock program (type, 2-4 threads x 1-6 ops incl. try/upgrade/downgrade) x generated schedule "
         "(walk/pct/pos/directed stall, SC or TSO); non-trivial = at least one acquire was invoked while the lock was held AND at least "
         "one blocking acquire had to wait (reached a pause/yield inside acquire); distinct = hash of program text + schedule descriptor",
    assumptions=SC_TSO + ["RTM transactions abort at every baton hand-over, so speculative mutexes mostly run their fallback path here"],
    floor=dict(quick=50, thorough=200),
    tiers=dict(
        quick=[det("rel", H, "cs-rel", 16, 300, 5, tso=True, time_cap=35),
               det("dbg", H, "cs-dbg", 16, 120, 5, tso=True, time_cap=25),
               det("sleepy-enum-sbload", H, "cs-rel", 16, 12, 2, tso=True, time_cap=20, enum="sbload", enum_cap=40, args=["--sleepy"]),
               det("downgrade-share", H, "cs-rel", 4, 60, 6, tso=True, time_cap=20, args=["--dgshare"]),
               tsan("C08", 8, 300)],
        thorough=[det("rel", H, "cs-rel", 16, 3000, 6, tso=True, time_cap=240),
                  det("downgrade-share", H, "cs-rel", 8, 600, 8, tso=True, time_cap=60, args=["--dgshare"]),
                  det("dbg", H, "cs-dbg", 16, 1200, 6, tso=True, time_cap=150),
                  det("enum-wake", H, "cs-rel", 16, 150, 2, tso=True, time_cap=90, enum="wake", enum_cap=200),
                  det("enum-sbload", H, "cs-rel", 16, 150, 2, tso=True, time_cap=90, enum="sbload", enum_cap=200),
               tsan("C08", 16, 1500)],
    ),
)
TEXT = dict(
    technique="property-based testing: generated lock programs x generated schedules (controlled scheduler, SC+TSO) against a holder-bookkeeping / FIFO / never-blocks oracle, with choice-sequence shrinking",
    level_text="Exploration: thousands of generated lock programs (all eight mutex types, try/upgrade/downgrade, scoped and native API) each under several generated schedules incl. directed stalls and TSO store buffers; every entry/exit is checked against exact holder bookkeeping, upgrade truthfulness against a writer epoch, queue order against invocation/queued stamps, try_* in solo mode, and lost hand-off as an exact DEADLOCK/SPIN-FIXPOINT state. Sampling cannot prove absence, but the scenarios are 50-400 decision points long so random schedules cover a large share of interleavings.",
    level_note=DET_NOTE,
)
