from plans.common import *

H = "harness/c19_once_ets.cpp"
# one small leg for the known finding that is still open (C19-call-once-saturated-arena-deadlock): expected to print its KNOWN-FINDING line
WIT = [det("witness-saturated-arena", H, "cs-rel", 1, 3, 2, time_cap=30, args=["--witness"]),
       det("witness-phantom-element", H, "cs-rel", 1, 3, 2, time_cap=30, args=["--witness-phantom"])]
PLAN = dict(
    level="exploration",
    rule="case = (a) generated collaborative_call_once program: 2-6 external threads, 1-2 flags, calls made directly, inside task_arena::execute, from task_group "
         "tasks and from parallel_for bodies (workers become callers), the function takes generated work, runs a nested parallel_for (0-8 chunks) and throws on a "
         "generated subset of its first three attempts; or (b) generated enumerable_thread_specific<ets_no_key | ets_key_per_instance> / combinable program: 2-8 "
         "external threads (+ worker threads through a parallel_for) call local() / local(exists) 1-4 times each, 0-4 of them sequentially first (table pre-sized), "
         "initialiser = default / finit / exemplar copy, then combine_each / iteration / range / size / combine at quiescence; or (c) element life cycle: 2-5 threads make their first accesses, one generated initialiser call throws (its caller gets the exception, its next local() must run the initialiser again and return a valid new element), then clear() by thread 0 at a barrier and every thread accesses again (new element, new initialiser call, exists=false); x generated schedule (SC or TSO). "
         "non-trivial = (a) at least two callers were inside collaborative_call_once on one flag while its function was executing; (b) at least two first accesses "
         "were in progress across one replacement of the table root (measured: raw my_root sampled at invocation and response of every local() call). "
         "distinct = hash of program text + schedule descriptor",
    assumptions=SC_TSO + ["scenario threads and workers stay alive for the whole case (with ets_no_key the key is the thread id and glibc recycles ids of exited threads); the thread-exit variant is not generated",
                          "'every caller sees the effects of the function' is checked as stamp order (successful completion before the return of every normal call); visibility of plain memory is not explored here (only atomics are reordered in the TSO sub-model)",
                          "the once-function never calls collaborative_call_once on the same flag (documented deadlock)",
                          "known finding kept out of the default domain and counted (drive --witness generates it): a winner calling from inside a saturated task_arena spins for ever in ~collaborative_once_runner while its helper sleeps in task_arena::execute waiting for a slot; therefore at most slots-1 scenario threads call from inside the explicit arena, the others' arena calls are made directly",
                          "max_allowed_parallelism=1 is not combined with an explicit arena (counted as excluded; drive --witness-allot keeps it): task_arena(1,1) then trips the allotment assertion of market::update_allotment, a worker-budget finding outside this property",
                          "known finding C19-ets-throwing-initialiser-phantom-element: after a throwing initialiser the never-constructed element stays in the container (size / iteration / combine_each include it); the surplus is counted as excluded outside the witness leg",
                          "the non-triviality statistic of the ETS variant reads ets_base::my_root through the object layout (vptr, my_root); verdicts never depend on it"],
    floor=dict(quick=500, thorough=12000),
    tiers=dict(
        quick=[det("rel", H, "cs-rel", 16, 200, 4, tso=True, time_cap=40),
               det("dbg", H, "cs-dbg", 16, 32, 4, tso=True, time_cap=22),
               tsan("C19", 8, 240)] + WIT,
        thorough=[det("rel", H, "cs-rel", 16, 1500, 5, tso=True, time_cap=230),
                  det("dbg", H, "cs-dbg", 16, 500, 5, tso=True, time_cap=150),
                  det("enum-conflict", H, "cs-rel", 16, 20, 2, tso=True, time_cap=90, enum="conflict", enum_cap=300),
                  det("enum-wake", H, "cs-rel", 16, 30, 2, tso=True, time_cap=70, enum="wake", enum_cap=150),
               tsan("C19", 16, 600)] + WIT,
    ),
)
TEXT = dict(
    technique="property-based testing: generated call_once / thread-specific-storage programs x generated schedules over the real code (controlled scheduler, SC+TSO) against an attempt/completion/exception ledger with invocation stamps and a per-thread element ledger",
    level_text="Exploration: (a) generated programs call collaborative_call_once from external threads, from inside arenas, from task_group tasks and parallel_for bodies while the once-function does work, runs a nested parallel_for that moonlighting callers join, and throws on generated attempts; the oracle counts attempts, successful completions (exactly 1, never two runners at once, never again after success), checks that every normally returning call returns after the completion, that every thrown exception reaches exactly one caller and that a later attempt happens; a stuck caller is an exact DEADLOCK / SPIN-FIXPOINT state. (b) generated programs let 2-8 threads (and workers) make their first local() concurrently while the open-addressed table is created and doubled (4->8->16->32 slots); the oracle checks one initialiser call per thread and only inside its first local(), a constant address per thread, pairwise distinct addresses, an ownership mark and an access counter inside each element, truthful `exists`, and that combine_each / iterators / range / const iterators / size / combine visit every element exactly once (combine folds one hex digit per element). Sampling, not exhaustive.",
    level_note=DET_NOTE,
)
