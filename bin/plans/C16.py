from plans.common import *

H = "harness/c16_arena.cpp"
PLAN = dict(
    level="exploration",
    rule="case = generated arena program (1-3 task_arena(max_concurrency 1-4, reserved 0-2, priority low/normal/high) each with a task_scheduler_observer; 1-3 external "
         "threads x 1-2 rounds of execute/enqueue/work scripts; units with nested execute (to higher arenas only), enqueue, this_task_arena::isolate, parallel_for "
         "(simple/auto/static), task_group waits; global_control(max_allowed_parallelism 1-4) objects created/destroyed at the quiescent round starts and in the middle of "
         "scripts; optionally a final allotment phase with parked tasks in every arena) x generated schedule (SC or TSO); non-trivial = at least two threads were inside "
         "bodies of one arena at the same time and an observer saw threads enter and leave; distinct = hash of program text + schedule descriptor",
    assumptions=SC_TSO + [
        "worker budget: a lowered limit is only relied upon from the next quiescent point (workers admitted earlier may keep taking tasks, a top-priority arena's worker "
        "first drains its own pool): bound = largest limit in force since the last quiescent point, minus one, or the one mandatory worker when work was enqueued",
        "a worker thread that calls task_arena::execute itself is an external thread of that arena (library rule) and may hold a reserved slot",
        "execute() goes only to arenas with a larger index than the caller's (no wait cycles); enqueue is not generated for arenas whose slots are all reserved (C02 domain)",
        "allotment is checked only when all demand was submitted while no other thread ran (solo mode) and the runtime became quiescent with workers parked in bodies; "
        "the proportional split inside one priority level is not checked, only sum, per-arena demand and priority order",
        "known finding C16 external-thread-in-extra-slot (task_arena(1, reserved>=1) admits a second external thread into the slot kept for the mandatory worker) is excluded "
        "from the default verdict and counted as n_excluded; the witness leg (`drive --witness`, kind ARENA-OVERSUBSCRIBED) reports it",
        "known finding C16 update-allotment assertion: with max_allowed_parallelism 1 the unchanged library trips `assigned == max_workers` in market::update_allotment "
        "(debug builds); the assertion-enabled leg therefore draws 1 as 2 (--no-soft0, counted as n_excluded), the release leg keeps 1; witness leg `drive --witness2`",
        "every DEADLOCK / SPIN-FIXPOINT is a violation (a worker blocked in execute() on a full arena whose occupants left on recall was a genuine defect, repaired in "
        "/repo ('fix: a thread blocked in task_arena::execute was not woken when a worker gave back its slot'); the directed leg `drive --witness3` keeps that shape covered"],
    floor=dict(quick=500, thorough=5000),
    tiers=dict(
        quick=[det("rel", H, "cs-rel", 16, 340, 4, tso=True, time_cap=35),
               det("dbg", H, "cs-dbg", 16, 120, 4, tso=True, time_cap=25, args=["--no-soft0"]),
               det("rel-noenq", H, "cs-rel", 8, 200, 4, tso=True, time_cap=30, args=["--noenq"]),
               det("rel-critical", H, "cs-rel", 8, 160, 4, tso=True, time_cap=30, args=["--crit"]),
               det("witness-oversubscribed", H, "cs-rel", 1, 10, 3, time_cap=15, args=["--witness"]),
               det("witness-allotment-assert", H, "cs-dbg", 1, 15, 4, time_cap=20, args=["--witness2"]),
               det("directed-execute-wait", H, "cs-rel", 2, 30, 6, tso=True, time_cap=20, args=["--witness3"])],
        thorough=[det("rel", H, "cs-rel", 16, 2600, 5, tso=True, time_cap=280),
                  det("dbg", H, "cs-dbg", 16, 700, 5, tso=True, time_cap=130, args=["--no-soft0"]),
                  det("rel-noenq", H, "cs-rel", 16, 2000, 5, tso=True, time_cap=200, args=["--noenq"]),
                  det("rel-critical", H, "cs-rel", 16, 1500, 5, tso=True, time_cap=160, args=["--crit"]),
                  det("witness-oversubscribed", H, "cs-rel", 1, 10, 3, time_cap=15, args=["--witness"]),
                  det("witness-allotment-assert", H, "cs-dbg", 1, 15, 4, time_cap=20, args=["--witness2"]),
                  det("directed-execute-wait", H, "cs-rel", 2, 30, 6, tso=True, time_cap=20, args=["--witness3"]),
                  det("enum-rmw", H, "cs-rel", 16, 25, 2, tso=True, time_cap=70, enum="rmw", enum_cap=150),
                  det("enum-wake", H, "cs-rel", 16, 25, 2, tso=True, time_cap=50, enum="wake", enum_cap=100)],
    ),
)
TEXT = dict(
    technique="property-based testing: generated arena/isolation/global_control programs x generated schedules over the real runtime (controlled scheduler, SC+TSO) "
              "against slot, concurrency, isolation-tag (incl. critical tasks of prioritised flow-graph nodes), observer-balance, worker-budget and quiescent-allotment oracles",
    level_text="Exploration: every user body samples this_task_arena::current_thread_index() and is checked against the arena's max_concurrency (only the documented extra "
               "worker may sit above it), the reserved range (never a worker that joined through the market), pairwise distinctness among threads that are inside bodies "
               "of that arena, the number of library-created threads simultaneously inside bodies versus the largest max_allowed_parallelism in force since the last "
               "quiescent point, and the isolation tag of the innermost isolate region or tagged body of the executing thread; observers must see exactly one exit per "
               "entry on the same thread (checked at every quiescent point); with parked tasks in all arenas the workers found in the arenas at quiescence must sum to "
               "min(total demand, limit), stay within each arena's demand and respect priority. Sampling of programs and schedules, not exhaustive.",
    level_note=DET_NOTE,
)
