from plans.common import *

H = "harness/c11_vector.cpp"
RC = cmd("segment-arith", "harness/c11_seq_rc.cpp", "plain", 1, link_tbb=False, ldflags=["-lrapidcheck"], env={"RC_PARAMS": "seed={seed} max_success=20000 max_size=100"}, replay_tag="segment-arith")
RCI = cmd("iterator-model", "harness/c11_iter_rc.cpp", "plain", 2, link_tbb=True, ldflags=["-lrapidcheck"], env={"RC_PARAMS": "seed={seed} max_success=20000 max_size=100"}, replay_tag="iter-")
PLAN = dict(
    level="exploration",
    rule="case = generated growth program on one concurrent_vector (2-4 threads x 1-6 ops from push_back/emplace_back/grow_by/grow_by(value)/"
         "grow_to_at_least/read, sizes 0,1,2^k,2^k+-1 crossing the embedded-table and first-block decisions, optional k-th element-constructor or "
         "k-th allocation failure) x generated schedule; oracle: returned ranges pairwise disjoint and tiling [0,size()), every element constructed "
         "exactly once with the requested value, addresses stable, grow_to_at_least(n) returns with storage for all of [0,n) and its own / earlier "
         "returned elements constructed, destructor balance, no crash after a fault; plus single-call cases of 2^31..6*2^30 one-byte elements and a "
         "rapidcheck property over the index<->segment arithmetic, and a rapidcheck model test of the iterators (taken from begin()+k and from the return values of "
         "push_back / grow_by, walked by ++ -- += -= across segment boundaries: *it, &*it and it - begin() follow the index); non-trivial = two growth calls overlapped, or a fault fired, or size >= 2^31; "
         "distinct = hash of program text + schedule descriptor",
    assumptions=SC_TSO + ["elements under construction by a still-running call of another thread are not required to be constructed when grow_to_at_least returns (user guide); storage for them is",
                          "after an injected fault only memory safety, size sanity and destructor balance are checked (content of the failed range is unspecified)",
                          "after an injected fault every other growth call must still return or throw (nothing excluded: the former known finding C11-fault-orphans-segments is repaired in /repo)"],
    floor=dict(quick=100, thorough=1000),
    tiers=dict(
        quick=[det("rel", H, "cs-rel", 14, 60, 4, tso=True, time_cap=25),
               det("dbg", H, "cs-dbg", 14, 40, 4, tso=True, time_cap=25, args=["--nofault"]),
               det("big31", H, "cs-rel", 1, 1, 1, time_cap=100, args=["--big", "--big31"]),
               det("big32", H, "cs-rel", 1, 1, 1, time_cap=100, args=["--big", "--big32"]),
               RC, RCI],
        thorough=[det("rel", H, "cs-rel", 16, 3000, 5, tso=True, time_cap=300),
                  det("dbg", H, "cs-dbg", 16, 1000, 5, tso=True, time_cap=200, args=["--nofault"]),
                  det("big", H, "cs-rel", 8, 2, 1, time_cap=200, args=["--big"]),
                     dict(RC, env={"RC_PARAMS": "seed={seed} max_success=400000 max_size=100"}),
                  dict(RCI, procs=8, env={"RC_PARAMS": "seed={seed} max_success=300000 max_size=100"})],
    ),
)
TEXT = dict(
    technique="property-based testing: generated growth programs x generated schedules (controlled scheduler) against a tiling / exactly-once-construction / address-stability oracle with injected constructor and allocation faults; rapidcheck for the index arithmetic",
    level_text="Exploration: generated concurrent growth histories on a real concurrent_vector under generated schedules with an instrumented element type (construction count per address) and a throwing allocator; the oracle checks that returned ranges tile [0,size()), every element is built once with the right value, addresses never change and grow_to_at_least is complete; sizes of 2^31 and more are run as single calls with a lazily committed allocator (a hang is an exact spin fix-point, not a time-out). Three genuine defects were found and repaired this way, one fault-handling hang is a known finding.",
    level_note=DET_NOTE + "; rapidcheck leg: trusted g++/librapidcheck",
)
