"""Shared pieces of the check plans.  Budgets are case counts; time_cap is only a safety net
(hitting it means fewer cases, never a verdict)."""

SC_TSO = ["x86-TSO store-buffer sub-model for atomics only (non-atomic stores are not delayed); nothing weaker than TSO",
          "schedules are sampled at atomic-operation granularity, not enumerated; switches between two non-atomic accesses are not explored",
          "liveness = no DEADLOCK / SPIN-FIXPOINT under a scheduler that eventually runs every runnable thread; step-budget overruns are inconclusive"]
SC_ONLY = ["sequentially consistent executions only for this property (TSO leg not used)"] + SC_TSO[1:]

DET_NOTE = ("trusted: the scheduler runtime engine/vs/vs_rt.cpp (futex/thread model, TSO sub-model), the harness oracle, g++; sampled schedules at atomic-operation "
            "granularity only; no behaviour weaker than x86-TSO; oneTBB assertion failures in the cs-dbg flavour are reported as violations")


def det(name, harness, flavour, procs, programs, scheds=4, tso=False, time_cap=60, **kw):
    """a detsched leg: `procs` driver processes, each `programs` generated programs x `scheds` generated schedules"""
    d = dict(kind="detsched", name=name, harness=harness, flavour=flavour, procs=procs, programs=programs, scheds=scheds, tso=tso, time_cap=time_cap)
    d.update(kw)
    return d


def cmd(name, harness, flavour, procs=1, args=(), **kw):
    """a generic leg: harness binary built by vbuild, prints one JSON summary line in the driver format"""
    d = dict(kind="cmd", name=name, harness=harness, flavour=flavour, procs=procs, args=list(args))
    d.update(kw)
    return d


def tsan(prop, procs=4, iters=80, **kw):
    """freerun leg under ThreadSanitizer: visibility clause (payload races only), see harness/tsan_payload.cpp, bin/leg_tsan.py"""
    d = dict(kind="tsan", name="tsan-payload", harness="harness/tsan_payload.cpp", flavour="tsan", prop=prop, procs=procs, iters=iters, optional=True)
    d.update(kw)
    return d
