from plans.common import *

H = "harness/c09_queue.cpp"
PLAN = dict(
    level="exploration",
    rule="case = generated queue program (concurrent_queue or concurrent_bounded_queue capacity 1-4, 2-4 threads x 1-7 ops from push/emplace/try_push/"
         "pop/try_pop/abort, six element sizes = all items-per-page classes, 0-70 pre-filled items so operations straddle page boundaries, optional "
         "throwing element constructor or failing page allocation) x generated schedule; judged by a Wing-Gong linearizability search against a (bounded) FIFO model with "
         "pending operations, plus O(n) conservation / at-most-once / lost-wake-up checks; non-trivial = at least two operations overlapped in time; "
         "distinct = hash of program text + schedule descriptor. 'excluded' counts cases inside the two known-finding shapes (judged OK without check).",
    assumptions=SC_TSO + ["histories longer than 26 operations get only the O(n) checks",
                          "known findings C09-abort-pop-window and C09-dead-slot-capacity are excluded from the generated domain (counted) and reported by witness legs",
                          "set_capacity concurrent with other operations is not generated; page-allocation failure is (not together with abort(): DESIGN 11.17)"],
    floor=dict(quick=300, thorough=2000),
    tiers=dict(
        quick=[det("rel", H, "cs-rel", 16, 220, 4, tso=True, time_cap=30),
               det("rel-afault", H, "cs-rel", 16, 120, 4, tso=False, time_cap=30, args=["--afault"]),
               det("dbg", H, "cs-dbg", 16, 100, 4, tso=True, time_cap=25),
               det("witness-abort-window", H, "cs-rel", 1, 30, 6, time_cap=60, args=["--witness"]),
               det("witness-dead-slot", H, "cs-rel", 1, 5, 2, time_cap=30, args=["--witness2"]),
               tsan("C09", 8, 240)],
        thorough=[det("rel", H, "cs-rel", 16, 6000, 5, tso=True, time_cap=300),
                  det("rel-afault", H, "cs-rel", 16, 2500, 5, tso=True, time_cap=200, args=["--afault"]),
                  det("dbg", H, "cs-dbg", 16, 2500, 5, tso=True, time_cap=200),
                  det("enum-wake", H, "cs-rel", 16, 300, 2, tso=True, time_cap=100, enum="wake", enum_cap=100),
                  det("enum-sbload", H, "cs-rel", 16, 300, 2, tso=True, time_cap=100, enum="sbload", enum_cap=100),
                  det("witness-abort-window", H, "cs-rel", 1, 30, 6, time_cap=60, args=["--witness"]),
                  det("witness-dead-slot", H, "cs-rel", 1, 5, 2, time_cap=30, args=["--witness2"]),
               tsan("C09", 16, 600)],
    ),
)
TEXT = dict(
    technique="property-based testing: generated queue histories x generated schedules (controlled scheduler, SC+TSO) checked by a linearizability search against a bounded-FIFO reference model plus conservation and lost-wake-up oracles",
    level_text="Exploration: tens of thousands of generated short histories on real concurrent_queue / concurrent_bounded_queue objects under generated schedules; each history is searched for a linearization against a sequential (bounded) FIFO model where blocked/aborted operations are pending, and every value is accounted for (pushed once, popped at most once, never invented, final drain). A blocked operation that should have completed is an exact DEADLOCK / SPIN-FIXPOINT state, not a time-out. Two genuine defects found this way are recorded as known findings, a third was repaired.",
    level_note=DET_NOTE,
)
