from plans.common import *

H = "harness/c14_flow.cpp"
PLAN = dict(
    level="exploration",
    rule="case = generated loss-free flow graph (2-9 nodes out of function_node queueing|rejecting|lightweight with concurrency 1/2/unlimited, multifunction_node, "
         "broadcast/buffer/queue/priority_queue/sequencer nodes, limiter_node with or without decrement feedback, join_node(queueing)+merge function, "
         "function+split_node, indexer_node, overwrite/write_once_node, input_node, async_node completed by a foreign thread; every receiver that may reject "
         "has only buffering predecessors or external try_put whose false is recorded) + 1-3 external putter threads x 1-8 operations "
         "(try_put / work / wait_for_all / idle gap / activate) x generated schedule, max_allowed_parallelism 1-4; "
         "the limiter-directed leg generates only 'two or three buffering predecessors -> limiter_node threshold 1-2 with several successors -> worker that decrements early' "
         "(shape of the repaired limiter lost wake-up, mutant C14-revert-limiter-lost-wakeup-fix); "
         "non-trivial = a message waited in a buffering node while its may-reject successor was at its concurrency limit / threshold and was processed by that "
         "successor afterwards (rejection followed by a pull, edge flipped), or an external try_put to a concurrency-limited node overlapped another thread's try_put / body start / body end at "
         "that node (race for the slot), or an async_node gateway was completed from the foreign thread; distinct = hash of program text + schedule descriptor",
    assumptions=SC_TSO + ["graph shapes that lose messages by design are outside the domain (a rejecting receiver behind a non-buffering sender, several successors of a "
                          "broadcasting keeper one of which rejects, successors of limiter/broadcast/indexer/overwrite nodes that reject)",
                          "a message may stay parked for ever in front of a join port, a saturated limiter without decrements, a write_once_node that already has a value, "
                          "or behind a sequence gap; mid-run wait_for_all coverage stops at such nodes",
                          "a message queued behind a lightweight body that runs inline inside ANOTHER external thread's try_put, or accepted by a buffering node whose aggregator handler is another external thread still inside its try_put, is not covered by wait_for_all "
                          "(known finding C14-lightweight-wait-for-all-gap; the coverage demand is waived at concurrency-limited lightweight nodes while such a put overlaps "
                          "the wait, counted as excluded; the witness leg runs without the waiver)",
                          "input_node -> write_once_node is outside the domain (once the value is set the input_node re-spawns its put task for ever and wait_for_all cannot return)",
                          "cancellation / exceptions inside node bodies are covered by C03, not generated here"],
    floor=dict(quick=300, thorough=10000),
    tiers=dict(
        quick=[det("rel", H, "cs-rel", 16, 200, 4, tso=True, time_cap=45),
               det("dbg", H, "cs-dbg", 16, 35, 4, tso=True, time_cap=20),
               det("limiter-directed", H, "cs-rel", 6, 30, 4, tso=True, time_cap=12, args=["--limdir"]),
               det("witness-lightweight-wait-gap", H, "cs-rel", 2, 40, 4, tso=False, time_cap=20, args=["--witness"]),
               cmd("node-contract-model", "harness/c15_fgmodel_rc.cpp", "plain", 2, ["60000", "C14"], link_tbb=True, ldflags=["-lrapidcheck"], replay_tag="fgmodel-"),
               tsan("C14", 8, 240)],
        thorough=[det("rel", H, "cs-rel", 16, 2200, 5, tso=True, time_cap=330),
                  det("dbg", H, "cs-dbg", 16, 700, 5, tso=True, time_cap=240),
                  det("enum-wake", H, "cs-rel", 16, 40, 2, tso=True, time_cap=120, enum="wake", enum_cap=120),
                  det("enum-conflict", H, "cs-rel", 16, 40, 2, tso=True, time_cap=120, enum="conflict", enum_cap=120),
                  det("limiter-directed", H, "cs-rel", 16, 300, 4, tso=True, time_cap=90, args=["--limdir"]),
                  det("witness-lightweight-wait-gap", H, "cs-rel", 2, 40, 4, tso=False, time_cap=20, args=["--witness"]),
               cmd("node-contract-model", "harness/c15_fgmodel_rc.cpp", "plain", 8, ["1500000", "C14"], link_tbb=True, ldflags=["-lrapidcheck"], replay_tag="fgmodel-"),
               tsan("C14", 16, 600)],
    ),
)
TEXT = dict(
    technique="property-based testing: generated loss-free flow graphs x generated external putter scripts x generated schedules over the real flow-graph and scheduler code "
              "(controlled scheduler, SC+TSO) against a reference dataflow evaluation over message-id multisets, in-body concurrency counters and an idle-instant oracle for wait_for_all; plus rapidcheck model-based testing of single nodes (programmable accepting / rejecting successors, push / pull edges, copy construction, reset) against an executable sequential contract",
    level_text="Exploration: generated graph topologies run on the real runtime while a generated schedule decides every interleaving of atomic operations. Every message id is re-hashed "
               "per hop; after the final wait_for_all each node's observed body invocations must equal the multiset derived from its predecessors (lost / duplicated / phantom "
               "messages), keepers are drained with try_get and may hold leftovers only in front of a refusing successor (stuck message = lost wake-up of the push/pull edge protocol), "
               "round-robin successor groups must partition their buffer's input, every body entry checks the node's concurrency limit, limiters are checked against "
               "forwarded-minus-decrements, every wait_for_all must contain an instant with no body running and no reserve_wait outstanding and must cover everything caused by roots "
               "accepted before it was invoked, and no body may start after the final wait. Sampling, not exhaustive.",
    level_note=DET_NOTE,
)
