from plans.common import *

H = "harness/c04_cancel.cpp"
PLAN = dict(
    level="exploration",
    rule="case = generated context-forest program (<= 12 heap task_group_contexts, depth <= 4, bound/isolated kinds, built by running code: a task under context P "
         "creates C and runs parallel_for(simple, grain 1) over 1-3 stealable sub-builders under it; 1-3 builder tasks of one outer task_group; 1-2 extra threads "
         "with cancel_group_execution on generated targets incl. duplicates (after or racing with the target's first use), contexts cancelled before their first use, "
         "in-body cancels of enclosing contexts, leaf contexts deleted by the builder or by "
         "another thread; max_allowed_parallelism 2-4) x generated schedule (SC or TSO); non-trivial = the bind interval of at least one context overlapped, in logical "
         "time, a winning cancel_group_execution call on one of its strict ancestors along the bound chain; distinct = hash of program text + schedule descriptor",
    assumptions=SC_TSO + [
        "a context is destroyed only after its loop returned, when it has no children and is nobody's cancel target",
        "cancel targets of the extra threads are cancelled either once bound or as soon as the object exists (racing with their own first use); a context may also be "
        "cancelled by its creator before its first use (must stay cancelled, its loop body must not run); these shapes and the bind-versus-propagation windows were "
        "genuine defects, repaired in /repo (commits 'fix: a task_group_context bound during a concurrent cancellation could miss it' and 'fix: cancellation requested on a task_group_context before its first use was lost ...'), and are part of the default domain",
        "the outer task_group's own context is reset by wait(); it is only checked for that reset"],
    floor=dict(quick=500, thorough=5000),
    tiers=dict(
        quick=[det("rel", H, "cs-rel", 16, 400, 4, tso=True, time_cap=35),
               det("dbg", H, "cs-dbg", 16, 160, 4, tso=True, time_cap=25),
               det("directed-cancel-before-first-use", H, "cs-rel", 1, 6, 3, tso=True, time_cap=10, args=["--witness2"])],
        thorough=[det("rel", H, "cs-rel", 16, 2600, 5, tso=True, time_cap=280),
                  det("dbg", H, "cs-dbg", 16, 700, 5, tso=True, time_cap=130),
                  det("directed-cancel-before-first-use", H, "cs-rel", 1, 6, 3, tso=True, time_cap=10, args=["--witness2"]),
                  det("enum-conflict", H, "cs-rel", 16, 30, 2, tso=True, time_cap=60, enum="conflict", enum_cap=120),
                  det("enum-sbload", H, "cs-rel", 16, 30, 2, tso=True, time_cap=60, enum="sbload", enum_cap=120)],
    ),
)
TEXT = dict(
    technique="property-based testing: generated context forests built by running nested algorithms x generated cancel/destroy scripts x generated schedules "
              "(controlled scheduler, SC+TSO) against an ancestor-closure oracle and a one-winner oracle",
    level_text="Exploration: context trees are built by real nested parallel_for/task_group code on 2-5 threads while other threads call cancel_group_execution on "
               "generated targets; after every builder, canceller and destroyer returned and the runtime is quiescent, each live context must be cancelled exactly when "
               "itself or an ancestor along the recorded bound chain was a cancel target (isolated contexts and unrelated subtrees stay clean), at most one call per "
               "target may return true and exactly one if no ancestor was cancelled, and the waited outer group must be reset. Sampling of programs and schedules, "
               "not exhaustive. The bind-versus-propagation windows (cancel of parent / grand-ancestor / parent-less parent overlapping a bind, store-buffered children hint) are part of the default domain; a miss there is reported under a BIND-RACE-* kind.",
    level_note=DET_NOTE,
)
