from plans.common import *

H = "harness/c04_cancel.cpp"
PLAN = dict(
    level="exploration",
    rule="case = generated context-forest program (<= 12 heap task_group_contexts, depth <= 4, bound/isolated kinds, built by running code: a task under context P "
         "creates C and runs parallel_for(simple, grain 1) over 1-3 stealable sub-builders under it; 1-3 builder tasks of one outer task_group; 1-2 extra threads "
         "with cancel_group_execution on generated targets incl. duplicates, in-body cancels of enclosing contexts, leaf contexts deleted by the builder or by "
         "another thread; max_allowed_parallelism 2-4) x generated schedule (SC or TSO); non-trivial = the bind interval of at least one context overlapped, in logical "
         "time, a winning cancel_group_execution call on one of its strict ancestors along the bound chain; distinct = hash of program text + schedule descriptor",
    assumptions=SC_TSO + [
        "a cancel target is only cancelled once its own first use (binding) has completed; cancel racing with the target's own first bind is outside the generated domain",
        "a context is destroyed only after its loop returned, when it has no children and is nobody's cancel target",
        "known findings C04 bind/propagate races (shapes DEEP, ROOT, FALLBACK, HINT, see harness/c04_cancel.cpp judge()) are excluded from the default verdict and counted "
        "as n_excluded; the witness leg (`drive --witness`, cfg witness=1, kinds BIND-RACE-*) reports them",
        "the outer task_group's own context is reset by wait(); it is only checked for that reset"],
    floor=dict(quick=500, thorough=5000),
    tiers=dict(
        quick=[det("rel", H, "cs-rel", 16, 200, 4, tso=True, time_cap=20),
               det("dbg", H, "cs-dbg", 16, 80, 4, tso=True, time_cap=12),
               det("witness-bind-race", H, "cs-rel", 4, 300, 4, tso=True, time_cap=25, args=["--witness"])],
        thorough=[det("rel", H, "cs-rel", 16, 2600, 5, tso=True, time_cap=280),
                  det("dbg", H, "cs-dbg", 16, 700, 5, tso=True, time_cap=130),
                  det("witness-bind-race", H, "cs-rel", 4, 300, 4, tso=True, time_cap=25, args=["--witness"]),
                  det("enum-conflict", H, "cs-rel", 16, 30, 2, tso=True, time_cap=60, enum="conflict", enum_cap=120),
                  det("enum-sbload", H, "cs-rel", 16, 30, 2, tso=True, time_cap=60, enum="sbload", enum_cap=120)],
    ),
)
TEXT = dict(
    technique="property-based testing: generated context forests built by running nested algorithms x generated cancel/destroy scripts x generated schedules "
              "(controlled scheduler, SC+TSO) against an ancestor-closure oracle and a one-winner oracle",
    level_text="Exploration: context trees are built by real nested parallel_for/task_group code on 2-5 threads while other threads call cancel_group_execution on "
               "generated targets; after every builder, canceller and destroyer returned and the runtime is quiescent, each live context must be cancelled exactly when "
               "itself or an ancestor along the recorded bound chain was a cancel target (isolated contexts and unrelated subtrees stay clean), at most one call per "
               "target may return true and exactly one if no ancestor was cancelled, and the waited outer group must be reset. Sampling of programs and schedules, "
               "not exhaustive; four bind-versus-propagation race shapes that the unchanged library loses are counted as excluded and reproduced with --witness.",
    level_note=DET_NOTE,
)
