from plans.common import *

H = "harness/c13_pq.cpp"
PLAN = dict(
    level="exploration",
    rule="case = generated program on one concurrent_priority_queue (2-4 threads x 1-7 ops from push(const&)/push(&&)/emplace/try_pop, 2-6 distinct "
         "priorities with many duplicates, comparator less or greater, 0-40 pre-filled elements, optional k-th element copy construction throws or k-th vector allocation fails) x "
         "generated schedule; judged by a Wing-Gong linearizability search against a priority-multiset model (a pop must return an element that no "
         "present element beats; try_pop false only when empty) plus conservation (pushed once, popped at most once, final drain) and exception "
         "accounting (every injected throw surfaces at exactly one pushing caller, no pop caller ever sees one); non-trivial = two operations "
         "overlapped in time; distinct = hash of program text + schedule descriptor",
    assumptions=SC_TSO + ["histories longer than 26 operations get only the O(n) checks",
                          "faults are injected into element copy construction only; throwing move construction / assignment is the known finding C13-throwing-assignment-bricks-queue (witness leg)"],
    floor=dict(quick=300, thorough=2000),
    tiers=dict(
        quick=[det("rel", H, "cs-rel", 16, 350, 4, tso=True, time_cap=40),
               det("dbg", H, "cs-dbg", 16, 120, 4, tso=True, time_cap=30),
               det("witness-throwing-assignment", H, "cs-rel", 1, 2, 2, time_cap=30, args=["--witness"]),
               tsan("C13", 8, 240)],
        thorough=[det("rel", H, "cs-rel", 16, 4000, 5, tso=True, time_cap=300),
                  det("dbg", H, "cs-dbg", 16, 1500, 5, tso=True, time_cap=200),
                  det("enum-conflict", H, "cs-rel", 16, 200, 2, tso=True, time_cap=100, enum="conflict", enum_cap=80),
                  det("witness-throwing-assignment", H, "cs-rel", 1, 2, 2, time_cap=30, args=["--witness"]),
               tsan("C13", 16, 600)],
    ),
)
TEXT = dict(
    technique="property-based testing: generated priority-queue histories x generated schedules (controlled scheduler, SC+TSO) checked by a linearizability search against a priority-multiset model, conservation and exception-accounting oracles",
    level_text="Exploration: tens of thousands of short generated histories on a real concurrent_priority_queue (aggregator batches form naturally under the generated schedules); each is searched for a linearization against a sequential priority multiset, every element is accounted for, and injected copy-constructor throws must surface at exactly the pushing caller while batch-mates are unaffected. The throwing-assignment defect found while reading is a known finding with a single-threaded witness.",
    level_note=DET_NOTE,
)
