from plans.common import *

H = "harness/c05_loops.cpp"
RC = "harness/c05_seq_rc.cpp"
PLAN = dict(
    level="exploration",
    rule="case = cfg (max_allowed_parallelism 1-4, explicit task_arena of 1-4 slots) + 1-2 generated loops: parallel_for over blocked_range<int|long|size_t|uint8_t|pointer>, "
         "blocked_range2d/3d, blocked_nd_range<int,1..4> (boundary-biased begin/size/grain incl. 0,1,2, g-1/g/g+1, primes, 2^k+-1, ends at the type's extremes, "
         "huge sizes > 2^24 / > 2^32 up to 2^64-1 with chunk algebra only) x 4 partitioners (affinity: two rounds with the same partitioner object), "
         "parallel_for(first,last,step) over 4 index types, parallel_for_each over input/forward/random-access iterators with a generated feeder tree, "
         "parallel_invoke with 2-10 functors; each x generated schedule (which decides what gets stolen and therefore the adaptive depth logic); "
         "non-trivial = a loop with >= 2 chunks/items of which >= 1 was executed by a thread other than the caller; distinct = hash of program text + schedule descriptor. "
         "The seq leg (rapidcheck) checks the split / proportional-split arithmetic of the range classes alone (1d: sizes up to 2^64-1; 2d/3d/nd over int and size_t: chains of up to 64 splits, "
         "sizes up to the type's maximum and grain sizes up to 2^63) and range_vector<Range,8> (the partitioners' ring buffer) against a deque model under generated split_to_fill/pop_front/pop_back sequences.",
    assumptions=SC_TSO + ["end-begin of every generated range is representable (documented precondition); grainsize > 0; step > 0",
                          "proportional splits only with the proportions proportional_mode::get_split can produce (left = n - n/2, right = n/2)",
                          "beyond 2^16 cells only chunk algebra (non-empty, inside, pairwise disjoint, volumes add up), no per-element counters",
                          "always inside an explicit task_arena (the implicit arena's size depends on the machine)",
                          "assertion-enabled leg: under max_allowed_parallelism 1 the nested wait of the calling thread is not routed through the helper arena (that shape trips the "
                          "known finding C16 update-allotment assertion, which is reported by the C16 check; counted as n_excluded)"],
    floor=dict(quick=2000, thorough=50000),
    tiers=dict(
        quick=[det("rel", H, "cs-rel", 16, 320, 4, tso=True, time_cap=22),
               det("dbg", H, "cs-dbg", 16, 200, 4, tso=True, time_cap=16),
               cmd("seq", RC, "plain", 2, ["15000"], link_tbb=False, ldflags=["-lrapidcheck"], replay_tag="seq-"),
               cmd("mock-runtime", "harness/c0506_mock_rc.cpp", "plain", 2, ["C05", "40000"], link_tbb=False, ldflags=["-lrapidcheck"], replay_tag="mock-"),
               tsan("C05", 8, 240)],
        thorough=[det("rel", H, "cs-rel", 16, 6000, 5, tso=True, time_cap=330),
                  det("dbg", H, "cs-dbg", 16, 3000, 5, tso=True, time_cap=200),
                  cmd("seq", RC, "plain", 8, ["200000"], link_tbb=False, ldflags=["-lrapidcheck"], replay_tag="seq-"),
                  cmd("mock-runtime", "harness/c0506_mock_rc.cpp", "plain", 8, ["C05", "400000"], link_tbb=False, ldflags=["-lrapidcheck"], replay_tag="mock-"),
               tsan("C05", 16, 600)],
    ),
)
TEXT = dict(
    technique="property-based testing: generated loops (range type x value type x boundary-biased sizes/grains x partitioner, strided loops, for_each with feeder, invoke) x generated schedules over the real scheduler (controlled scheduler, SC+TSO), against per-element visit counters, a chunk log and a split-recording Range wrapper; plus rapidcheck over the range split arithmetic, and rapidcheck over the real algorithm templates and partitioners compiled against a mock runtime whose steal schedule is a generated value",
    level_text="Exploration: every generated loop runs on the real work-stealing runtime while a generated schedule decides which subtasks are stolen; the body logs each (begin,end) chunk and counts every element, a wrapping Range type sees every split together with is_divisible() at that moment. Checked: every chunk non-empty and inside the range, elements visited exactly once at return (pairwise-disjoint + volume for huge ranges), no split of a non-divisible range, simple_partitioner chunks of a blocked_range in [ceil(g/2), g] (one chunk of size n when n <= g) and never divisible for 2d/3d/nd, strided loops call f exactly on first+j*step, for_each processes every initial and fed item once, invoke runs every functor once. Sampling, not exhaustive.",
    level_note=DET_NOTE,
)
