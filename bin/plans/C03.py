from plans.common import *

H = "harness/c03_exceptions.cpp"
# one small leg per known finding that is still open (harness/c03_exceptions.cpp gen_witness): each is expected to print its KNOWN-FINDING line.
# The other --witness<k> shapes (2,3,4,7,8,9) belong to defects that were repaired in /repo; they are part of the default domain now.
WIT = [det("witness-throwing-join", H, "cs-rel", 1, 4, 3, time_cap=30, args=["--witness1"]),
       det("witness-throwing-join-stolen", H, "cs-rel", 1, 8, 4, time_cap=30, args=["--witness0"]),
       det("witness-scan-split-ctor-hang", H, "cs-rel", 1, 4, 3, time_cap=30, args=["--witness5"]),
       det("witness-scan-exception-leaks-body", H, "cs-rel", 1, 4, 3, time_cap=30, args=["--witness6"])]
PLAN = dict(
    level="exploration",
    rule="case = 1-2 external threads x 1-5 waiting calls (nested up to depth 2 inside bodies) from {parallel_for x 4 partitioners, parallel_reduce / "
         "parallel_deterministic_reduce (Body and lambda forms), parallel_for_each (random-access / forward / input iterators, with and without feeder), "
         "parallel_invoke (2-7 functors), parallel_scan (fault-free), parallel_sort (throwing comparator), parallel_pipeline (2-3 filters, all modes), task_group "
         "(run / defer / run_and_wait, tasks that add tasks), task_arena::execute, flow graph function_node (serial / unlimited / chained)}, implicit / explicit bound / "
         "explicit isolated context, a fault plan of 0-3 invocations (element bodies, comparator calls, Range splitting / copy constructors, Body splitting / copy "
         "constructors, item copy constructors of parallel_for_each) that throw E{id}, inner exceptions caught by or propagated through the enclosing body, optional fault-free second round on the same "
         "context / task_group / graph / filter chain; max_allowed_parallelism 1-4 x generated schedule; non-trivial = a throw happened while another body of the "
         "same group was running or while elements of the group had not started yet (measured at the throw); distinct = hash of program text + schedule descriptor. "
         "'excluded' counts faults dropped because they fall into a known-finding shape.",
    assumptions=SC_TSO + ["an inner call may return normally although one of its invocations threw if an enclosing group had already thrown (its cancellation pre-empts the capture); the full ledger is demanded only when nothing threw in the call or any enclosing call",
                          "known findings excluded from the generated domain (faults dropped, counted; `drive --witness<k>` reproduces each): a throwing join / reduction functor in parallel_reduce and parallel_deterministic_reduce (C03-reduce-throwing-join); "
                          "any exception in or cancellation of parallel_scan (C03-scan-split-ctor-hang, C03-scan-exception-leaks-body): parallel_scan is generated fault-free and not nested",
                          "a throwing comparator of parallel_sort is checked only for exit-by-exception, quiescence at exit and no terminate (no statement about the data)",
                          "with two external threads the library's one-time initialisation is completed on thread 0 first (engine cannot model the __cxa_guard futex)"],
    floor=dict(quick=1300, thorough=35000),
    tiers=dict(
        quick=[det("rel", H, "cs-rel", 16, 200, 4, tso=True, time_cap=30),
               det("dbg", H, "cs-dbg", 16, 80, 4, tso=True, time_cap=25)] + WIT,
        thorough=[det("rel", H, "cs-rel", 16, 3000, 5, tso=True, time_cap=300),
                  det("dbg", H, "cs-dbg", 16, 1000, 5, tso=True, time_cap=150),
                  det("enum-conflict", H, "cs-rel", 16, 50, 2, tso=True, time_cap=90, enum="conflict", enum_cap=120),
                  det("enum-rmw", H, "cs-rel", 16, 50, 2, tso=True, time_cap=90, enum="rmw", enum_cap=120)] + WIT,
    ),
)
TEXT = dict(
    technique="property-based testing: generated programs of nested waiting calls x generated fault plans (which invocation throws) x generated schedules over the real scheduler, against per-group throw / exit / body-liveness ledgers and construction-destruction registries",
    level_text="Exploration: every generated case runs real algorithms, task_groups, arena executes, flow graphs and pipelines on the work-stealing runtime while a generated schedule decides each interleaving of the throw with stealing, with other throwers and with the cancellation sweep. Per waiting call the oracle decides: it exits by exception iff one of its own invocations threw and the caught id is one of them (no exception from another group, none invented, none swallowed unless an enclosing group was already cancelled); at the instant it exits no body, join or constructor of the group is running and none is ever invoked afterwards; std::terminate is never reached; wait() of a task_group reports complete / canceled as documented; a fault-free second round on the same context / task_group / graph / chain completes every element; at quiescence every Range, Body, functor and item object constructed for the calls has been destroyed exactly once (address registry: also catches destruction of never-constructed objects). Nine exception-safety defects were found this way: six were repaired in the repository and are part of the generated domain again, three are recorded as known findings and kept out of it. Sampling, not exhaustive.",
    level_note=DET_NOTE,
)
