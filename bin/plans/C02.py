from plans.common import *

H = "harness/c02_wakeup.cpp"
L1 = "harness/c02_monitor_l1.cpp"
PLAN = dict(
    level="exploration",
    rule="case = generated program that cannot deadlock at user level (1-4 external threads: enqueue into arenas nobody waits in incl. one-slot arenas "
         "and max_allowed_parallelism 1, task_group wait, balanced blocking push/pop on bounded queues of capacity 1-2, tbb::mutex / rw_mutex sections, "
         "task_arena::execute with fewer slots than threads, idle gaps in which all workers fall asleep, optional blocking finalize) x generated schedule "
         "(SC or TSO store buffers, directed stalls at wake-up / buffered-store events); plus whitebox concurrent_monitor scenarios (sleepers: "
         "prepare_wait, check flag, commit/cancel; notifiers: set flag, notify_one/all/predicate). Oracle: the scheduler's exact DEADLOCK / "
         "SPIN-FIXPOINT state with a scenario thread unfinished = lost wake-up; no wall clock. non-trivial = some thread really blocked in a (modelled) "
         "futex wait AND some thread was woken by a futex wake during the case; distinct = hash of program text + schedule descriptor",
    assumptions=SC_TSO + ["'eventually' is decided under a scheduler that runs every runnable thread eventually (no OS unfairness)",
                          "spawn-only starvation is outside the property and never generated"],
    floor=dict(quick=100, thorough=1000),
    tiers=dict(
        quick=[det("rel", H, "cs-rel", 16, 120, 4, tso=True, time_cap=40),
               det("dbg", H, "cs-dbg", 8, 15, 4, tso=True, time_cap=25, args=["--no-soft0"]),
               det("rel-locks", H, "cs-rel", 8, 80, 4, tso=True, time_cap=30, args=["--locks"]),
               det("l1-monitor", L1, "cs-rel", 8, 400, 6, tso=True, time_cap=25, optional=True, case_prefix="mon "),
               tsan("C02", 8, 240)],
        thorough=[det("rel", H, "cs-rel", 16, 1500, 5, tso=True, time_cap=300),
                  det("dbg", H, "cs-dbg", 16, 400, 5, tso=True, time_cap=200, args=["--no-soft0"]),
                  det("rel-locks", H, "cs-rel", 16, 800, 5, tso=True, time_cap=200, args=["--locks"]),
                  det("enum-wake", H, "cs-rel", 16, 60, 2, tso=True, time_cap=150, enum="wake", enum_cap=200),
                  det("enum-sbload", H, "cs-rel", 16, 60, 2, tso=True, time_cap=150, enum="sbload", enum_cap=300),
                  det("enum-fwake", H, "cs-rel", 16, 60, 2, tso=True, time_cap=150, enum="fwake", enum_cap=100),
                  det("l1-monitor", L1, "cs-rel", 16, 6000, 8, tso=True, time_cap=120, optional=True, case_prefix="mon "),
                  det("l1-monitor-enum-sbload", L1, "cs-rel", 16, 1500, 2, tso=True, time_cap=120, enum="sbload", enum_cap=60, optional=True, case_prefix="mon "),
               tsan("C02", 16, 600)],
    ),
)
TEXT = dict(
    technique="property-based testing: generated deadlock-free programs x generated schedules with TSO store buffers and directed stalls; lost wake-up = exact 'no runnable thread' / spin fix-point state of the controlled scheduler; whitebox monitor scenarios",
    level_text="Exploration: every sleep inside the library (futex of the binary semaphores behind concurrent_monitor, thread monitor of the RML workers, address waiter of tbb::mutex) is modelled by the controlled scheduler, so 'asleep although the condition holds' is an exact state instead of a time-out; generated schedules put long stalls right after wake-ups and between a buffered store and the following load (x86 store-load reordering), the windows in which a notification can be missed. Sampling, not exhaustive; weaker-than-TSO hardware is not modelled.",
    level_note=DET_NOTE + "; the whitebox leg includes src/tbb/concurrent_monitor.h directly and is skipped (recorded) if it no longer compiles",
)
