from plans.common import *

H = "harness/c15_nodes.cpp"
PLAN = dict(
    level="exploration",
    rule="case = one node under test (queue_node, buffer_node, priority_queue_node, sequencer_node, join_node queueing / key_matching / reserving behind two queue_nodes, "
         "limiter_node, overwrite_node, write_once_node, broadcast_node, split_node, indexer_node) between generated feeders (1-3 external threads x 1-8 operations, "
         "directly or through a serial / unlimited feeder node) and generated successors (serial queueing or serial rejecting sink with generated work, none, or an "
         "inline lightweight sink), plus direct try_get / try_reserve / try_release / try_consume / decrement / late make_edge calls from the harness threads, "
         "x generated schedule, max_allowed_parallelism 1-4; sequencer numbers are permutations with duplicates, stale numbers and gaps, priorities 0-3, keys 0-2, thresholds 1-4; "
         "non-trivial = the race the contract is about happened: a consumer-side call (try_get, reserve, release, consume, attach) overlapped a try_put of another thread, "
         "or puts to the two join ports from different threads overlapped, or a decrement overlapped a put / a forward, or an item was put while the rejecting successor was "
         "busy and was delivered to it later (rejection then pull); distinct = hash of program text + schedule descriptor",
    assumptions=SC_TSO + ["buffer_node::try_get (and the pull of a rejecting successor) while a reservation of the same buffer_node is outstanding is excluded from the default "
                          "domain of the main legs; the leg buffer-get-under-reservation generates exactly that shape (repaired defect BUFFER-GET-RESERVED, /repo 16d1715) and must stay quiet",
                          "key_matching join: a try_put whose key is already waiting in the port returns false but replaces the stored message; the oracle accepts either message "
                          "in the tuple (counted as key_duplicate_replaced)",
                          "priority_queue_node: only 'a strictly higher-priority item was surely buffered during the whole hand-out interval' is a violation",
                          "limiter_node: forwarded minus invoked decrements <= threshold at every forward; early decrements may be clamped, so the number that passes is not predicted, "
                          "only conservation, saturation and one-release-per-decrement at quiescence"],
    floor=dict(quick=300, thorough=10000),
    tiers=dict(
        quick=[det("rel", H, "cs-rel", 16, 200, 4, tso=True, time_cap=45),
               det("dbg", H, "cs-dbg", 16, 35, 4, tso=True, time_cap=22),
               det("buffer-get-under-reservation", H, "cs-rel", 4, 120, 4, tso=False, time_cap=15, args=["--witness"]),
               det("limiter-mixed-feeding", H, "cs-rel", 8, 150, 5, tso=True, time_cap=25, args=["--limmix"]),
               cmd("node-contract-model", "harness/c15_fgmodel_rc.cpp", "plain", 2, ["120000", "C15"], link_tbb=True, ldflags=["-lrapidcheck"], replay_tag="fgmodel-"),
               tsan("C15", 8, 240)],
        thorough=[det("rel", H, "cs-rel", 16, 2200, 5, tso=True, time_cap=330),
                  det("dbg", H, "cs-dbg", 16, 700, 5, tso=True, time_cap=240),
                  det("enum-conflict", H, "cs-rel", 16, 40, 2, tso=True, time_cap=120, enum="conflict", enum_cap=120),
                  det("buffer-get-under-reservation", H, "cs-rel", 16, 600, 4, tso=False, time_cap=60, args=["--witness"]),
                  det("limiter-mixed-feeding", H, "cs-rel", 16, 1500, 6, tso=True, time_cap=120, args=["--limmix"]),
               cmd("node-contract-model", "harness/c15_fgmodel_rc.cpp", "plain", 8, ["3000000", "C15"], link_tbb=True, ldflags=["-lrapidcheck"], replay_tag="fgmodel-"),
               tsan("C15", 16, 600)],
    ),
)
TEXT = dict(
    technique="property-based testing: generated producer/consumer programs around one flow-graph node x generated schedules over the real node and scheduler code "
              "(controlled scheduler, SC+TSO) against per-node contract oracles on stamped put / hand-out intervals; plus rapidcheck model-based testing of single nodes (programmable accepting / rejecting successors, push / pull edges, reservations, limiter decrements of -3..+3, graph::reset, copy construction) against an executable sequential contract",
    level_text="Exploration: every try_put, try_get, reservation call and sink body is stamped with the scheduler's logical clock, so each item has a put interval and a hand-out "
               "interval. Oracles: conservation (every accepted item leaves exactly once or is still there for a final try_get; rejected items never appear), queue_node FIFO per "
               "producer (total with a single serial feeder), sequencer output exactly 0,1,2,... with one accepted put per number and nothing past a gap, priority_queue hand-outs "
               "never dominated by a surely-buffered higher priority, reservations exclusive (no second reservation, nothing taken from under one, released items offered again, "
               "consumed never again), join queueing i-th with i-th consistent with arrival intervals, key_matching same key and min-count per key, reserving join all-or-nothing "
               "with competing try_get on its queues, limiter forwarded-minus-decrements bounded at every forward plus saturation / release-one-per-decrement / not-stuck probes at "
               "quiescence, overwrite latest and write_once first value to the present and the late-attached successor and to try_get, broadcast to all, split/indexer port match. "
               "Sampling, not exhaustive.",
    level_note=DET_NOTE,
)
