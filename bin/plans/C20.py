from plans.common import *

H = "harness/c20_resume.cpp"
PLAN = dict(
    level="exploration",
    rule="case = generated program (arena of 1-3 slots, max_allowed_parallelism 1-4, root task_group / parallel_for with <= 7 units, <= 7 calls of "
         "tbb::task::suspend inside tasks: nested task_group waits, parallel_for bodies, repeated suspension of one task; the callback hands the suspend point "
         "to itself / to a task it spawns / to one of 1-2 foreign threads, with generated work before the resume and inside the callback) x generated schedule; "
         "non-trivial = at least one resume() issued by another task or a foreign thread found the stack not yet suspended, i.e. it ran between the start of "
         "the suspend callback and the exchange the suspending thread does after switching stacks (measured: raw value of suspend_point_type::m_stack_state "
         "seen by the exchange inside resume(); resumes issued by the callback itself are counted separately and do not make a case non-trivial); "
         "distinct = hash of program text + schedule descriptor",
    assumptions=SC_TSO + ["tbb::task::suspend is called only from inside tasks (task_group tasks, parallel_for bodies), as in oneTBB's own tests; never from plain code of an external thread",
                          "ucontext coroutines run under the controlled scheduler unmodified (swapcontext itself is not a decision point; every atomic around it is)",
                          "the statistic that classifies a resume as early reads suspend_point_type::m_stack_state through src/tbb/scheduler_common.h; verdicts never depend on it",
                          "arena / coroutine tear-down at process exit is not part of the case"],
    floor=dict(quick=400, thorough=12000),
    tiers=dict(
        quick=[det("rel", H, "cs-rel", 16, 400, 4, tso=True, time_cap=45),
               det("dbg", H, "cs-dbg", 16, 120, 4, tso=True, time_cap=40),
               det("isolated-wait", H, "cs-rel", 8, 120, 6, tso=True, time_cap=25, args=["--isowait"]),
               tsan("C20", 8, 240)],
        thorough=[det("rel", H, "cs-rel", 16, 1500, 5, tso=True, time_cap=230),
                  det("dbg", H, "cs-dbg", 16, 500, 5, tso=True, time_cap=150),
                  det("isolated-wait", H, "cs-rel", 16, 1500, 8, tso=True, time_cap=90, args=["--isowait"]),
                  det("enum-wake", H, "cs-rel", 16, 30, 2, tso=True, time_cap=70, enum="wake", enum_cap=150),
                  det("enum-rmw", H, "cs-rel", 16, 20, 2, tso=True, time_cap=90, enum="rmw", enum_cap=400),
               tsan("C20", 16, 600)],
    ),
)
TEXT = dict(
    technique="property-based testing: generated suspend/resume programs x generated schedules over the real scheduler incl. its ucontext coroutines (controlled scheduler, SC+TSO) against a per-suspension continuation ledger with invocation stamps",
    level_text="Exploration: generated task programs suspend inside task_group tasks and parallel_for bodies at nested and outermost dispatch levels, in arenas of 1-3 threads, and hand each suspend point to the callback itself, to a spawned task or to a foreign thread that resumes after generated work; a generated schedule decides every interleaving of the atomic operations around the stack switch. Every suspension is checked for: continued exactly once, never before resume() was invoked for it, never while its callback is still running, never two threads inside one continuation; every task_group::wait / parallel_for / task_arena::execute return is checked against the units it covers; a forgotten continuation is an exact DEADLOCK / SPIN-FIXPOINT state; oneTBB's assertions join the oracle in the cs-dbg leg. Sampling, not exhaustive.",
    level_note=DET_NOTE,
)
