from plans.common import *

T = "fuzz/fz_c17_malloc.cpp"
XH = "harness/c17_xfree.cpp"     # detsched leg: cross-thread free under generated schedules (tbbmalloc compiled with the prelude)


def fz(name, procs, runs, time_cap, **kw):
    """a libFuzzer leg (bin/leg_fuzz.py): `procs` processes x `runs` inputs each; time_cap is only a safety net"""
    d = dict(kind="fuzz", name=name, harness=T, tbbmalloc=True, procs=procs, runs=runs, max_len=2 + 6 * 200, time_cap=time_cap, unit=(2, 6))
    d.update(kw)
    return d


PLAN = dict(
    level="exploration",
    rule="fuzz legs: case = one decoded operation sequence (<= 200 ops over malloc/calloc/realloc/aligned_malloc/aligned_realloc/posix_memalign/free/msize/"
         "clean commands/pool_reset/thread exit; sizes biased to every size-class border of frontend.cpp/backend.cpp/large_objects.h, alignments 2^0..2^20; "
         "a fresh rml::MemoryPool with generated policy and the freshly initialised default pool; main thread + one helper thread that takes single operations) "
         "checked against a shadow interval map with per-block byte patterns; non-trivial = measured during the run: a block was freed by another thread than "
         "the one that allocated it, or a realloc moved a block, or successful allocations fell into >= 3 size classes; distinct = hash of the executed "
         "operation sequence. detsched leg xfree: case = generated slot program (threads allocate into / free / realloc from shared slots) x generated schedule; "
         "non-trivial = a block was freed by a foreign thread and an allocation followed; distinct = hash of program text + schedule descriptor",
    assumptions=["fuzz legs: operations of the two threads alternate (hand-over of single operations, thread exit with live blocks, adoption of orphaned slabs): no "
                 "two allocator calls overlap in time; races inside the public-free-list / mailbox / backend protocols are explored by the detsched leg xfree only "
                 "(2-3 threads x <= 8 ops on 2-4 shared slots, 13 sizes, sequentially consistent schedules sampled at atomic-operation granularity, no thread exit)",
                 "raw memory comes from an instrumented bump arena (mmap/munmap/mremap of tbbmalloc redirected by macro); the default pool is initialised and "
                 "shut down (__TBB_mallocProcessShutdownNotification) once per case",
                 "blocks above 64 KB are pattern-filled and verified at both 16 KB edges and 15 sampled 64-byte windows only; requests above 64 MB and alignments "
                 "above 2^20 are reduced; calloc products above 4 MB are reduced",
                 "default alignment rule as implemented and stated by the property: 8 bytes for requests <= 8 bytes, 16 bytes otherwise; zero-size blocks must "
                 "be distinct addresses",
                 "leg dbg: the same target with -DTBB_USE_DEBUG=1 (tbbmalloc_debug configuration): a failed MALLOC_ASSERT is reported as a violation",
                 "huge pages off; x86-64 Linux only"],
    floor=dict(quick=1500, thorough=30000),
    tiers=dict(
        quick=[fz("fz", 16, 2400, 15),
               fz("dbg", 16, 900, 8, cxxflags=["-DTBB_USE_DEBUG=1"]),
               det("xfree", XH, "cs-rel", 16, 200, 5, tso=False, time_cap=7, with_malloc=True)],
        thorough=[fz("fz", 16, 12000, 260),
                  fz("dbg", 16, 9000, 110, cxxflags=["-DTBB_USE_DEBUG=1"]),
                  fz("fz-empty", 16, 3000, 60, seeds=False),
                  det("xfree", XH, "cs-rel", 16, 5000, 6, tso=False, time_cap=80, with_malloc=True)],
    ),
)
TEXT = dict(
    technique="coverage-guided fuzzing (libFuzzer + ASan + UBSan) of tbbmalloc compiled from the working tree, with a semantic oracle inside the target: shadow interval "
              "map of all live blocks, per-block byte patterns, instrumented raw-memory arena; plus property-based testing of cross-thread free / realloc on shared "
              "slots under generated schedules (controlled scheduler, tbbmalloc's atomics as decision points)",
    level_text="Exploration: tens of thousands of generated operation sequences per run over a fresh memory pool and a fresh default pool; every successful allocation is "
               "checked for overlap with every live block, for lying inside live raw memory of its own pool, for the requested (or default 8/16-byte) alignment, "
               "msize >= request, zero fill (calloc) and preserved prefix (realloc); all live patterns are verified before each free/realloc, every 16 operations, after "
               "cleanup commands / thread exit / pool_reset and at the end; frees by the other thread, thread exit with live blocks and adoption of orphaned slabs are "
               "part of the sequences. The detsched leg runs small 2-3 thread slot programs under generated SC schedules (walk / pct / pos / directed stalls) so that a "
               "foreign free (public free list push, mailbox) really interleaves with the owner's allocation (privatisation) and with backend calls. Sampling cannot "
               "prove absence.",
    level_note="trusted: the harness (fuzz/fz_tbbmalloc.h), clang/libFuzzer/ASan; operations of different threads never overlap in time in the fuzz legs; the detsched leg trusts engine/vs/vs_rt.cpp and samples SC schedules only; sampled verification of "
               "blocks above 64 KB; a crash artefact counts only if it fails again 3 of 3 times in fresh processes",
)
