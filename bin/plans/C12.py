from plans.common import *

H = "harness/c12_assoc.cpp"
PLAN = dict(
    level="exploration",
    rule="case = generated program on ONE container out of concurrent_unordered_{map,set,multimap,multiset} / concurrent_{map,set,multimap,multiset} "
         "(2-4 threads x 1-8 ops: insert const&/&&/hint, emplace, emplace_hint, find, count, contains, lower_bound, upper_bound, equal_range, full traversal, "
         "traversal through range() split twice; 1-5 keys that are equal / neighbours in key order / share a bucket or a split-order key; hash = identity|constant|"
         "low-bits-equal|high-bit (two keys per order key); comparator less|greater; unordered: 1-8 initial buckets pre-filled to just below the load-factor doubling, "
         "optionally rehash(2x|4x) so that the threads meet uninitialised buckets; ordered: pre-fill 0-40, the level generator's seed is part of the case) "
         "x generated schedule (walk/pct/pos/directed stall, SC or TSO); non-trivial = two inserts of different threads overlapped in time on the same key, the same "
         "bucket (unordered) or neighbouring final positions (ordered), or a traversal/equal_range overlapped a successful insert of another thread - all measured; "
         "distinct = hash of program text + schedule descriptor",
    assumptions=SC_TSO + ["only operations documented as concurrency-safe run concurrently (no unsafe_erase/clear/rehash/merge during the concurrent phase)",
                          "an element counts as present from the moment an insert of it returned or any operation reported it (insert-only containers: presence is monotonic); "
                          "exception, literal C12: for find/count/contains/lower_bound/upper_bound/equal_range on the ORDERED containers only a returned insert counts - the skip list links a node on level 0 "
                          "before it raises my_max_height from 0, so lookups into a list that was empty can miss an element an iteration already reached; measured as class lookup_missed_element_already_iterated, not judged",
                          "multi containers: concurrent count(k) may include elements of other keys inserted into [lower_bound, upper_bound) during the call, and an equal_range iterator pair may pass over such elements; "
                          "exact counts are demanded at quiescence only (as the property states)",
                          "the skip list's level generator is seeded from the case instead of time(nullptr) (macro around the header include), so that level assignments are generated and replayable",
                          "under TSO the harness drains the caller's store buffer before it stamps an operation as returned"],
    floor=dict(quick=4000, thorough=80000),
    tiers=dict(
        quick=[det("rel", H, "cs-rel", 16, 600, 5, tso=True, time_cap=22),
               det("dbg", H, "cs-dbg", 16, 250, 5, tso=True, time_cap=14),
               cmd("sequential-model", "harness/c1012_seqmodel_rc.cpp", "plain", 2, ["C12", "12000"], link_tbb=True, ldflags=["-lrapidcheck"], replay_tag="seqmodel-"),
               tsan("C12", 8, 240)],
        thorough=[det("rel", H, "cs-rel", 16, 6000, 6, tso=True, time_cap=280),
                  det("dbg", H, "cs-dbg", 16, 2000, 6, tso=True, time_cap=160),
                  det("enum-conflict", H, "cs-rel", 16, 200, 2, tso=True, time_cap=90, enum="conflict", enum_cap=200),
                  det("enum-firstpc", H, "cs-rel", 16, 200, 2, tso=True, time_cap=90, enum="firstpc", enum_cap=200),
                  cmd("sequential-model", "harness/c1012_seqmodel_rc.cpp", "plain", 8, ["C12", "400000"], link_tbb=True, ldflags=["-lrapidcheck"], replay_tag="seqmodel-"),
               tsan("C12", 16, 600)],
    ),
)
TEXT = dict(
    technique="property-based testing: generated insert/lookup/traversal programs x generated schedules over the real split-ordered list and skip list (controlled scheduler, SC+TSO) "
              "against an element ledger with unique ids: winner-per-key, presence-monotonic lookups, exact traversal contents and order, quiescent audits; plus rapidcheck model-based testing of long single-threaded operation sequences on concurrent_unordered_map and concurrent_map (rehash, clear, copy, assignment, swap, merge, bounds) against std::map",
    level_text="Exploration: tens of thousands of small generated programs on all eight associative containers; every element carries a unique id inside its key, so that equal keys, "
               "transient duplicates and an element missing from one traversal are visible. Checked per case: insert results against the returned iterator; exactly one successful insert per "
               "key in unique containers and every failed insert pointing at the winner; find/contains/count/equal_range/lower_bound/upper_bound against the set of elements known present "
               "before the call and the set that can exist by its return; every concurrent traversal (iterator and range()-split) contains each earlier element exactly once, nothing twice, "
               "nothing that was never inserted, in comparator order for ordered containers; at quiescence contents == union of successful inserts, size(), count() per key, every element in "
               "the bucket its hash selects, key-object construction/destruction ledger, clear(). The table is sized so that bucket-table doubling and lazy dummy-node initialisation (with "
               "recursive parent initialisation) happen during the case; skip-list levels come from a generated seed. Sampling cannot prove absence; scenarios are 200-2000 decision points.",
    level_note=DET_NOTE,
)
