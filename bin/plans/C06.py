from plans.common import *

H = "harness/c06_reduce.cpp"
RC = "harness/c06_seq_rc.cpp"
PLAN = dict(
    level="exploration",
    rule="case = cfg (max_allowed_parallelism 1-4, explicit task_arena of 1-4 slots) + 1-2 generated operations: parallel_reduce (lambda and Body form, "
         "5 partitioner choices) over blocked_range<int> with a free-monoid value (vector of indices, concatenation); parallel_deterministic_reduce "
         "(lambda and Body form, simple/static partitioner) with a parenthesisation-recording operation, run 4-5 times under different thread counts / arenas; "
         "parallel_scan (lambda and Body form, simple/auto/default) with the free monoid; parallel_sort of (key,id) records, sizes dense around 9/10/11 and "
         "499/500/501 up to 3000, random / sorted / reverse / one adjacent inversion at a generated position / few distinct keys, comparators <, >, key mod m, "
         "default operator<; boundary-biased sizes and grains; each x generated schedule (which decides where bodies are split); "
         "non-trivial = a reduce body was split on a non-calling thread / a deterministic-reduce leaf ran on a non-calling thread / a scan pre-pass "
         "happened (right child stolen) and a pass ran on a non-calling thread / the sort input had >= 500 elements (parallel path); "
         "distinct = hash of program text + schedule descriptor. The seq leg (rapidcheck) replays the quicksort range splitting sequentially on sizes up to 40000.",
    assumptions=SC_TSO + ["comparators are strict weak orderings; grainsize > 0; end-begin representable",
                          "parallel_deterministic_reduce with static_partitioner is only compared between runs that observed the same this_task_arena::max_concurrency() "
                          "(its initial divisor is max_concurrency(), so the tree legitimately depends on the arena size)",
                          "always inside an explicit task_arena (the implicit arena's size depends on the machine)",
                          "assertion-enabled leg: under max_allowed_parallelism 1 the nested wait of the calling thread is not routed through the helper arena (that shape trips the "
                          "known finding C16 update-allotment assertion, which is reported by the C16 check; counted as n_excluded)"],
    floor=dict(quick=1400, thorough=25000),
    tiers=dict(
        quick=[det("rel", H, "cs-rel", 16, 320, 4, tso=True, time_cap=22),
               det("dbg", H, "cs-dbg", 16, 200, 4, tso=True, time_cap=16),
               cmd("seq", RC, "plain", 1, ["150"], link_tbb=False, ldflags=["-lrapidcheck"], replay_tag="seq-"),
               cmd("mock-runtime", "harness/c0506_mock_rc.cpp", "plain", 2, ["C06", "40000"], link_tbb=False, ldflags=["-lrapidcheck"], replay_tag="mock-"),
               tsan("C06", 8, 240)],
        thorough=[det("rel", H, "cs-rel", 16, 7000, 5, tso=True, time_cap=330),
                  det("dbg", H, "cs-dbg", 16, 3400, 5, tso=True, time_cap=200),
                  cmd("seq", RC, "plain", 4, ["3000"], link_tbb=False, ldflags=["-lrapidcheck"], replay_tag="seq-"),
                  cmd("mock-runtime", "harness/c0506_mock_rc.cpp", "plain", 8, ["C06", "600000"], link_tbb=False, ldflags=["-lrapidcheck"], replay_tag="mock-"),
               tsan("C06", 16, 600)],
    ),
)
TEXT = dict(
    technique="property-based testing: generated reductions / scans / sorts x generated schedules over the real scheduler (controlled scheduler, SC+TSO) with a free-monoid value type that records the exact operand order, a parenthesisation-recording operation for the deterministic reduce, and sorted-permutation checks; plus rapidcheck over the quicksort range split, and rapidcheck over the real reduce / deterministic_reduce / scan templates and partitioners compiled against a mock runtime whose steal schedule is a generated value",
    level_text="Exploration: every generated operation runs on the real work-stealing runtime while a generated schedule decides which subranges are stolen and therefore where bodies are split. parallel_reduce must return exactly [begin,end) in order (vector concatenation is associative but not commutative), a Body may only be joined into the Body it was split from, never while either is inside operator(), never twice; parallel_deterministic_reduce must produce the identical '(L R)' tree string in every run of a case (one-slot arena, max_allowed_parallelism 1, all workers, second arena), with operands in order; every final pass of parallel_scan must see exactly the prefix [begin,i) and every index gets exactly one final pass, the returned value is the full sequence; parallel_sort must leave a sequence that is sorted under the comparator and whose (key,id) multiset equals the input's. Sampling, not exhaustive.",
    level_note=DET_NOTE,
)
