from plans.common import *

H = "harness/c01_tasks.cpp"
L1 = "harness/c01_mailbox_l1.cpp"
L1S = "harness/c01_slot_l1.cpp"
PLAN = dict(
    level="exploration",
    rule="case = generated task-tree program (1-3 external threads, <=24 units: task_group run/defer/run_and_wait/wait/cancel, nested groups, "
         "parallel_for x 4 partitioners, arena enqueue/execute, isolate, idle gaps; 0-2 arenas; max_allowed_parallelism 1-4) x generated schedule; "
         "non-trivial = at least one unit or loop chunk was executed by a thread other than its submitter (stolen / FIFO stream / mailbox); "
         "distinct = hash of program text + schedule descriptor",
    assumptions=SC_TSO + ["work run into a task_group from inside task_arena::execute of another arena is outside the generated domain (it may legitimately never be taken when that arena has no worker)",
                          "the assertion flavour never generates max_allowed_parallelism 1 (known finding C01-update-allotment-assert: debug-only assertion in market::update_allotment)", "task_arena::execute back into an arena the calling thread already occupies at an outer nesting level (A.execute -> B.execute -> A.execute) is a user-level deadlock when A is saturated and is never generated", "units whose ancestor group is cancelled anywhere in the program may be skipped (checked: never twice, never half-run)"],
    floor=dict(quick=50, thorough=300),
    tiers=dict(
        quick=[det("rel", H, "cs-rel", 16, 40, 4, tso=True, time_cap=30),
               det("dbg", H, "cs-dbg", 16, 12, 4, tso=True, time_cap=25, args=["--no-soft0"]),
               det("l1-mailbox", L1, "cs-rel", 4, 250, 6, tso=True, time_cap=20, optional=True, case_prefix="mbox "),
               det("l1-slot", L1S, "cs-rel", 8, 250, 6, tso=True, time_cap=25, optional=True, case_prefix="slot "),
               det("l1-slot-dbg", L1S, "cs-dbg", 4, 120, 6, tso=True, time_cap=25, optional=True, case_prefix="slot "),
               cmd("many-groups", "harness/c01_manygroups_rc.cpp", "plain", 2, ["150"], link_tbb=True, ldflags=["-lrapidcheck"], replay_tag="manygroups-"),
               tsan("C01", 8, 240)],
        thorough=[det("rel", H, "cs-rel", 16, 1200, 5, tso=True, time_cap=300),
                  det("dbg", H, "cs-dbg", 16, 300, 5, tso=True, time_cap=200, args=["--no-soft0"]),
                  det("enum-wake", H, "cs-rel", 16, 40, 2, tso=True, time_cap=120, enum="wake", enum_cap=150),
                  det("enum-sbload", H, "cs-rel", 16, 40, 2, tso=True, time_cap=120, enum="sbload", enum_cap=150),
               det("l1-mailbox", L1, "cs-rel", 16, 3000, 8, tso=True, time_cap=120, optional=True, case_prefix="mbox "),
               det("l1-slot", L1S, "cs-rel", 16, 4000, 8, tso=True, time_cap=180, optional=True, case_prefix="slot "),
               det("l1-slot-dbg", L1S, "cs-dbg", 16, 1500, 8, tso=True, time_cap=180, optional=True, case_prefix="slot "),
               cmd("many-groups", "harness/c01_manygroups_rc.cpp", "plain", 8, ["3000"], link_tbb=True, ldflags=["-lrapidcheck"], replay_tag="manygroups-"),
               tsan("C01", 16, 600)],
    ),
)
TEXT = dict(
    technique="property-based testing: generated task-tree programs x generated schedules over the real scheduler (controlled scheduler, SC+TSO) against an exactly-once ledger and a covered-set wait oracle; rapidcheck leg many-groups (one thread feeding up to 2300 task_groups on the free-running library, exactly-once-by-wait-return oracle)",
    level_text="Exploration: generated task trees run on the real work-stealing runtime (workers, mailboxes, FIFO streams, nested waits) while a generated schedule decides every interleaving of atomic operations; a ledger checks started==finished==1 per unit (0 only under a cancelled ancestor), every wait/run_and_wait/parallel_for/execute return is checked against the set of units it must cover, functor copies must all be destroyed at quiescence, and a lost task shows up as an exact DEADLOCK. Sampling, not exhaustive.",
    level_note=DET_NOTE,
)
