from plans.common import *

H = "harness/c07_pipeline.cpp"
PLAN = dict(
    level="exploration",
    rule="case = generated parallel_pipeline (1-6 filters, modes from {parallel, serial_in_order, serial_out_of_order}^len, max_number_of_live_tokens 1-8, "
         "0-40 items, 0-30 decision points of work per (item, filter) in three profiles, link types int / pointer / allocated object per edge, "
         "make_filter / filter ctor / deduced make_filter, left- and right-associated & composition, variadic overload, explicit context, optional second "
         "run of the same chain; max_allowed_parallelism 1-4) x generated schedule; non-trivial = at least one item overtook another (entry order of a "
         "filter differs from its exit order, or from the exit order of the previous filter), measured from the per-filter log; "
         "distinct = hash of program text + schedule descriptor",
    assumptions=SC_TSO + ["the input filter of the generated pipelines signals stop only when all n items were emitted (a parallel input filter may signal it several times)",
                          "live tokens are counted from entry of the input-filter body to exit of the last filter body (the library holds the token slightly longer, so the bound is sound)"],
    floor=dict(quick=450, thorough=13000),
    tiers=dict(
        quick=[det("rel", H, "cs-rel", 16, 200, 4, tso=True, time_cap=30),
               det("dbg", H, "cs-dbg", 16, 80, 4, tso=True, time_cap=25),
               tsan("C07", 8, 240)],
        thorough=[det("rel", H, "cs-rel", 16, 2600, 5, tso=True, time_cap=300),
                  det("dbg", H, "cs-dbg", 16, 800, 5, tso=True, time_cap=200),
                  det("enum-conflict", H, "cs-rel", 16, 60, 2, tso=True, time_cap=120, enum="conflict", enum_cap=150),
                  det("enum-rmw", H, "cs-rel", 16, 60, 2, tso=True, time_cap=120, enum="rmw", enum_cap=150),
               tsan("C07", 16, 600)],
    ),
)
TEXT = dict(
    technique="property-based testing: generated pipelines (filter modes, token limit, per-item stage delays, typed composition) x generated schedules over the real scheduler against a per-filter invocation log",
    level_text="Exploration: generated filter chains run on the real work-stealing runtime under generated schedules; per-item, per-filter delays make items overtake each other so that tokens are parked in and released from the ordered-filter ring (including ring growth with parked tokens). The log decides: each item passes each filter exactly once and in stage order, a serial filter never has two invocations inside, every serial_in_order filter sees exactly the order of the first one, the number of items between entry of the input filter and exit of the last filter never exceeds max_number_of_live_tokens, the call returns only after end of input was signalled with every item through the last filter, and nothing runs after the return. Sampling, not exhaustive.",
    level_note=DET_NOTE,
)
