"""Leg runner for libFuzzer targets with a semantic oracle inside the target (leg kind "fuzz").

leg = dict(kind="fuzz", name, harness="fuzz/fz_xxx.cpp", procs, runs, max_len, time_cap,
           tbbmalloc=True            # compile /repo/src/tbbmalloc/*.cpp into the target (mmap/munmap/mremap -> fz_*)
           cxxflags=[...]            # extra flags for the target TU *and* the library sources (e.g. -DTBB_USE_ASSERT=1)
           unit=(header_bytes, op_bytes)   # input layout, used to minimise a crashing input op by op
           seeds=True                # False: start from an empty corpus instead of /verif/corpus/<target>/
           optional=False)

Each of the `procs` processes gets its own fresh corpus directory under a temporary directory outside /verif and /repo
(seeded from /verif/corpus/<target>/ if present, removed afterwards), `-seed=` derived from VERIF_SEED (never 0),
`-runs=` as budget (`-max_total_time=time_cap` is only a safety net: hitting it means fewer cases, never a verdict) and
`-artifact_prefix=<replays>/<ID>-<leg>-p<i>-`.  The target writes its counters to $VERIF_FZ_STATS (before any trap,
periodically and at exit).  Only `crash-*` artefacts can become violations, and only if the saved input fails again in
3 of 3 fresh processes; `timeout-` / `oom-` / `slow-unit-` artefacts are load noise and count as inconclusive.
"""
import os, sys, json, glob, shutil, subprocess, tempfile, time, hashlib

MALLOC_SRCS = ("backend.cpp", "backref.cpp", "frontend.cpp", "large_objects.cpp", "tbbmalloc.cpp")
ASAN_OPTIONS = "detect_leaks=0:quarantine_size_mb=8:malloc_context_size=3:allocator_may_return_null=1:handle_abort=1"
UBSAN_OPTIONS = "print_stacktrace=1"


def build(leg, ctx):
    vb = ctx["vbuild"]
    R = vb.REPO
    src = os.path.join(ctx["VERIF"], leg["harness"])
    # headers next to the target are not part of vbuild's cache key: put their hash into the flags
    h = hashlib.sha256()
    for f in sorted(glob.glob(os.path.join(os.path.dirname(src), "*.h"))):
        h.update(open(f, "rb").read())
    flags = ["-DFZ_HDR=0x" + h.hexdigest()[:12]] + list(leg.get("cxxflags", ()))
    extra = list(leg.get("extra_srcs", ()))
    if leg.get("tbbmalloc"):
        mflags = vb.MALLOC_DEFS + ["-iquote", os.path.join(R, "src/tbbmalloc"), "-I", os.path.join(R, "src"),
                                   "-Dmmap=fz_mmap", "-Dmunmap=fz_munmap", "-Dmremap=fz_mremap"] + list(leg.get("cxxflags", ()))
        extra += [("src/tbbmalloc/" + f, mflags) for f in MALLOC_SRCS]
    return vb.build_harness("fuzz", src, link_tbb=False, extra_srcs=extra, extra_flags=flags, extra_link=leg.get("ldflags", ()))


def _env(stats):
    e = dict(os.environ)
    e["VERIF_FZ_STATS"] = stats
    e["ASAN_OPTIONS"] = ASAN_OPTIONS
    e["UBSAN_OPTIONS"] = UBSAN_OPTIONS
    e.pop("VERIF_FZ_PROF", None)
    return e


def _run_once(binp, path, tmp, timeout=120):
    """execute one saved input in a fresh process -> (failed?, violation dict from the target or None, stderr tail)"""
    st = os.path.join(tmp, "replay-%d.json" % os.getpid())
    try:
        os.remove(st)
    except OSError:
        pass
    try:
        r = subprocess.run([binp, "-detect_leaks=0", "-timeout=100", "-rss_limit_mb=6000", path], env=_env(st), stdout=subprocess.PIPE, stderr=subprocess.PIPE,
                           text=True, errors="replace", timeout=timeout)
        rc, err = r.returncode, r.stderr
    except subprocess.TimeoutExpired:
        return False, None, "wall-clock timeout in replay"
    v = None
    try:
        v = json.load(open(st)).get("violation")
    except Exception:
        pass
    return rc != 0, v, err[-6000:]


def _describe(v, err):
    """kind/detail/case of a failing execution: the target's own oracle, else the sanitizer / assertion report"""
    if v:
        return v.get("kind", "ORACLE"), v.get("detail", ""), v.get("case", "")
    kind, detail = "CRASH", ""
    for line in err.splitlines():
        if "Assertion " in line and "failed" in line:
            kind, detail = "ASSERT", line.strip(); break
        if line.startswith("SUMMARY:"):
            detail = line.strip()
            if "UndefinedBehaviorSanitizer" in line:
                kind = "UBSAN"
            elif "AddressSanitizer" in line:
                kind = "ASAN"
        if "runtime error:" in line and not detail:
            kind, detail = "UBSAN", line.strip()
    if not detail:
        detail = err[-400:].replace("\n", " | ")
    case = ""
    if "---- case ----" in err:
        case = err.split("---- case ----", 1)[1].split("--------------", 1)[0].strip()
    return kind, detail, case


def _minimise(binp, path, tmp, kind, unit, budget_s=40, max_trials=60):
    """delete operations (fixed-size records after the header) while the same kind of failure stays; returns path of the smaller input or None"""
    if not unit:
        return None
    hdr, opl = unit
    data = open(path, "rb").read()
    if len(data) < hdr + 2 * opl:
        return None
    head, body = data[:hdr], data[hdr:]
    ops = [body[i:i + opl] for i in range(0, len(body) - len(body) % opl, opl)]
    tail = body[len(ops) * opl:]
    t0, trials, best = time.time(), 0, None
    trial = os.path.join(tmp, "min-%d.bin" % os.getpid())

    def fails(cand):
        nonlocal trials
        trials += 1
        open(trial, "wb").write(head + b"".join(cand) + tail)
        bad, v, err = _run_once(binp, trial, tmp, timeout=60)
        return bad and _describe(v, err)[0] == kind

    n = max(1, len(ops) // 2)
    while trials < max_trials and time.time() - t0 < budget_s:
        i = 0
        while i < len(ops) and trials < max_trials and time.time() - t0 < budget_s:
            cand = ops[:i] + ops[i + n:]
            if cand and fails(cand):
                ops = best = cand               # same position again: the next window moved here
            else:
                i += n
        if n == 1:
            break
        n //= 2
    if best is None:
        return None
    outp = path + ".min"
    open(outp, "wb").write(head + b"".join(best) + tail)
    return outp


def confirm(binp, path, tmp, unit=None):
    """-> violation dict if the saved input fails 3 of 3 times, else None"""
    kinds, last = [], None
    for _ in range(3):
        bad, v, err = _run_once(binp, path, tmp)
        if not bad:
            return None
        last = _describe(v, err)
        kinds.append(last[0])
    kind, detail, case = last
    replay = path
    try:
        m = _minimise(binp, path, tmp, kind, unit)
        if m:
            bad, v, err = _run_once(binp, m, tmp)
            if bad and _describe(v, err)[0] == kind:
                replay = m
                kind, detail, case = _describe(v, err)
    except Exception:
        pass
    return {"kind": kind, "detail": detail, "replay": replay, "case": case}


def run(pid, leg, seed, tier, out, ctx):
    t0 = time.time()
    binp, log = build(leg, ctx)
    if binp is None:
        if leg.get("optional"):
            out["skipped"].append({"leg": leg["name"], "why": "does not compile against this tree", "log": log[-800:]})
        else:
            out["build_failed"].append({"leg": leg["name"], "log": log[-3000:]})
        return
    target = os.path.basename(leg["harness"]).replace(".cpp", "")
    seeds = sorted(glob.glob(os.path.join(ctx["VERIF"], "corpus", target, "*"))) if leg.get("seeds", True) else []    # seeds=False: empty-corpus run
    confirmed = {}                                           # sha1 of the crashing input -> verdict (all processes may die on the same seed)
    tmp = tempfile.mkdtemp(prefix="vfz-%s-" % pid, dir=os.environ.get("VERIF_TMP") or tempfile.gettempdir())
    os.makedirs(ctx["REPLAYS"], exist_ok=True)
    procs = []
    try:
        for i in range(leg.get("procs", 16)):
            cdir = os.path.join(tmp, "corpus%d" % i)
            os.makedirs(cdir)
            for s in seeds:
                shutil.copy(s, cdir)
            fseed = ctx["h64"](seed, pid, leg["name"], i) % ((1 << 31) - 1) + 1          # libFuzzer treats -seed=0 as "pick one": never 0
            prefix = os.path.join(ctx["REPLAYS"], "%s-%s-p%d-" % (pid, leg["name"], i))
            for old in glob.glob(prefix + "*"):
                try:
                    os.remove(old)
                except OSError:
                    pass
            stats = os.path.join(tmp, "stats%d.json" % i)
            cmd = [binp, cdir, "-seed=%d" % fseed, "-runs=%d" % leg["runs"], "-max_len=%d" % leg.get("max_len", 1024), "-artifact_prefix=" + prefix,
                   "-detect_leaks=0", "-timeout=%d" % leg.get("unit_timeout", 100), "-rss_limit_mb=%d" % leg.get("rss_limit_mb", 6000),
                   "-max_total_time=%d" % leg.get("time_cap", 60), "-print_final_stats=1", "-reduce_inputs=1"] + list(leg.get("args", ()))
            if not seeds:
                cmd.append("-len_control=0")
            # libFuzzer's log goes to a file, not a pipe: nobody drains 16 pipes at once, and a full pipe would stall the fuzzer
            errf = open(os.path.join(tmp, "log%d.txt" % i), "w+", errors="replace")
            p = subprocess.Popen(cmd, stdout=subprocess.DEVNULL, stderr=errf, env=_env(stats))
            procs.append((i, p, stats, prefix, time.time(), errf))
        for i, p, stats, prefix, ts, errf in procs:
            p.wait()
            wall = time.time() - ts
            errf.seek(0, 2); errf.seek(max(0, errf.tell() - 20000)); se = errf.read(); errf.close()
            try:
                d = json.load(open(stats))
            except Exception:
                d = None
            arts = glob.glob(prefix + "*")
            crashes = [a for a in arts if os.path.basename(a)[len(os.path.basename(prefix)):].startswith("crash-")]
            noise = [a for a in arts if a not in crashes]
            if d is None and not crashes:
                out["driver_errors"].append({"leg": leg["name"], "rc": p.returncode, "stderr": se[-800:], "stdout": ""})
                continue
            d = d or {}
            execs = None
            for line in se.splitlines():
                if line.startswith("stat::number_of_executed_units:"):
                    execs = int(line.split(":")[-1])
            drv = {"leg": leg["name"], "evaluations": d.get("evaluations", 0), "nontrivial_hashes": d.get("nontrivial_hashes", []), "classes": d.get("classes", {}),
                   "sums": d.get("sums", {}), "samples": d.get("samples", [])[:4], "inconclusive": len(noise), "wall_s": round(wall, 2), "violations": [], "unstable": 0,
                   "strategies": {"libfuzzer:%s" % leg["name"]: d.get("evaluations", 0)}}
            drv["sums"]["n_fuzz_inputs"] = d.get("inputs", execs or 0)
            if noise:
                drv["inconclusive_kinds"] = {}
                for a in noise:
                    k = os.path.basename(a)[len(os.path.basename(prefix)):].split("-")[0]
                    drv["inconclusive_kinds"][k] = drv["inconclusive_kinds"].get(k, 0) + 1
                    try:
                        os.remove(a)
                    except OSError:
                        pass
            for c in crashes:
                sha = c.rsplit("crash-", 1)[-1]
                if sha not in confirmed:
                    confirmed[sha] = confirm(binp, c, tmp, leg.get("unit"))
                v = confirmed[sha]
                if v:
                    drv["violations"].append(v)
                else:
                    drv["unstable"] += 1
                    try:
                        os.remove(c)
                    except OSError:
                        pass
            if p.returncode not in (0,) and not crashes and not noise:
                # the process died without leaving an artefact (killed, out of memory in the sandbox, ...): no verdict from it
                drv["inconclusive"] += 1
                drv.setdefault("inconclusive_kinds", {})["fuzzer-exit-%s" % p.returncode] = 1
            out["drivers"].append(drv)
    finally:
        for pr in procs:
            if pr[1].poll() is None:
                pr[1].kill()
        shutil.rmtree(tmp, ignore_errors=True)


def replay(pid, leg, path, ctx):
    """bin/check <ID> --replay <file> for a saved fuzz input: exit status 1 if it still fails"""
    binp, log = build(leg, ctx)
    if binp is None:
        print(log)
        return 2
    tmp = tempfile.mkdtemp(prefix="vfz-replay-", dir=os.environ.get("VERIF_TMP") or tempfile.gettempdir())
    try:
        bad, v, err = _run_once(binp, path, tmp)
        if not bad:
            print("OK: %s no longer fails" % path)
            return 0
        kind, detail, case = _describe(v, err)
        print("VIOLATION property=%s replay=%s\n  kind=%s detail=%s" % (pid, path, kind, detail))
        if case:
            print(case)
        return 1
    finally:
        shutil.rmtree(tmp, ignore_errors=True)
