"""Leg runner for the ThreadSanitizer freerun flavour (harness/tsan_payload.cpp).
A data-race report counts as a violation of the visibility clause of the property under test only if BOTH accesses are
inside vp_payload_write / vp_payload_read (user-visible payload).  Reports inside the library are counted, not judged.
A payload race must be seen in two independent runs of the same (prop, seed) before it is reported (freerun rule)."""
import os, re, subprocess, json, time

PAYLOAD = re.compile(r"#0 vp_payload_(write|read)")


def parse_reports(stderr):
    blocks = stderr.split("WARNING: ThreadSanitizer: data race")[1:]
    payload, other = [], 0
    for b in blocks:
        b = b.split("SUMMARY: ThreadSanitizer")[0]
        # first frame of each of the two accesses
        firsts = re.findall(r"(?:Write|Read|Previous write|Previous read|Atomic write|Previous atomic write|Atomic read|Previous atomic read) of size[^\n]*\n\s*(#0 [^\n]*)", b)
        if len(firsts) >= 2 and all("vp_payload_" in f for f in firsts[:2]):
            payload.append(b.strip()[:3000])
        else:
            other += 1
    return payload, other


def run_one(binp, prop, seed, iters, supp, watchdog=150):
    """one freerun process.  A process that does not finish within the wall-clock watchdog is killed and counted as
    inconclusive (real threads: a hang here is never a verdict, lost wake-ups are decided by the detsched legs only)."""
    env = dict(os.environ)
    env["TSAN_OPTIONS"] = "suppressions=%s:halt_on_error=0:exitcode=0:second_deadlock_stack=0:report_signal_unsafe=0:history_size=3" % supp
    try:
        p = subprocess.run([binp, "--prop", prop, "--seed", str(seed), "--iters", str(iters)], stdout=subprocess.PIPE, stderr=subprocess.PIPE, text=True, env=env, timeout=watchdog)
    except subprocess.TimeoutExpired as e:
        err = e.stderr if isinstance(e.stderr, str) else (e.stderr or b"").decode("utf-8", "replace")
        return {"evaluations": 0, "nontrivial_hashes": [], "classes": {}, "sums": {}, "samples": [], "inconclusive": 1, "wall_s": watchdog,
                "inconclusive_kinds": {"FREERUN-WATCHDOG": 1}, "inconclusive_samples": ["tsan prop=%s seed=%d iters=%d: no result after %d s (killed)" % (prop, seed, iters, watchdog)]}, err, -9
    d = None
    for line in reversed(p.stdout.strip().splitlines()):
        if line.startswith("{"):
            try:
                d = json.loads(line); break
            except Exception:
                pass
    return d, p.stderr, p.returncode


def run(pid, leg, seed, tier, out, ctx):
    vbuild = ctx["vbuild"]
    binp, log = vbuild.build_harness("tsan", os.path.join(ctx["VERIF"], leg["harness"]))
    if binp is None:
        (out["skipped"] if leg.get("optional") else out["build_failed"]).append({"leg": leg["name"], "why": "tsan flavour does not build", "log": log[-2000:]})
        return
    supp = os.path.join(vbuild.REPO, "cmake/suppressions/tsan.suppressions")
    prop = leg.get("prop", pid)
    import concurrent.futures as cf
    seeds = [ctx["h64"](seed, pid, leg["name"], i) % (1 << 31) for i in range(leg.get("procs", 4))]
    with cf.ThreadPoolExecutor(len(seeds)) as ex:
        results = list(ex.map(lambda s: (s,) + run_one(binp, prop, s, leg.get("iters", 200), supp, leg.get("watchdog", 120 if tier == "quick" else 600)), seeds))
    for s, d, err, rc in results:
        if d is None:
            out["driver_errors"].append({"leg": leg["name"], "rc": rc, "stderr": err[-800:]})
            continue
        payload, other = parse_reports(err)
        d["leg"] = leg["name"]; d.setdefault("sums", {})["n_library_reports_ignored"] = other
        viols = []
        if d.get("value_mismatches", 0):
            payload.append("value mismatch: " + d.get("mismatch_detail", ""))
        if payload:
            # confirmation: the same (prop, seed) must show a payload race again
            d2, err2, _ = run_one(binp, prop, s, leg.get("iters", 200), supp, leg.get("watchdog", 120 if tier == "quick" else 600))
            p2, _ = parse_reports(err2)
            if p2 or (d2 and d2.get("value_mismatches", 0)):
                os.makedirs(ctx["REPLAYS"], exist_ok=True)
                path = os.path.join(ctx["REPLAYS"], "%s-tsan-%d.case" % (pid, s))
                with open(path, "w") as f:
                    f.write("tsan prop=%s seed=%d iters=%d\n# re-run: TSAN_OPTIONS=... %s --prop %s --seed %d --iters %d\n# %s\n" % (prop, s, leg.get("iters", 200), binp, prop, s, leg.get("iters", 200), payload[0].replace("\n", "\n# ")))
                viols.append({"kind": "PAYLOAD-RACE", "detail": payload[0][:1500].replace("\n", " | "), "replay": path, "case": "tsan prop=%s seed=%d" % (prop, s)})
            else:
                d["unstable"] = d.get("unstable", 0) + 1
        d["violations"] = viols
        out["drivers"].append(d)
