"""Texts for MANIFEST.json (kept apart from the run plans in props.py)."""
HOOK_COMMITS = ["f8625a4"]
ENGINES = [
    {"name": "detsched", "path": "engine/vs + engine/drv", "serves_properties": [],
     "kind_free_text": "property-based testing over generated programs x generated schedules: real oneTBB code compiled with a force-included prelude that turns every std::atomic access, fence, yield, pause, futex call and thread creation into a decision point of a baton-passing scheduler (one runnable thread at a time, SC or x86-TSO store buffers, exact DEADLOCK / SPIN-FIXPOINT detection, virtual time, fresh ASLR-free process per case); cases are pure functions of a choice sequence and failures are shrunk on that sequence; the shrunk case text is the replay file"},
]
NOTES = ("All checks rebuild what they need from /repo's working tree through bin/vbuild.py (content-hash object cache under /verif/.cache). "
         "Exit 2 = could not decide (build failure on a changed tree or too few non-trivial cases). Known findings: /verif/known_findings.json.")
DET_NOTE = ("trusted: the scheduler runtime engine/vs/vs_rt.cpp (futex/thread model, TSO sub-model), the harness oracle, g++; sampled schedules at atomic-operation "
            "granularity only; no behaviour weaker than x86-TSO; oneTBB assertion failures in the cs-dbg flavour are reported as violations")
TEXT = {
    "C08": dict(
        technique="property-based testing: generated lock programs x generated schedules (controlled scheduler, SC+TSO) against a holder-bookkeeping / FIFO / never-blocks oracle, with choice-sequence shrinking",
        level_text="Exploration: thousands of generated lock programs (all eight mutex types, try/upgrade/downgrade, scoped and native API) each under several generated schedules incl. directed stalls and TSO store buffers; every entry/exit is checked against exact holder bookkeeping, upgrade truthfulness against a writer epoch, queue order against invocation/queued stamps, try_* in solo mode, and lost hand-off as an exact DEADLOCK/SPIN-FIXPOINT state. Sampling cannot prove absence, but the scenarios are 50-400 decision points long so random schedules cover a large share of interleavings.",
        level_note=DET_NOTE),
}
NOT_APPLICABLE = {}
