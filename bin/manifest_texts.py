"""Texts for MANIFEST.json (kept apart from the run plans in props.py)."""
HOOK_COMMITS = ["f8625a4", "fd57747"]
ENGINES = [
    {"name": "detsched", "path": "engine/vs + engine/drv", "serves_properties": [],
     "kind_free_text": "property-based testing over generated programs x generated schedules: real oneTBB code compiled with a force-included prelude that turns every std::atomic access, fence, yield, pause, futex call and thread creation into a decision point of a baton-passing scheduler (one runnable thread at a time, SC or x86-TSO store buffers, exact DEADLOCK / SPIN-FIXPOINT detection, virtual time, fresh ASLR-free process per case); cases are pure functions of a choice sequence and failures are shrunk on that sequence; the shrunk case text is the replay file"},
]
NOTES = ("All checks rebuild what they need from /repo's working tree through bin/vbuild.py (content-hash object cache under /verif/.cache). "
         "Exit 2 = could not decide (build failure on a changed tree or too few non-trivial cases). Known findings: /verif/known_findings.json.")
NOT_APPLICABLE = {}

# properties whose check is finished, swept over seeds and registered (everything else is listed under not_applicable)
CLAIMED = ["C01", "C08", "C09", "C11", "C13", "C02", "C10", "C12", "C05", "C06", "C17", "C18", "C03", "C07", "C04", "C16", "C19", "C20", "C14", "C15"]
