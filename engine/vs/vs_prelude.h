// vs_prelude.h -- force-included (-include) in front of every oneTBB translation unit and every
// harness TU of the "cs" (controlled-schedule) flavours.  It first pulls in the whole standard
// library un-renamed (include guards make later #includes no-ops) and then renames the
// synchronisation vocabulary so that every std::atomic access, fence, yield, pause, futex call and
// thread creation inside oneTBB becomes a decision point of the scheduler in vs_rt.cpp.
// Nothing in /repo is edited for this (one guarded hook for rdtsc excepted, see DESIGN.md s.3).
#pragma once
#ifdef __cplusplus
#include <bits/stdc++.h>
#include <semaphore.h>
#include <pthread.h>
#include <sched.h>
#include <unistd.h>
#include <sys/syscall.h>
#include <sys/mman.h>
#include <linux/futex.h>
#include <immintrin.h>
#include <ucontext.h>

#define VS_PRELUDE 1
#define VSI __attribute__((always_inline)) inline

// kinds of decision points
enum { VSK_LOAD = 0, VSK_STORE = 1, VSK_RMW = 2, VSK_FENCE = 3, VSK_YIELD = 4, VSK_SPAWN = 5,
       VSK_FWAIT = 6, VSK_FWAKE = 7, VSK_WORK = 8, VSK_PAUSE = 9 };

extern "C" {
void vs_point(const void* addr, int kind);           // decision point before an operation
void vs_wrote(const void* addr);                     // a value-changing write just happened
void vs_yield(void);
void vs_pause(void);
int  vs_tso_store(void* addr, const void* val, unsigned sz);   // 1 = buffered (not yet performed)
int  vs_tso_load(const void* addr, void* out, unsigned sz);    // 1 = forwarded from own buffer
void vs_tso_drain(void);
void vs_tso_drain_obj(const void* addr, unsigned sz);
extern int vs_tso_on;                                // 0 = SC
int  vs_pthread_create(pthread_t*, const pthread_attr_t*, void* (*)(void*), void*);
int  vs_pthread_join(pthread_t, void**);
int  vs_pthread_detach(pthread_t);
long vs_syscall(long, ...);
int  vs_nanosleep(const struct timespec*, struct timespec*);
unsigned long long vs_clock_ns(void);
}

namespace std {
namespace vs_this_thread {
    using std::this_thread::get_id;
    using std::this_thread::sleep_for;
    using std::this_thread::sleep_until;
    inline void yield() noexcept { vs_yield(); }
}

template <class T> VSI bool vs_same(const T& a, const T& b) noexcept { return __builtin_memcmp(&a, &b, sizeof(T)) == 0; }

template <class T> struct vs_atomic {
    std::atomic<T> a;
    using value_type = T;
    vs_atomic() noexcept = default;
#if VS_TSO_DTOR
    ~vs_atomic() { if (vs_tso_on) vs_tso_drain_obj(this, sizeof(*this)); }
#endif
    constexpr vs_atomic(T v) noexcept : a(v) {}
    vs_atomic(const vs_atomic&) = delete;
    vs_atomic& operator=(const vs_atomic&) = delete;
    vs_atomic& operator=(const vs_atomic&) volatile = delete;
    static constexpr bool is_always_lock_free = std::atomic<T>::is_always_lock_free;
    bool is_lock_free() const noexcept { return a.is_lock_free(); }

    VSI T load(memory_order m = memory_order_seq_cst) const noexcept {
        vs_point(this, VSK_LOAD);
        if (vs_tso_on && sizeof(T) <= 8) {
            alignas(8) unsigned char b[8];
            if (vs_tso_load(this, b, sizeof(T))) { T r; __builtin_memcpy(&r, b, sizeof(T)); return r; }
        }
        return a.load(m);
    }
    VSI void store(T v, memory_order m = memory_order_seq_cst) noexcept {
        if (vs_tso_on) {
            if (m != memory_order_seq_cst && sizeof(T) <= 8 && vs_tso_store(this, &v, sizeof(T))) return;
            vs_tso_drain();
        }
        vs_point(this, VSK_STORE);
        T old = a.load(memory_order_relaxed);
        a.store(v, m);
        if (!vs_same(old, v)) vs_wrote(this);
    }
    VSI T exchange(T v, memory_order m = memory_order_seq_cst) noexcept {
        if (vs_tso_on) vs_tso_drain();
        vs_point(this, VSK_RMW);
        T old = a.exchange(v, m);
        if (!vs_same(old, v)) vs_wrote(this);
        return old;
    }
    VSI bool compare_exchange_strong(T& e, T d, memory_order s = memory_order_seq_cst) noexcept {
        if (vs_tso_on) vs_tso_drain();
        vs_point(this, VSK_RMW);
        T e0 = e;
        bool ok = a.compare_exchange_strong(e, d, s);
        if (ok && !vs_same(e0, d)) vs_wrote(this);
        return ok;
    }
    VSI bool compare_exchange_strong(T& e, T d, memory_order s, memory_order f) noexcept {
        if (vs_tso_on) vs_tso_drain();
        vs_point(this, VSK_RMW);
        T e0 = e;
        bool ok = a.compare_exchange_strong(e, d, s, f);
        if (ok && !vs_same(e0, d)) vs_wrote(this);
        return ok;
    }
    VSI bool compare_exchange_weak(T& e, T d, memory_order s = memory_order_seq_cst) noexcept { return compare_exchange_strong(e, d, s); }
    VSI bool compare_exchange_weak(T& e, T d, memory_order s, memory_order f) noexcept { return compare_exchange_strong(e, d, s, f); }
    VSI operator T() const noexcept { return load(); }
    VSI T operator=(T v) noexcept { store(v); return v; }

#define VS_ARITH_T typename std::conditional<std::is_pointer<U>::value, ptrdiff_t, U>::type
    template <class U = T> VSI auto fetch_add(VS_ARITH_T v, memory_order m = memory_order_seq_cst) noexcept
        -> decltype(std::declval<std::atomic<U>&>().fetch_add(v, m)) {
        if (vs_tso_on) vs_tso_drain();
        vs_point(this, VSK_RMW); if (v != 0) vs_wrote(this); return a.fetch_add(v, m); }
    template <class U = T> VSI auto fetch_sub(VS_ARITH_T v, memory_order m = memory_order_seq_cst) noexcept
        -> decltype(std::declval<std::atomic<U>&>().fetch_sub(v, m)) {
        if (vs_tso_on) vs_tso_drain();
        vs_point(this, VSK_RMW); if (v != 0) vs_wrote(this); return a.fetch_sub(v, m); }
    template <class U = T> VSI auto fetch_or(U v, memory_order m = memory_order_seq_cst) noexcept
        -> decltype(std::declval<std::atomic<U>&>().fetch_or(v, m)) {
        if (vs_tso_on) vs_tso_drain();
        vs_point(this, VSK_RMW); U o = a.fetch_or(v, m); if ((o | v) != o) vs_wrote(this); return o; }
    template <class U = T> VSI auto fetch_and(U v, memory_order m = memory_order_seq_cst) noexcept
        -> decltype(std::declval<std::atomic<U>&>().fetch_and(v, m)) {
        if (vs_tso_on) vs_tso_drain();
        vs_point(this, VSK_RMW); U o = a.fetch_and(v, m); if ((o & v) != o) vs_wrote(this); return o; }
    template <class U = T> VSI auto fetch_xor(U v, memory_order m = memory_order_seq_cst) noexcept
        -> decltype(std::declval<std::atomic<U>&>().fetch_xor(v, m)) {
        if (vs_tso_on) vs_tso_drain();
        vs_point(this, VSK_RMW); if (v != 0) vs_wrote(this); return a.fetch_xor(v, m); }
    template <class U = T> VSI auto operator++() noexcept -> decltype(std::declval<std::atomic<U>&>().fetch_add(1)) { return fetch_add(1) + 1; }
    template <class U = T> VSI auto operator++(int) noexcept -> decltype(std::declval<std::atomic<U>&>().fetch_add(1)) { return fetch_add(1); }
    template <class U = T> VSI auto operator--() noexcept -> decltype(std::declval<std::atomic<U>&>().fetch_sub(1)) { return fetch_sub(1) - 1; }
    template <class U = T> VSI auto operator--(int) noexcept -> decltype(std::declval<std::atomic<U>&>().fetch_sub(1)) { return fetch_sub(1); }
    template <class U = T> VSI auto operator+=(VS_ARITH_T v) noexcept -> decltype(std::declval<std::atomic<U>&>().fetch_add(v)) { return fetch_add(v) + v; }
    template <class U = T> VSI auto operator-=(VS_ARITH_T v) noexcept -> decltype(std::declval<std::atomic<U>&>().fetch_sub(v)) { return fetch_sub(v) - v; }
    template <class U = T> VSI auto operator|=(U v) noexcept -> decltype(std::declval<std::atomic<U>&>().fetch_or(v)) { return fetch_or(v) | v; }
    template <class U = T> VSI auto operator&=(U v) noexcept -> decltype(std::declval<std::atomic<U>&>().fetch_and(v)) { return fetch_and(v) & v; }
    template <class U = T> VSI auto operator^=(U v) noexcept -> decltype(std::declval<std::atomic<U>&>().fetch_xor(v)) { return fetch_xor(v) ^ v; }
#undef VS_ARITH_T
};

struct vs_atomic_flag {
    std::atomic<bool> f{false};
    vs_atomic_flag() noexcept = default;
    constexpr vs_atomic_flag(bool v) noexcept : f(v) {}
    vs_atomic_flag(const vs_atomic_flag&) = delete;
    vs_atomic_flag& operator=(const vs_atomic_flag&) = delete;
    VSI bool test_and_set(memory_order m = memory_order_seq_cst) noexcept {
        if (vs_tso_on) vs_tso_drain();
        vs_point(this, VSK_RMW); bool o = f.exchange(true, m); if (!o) vs_wrote(this); return o; }
    VSI void clear(memory_order m = memory_order_seq_cst) noexcept {
        bool v = false;
        if (vs_tso_on) { if (m != memory_order_seq_cst && vs_tso_store(this, &v, 1)) return; vs_tso_drain(); }
        vs_point(this, VSK_STORE); bool o = f.load(memory_order_relaxed); f.store(false, m); if (o) vs_wrote(this); }
};

VSI void vs_atomic_thread_fence(memory_order m) noexcept {
    if (vs_tso_on && m == memory_order_seq_cst) vs_tso_drain();
    vs_point(nullptr, VSK_FENCE);
    std::atomic_thread_fence(m);
}

namespace chrono {
struct vs_steady_clock {
    using rep = long long; using period = std::nano; using duration = std::chrono::nanoseconds;
    using time_point = std::chrono::time_point<vs_steady_clock>;
    static constexpr bool is_steady = true;
    static time_point now() noexcept { return time_point(duration((long long)vs_clock_ns())); }
};
}
} // namespace std

static VSI void vs_mm_pause() { vs_pause(); }

#define steady_clock        vs_steady_clock
#define atomic              vs_atomic
#define atomic_flag         vs_atomic_flag
#define atomic_thread_fence vs_atomic_thread_fence
#define this_thread         vs_this_thread
#define pthread_create      vs_pthread_create
#define pthread_join        vs_pthread_join
#define pthread_detach      vs_pthread_detach
#define syscall             vs_syscall
#define nanosleep           vs_nanosleep
#undef _mm_pause
#define _mm_pause           vs_mm_pause
#undef ATOMIC_FLAG_INIT
#define ATOMIC_FLAG_INIT    false
#endif // __cplusplus
