// vs_rt.cpp -- controlled ("baton") scheduler for the real oneTBB code.  Compiled WITHOUT the
// prelude.  Real pthreads; exactly one holds the baton, all others are parked on a private futex
// word.  Every decision is a pure function of the schedule descriptor (strategy, parameters,
// seed, optional explicit tape) and of the code under test (ASLR off, virtual time).
#include <atomic>
#include <vector>
#include <string>
#include <map>
#include <unordered_set>
#include <functional>
#include <cstdio>
#include <cstdlib>
#include <cstdint>
#include <cstdarg>
#include <cstring>
#include <cerrno>
#include <climits>
#include <pthread.h>
#include <unistd.h>
#include <signal.h>
#include <sys/syscall.h>
#include <linux/futex.h>
#include <time.h>
#include "vs_api.h"
#include <dlfcn.h>
#include <sys/mman.h>

enum { VSK_LOAD = 0, VSK_STORE = 1, VSK_RMW = 2, VSK_FENCE = 3, VSK_YIELD = 4, VSK_SPAWN = 5,
       VSK_FWAIT = 6, VSK_FWAKE = 7, VSK_WORK = 8, VSK_PAUSE = 9, VSK_BLOCK = 10 };
enum { RUN = 0, BFUTEX = 1, BJOIN = 2, BPRED = 3, FINISHED = 4 };
enum { S_WALK = 0, S_PCT = 1, S_POS = 2, S_TAPE = 3 };
enum { E_WAKE = 0, E_START = 1, E_FIRSTPC = 2, E_SBLOAD = 3, E_CONFLICT = 4, E_RMW = 5, E_FWAKE = 6, E_NCLS = 7 };
static const char* ev_names[E_NCLS] = { "wake", "start", "firstpc", "sbload", "conflict", "rmw", "fwake" };

struct SB { void* addr; unsigned sz; unsigned char val[8]; int age; uint64_t born; };
struct Th {
    int id = 0; int st = RUN; std::atomic<int> go{0};
    const void* waddr = nullptr; int jt = -1; const std::function<bool()>* pred = nullptr;
    const void* paddr = nullptr; int pkind = 0;
    uint64_t prio = 0;
    long stall = 0;
    long yields = 0; uint64_t yield_epoch = 0;
    bool scenario = false; int pause_run = 0;
    int wake_pts = 0, start_pts = 3;
    uint64_t first_yield = 1;
    uint64_t last_ran = 0;            // decision count when this thread last held the baton (fairness)
    SB sb[64]; int nsb = 0;
    pthread_t h{};
    void (*sfn)(void*) = nullptr; void* (*pfn)(void*) = nullptr; void* arg = nullptr;
    std::unordered_set<uintptr_t>* pcs = nullptr;
};
struct StallSpec { int cls; long idx; long dur; };

static Th* ths[512]; static int nth = 0;
static bool active = false;
static thread_local Th* me = nullptr;
extern "C" { int vs_tso_on = 0; }

// configuration
static int strat = S_WALK; static unsigned walk_p = 8; /* switch probability = 1/walk_p */
static int pct_d = 2; static long est_steps = 3000;
static uint64_t rng = 88172645463325252ull, rng2 = 0x9E3779B97F4A7C15ull;
static int tso_window = 4; static unsigned tso_flushp = 16; static long tso_gwindow = 200; static long total_sb = 0;   /* gwindow: a buffered store retires after that many global decisions even if its owner does not run (a real store buffer drains on its own) */ /* random flush: 1/tso_flushp per point */
static StallSpec stalls[4]; static int nstall = 0;
static long step_budget = 2000000; static long fix_threshold = 20000;
static uint64_t decisions = 0;
static std::vector<int> tape; static size_t tape_pos = 0; static bool record = false;
static std::vector<int> rec;
static long pct_change[8]; static int pct_low = 0; static long consec = 0;

// statistics
static uint64_t steps = 0, switches = 0, lclock = 0, write_epoch = 1;
static long n_fblocked = 0, n_fwoken = 0, n_created = 0, ev_count[E_NCLS];
static std::map<std::string, long> stats; static std::string cls_flags;
static struct { const void* a; int t; } recent[16]; static unsigned recent_i = 0;
static int solo = -1; static long solo_limit = 0, solo_steps = 0; static bool solo_broken = false;
static void (*h_deadlock)(const char*) = nullptr; static void (*h_fixpoint)(const char*) = nullptr; static void (*h_budget)(const char*) = nullptr;
static uint64_t vtime = 1000000; static unsigned long long vclock = 1000000000ull;

struct TraceE { int t, kind; uintptr_t pc; const void* a; uint64_t we; };
static TraceE* trace_ring = nullptr; static uint64_t trace_n = 0; static const unsigned TRACE_SZ = 400; static bool trace_dump_on = false;
static void trace_dump() {
    if (!trace_ring || !trace_dump_on) return;
    uint64_t from = trace_n > TRACE_SZ ? trace_n - TRACE_SZ : 0;
    for (uint64_t i = from; i < trace_n; i++) { TraceE& e = trace_ring[i % TRACE_SZ]; Dl_info di; const char* sn = "?"; unsigned long off = 0;
        if (e.pc && dladdr((void*)e.pc, &di) && di.dli_sname) { sn = di.dli_sname; off = e.pc - (uintptr_t)di.dli_saddr; }
        fprintf(stderr, "TR %lu t%d k%d a=%p we=%lu %s+%lu\n", (unsigned long)i, e.t, e.kind, e.a, (unsigned long)e.we, sn, off); }
}
static uint64_t rnd() { rng ^= rng << 13; rng ^= rng >> 7; rng ^= rng << 17; return rng; }
static uint64_t rnd2() { rng2 ^= rng2 << 13; rng2 ^= rng2 >> 7; rng2 ^= rng2 << 17; return rng2; }

static void fwait(std::atomic<int>* a) {
    while (a->load(std::memory_order_acquire) == 0) syscall(SYS_futex, a, FUTEX_WAIT_PRIVATE, 0, nullptr, nullptr, 0);
    a->store(0, std::memory_order_relaxed);
}
static void fwake(std::atomic<int>* a) {
    a->store(1, std::memory_order_release);
    syscall(SYS_futex, a, FUTEX_WAKE_PRIVATE, 1, nullptr, nullptr, 0);
}

// ---------------------------------------------------------------------------------------------
// result output
// ---------------------------------------------------------------------------------------------
static void out(const char* s) { size_t n = strlen(s); while (n) { ssize_t w = write(1, s, n); if (w <= 0) break; s += w; n -= (size_t)w; } }
static void emit_stats() {
    char b[512]; std::string s = "S";
    snprintf(b, sizeof b, " steps=%lu switches=%lu threads=%d fblocked=%ld fwoken=%ld", (unsigned long)steps, (unsigned long)switches, nth, n_fblocked, n_fwoken); s += b;
    for (int i = 0; i < E_NCLS; i++) { snprintf(b, sizeof b, " ev_%s=%ld", ev_names[i], ev_count[i]); s += b; }
    for (auto& kv : stats) { snprintf(b, sizeof b, " %s=%ld", kv.first.c_str(), kv.second); s += b; }
    if (!cls_flags.empty()) s += " cls=" + cls_flags;
    s += "\n"; out(s.c_str());
    if (record) {
        std::string t = "T";
        for (size_t i = 0; i < rec.size();) { size_t j = i; while (j < rec.size() && rec[j] == rec[i]) j++; snprintf(b, sizeof b, " %d*%zu", rec[i], j - i); t += b; i = j; }
        t += "\n"; out(t.c_str());
    }
}
static std::string state_dump() {
    std::string s; char b[128]; static const char* nm[] = { "run", "futex", "join", "pred", "fin" };
    for (int i = 0; i < nth && i < 24; i++) { snprintf(b, sizeof b, " t%d%s:%s", i, ths[i]->scenario ? "*" : "", nm[ths[i]->st]); s += b; }
    return s;
}
static void sanitize(char* p) { for (; *p; p++) if (*p == '\n' || *p == '\r') *p = ' '; }
[[noreturn]] static void finish(const char* verdict, const char* kind, const char* detail) {
    active = false; trace_dump();
    char b[2048]; snprintf(b, sizeof b, "R %s %s %s", verdict, kind, detail); sanitize(b); out(b); out("\n");
    emit_stats();
    _exit(0);
}
extern "C" void vs_ok(void) { finish("OK", "-", "-"); }
extern "C" void vs_violation(const char* kind, const char* fmt, ...) {
    active = false; char d[1500]; va_list ap; va_start(ap, fmt); vsnprintf(d, sizeof d, fmt, ap); va_end(ap); finish("VIOLATION", kind, d);
}
extern "C" void vs_inconclusive(const char* why, const char* fmt, ...) {
    active = false; char d[1500]; va_list ap; va_start(ap, fmt); vsnprintf(d, sizeof d, fmt, ap); va_end(ap); finish("INCONCLUSIVE", why, d);
}
extern "C" void vs_on_deadlock(void (*h)(const char*)) { h_deadlock = h; }
extern "C" void vs_on_fixpoint(void (*h)(const char*)) { h_fixpoint = h; }
// called when the step budget is exhausted, before the run is closed as inconclusive: a harness that knows an exact progress obligation (e.g. "resume() was
// called a million decision points ago and the task has not continued") may report a violation from here
extern "C" void vs_on_budget(void (*h)(const char*)) { h_budget = h; }
extern "C" void vs_stat_add(const char* k, long v) { stats[k] += v; }
extern "C" void vs_stat_max(const char* k, long v) { auto& r = stats[k]; if (v > r) r = v; }
extern "C" void vs_stat_flag(const char* c) {
    std::string s = "," + cls_flags + ","; if (s.find(std::string(",") + c + ",") != std::string::npos) return;
    if (!cls_flags.empty()) cls_flags += ","; cls_flags += c;
}

[[noreturn]] static void deadlock() {
    active = false;
    std::string d = "no runnable thread;" + state_dump(); char b[64]; snprintf(b, sizeof b, " steps=%lu", (unsigned long)steps); d += b;
    if (h_deadlock) { h_deadlock(d.c_str()); }
    finish("VIOLATION", "DEADLOCK", d.c_str());
}
// Read-only livelock: the step budget ran out, and for the last >= 500000 decision points no thread has written a value anywhere while the running
// threads kept reading the same few (<= 256) locations.  With memory frozen such a loop cannot end (the spin fix-point above needs yields / pauses in
// the loop; a probe loop over a full hash table, say, has none).  Anything else that exhausts the budget stays inconclusive.
static uint64_t last_write_step = 0; static std::unordered_set<const void*>* ro_addrs = nullptr; static bool ro_overflow = false;
static inline void note_write() { write_epoch++; last_write_step = steps; ro_overflow = false; if (ro_addrs) ro_addrs->clear(); }
static bool read_only_livelock() { return steps - last_write_step >= 500000 && !ro_overflow; }
[[noreturn]] static void livelock() {
    active = false;
    std::string d = "no thread has written anything for the last " + std::to_string((unsigned long)(steps - last_write_step)) + " decision points while the running threads kept reading " + std::to_string(ro_addrs ? ro_addrs->size() : 0) + " locations;" + state_dump();
    if (h_fixpoint) { h_fixpoint(d.c_str()); }
    finish("VIOLATION", "SPIN-FIXPOINT", d.c_str());
}
[[noreturn]] static void fixpoint() {
    active = false;
    std::string d = "all live threads spin without any write;" + state_dump(); char b[64]; snprintf(b, sizeof b, " steps=%lu", (unsigned long)steps); d += b;
    if (h_fixpoint) { h_fixpoint(d.c_str()); }
    finish("VIOLATION", "SPIN-FIXPOINT", d.c_str());
}

// ---------------------------------------------------------------------------------------------
// TSO store buffers
// ---------------------------------------------------------------------------------------------
static void flush_one(Th* t) {
    SB& e = t->sb[0]; bool changed = false;
    switch (e.sz) {
    case 1: { uint8_t v; memcpy(&v, e.val, 1); changed = __atomic_exchange_n((uint8_t*)e.addr, v, __ATOMIC_SEQ_CST) != v; break; }
    case 2: { uint16_t v; memcpy(&v, e.val, 2); changed = __atomic_exchange_n((uint16_t*)e.addr, v, __ATOMIC_SEQ_CST) != v; break; }
    case 4: { uint32_t v; memcpy(&v, e.val, 4); changed = __atomic_exchange_n((uint32_t*)e.addr, v, __ATOMIC_SEQ_CST) != v; break; }
    case 8: { uint64_t v; memcpy(&v, e.val, 8); changed = __atomic_exchange_n((uint64_t*)e.addr, v, __ATOMIC_SEQ_CST) != v; break; }
    }
    if (changed) note_write();
    for (int i = 1; i < t->nsb; i++) t->sb[i - 1] = t->sb[i];
    t->nsb--; total_sb--;
}
extern "C" void vs_tso_drain(void) { if (!me) return; while (me->nsb) flush_one(me); }
extern "C" void vs_tso_drain_obj(const void* addr, unsigned sz) {
    if (!me || !me->nsb) return;
    for (int i = 0; i < me->nsb; i++) { char* a = (char*)me->sb[i].addr; if (a >= (char*)addr && a < (char*)addr + sz) { vs_tso_drain(); return; } }
}
extern "C" void vs_point(const void* addr, int kind);
extern "C" int vs_tso_store(void* addr, const void* val, unsigned sz) {
    if (!active || !me || !vs_tso_on) return 0;
    if (sz != 1 && sz != 2 && sz != 4 && sz != 8) return 0;
    vs_point(addr, VSK_STORE);
    if (me->nsb == 64) flush_one(me);
    SB& e = me->sb[me->nsb++]; e.addr = addr; e.sz = sz; memcpy(e.val, val, sz); e.age = 0; e.born = decisions; total_sb++;
    return 1;
}
extern "C" int vs_tso_load(const void* addr, void* out_, unsigned sz) {
    if (!me || !me->nsb) return 0;
    int hit = 0;
    for (int i = me->nsb - 1; i >= 0; i--) if (me->sb[i].addr == addr && me->sb[i].sz == sz) { memcpy(out_, me->sb[i].val, sz); hit = 1; break; }
    for (int i = 0; i < me->nsb; i++) me->sb[i].age++;
    while (me->nsb && me->sb[0].age > tso_window) flush_one(me);
    return hit;
}

// ---------------------------------------------------------------------------------------------
// picking the next thread
// ---------------------------------------------------------------------------------------------
static bool conflicts(Th* a, Th* b) {
    if (!a->paddr || a->paddr != b->paddr) return false;
    auto w = [](int k) { return k == VSK_STORE || k == VSK_RMW || k == VSK_FWAKE; };
    return w(a->pkind) || w(b->pkind);
}
static int pick(int kind) {
    // harness predicates of blocked threads are re-evaluated by the baton holder
    for (int i = 0; i < nth; i++) if (ths[i]->st == BPRED && ths[i]->pred && (*ths[i]->pred)()) { ths[i]->st = RUN; ths[i]->last_ran = decisions; }
    if (solo >= 0) {
        if (ths[solo]->st == RUN) return solo;
        solo_broken = true; solo = -1;     // solo thread had to block: release everybody
    }
    int el[512], n = 0, nrun = 0;
    for (int i = 0; i < nth; i++) if (ths[i]->st == RUN) { nrun++; if (ths[i]->stall <= 0) el[n++] = i; }
    if (nrun == 0) deadlock();
    for (int i = 0; i < nth; i++) if (ths[i]->stall > 0) ths[i]->stall--;
    if (n == 0) { for (int i = 0; i < nth; i++) if (ths[i]->st == RUN) { ths[i]->stall = 0; el[n++] = i; } }
    bool yielding = (kind == VSK_YIELD || kind == VSK_PAUSE);
    // fairness: a thread that ran 1000 consecutive points while others were runnable (an RMW-only retry loop) gives way
    if (me && n > 1 && ++consec > 1000) { yielding = true; consec = 0; }
    bool me_ok = me && me->st == RUN && me->stall <= 0;
    int chosen = -1;
    // global fairness: a runnable, un-stalled thread that has not run for 4000 decisions goes next (priority strategies
    // can otherwise starve a non-spinning thread behind several spinners for the whole step budget)
    ++decisions; if (me) me->last_ran = decisions;
    if (total_sb > 0 && tso_gwindow > 0) for (int i = 0; i < nth; i++) while (ths[i]->nsb && decisions - ths[i]->sb[0].born > (uint64_t)tso_gwindow) flush_one(ths[i]);
    if (strat != S_TAPE && tape_pos >= tape.size()) for (int i = 0; i < n; i++) if (decisions - ths[el[i]]->last_ran > 4000 && (!me || el[i] != me->id)) { chosen = el[i]; break; }
    if (chosen >= 0) { if (record) rec.push_back(chosen); return chosen; }
    if (strat == S_TAPE || tape_pos < tape.size()) {
        if (tape_pos < tape.size()) { int t = tape[tape_pos++]; if (t >= 0 && t < nth && ths[t]->st == RUN) chosen = t; }
        if (chosen < 0) {     // tape exhausted or infeasible: stay, else lowest id; a yielding thread gives way
            if (me_ok && !yielding) chosen = me->id;
            else { for (int i = 0; i < n; i++) if (!me || el[i] != me->id) { chosen = el[i]; break; } if (chosen < 0) chosen = el[0]; }
        }
    } else if (strat == S_PCT) {
        if (yielding && me_ok) me->prio = (uint64_t)(--pct_low) + (1ull << 20);   // demote a spinner below everybody
        for (int i = 0; i < pct_d - 1; i++) if ((long)steps == pct_change[i] && me_ok) me->prio = (uint64_t)(--pct_low) + (1ull << 20);
        uint64_t bp = 0;
        for (int i = 0; i < n; i++) if (chosen < 0 || ths[el[i]]->prio > bp) { chosen = el[i]; bp = ths[el[i]]->prio; }
    } else if (strat == S_POS) {
        uint64_t bp = 0;
        for (int i = 0; i < n; i++) { if (yielding && me && el[i] == me->id && n > 1) continue; if (chosen < 0 || ths[el[i]]->prio > bp) { chosen = el[i]; bp = ths[el[i]]->prio; } }
        Th* b = ths[chosen];
        for (int i = 0; i < n; i++) if (el[i] != chosen && conflicts(b, ths[el[i]])) ths[el[i]]->prio = (rnd() >> 16) | (1ull << 48);
    } else { // walk
        if (me_ok && !yielding && (n == 1 || rnd() % walk_p != 0)) chosen = me->id;
        else if (n == 1) chosen = el[0];
        else if (me_ok) { int k; do { k = el[rnd() % n]; } while (k == me->id); chosen = k; }
        else chosen = el[rnd() % n];
    }
    if (record) rec.push_back(chosen);
    return chosen;
}
static void switch_to(int n) {
    if (me && n == me->id) return;
    switches++; consec = 0;
    Th* self = me;
    fwake(&ths[n]->go);
    fwait(&self->go);
}

static void event(int cls) {
    long c = ++ev_count[cls];
    for (int i = 0; i < nstall; i++) if (stalls[i].cls == cls && stalls[i].idx == c) me->stall = stalls[i].dur;
}

static void point_pc(const void* addr, int kind, uintptr_t pc) {
    if (!active || !me) return;
    if (kind == VSK_PAUSE) { if (me->pause_run > 0 && me->pause_run < 64) { me->pause_run++; return; } me->pause_run = 1; }
    else me->pause_run = 0;
    steps++;
    if (trace_ring) trace_ring[trace_n++ % TRACE_SZ] = { me->id, kind, pc, addr, write_epoch };
    if (addr && !ro_overflow) { if (!ro_addrs) ro_addrs = new std::unordered_set<const void*>(); if (ro_addrs->size() <= 256) ro_addrs->insert(addr); else ro_overflow = true; }
    if (steps > (uint64_t)step_budget) { if (read_only_livelock()) livelock(); active = false; if (h_budget) h_budget(state_dump().c_str()); finish("INCONCLUSIVE", "STEP-BUDGET", state_dump().c_str()); }
    // event classes (directed stalls)
    if (me->wake_pts > 0) { me->wake_pts--; event(E_WAKE); }
    if (me->start_pts > 0) { me->start_pts--; event(E_START); }
    if (kind == VSK_RMW) event(E_RMW);
    if (kind == VSK_FWAKE) event(E_FWAKE);
    if (kind <= VSK_RMW && addr) {
        if (!me->pcs) me->pcs = new std::unordered_set<uintptr_t>();
        if (me->pcs->insert(pc).second) event(E_FIRSTPC);
        bool conf = false;
        for (unsigned i = 0; i < 16; i++) if (recent[i].a == addr && recent[i].t != me->id) conf = true;
        if (conf) event(E_CONFLICT);
        recent[recent_i++ & 15] = { addr, me->id };
        if (kind == VSK_LOAD && me->nsb > 0) { bool same = false; for (int i = 0; i < me->nsb; i++) if (me->sb[i].addr == addr) same = true; if (!same) event(E_SBLOAD); }
    }
    if (me->nsb && tso_flushp && rnd2() % tso_flushp == 0) flush_one(me);
    // spin fix-point detection
    if (kind == VSK_YIELD || kind == VSK_PAUSE) {
        if (!me->first_yield) me->first_yield = ++lclock;
        if (me->yield_epoch != write_epoch) { me->yield_epoch = write_epoch; me->yields = 0; }
        if (++me->yields >= fix_threshold) {
            bool all = true;
            for (int i = 0; i < nth; i++) { Th* t = ths[i]; if (t->nsb) all = false; if (t->st == RUN && (t->yield_epoch != write_epoch || t->yields < fix_threshold)) all = false; }
            if (all) fixpoint();
        }
    }
    if (solo >= 0 && solo == me->id) { if (++solo_steps > solo_limit) { solo_broken = true; solo = -1; } }
    me->paddr = addr; me->pkind = kind;
    if (strat == S_POS) me->prio = (rnd() >> 16) | (1ull << 48);
    switch_to(pick(kind));
}
extern "C" void vs_point(const void* addr, int kind) { point_pc(addr, kind, (uintptr_t)__builtin_return_address(0)); }
extern "C" void vs_wrote(const void*) { note_write(); }
// single-threaded phases run with the scheduler off (billions of cheap points); a spin that yields `limit` times
// in a row without any value-changing write by the only running thread is still an exact fix-point
static long inactive_limit = 0, inactive_cnt = 0; static uint64_t inactive_epoch = 0;
extern "C" void vs_inactive_spin_limit(long n) { inactive_limit = n; inactive_cnt = 0; }
static void inactive_yield() {
    if (inactive_limit > 0) { if (inactive_epoch != write_epoch) { inactive_epoch = write_epoch; inactive_cnt = 0; } if (++inactive_cnt > inactive_limit) fixpoint(); }
}
extern "C" void vs_yield(void) { if (!active || !me) { inactive_yield(); sched_yield(); return; } if (vs_tso_on) vs_tso_drain(); point_pc(nullptr, VSK_YIELD, 0); }
extern "C" void vs_pause(void) { if (!active || !me) { inactive_yield(); __builtin_ia32_pause(); return; } if (vs_tso_on) vs_tso_drain(); point_pc(nullptr, VSK_PAUSE, 0); }
extern "C" void vs_work(int k) { for (int i = 0; i < k; i++) point_pc(nullptr, VSK_WORK, 0); }
extern "C" uint64_t vs_now(void) { return ++lclock; }
extern "C" void vs_first_yield_reset(void) { if (me) me->first_yield = 0; }
extern "C" uint64_t vs_first_yield(void) { return me ? me->first_yield : 0; }
extern "C" uint64_t vs_steps(void) { return steps; }
extern "C" int vs_self(void) { return me ? me->id : -1; }
extern "C" int vs_active(void) { return active; }
extern "C" int vs_nthreads(void) { return nth; }
extern "C" int vs_thread_state(int id) { return ths[id]->st; }
extern "C" int vs_is_scenario_thread(int id) { return id >= 0 && id < nth && ths[id]->scenario; }
extern "C" long vs_futex_blocked_total(void) { return n_fblocked; }
extern "C" long vs_futex_woken_total(void) { return n_fwoken; }
extern "C" int vs_blocked_count(void) { int c = 0; for (int i = 0; i < nth; i++) if (ths[i]->st == BFUTEX) c++; return c; }

// ---------------------------------------------------------------------------------------------
// blocking primitives
// ---------------------------------------------------------------------------------------------
static void block_and_switch() {          // caller has set me->st to a blocked state
    if (vs_tso_on) vs_tso_drain();
    int n = pick(VSK_BLOCK);
    if (me->st == RUN && n == me->id) return;   // own predicate became true during pick
    switch_to(n);
}
void vs_block_until(const std::function<bool()>& pred) {
    if (!active || !me) { while (!pred()) sched_yield(); return; }
    while (!pred()) { me->st = BPRED; me->pred = &pred; block_and_switch(); me->pred = nullptr; }
}
extern "C" void vs_wait_quiescent(void) {
    if (!active || !me) return;
    Th* self = me;
    std::function<bool()> q = [self]() { for (int i = 0; i < nth; i++) if (ths[i] != self && ths[i]->st == RUN) return false; return true; };
    vs_block_until(q);
}
extern "C" void vs_solo_begin(long limit) { if (!active || !me) return; solo = me->id; solo_limit = limit; solo_steps = 0; solo_broken = false; }
extern "C" int vs_solo_end(void) { solo = -1; return solo_broken ? 1 : 0; }

static void thread_finished() {           // runs on the finishing thread, baton held
    if (vs_tso_on) vs_tso_drain();
    me->st = FINISHED;
    for (int i = 0; i < nth; i++) if (ths[i]->st == BJOIN && ths[i]->jt == me->id) { ths[i]->st = RUN; ths[i]->last_ran = decisions; }
    if (active) { int n = pick(VSK_BLOCK); switches++; fwake(&ths[n]->go); }
    for (;;) pause();                      // threads never exit inside a case (no key destructors outside the baton)
}
static void* tramp(void* p) {
    Th* t = (Th*)p; me = t;
    fwait(&t->go);
    if (t->sfn) t->sfn(t->arg); else t->pfn(t->arg);
    thread_finished();
    return nullptr;
}
static Th* new_thread() {
    if (nth >= 500) finish("INCONCLUSIVE", "TOO-MANY-THREADS", "-");
    Th* t = new Th; t->id = nth; t->st = RUN; t->last_ran = decisions; t->prio = (rnd() >> 16) | (1ull << 48);
    if (strat == S_PCT) t->prio = (rnd() >> 16) | (1ull << 48);
    ths[nth++] = t; n_created++;
    return t;
}
static void start_real(Th* t, const pthread_attr_t* a) {
    pthread_attr_t la; bool own = false;
    if (!a) { pthread_attr_init(&la); pthread_attr_setstacksize(&la, 1 << 20); a = &la; own = true; }
    int e = pthread_create(&t->h, a, tramp, t);
    if (own) pthread_attr_destroy(&la);
    if (e) finish("INCONCLUSIVE", "PTHREAD-CREATE", strerror(e));
}
extern "C" int vs_thread_start(void (*fn)(void*), void* arg) {
    if (!active || !me) { fprintf(stderr, "vs_thread_start outside vs_begin\n"); abort(); }
    if (vs_tso_on) vs_tso_drain();
    Th* t = new_thread(); t->scenario = true; t->sfn = fn; t->arg = arg;
    start_real(t, nullptr);
    point_pc(nullptr, VSK_SPAWN, 0);
    return t->id;
}
extern "C" int vs_thread_finished(int id) { return ths[id]->st == FINISHED; }
extern "C" void vs_thread_join(int id) {
    if (!active || !me) return;
    while (ths[id]->st != FINISHED) { me->st = BJOIN; me->jt = id; block_and_switch(); }
}
extern "C" int vs_pthread_create(pthread_t* h, const pthread_attr_t* a, void* (*fn)(void*), void* arg) {
    if (!active || !me) return pthread_create(h, a, fn, arg);
    if (vs_tso_on) vs_tso_drain();
    Th* t = new_thread(); t->pfn = fn; t->arg = arg;
    start_real(t, a); *h = t->h;
    point_pc(nullptr, VSK_SPAWN, 0);
    return 0;
}
extern "C" int vs_pthread_join(pthread_t h, void** r) {
    if (active && me) {
        for (int i = 0; i < nth; i++) if (ths[i] != me && pthread_equal(ths[i]->h, h)) {
            while (ths[i]->st != FINISHED) { me->st = BJOIN; me->jt = i; block_and_switch(); }
            if (r) *r = nullptr;
            return 0;                      // the real thread stays parked; it is reaped by _exit
        }
    }
    return pthread_join(h, r);
}
extern "C" int vs_pthread_detach(pthread_t h) {
    for (int i = 0; i < nth; i++) if (pthread_equal(ths[i]->h, h)) return 0;
    return pthread_detach(h);
}
extern "C" int vs_nanosleep(const struct timespec* a, struct timespec* b) {
    if (!active || !me) return nanosleep(a, b);
    vs_yield(); return 0;
}
extern "C" long vs_syscall(long no, ...) {
    va_list ap; va_start(ap, no);
    long a1 = va_arg(ap, long), a2 = va_arg(ap, long), a3 = va_arg(ap, long), a4 = va_arg(ap, long), a5 = va_arg(ap, long), a6 = va_arg(ap, long);
    va_end(ap);
    if (no == SYS_futex && active && me) {
        if (vs_tso_on) vs_tso_drain();
        int op = (int)a2 & ~FUTEX_PRIVATE_FLAG; int* addr = (int*)a1;
        if (op == FUTEX_WAIT) {
            point_pc(addr, VSK_FWAIT, 0);
            if (__atomic_load_n(addr, __ATOMIC_SEQ_CST) != (int)a3) { errno = EAGAIN; return -1; }
            n_fblocked++;
            me->st = BFUTEX; me->waddr = addr;
            block_and_switch();
            me->wake_pts = 3;
            return 0;
        }
        if (op == FUTEX_WAKE) {
            point_pc(addr, VSK_FWAKE, 0);
            int n = 0;
            for (int i = 0; i < nth && n < (int)a3; i++) if (ths[i]->st == BFUTEX && ths[i]->waddr == addr) { ths[i]->st = RUN; ths[i]->last_ran = decisions; n++; n_fwoken++; }
            if (n) note_write();
            return n;
        }
    }
    return syscall(no, a1, a2, a3, a4, a5, a6);
}
extern "C" unsigned long long vs_clock_ns(void) {
    if (!active || !me) { struct timespec ts; clock_gettime(CLOCK_MONOTONIC, &ts); return (unsigned long long)ts.tv_sec * 1000000000ull + ts.tv_nsec; }
    vclock += 100000; return vclock;
}
// the one guarded hook in /repo (src/tbb/scheduler_common.h machine_time_stamp)
static uint64_t time_hook() { vtime += 500; return vtime; }
extern "C" { uint64_t (*onetbb_verif_time_hook)() = nullptr; }
// set by a harness that wants to know when task_arena::execute hands its functor over as an enqueued task (no free slot)
extern "C" { void (*onetbb_verif_execute_delegated_hook)(const void*) = nullptr; }

// ---------------------------------------------------------------------------------------------
// begin / end
// ---------------------------------------------------------------------------------------------
// allocation-free parsing of the schedule descriptor: the heap layout of a case must not depend on its sched line
static const char* kv_find(const char* line, const char* key) {
    size_t kl = strlen(key);
    for (const char* p = line; *p; p++) if ((p == line || p[-1] == ' ') && !strncmp(p, key, kl) && p[kl] == '=') return p + kl + 1;
    return nullptr;
}
static long kv_long(const char* line, const char* key, long def) { const char* v = kv_find(line, key); return v ? atol(v) : def; }
static bool kv_is(const char* line, const char* key, const char* val, bool def) {
    const char* v = kv_find(line, key); if (!v) return def; size_t n = strlen(val); return !strncmp(v, val, n) && (v[n] == 0 || v[n] == ' ');
}
static void on_alarm(int) { static const char m[] = "R INCONCLUSIVE WATCHDOG wall-clock\n"; ssize_t w = write(1, m, sizeof m - 1); (void)w; _exit(0); }

extern "C" void vs_begin(const char* line) {
    strat = kv_is(line, "strat", "pct", false) ? S_PCT : kv_is(line, "strat", "pos", false) ? S_POS : kv_is(line, "strat", "tape", false) ? S_TAPE : S_WALK;
    walk_p = (unsigned)kv_long(line, "p", 8); if (walk_p < 1) walk_p = 1;
    pct_d = (int)kv_long(line, "d", 2); if (pct_d > 8) pct_d = 8;
    est_steps = kv_long(line, "est", 3000); if (est_steps < 10) est_steps = 10;
    uint64_t seed = (uint64_t)kv_long(line, "seed", 1);
    rng = seed * 2654435761u + 88172645463325252ull; rng2 = seed * 0x9E3779B97F4A7C15ull + 12345; if (!rng) rng = 1; if (!rng2) rng2 = 1;
    for (int i = 0; i < 8; i++) { rnd(); rnd2(); }
    vs_tso_on = kv_is(line, "mem", "tso", false) ? 1 : 0;
    tso_window = (int)kv_long(line, "w", 4); tso_flushp = (unsigned)kv_long(line, "fp", 16); tso_gwindow = kv_long(line, "gw", 200);
    step_budget = kv_long(line, "budget", 2000000); fix_threshold = kv_long(line, "fix", 20000);
    record = kv_long(line, "record", 0) != 0;
    // the trace ring always exists (mmap, not heap) and is always filled; it is dumped on a non-OK verdict when asked for
    trace_ring = (TraceE*)mmap(nullptr, sizeof(TraceE) * TRACE_SZ, PROT_READ | PROT_WRITE, MAP_PRIVATE | MAP_ANONYMOUS, -1, 0);
    if (trace_ring == MAP_FAILED) trace_ring = nullptr;
    trace_dump_on = kv_long(line, "trace", 0) != 0 || getenv("VS_TRACE_DUMP") != nullptr;
    nstall = 0;
    if (const char* sl = kv_find(line, "stall")) {   // cls:idx:dur[,cls:idx:dur...]
        while (*sl && *sl != ' ' && nstall < 4) {
            char cn[32]; long idx, dur; int used = 0;
            if (sscanf(sl, "%31[^:]:%ld:%ld%n", cn, &idx, &dur, &used) < 3) break;
            for (int c = 0; c < E_NCLS; c++) if (!strcmp(cn, ev_names[c])) stalls[nstall++] = { c, idx, dur };
            sl += used; if (*sl == ',') sl++;
        }
    }
    if (const char* tp = kv_find(line, "tape")) {    // id*count,id*count
        while (*tp && *tp != ' ') { int id; long cnt = 1; int used = 0; if (sscanf(tp, "%d*%ld%n", &id, &cnt, &used) < 2) break; for (long i = 0; i < cnt; i++) tape.push_back(id); tp += used; if (*tp == ',') tp++; }
    }
    for (int i = 0; i < pct_d - 1 && i < 8; i++) pct_change[i] = (long)(rnd() % (uint64_t)est_steps);
    signal(SIGALRM, on_alarm); alarm((unsigned)kv_long(line, "wall", 20));
    onetbb_verif_time_hook = time_hook;
    me = new Th; me->id = 0; me->st = RUN; me->scenario = true; me->h = pthread_self(); me->prio = (rnd() >> 16) | (1ull << 48);
    ths[0] = me; nth = 1; active = true;
}
extern "C" void vs_end(void) { if (vs_tso_on && me) vs_tso_drain(); active = false; }

// Function-local statics: libstdc++'s __cxa_guard_acquire blocks on a real futex when another thread is inside the
// initialiser -- with the baton held that is a real deadlock.  Guard calls from the instrumented objects are wrapped
// (-Wl,--wrap): under the baton a second thread yields until the first one has finished the initialisation.
extern "C" {
int __real___cxa_guard_acquire(long long*); void __real___cxa_guard_release(long long*); void __real___cxa_guard_abort(long long*);
static long long* guard_busy[64]; static int guard_owner[64]; static int n_guard_busy = 0;
int __wrap___cxa_guard_acquire(long long* g) {
    if (!active || !me) return __real___cxa_guard_acquire(g);
    for (;;) {
        if (*(volatile char*)g) return 0;
        int k = -1; for (int i = 0; i < n_guard_busy; i++) if (guard_busy[i] == g) k = i;
        if (k < 0) { if (n_guard_busy < 64) { guard_busy[n_guard_busy] = g; guard_owner[n_guard_busy++] = me->id; } return 1; }
        if (guard_owner[k] == me->id) return 1;      // recursive entry is undefined; do not hang
        vs_yield();
    }
}
static void guard_forget(long long* g) { for (int i = 0; i < n_guard_busy; i++) if (guard_busy[i] == g) { guard_busy[i] = guard_busy[n_guard_busy - 1]; guard_owner[i] = guard_owner[n_guard_busy - 1]; n_guard_busy--; return; } }
void __wrap___cxa_guard_release(long long* g) {
    bool mine = false; for (int i = 0; i < n_guard_busy; i++) if (guard_busy[i] == g) mine = true;
    if (!mine) { __real___cxa_guard_release(g); return; }
    __atomic_store_n((char*)g, 1, __ATOMIC_RELEASE); guard_forget(g);
}
void __wrap___cxa_guard_abort(long long* g) {
    bool mine = false; for (int i = 0; i < n_guard_busy; i++) if (guard_busy[i] == g) mine = true;
    if (!mine) { __real___cxa_guard_abort(g); return; }
    guard_forget(g);
}
}

// TSO: a delayed store must never land in memory its owner already freed (linked with -Wl,--wrap)
extern "C" {
void __real_free(void*);
void __wrap_free(void* p) { if (vs_tso_on && me && me->nsb) vs_tso_drain(); __real_free(p); }
}
