// vs_api.h -- harness-side API of the controlled scheduler (vs_rt.cpp).
#pragma once
#include <cstdint>
#include <functional>
#include <string>

extern "C" {
// Parse a schedule descriptor ("strat=walk p=8 seed=5 mem=sc ...") and take the baton: the calling
// thread becomes scenario thread 0.  Must be called before oneTBB is first touched.
void vs_begin(const char* sched_line);
// Release control: every later vs_point is a no-op (other threads stay parked for ever).
void vs_end(void);
int  vs_active(void);
// after vs_end(), while the caller is the only running thread: treat `n` consecutive yields/pauses without any
// value-changing atomic write as a SPIN-FIXPOINT (0 = off)
void vs_inactive_spin_limit(long n);
// k decision points of "time" on the calling thread.
void vs_work(int k);
// strictly increasing logical clock (consistent with real order: only the baton holder runs)
uint64_t vs_now(void);
uint64_t vs_steps(void);
void vs_on_budget(void (*h)(const char*));   /* step budget exhausted: last chance for a harness-level progress verdict */
// logical-clock stamp of the caller's first yield/pause point since the last reset (0 = none yet)
void vs_first_yield_reset(void);
uint64_t vs_first_yield(void);
int  vs_self(void);                 // scheduler thread id of the caller (creation order), -1 if unknown
int  vs_is_scenario_thread(int id);
// scenario threads
int  vs_thread_start(void (*fn)(void*), void* arg);
void vs_thread_join(int id);
int  vs_thread_finished(int id);
// run only the caller until vs_solo_end(); returns from vs_solo_end(): 1 if the caller would have
// had to block or spun through more than `limit` decision points, else 0.
void vs_solo_begin(long limit);
int  vs_solo_end(void);
// blocks the caller until every other thread is blocked or finished
void vs_wait_quiescent(void);
// statistics reported to the driver on the S line
void vs_stat_add(const char* key, long v);
void vs_stat_max(const char* key, long v);
void vs_stat_flag(const char* cls);        // appended to cls= list (non-triviality classes)
// final verdicts; do not return.
[[noreturn]] void vs_ok(void);
[[noreturn]] void vs_violation(const char* kind, const char* fmt, ...) __attribute__((format(printf, 2, 3)));
[[noreturn]] void vs_inconclusive(const char* why, const char* fmt, ...) __attribute__((format(printf, 2, 3)));
// what to do when the scheduler finds no runnable thread / a spin fix-point.  The handler runs on
// the detecting thread with the scheduler stopped; it must end in vs_ok/vs_violation/vs_inconclusive.
// Default: VIOLATION DEADLOCK / VIOLATION SPIN-FIXPOINT.
void vs_on_deadlock(void (*h)(const char* detail));
void vs_on_fixpoint(void (*h)(const char* detail));
// number of threads currently blocked in a (modelled) futex wait / unfinished & blocked anywhere
int  vs_blocked_count(void);
// totals since vs_begin: futex waits that really blocked / threads made runnable again by a futex wake
long vs_futex_blocked_total(void);
long vs_futex_woken_total(void);
int  vs_thread_state(int id);  // 0 run 1 futex 2 join 3 pred 4 finished
int  vs_nthreads(void);
extern int vs_tso_on;
}
// blocks the caller (as a scheduler state, not a spin) until pred() is true; pred is evaluated by
// whichever thread holds the baton, so it must only read memory.
void vs_block_until(const std::function<bool()>& pred);
