// lin.h -- linearizability checker (Wing & Gong search with Lowe's memoisation) for short histories.
// A history is a vector of LinOp with invocation/response stamps from vs_now() (strictly increasing
// logical clock).  An operation that never returned (blocked for ever / aborted half-way) is
// `pending`: it may take effect at any point after its invocation, or never.
#pragma once
#include <vector>
#include <string>
#include <unordered_set>
#include <cstdint>
#include <algorithm>

struct LinOp {
    int thread = 0; int kind = 0; long a = 0, b = 0; long ret = 0; bool ok = false;
    uint64_t inv = 0, resp = 0; bool pending = false;
};

// Model concept:
//   struct M { std::string key() const;  bool apply(const LinOp& op);  /* false = result impossible here */ };
// apply() for a pending op must apply its effect (if enabled) and ignore ret/ok.
template <class M> struct LinChecker {
    const std::vector<LinOp>& ops; size_t n; std::unordered_set<std::string> memo; long nodes = 0, max_nodes;
    LinChecker(const std::vector<LinOp>& o, long maxn = 2000000) : ops(o), n(o.size()), max_nodes(maxn) {}
    // returns 1 linearizable, 0 not, -1 search budget exhausted (inconclusive)
    int run(const M& init) { std::vector<char> done(n, 0); return dfs(done, init, 0) ; }
    int dfs(std::vector<char>& done, const M& st, size_t ndone_nonpending) {
        size_t need = 0; for (size_t i = 0; i < n; i++) if (!ops[i].pending) need++;
        if (ndone_nonpending == need) return 1;
        if (++nodes > max_nodes) return -1;
        std::string k(done.begin(), done.end()); k += '|'; k += st.key();
        if (!memo.insert(k).second) return 0;
        uint64_t minresp = UINT64_MAX;
        for (size_t i = 0; i < n; i++) if (!done[i] && !ops[i].pending) minresp = std::min(minresp, ops[i].resp);
        bool budget = false;
        for (size_t i = 0; i < n; i++) {
            if (done[i] || ops[i].inv > minresp) continue;
            M s2 = st;
            if (!s2.apply(ops[i])) continue;
            done[i] = 1;
            int r = dfs(done, s2, ndone_nonpending + (ops[i].pending ? 0 : 1));
            done[i] = 0;
            if (r == 1) return 1;
            if (r < 0) budget = true;
        }
        return budget ? -1 : 0;
    }
};

static inline std::string lin_dump(const std::vector<LinOp>& ops, const char* const* kind_names) {
    std::string s; char b[160];
    for (auto& o : ops) { snprintf(b, sizeof b, "[t%d %s(%ld,%ld)->%s%ld @%lu-%s] ", o.thread, kind_names[o.kind], o.a, o.b, o.ok ? "ok:" : "fail:", o.ret, (unsigned long)o.inv, o.pending ? "pending" : std::to_string(o.resp).c_str()); s += b; }
    return s;
}
